"""C05 — every program the generator accepts loads into the kernel (PARTIAL: the oracle is the Linux verifier).

Programs are re-generated from /repo on every run (C01-style expression programs with locals and array-map
variables, C07-style packet accesses under a size guard, hash-map variables and Dict programs, ktime/prandom,
subprograms, control flow, the library's own dispatcher and fast sync groups with the bundled devices).
Property oracle: `bpf(BPF_PROG_LOAD)` of the real kernel must accept what the generator accepted (the verifier log
is the observed evidence).  Companion oracle for the generator's own check of constant shift counts / divisors (added with the
repair of the former findings const-shift-ge-width / const-div-zero): a program refused for that reason is re-generated without the
check and must contain an instruction the verifier's rule forbids and be refused by the kernel (no over-rejection).  Model: `Ebv.MiniV.accepts` (Lean) must accept the same programs (regenerated
obligations) and must agree with the kernel on single-instruction mutants for the modelled rules."""
import os
import re
import struct

from .. import core, dsl, fsim, kern, progs
from . import c07, c09

ID = "C05"
LEAN_MODULES = ["Ebv.Props.C05"]
MODEL_MODULES = ["Ebv.Model.MiniVerifier"]
DRIVER = "Drivers/C05.lean"
MAPTYPE = {1: "hash", 2: "array", 3: "prog_array", 6: "array", 9: "hash"}
PTR_REGS = (1, 7, 10)            # context, array-map value, frame pointer: not operands of integer expressions


def _maps(created, extra=()):
    out = []
    for fd, a in created:
        t = int(getattr(a[0], "value", a[0]))
        out.append([fd, MAPTYPE[t], int(a[1]), int(a[2]), int(a[3]), t])
    return out + [list(x) for x in extra]


def _insns(ops):
    return [[int(i.opcode.value), i.dst, i.src, i.off, i.imm] for i in ops]


def _writes(i, no):
    op = i.opcode.value
    return (op & 7 in (0, 1, 4, 7) and op != 0 and i.dst == no) or (op == 0x85 and no == 0)


class _Spy:
    """observes the real generator while it runs (classification of known defect classes only).
    owner_without_value: a register passes `Register.calculate`'s owners check although the program never gave it a
    value -- it is the destination that `RegisterArray.__setitem__` made an owner before evaluating the expression, a live
    temporary of `get_free_register`, or the destination of an assignment that emitted no write (`w5 = w5`).
    hash_r0_live: a hash-map variable is read while r0 is owned."""

    def __init__(self, notes, unguard=False):
        self.notes = notes
        self.unguard = unguard          # emit what the generator would emit without its own check of constant shifts/divisors

    def __enter__(self):
        from ebpfcat import ebpf as E
        from ebpfcat.hashmap import HashGlobalVar
        self.E, self.H = E, HashGlobalVar
        from ebpfcat.hashmap import HashGlobalVarDesc
        self.D = HashGlobalVarDesc
        self.saved = (E.Register.calculate, HashGlobalVar.get_address, E.RegisterArray.__setitem__, E.EBPF.get_free_register,
                      HashGlobalVarDesc.__set__)
        self.bincalc = E.Binary.calculate
        if self.unguard:
            E.Binary.calculate = _unguarded(E, self.bincalc)
        oc, og, os_, of, oh = self.saved
        notes = self.notes
        pending, temps, valueless = [], [], set()
        from contextlib import contextmanager

        def calc(self, dst, long, force=False):
            if not isinstance(self, E.Temporary) and self.no in self.ebpf.owners and (
                    self.no in pending or self.no in temps or self.no in valueless):
                notes["owner_without_value"] = True
            return oc(self, dst, long, force)

        def addr(self, dst, long, force=False):
            if 0 in self.ebpf.owners and dst != 0:
                notes["hash_r0_live"] = True
            return og(self, dst, long, force)

        def setitem(self, no, value):
            fresh = no not in self.ebpf.owners
            n0 = len(self.ebpf.opcodes)
            if fresh:
                pending.append(no)
            try:
                os_(self, no, value)
            finally:
                if fresh:
                    pending.remove(no)
            if any(i is not None and _writes(i, no) for i in self.ebpf.opcodes[n0:]):
                valueless.discard(no)
            elif fresh:
                valueless.add(no)
                notes["owner_without_value"] = True

        @contextmanager
        def free(self, dst):
            with of(self, dst) as r:
                if dst is None:
                    temps.append(r)
                try:
                    yield r
                finally:
                    if dst is None:
                        temps.remove(r)

        def hset(self, ebpf, value):
            if isinstance(value, E.Memory) and not isinstance(value, HashGlobalVar) and E.fmtsize(value.fmt) < 8:
                notes["hash_set_narrow_memory"] = True
            return oh(self, ebpf, value)
        E.Register.calculate, HashGlobalVar.get_address, E.RegisterArray.__setitem__, E.EBPF.get_free_register = calc, addr, setitem, free
        HashGlobalVarDesc.__set__ = hset

    def __exit__(self, *a):
        E, H = self.E, self.H
        (E.Register.calculate, H.get_address, E.RegisterArray.__setitem__, E.EBPF.get_free_register,
         self.D.__set__) = self.saved
        E.Binary.calculate = self.bincalc


GUARD = re.compile(r"shift by -?\d+ in a (32|64) bit operation would not load|division by a constant zero")


def _unguarded(E, orig):
    """`Binary.calculate` as it would emit without its check of a constant shift count / constant divisor: the constant is
    replaced by 1 while the real method runs and put back into the instruction it emitted (the last one with this operator).
    Used to ask the kernel whether a refusal of the generator was justified."""
    from contextlib import contextmanager
    ops = (E.Opcode.LSH, E.Opcode.RSH, E.Opcode.ARSH, E.Opcode.DIV, E.Opcode.MOD)

    @contextmanager
    def calc(self, dst, long, force=False):
        r = self.right
        if not (self.operator in ops and getattr(r, "small_constant", False)):
            with orig(self, dst, long, force) as res:
                yield res
            return
        v, n0 = r.value, len(self.ebpf.opcodes)
        r.value = 1
        try:
            with orig(self, dst, long, force) as res:
                r.value = v
                lst = self.ebpf.opcodes
                k = max(j for j in range(n0, len(lst)) if lst[j] is not None and lst[j].imm == 1 and not lst[j].opcode.value & 8
                        and lst[j].opcode.value & 0xf0 == self.operator.value & 0xf0 and lst[j].opcode.value & 7 in (4, 7))
                lst[k] = lst[k]._replace(imm=int(v))
                yield res
        finally:
            r.value = v
    return calc


class Refused(Exception):
    """the generator itself refused the program (AssembleError or another exception): outside the property"""


def _finish(e, created, extra=()):
    if any(i is None for i in e.opcodes):
        raise Refused("open jump")
    return {"insns": _insns(e.opcodes), "maps": _maps(created, extra)}


# ---- (b) program families ---------------------------------------------------------------------------------
def build_dsl(spec, unguard=False):
    """C01-style program: registers in `owned` are really assigned, every local is written first, then the
    statements run through the real operator overloads; ends with r0 = 2; exit"""
    prog = spec["prog"]
    b = dsl.Built(prog)
    e = b.e
    e.owners = set(b.owners_after_init)
    notes = {}
    try:
        with _Spy(notes, unguard):
            for k in prog["owned"]:
                if k not in e.owners:
                    e.r[k] = spec.get("init", {}).get(str(k), 3 + k)
            e.owners = (set(prog["owned"]) | ({7} if 7 in b.owners_after_init else set())) & (e.owners | {10})
            for name, fmt, kind in prog["vars"]:
                if kind == "l":
                    setattr(e, name, 1)
            b.run()
            e.r0 = 2
            e.exit()
    except b.E.AssembleError as ex:
        raise Refused(f"AssembleError: {ex}")
    except Exception as ex:                       # noqa: BLE001
        raise Refused(f"{type(ex).__name__}: {ex}")
    gm = type(e).__dict__.get("gmap")
    fds = sorted({i.imm for i in e.opcodes if i is not None and i.opcode.value == 0x18 and i.src == 1})
    out = _finish(e, [])
    out["maps"] = [[fd, "array", 4, gm.size, 1, 2] for fd in fds]
    out["notes"] = notes
    return out


def build_pkt(spec):
    """C07-style packet variable / packet array access under `minimumPacketSize` or `with packetSize > N`
    (the code of harness/vh/props/c07.py:build, with the source register of a write really assigned)"""
    from ebpfcat.xdp import XDP, PacketVar, XDPExitCode
    from ebpfcat.ebpf import AssembleError
    fmt, op, p, arg, N = spec["fmt"], spec["op"], spec["p"], spec.get("arg"), spec.get("N", 40)

    def arr(self):
        return {1: self.pB, 2: self.pH, 4: self.pI, 8: self.pQ}[c07.SZ[fmt[-1].lower()]]

    def body(self):
        if op == "read64":
            self.r2 = self.pv
        elif op == "read32":
            self.w2 = self.pv
        elif op == "readarr":
            self.r2 = arr(self)[p]
        elif op == "writereg":
            self.r3 = 0x1234
            self.pv = self.r3
        elif op == "writearr":
            self.r3 = 0x1234
            arr(self)[p] = self.r3
        elif op == "writeconst":
            self.pv = arg
        elif op == "iadd":
            self.pv += arg
        elif op == "iaddarr":                      # `+=` through a packet array: packet.pI[p] += arg
            arr(self)[p] += arg
        elif op == "access":
            self.r2 = self.pv
            self.exit(XDPExitCode.TX)
    ns = {"license": "GPL", "pv": PacketVar(p, fmt)}
    if spec.get("guard", "min") == "min":
        ns["minimumPacketSize"] = N
        ns["program"] = body
    else:
        def program(self):
            with self.packetSize > N as pk:
                self.pB, self.pH, self.pI, self.pQ = pk.pB, pk.pH, pk.pI, pk.pQ
                body(self)
            self.exit(XDPExitCode.PASS)
        ns["program"] = program
    try:
        e = type("P", (XDP,), ns)()
        e.assemble()
    except AssembleError as ex:
        raise Refused(f"AssembleError: {ex}")
    except Exception as ex:                       # noqa: BLE001
        raise Refused(f"{type(ex).__name__}: {ex}")
    return _finish(e, [])


def build_c09(spec):
    """the operation dispatcher of C09 (hash variables, Dict lookup/update/modify) for a C09 declaration"""
    from ebpfcat.bpf import ProgType
    from ebpfcat.ebpf import AssembleError
    try:
        cls, _, _ = c09.build(spec["case"])
    except (AssembleError, RuntimeError) as ex:     # e.g. "structures must be packed" (raised in __set_name__)
        raise Refused(f"{type(ex).__name__}: {ex}")
    with fsim.fake_maps() as created:
        e = cls(ProgType.XDP, "GPL")
        e.assemble()
    return _finish(e, created)


def _hexpr(e, j, regs):
    from ebpfcat.ebpf import ktime, prandom
    k = j[0]
    if k == "c":
        return int(j[1])
    if k == "v":
        return getattr(e, j[1])
    if k in ("r", "sr", "w", "sw"):
        return getattr(e, k)[j[1]]
    if k == "ktime":
        return ktime(e.ebpf)
    if k == "prandom":
        return prandom(e.ebpf)
    if k == "neg":
        return -_hexpr(e, j[1], regs)
    return dsl.BINOPS[k](_hexpr(e, j[1], regs), _hexpr(e, j[2], regs))


def _cond(e, c):
    if c[0] in ("and", "or"):
        a, b = _cond(e, c[1]), _cond(e, c[2])
        return (a & b) if c[0] == "and" else (a | b)
    if c[0] == "not":
        return ~_cond(e, c[1])
    if c[0] == "bits":
        return _hexpr(e, c[1], None) & int(c[2])          # AndExpression used as a condition
    a, b = _hexpr(e, c[1], None), _hexpr(e, c[2], None)
    return {"==": lambda: a == b, "!=": lambda: a != b, "<": lambda: a < b, "<=": lambda: a <= b,
            ">": lambda: a > b, ">=": lambda: a >= b}[c[0]]()


def _stmts(e, stmts, notes):
    for s in stmts:
        if s[0] == "set":
            val = _hexpr(e, s[2], None)
            if s[1][0] == "v":
                setattr(e, s[1][1], val)
            else:
                getattr(e, s[1][0])[s[1][1]] = val
        elif s[0] == "iadd":
            v = getattr(e, s[1])
            v += int(s[2])
            setattr(e, s[1], v)
        elif s[0] == "with":
            if s[3] is None:
                with _cond(e, s[1]):
                    _stmts(e, s[2], notes)
            else:
                with _cond(e, s[1]) as Else:
                    _stmts(e, s[2], notes)
                with Else:
                    _stmts(e, s[3], notes)
        elif s[0] == "jump":                               # jumpIf(cond) / jump() ... target()
            t = e.ebpf.jumpIf(_cond(e, s[1])) if s[1] is not None else e.ebpf.jump()
            _stmts(e, s[2], notes)
            t.target()
        elif s[0] == "sub":
            e.ebpf.subprograms[s[1]].program()
        elif s[0] == "call":                               # a raw helper call by the user: r0 gets a value, r1-r5 are clobbered
            from ebpfcat.ebpf import FuncId
            e.ebpf.call(FuncId[s[1]])
        elif s[0] == "exit":
            e.ebpf.r0 = int(s[1])
            e.ebpf.exit()
        else:
            raise ValueError(s[0])


def build_ext(spec, unguard=False):
    """programs with locals ("l"), array-map ("g") and hash-map ("h", with default) variables, ktime/prandom,
    conditions with Else, jumpIf/jump/target and subprograms whose bodies are statement lists"""
    from ebpfcat import ebpf as E
    from ebpfcat.arraymap import ArrayMap
    from ebpfcat.hashmap import HashMap, HashGlobalVar
    from ebpfcat.bpf import ProgType
    am = hm = None
    notes = {}

    def declare(ns, vars_, sub=False):
        nonlocal am, hm
        for name, fmt, kind in vars_:
            if kind == "l":
                ns[name] = E.LocalVar(fmt)
            elif kind == "g":
                if am is None:
                    am = ArrayMap()
                ns[name] = am.globalVar(fmt)
            else:
                if hm is None:
                    hm = HashMap()
                ns[name] = hm.globalVar(fmt)
    ns = {}
    declare(ns, [v for v in spec["vars"] if v[2] != "g"])
    subs = []
    gvars = [v for v in spec["vars"] if v[2] == "g"]
    declare(ns, gvars)
    for sb in spec.get("subs", []):
        sns = {}
        declare(sns, sb["vars"], True)
        body = sb["stmts"]

        def subprog(self, body=body, sv=sb["vars"]):
            for name, fmt, kind in sv:
                if kind == "l":
                    setattr(self, name, 1)                 # the verifier tracks constants only in 8-byte slots
            _stmts(self, body, notes)
        sns["program"] = subprog
        subs.append(type("S", (E.SubProgram,), sns)())
    if am is not None:
        ns["amap"] = am
    if hm is not None:
        ns["hmap"] = hm
    for s in subs:                                      # subprogram statements address the main program's views
        for a in ("r", "sr", "w", "sw"):
            setattr(type(s), a, property(lambda self, a=a: getattr(self.ebpf, a)))
    cls = type("P", (E.EBPF,), ns)
    try:
        with fsim.fake_maps() as created, _Spy(notes, unguard):
            e = cls(ProgType.XDP, "GPL", subprograms=subs)
            e.r0 = e.mI[e.r1 + 12]                     # a value the verifier does not know (ingress_ifindex)
            for k, v in spec.get("regs", []):
                e.r[k] = e.r0 + v
            for name, fmt, kind in spec["vars"]:
                if kind == "l":
                    setattr(e, name, e.r0)
            if 0 not in [k for k, _ in spec.get("regs", [])]:
                e.owners.discard(0)
            _stmts(e, spec["stmts"], notes)
            e.r0 = 2
            e.exit()
    except E.AssembleError as ex:
        raise Refused(f"AssembleError: {ex}")
    except Exception as ex:                       # noqa: BLE001
        raise Refused(f"{type(ex).__name__}: {ex}")
    out = _finish(e, created)
    out["notes"] = notes
    return out


LIB = (["dispatcher"] + [f"bare:{i}" for i in range(4)] + ["dev:" + n for n in progs.DEVICE_NAMES]
       + ["dev:Counter+DigitalInput+AnalogOutput:fmmu", "dev:AnalogInput+RandomOutput+RandomDropper"])
BARE_LAYOUTS = [[[True, 5, 2, 1]], [[False, 4, 8, 2], [True, 5, 4, 1]],
                [[True, 11, 17, 3], [False, 10, 40, 2], [True, 2, 1, 1]], [[True, 12, 8, 4], [True, 5, 0, 1]]]


def build_lib(spec):
    """the library's own programs, re-assembled from /repo"""
    n = spec["name"]
    try:
        if n == "dispatcher":
            d = progs.ether_xdp()
            return {"insns": _insns(d["insns"]), "maps": [[d["var_fd"], "array", 4, d["var_size"], 1, 2],
                                                          [d["programs_fd"], "prog_array", 4, 4, 64, 3]]}
        if n.startswith("bare:"):
            g = progs.bare_fast_group(BARE_LAYOUTS[int(n[5:])])
        else:
            parts = n.split(":")
            g = progs.device_group(parts[1].split("+"), fmmu=len(parts) > 2)
    except Exception as ex:                       # noqa: BLE001 - a library program that cannot even be assembled
        raise Refused(f"{type(ex).__name__}: {ex}")
    return {"insns": _insns(g["insns"]), "maps": [[g["var_fd"], "array", 4, g["var_size"], 1, 2]]}


def build_tvar(spec):
    """a FastSyncGroup with one device that does `self.data += amount` / `-= amount` on a TerminalVar linked to a process
    variable of format `fmt` of a fake terminal (the EtherCAT packet variable `ebpfcat.ebpfcat.PacketVar`)"""
    from ebpfcat.ebpfcat import Device, EBPFTerminal, FastSyncGroup, PacketDesc, SyncManager, TerminalVar
    fmt, amount = spec["fmt"], spec["amount"]

    class Dev(Device):
        data = TerminalVar()

        def __init__(self, data):
            self.data = data

        def program(self):
            if spec.get("sub"):
                self.data -= amount
            else:
                self.data += amount
    try:
        ec = progs._FakeEC()
        T = type("T5", (EBPFTerminal,), {"v": PacketDesc(SyncManager.OUT if spec.get("out", True) else SyncManager.IN,
                                                         spec.get("pos", 0), fmt)})
        t = T(ec)
        t.position, t.pdos = 7, {}
        t.pdo_in_sz, t.pdo_out_sz, t.pdo_in_off, t.pdo_out_off = 16, 16, 0x1100, 0x1000
        t.use_fmmu = False
        with fsim.fake_maps() as created:
            sg = FastSyncGroup(ec, [Dev(t.v)])
            sg.allocate()
            sg.assemble()
    except Exception as ex:                       # noqa: BLE001
        raise Refused(f"{type(ex).__name__}: {ex}")
    (fd, args), = created
    return {"insns": _insns(sg.opcodes), "maps": [[fd, "array", 4, int(args[2]), 1, 2]]}


BUILDERS = {"dsl": build_dsl, "pkt": build_pkt, "c09": build_c09, "ext": build_ext, "lib": build_lib, "tvar": build_tvar}


def build(case, unguard=False):
    """{"kind": family, "spec": …} → {"insns", "maps"[, "notes"]}; a mutant re-builds its base first.
    `unguard` (dsl and ext families): without the generator's own check of constant shift counts and divisors"""
    if case["kind"] == "mutant":
        b = build(case["base"])
        return {"insns": mutate(b["insns"], case["mut"]), "maps": b["maps"]}
    if unguard:
        return BUILDERS[case["kind"]](case["spec"], unguard=True)
    return BUILDERS[case["kind"]](case["spec"])


# ---- the real verifier --------------------------------------------------------------------------------------
_avail = None


def kernel_available():
    global _avail
    if _avail is None:
        _avail = kern.available()
    return _avail


def kload(insns, maps):
    """load into the real kernel (XDP, GPL): ("accept", log) or ("reject", log); every fd is closed again"""
    real = {}
    try:
        for fd, kind, ks, vs, n, mtype in maps:
            r, _ = kern._bpf(0, struct.pack("IIIII", mtype, ks, vs, max(n, 1), 0))
            real[fd] = r
        ins = [(op, d, s, off, (real.get(imm, imm) if op == 0x18 and s == 1 else imm)) for op, d, s, off, imm in insns]
        try:
            pfd = kern.prog_load(ins, 6, log=True)
        except OSError as ex:
            return "reject", getattr(ex, "log", "") or f"errno {ex.errno}"
        os.close(pfd)
        return "accept", ""
    finally:
        for r in real.values():
            os.close(r)


RULES = [
    ("uninit", r"R\d+ !read_ok"),
    ("stack", r"invalid (read|write|indirect read|indirect access|variable-offset|unbounded).*stack|misaligned stack access|"
              r"invalid stack off|invalid .*stack R\d|stack depth|invalid write to stack|invalid size of register spill"),
    ("null", r"map_value_or_null|null-check it first"),
    ("mapval", r"invalid access to map value|outside of the allowed memory range|unbounded memory access|"
               r"math between map_value pointer|unbounded min value"),
    ("pkt", r"invalid access to packet|offset is outside of the packet|BPF_ATOMIC stores into R\d+ pkt"),
    ("struct", r"jump out of range|unreachable insn|back-edge|last insn is not an exit|jump into the middle of ldimm64|"
               r"invalid BPF_LD_IMM|invalid bpf_ld_imm64|unknown opcode|uses reserved fields|R\d+ is invalid|"
               r"frame pointer is read only|unrecognized bpf_ld_imm64|BPF_ST(X)? uses reserved|BPF_LDX uses reserved|"
               r"invalid atomic operand|BPF_ATOMIC uses|invalid BPF_(ALU|JMP)|function calls are not allowed|"
               r"infinite loop detected|loop detected|BPF_EXIT uses reserved|BPF_CALL uses reserved|BPF_JA uses reserved|"
               r"BPF_NEG uses reserved|BPF_END uses reserved|BPF_MOV uses reserved|BPF_ALU uses reserved|"
               r"BPF_JMP/JMP32 uses reserved|invalid insn idx|jump to reserved code|insn can only|uses reserved"),
    ("helper", r"expected=|cannot pass map_type|invalid func|unknown func|is not pointing to valid bpf_map|"
               r"invalid map_ptr to access map|program of this type cannot use helper|fd \d+ is not"),
    ("alu", r"invalid shift|div by zero"),
    ("ptr-alu", r"pointer be out of bounds|operator .* on pointer prohibited|pointer arithmetic|pointer \+= pointer|pointer -= pointer|32-bit pointer"),
    ("ctx", r"invalid bpf_context access|dereference of modified ctx ptr|modified ctx ptr"),
    ("mem", r"invalid mem access"),
]
RULES = [(n, re.compile(p)) for n, p in RULES]


def klass(log):
    """the rule the verifier log names (the last message before the statistics), or 'unmodelled:<message>'"""
    lines = [l for l in log.strip().splitlines() if l and not l.startswith(("processed ", "verification time", "stack depth",
                                                                            "mark_read", "max_states", "cur state", "old state"))]
    for msg in reversed(lines[-4:]):
        if re.match(r"\d+: \(", msg):
            break
        for n, rx in RULES:
            if rx.search(msg):
                return n, msg
    return "unmodelled", (lines[-1] if lines else log.strip())


def visited(log):
    return {int(m.group(1)) for m in re.finditer(r"^(\d+): \(", log, re.M)}


# ---- mutants -----------------------------------------------------------------------------------------------
def mutate(insns, mut):
    ins = [list(i) for i in insns]
    t, k = mut[0], mut[1]
    if t == "drop":
        del ins[k:k + (2 if ins[k][0] == 0x18 else 1)]
    elif t == "swap":
        ins[k], ins[k + 1] = ins[k + 1], ins[k]
    else:
        ins[k][{"dst": 1, "src": 2, "off": 3, "imm": 4, "op": 0}[t]] = mut[2]
    return ins


def gen_mutants(rng, insns, count):
    second = set()
    for k, i in enumerate(insns):
        if i[0] == 0x18 and k not in second:
            second.add(k + 1)
    first = [k for k in range(len(insns)) if k not in second]
    out = []
    for _ in range(count):
        k = rng.choice(first)
        op = insns[k][0]
        t = rng.choice(["drop", "dst", "src", "off", "imm", "swap", "dst", "off", "imm"])
        if t == "swap":
            if k + 1 >= len(insns) or k + 1 in second or op == 0x18 or insns[k + 1][0] == 0x18:
                t = "drop"
            else:
                out.append(["swap", k])
                continue
        if t == "drop":
            out.append(["drop", k])
        elif t in ("dst", "src"):
            out.append([t, k, rng.choice([r for r in range(11) if r != insns[k][1 if t == "dst" else 2]])])
        elif t == "off":
            o = insns[k][3]
            out.append(["off", k, rng.choice([o + 1, o - 1, o + 4, o - 4, o + 8, -o, o + 64, o - 512, 0, 1, -1])])
        else:
            m = insns[k][4]
            out.append(["imm", k, rng.choice([m + 1, m - 1, 0, 1, 31, 32, 63, 64, -1, m + 8, m * 2, 255, 65536, 12, 5])])
    return out


# ---- generators ----------------------------------------------------------------------------------------------
def _scrub(rng, prog, e):
    """inside the property's domain: no raw memory access, no pointer-holding register as an integer operand"""
    k = e[0]
    if k == "m":
        return None
    if k in dsl.VIEWS:
        if e[1] in PTR_REGS:
            ok = [r for r in prog["owned"] if r not in PTR_REGS]
            return [k, rng.choice(ok)] if ok else ["c", 5]
        return e
    if k in ("c", "v"):
        return e
    sub = [_scrub(rng, prog, x) for x in e[1:]]
    return None if any(s is None for s in sub) else [k] + sub


def _const_ok(prog, stmt):
    """C01's precondition on constants: constant shift counts inside [0, W), constant divisors non-zero"""
    W = dsl.width_W(prog, stmt)

    def go(x):
        if x[0] in dsl.BINOPS:
            if x[2][0] == "c" and not dsl.is_int(x[1]):
                if x[0] in ("<<", ">>") and not 0 <= x[2][1] < W:
                    return False
                if x[0] in ("//", "%") and x[2][1] == 0:
                    return False
            return go(x[1]) and go(x[2])
        return all(go(y) for y in x[1:]) if x[0] in ("neg", "abs") else True
    return go(stmt[2])


def gen_dsl(rng):
    keep_bad = rng.random() < 0.3
    for _ in range(50):
        r = rng.random()
        if r < 0.5:
            prog = dsl.gen_random(rng, 3, maxdepth=4)
        elif r < 0.8:
            fam = rng.choice([("d1", rng.choice(dsl.RING + dsl.STAGE3), rng.choice(dsl.LEAF_KINDS), rng.choice(dsl.LEAF_KINDS),
                               rng.choice(dsl.DEST_KINDS), rng.choice(dsl.CONST_CLASS_NAMES)),
                              ("u1", rng.choice(["neg", "abs", None]), rng.choice(dsl.LEAF_KINDS), None,
                               rng.choice(dsl.DEST_KINDS), rng.choice(dsl.CONST_CLASS_NAMES))])
            prog = dsl.build_desc(rng, fam, 3)
        else:
            prog = dsl.gen_special(rng)
        stmts = []
        for s in prog["stmts"]:
            e = _scrub(rng, prog, dsl.expand(s[2]))      # ["let", ...] written out: sharing of an expression object does not matter here
            if e is None or (s[1][0] in dsl.VIEWS and s[1][1] in PTR_REGS):
                break
            stmts.append(["set", s[1], e])
        else:
            prog["stmts"] = stmts
            # constant shift counts outside [0, W) and constant zero divisors (outside C01's precondition) are kept in three of
            # ten programs: since the repair of Binary.calculate the generator must refuse them (or the program must load)
            if keep_bad or all(_const_ok(prog, s) for s in stmts):
                return {"kind": "dsl", "spec": {"prog": prog}}
    raise RuntimeError("no program")


def gen_pkt(rng):
    fmt = rng.choice(c07.FMTS)
    n = c07.SZ[fmt[-1].lower()]
    N = rng.choice([14, 30, 40, 63])
    op = rng.choice(["read64", "read32", "writereg", "writeconst", "iadd", "iadd", "access", "readarr", "writearr", "iaddarr"])
    if op in ("readarr", "writearr", "iaddarr") and (len(fmt) == 2 or fmt.islower()):
        op = "iadd" if op == "iaddarr" else "read64"
    p = N + 1 - n if rng.random() < 0.5 else rng.randrange(0, N + 2 - n)      # half of them at the last guarded byte
    arg = None
    if op == "writeconst":
        arg = c07.wrap(fmt, rng.choice([0, 1, -1, 0x1234, 0x12345678, -0x8000, 0x123456789abcdef0]))
    elif op in ("iadd", "iaddarr"):
        arg = rng.choice([1, 5, -1, 255, -300])
    return {"kind": "pkt", "spec": {"fmt": fmt, "op": op, "p": p, "arg": arg, "N": N, "guard": rng.choice(["min", "with"])}}


def gen_tvar(rng):
    """`+=` / `-=` on a process variable of a terminal inside a fast sync group"""
    fmt = rng.choice("BHIQbhiq")
    n = c07.SZ[fmt.lower()]
    return {"kind": "tvar", "spec": {"fmt": fmt, "amount": rng.choice([1, 5, -1, 255, -300, 70000]), "sub": rng.random() < 0.3,
                                     "out": rng.random() < 0.7, "pos": n * rng.randrange(0, 16 // n)}}


def gen_c09(rng):
    case = c09.gen(rng)
    return {"kind": "c09", "spec": {"case": {k: case[k] for k in ("locals", "vars", "key", "value", "size", "const")}}}


EXT_OPS = ("+", "-", "*", "&", "|", "^")


def gen_ext(rng):
    fm = "BHIQbhiq"
    nh = rng.choice([0, 0, 1, 2, 3])
    vars_ = ([[f"lv{f}", f, "l"] for f in rng.sample(fm, 3)] + [[f"gv{f}", f, "g"] for f in rng.sample(fm, rng.choice([0, 2, 3]))]
             + [[f"hv{i}", rng.choice(fm), "h"] for i in range(nh)])
    regs = [[k, rng.randrange(0, 100)] for k in sorted(rng.sample([0, 2, 3, 4, 5, 6, 8, 9], rng.choice([0, 1, 2, 3, 5])))]
    subs = []
    for i in range(rng.choice([0, 0, 1, 2])):
        sv = [[f"s{i}l{f}", f, "l"] for f in rng.sample(fm, 2)] + ([[f"s{i}g{f}", f, "g"] for f in rng.sample(fm, 1)] if rng.random() < 0.6 else [])
        subs.append({"vars": sv, "stmts": []})
    have = set(k for k, _ in regs)

    def leaf(vs, calls=True):
        r = rng.random()
        if r < 0.25:
            return ["c", rng.choice([0, 1, 2, 7, 100, -5, 255, 65535, 2**31, -2**31 - 1, 2**40])]
        if r < 0.65 and vs:
            return ["v", rng.choice(vs)[0]]
        if r < 0.85 and have:
            return [rng.choice(dsl.VIEWS), rng.choice(sorted(have))]
        if r < 0.95 and calls:
            return [rng.choice(["ktime", "prandom"])]
        return ["c", 3]

    def expr(vs, d):
        if d == 0 or rng.random() < 0.3:
            return leaf(vs)
        if rng.random() < 0.1:
            return ["neg", expr(vs, d - 1)]
        if rng.random() < 0.12:                               # constant shift counts / divisors, legal or not
            a = expr(vs, d - 1)
            if a[0] == "c":
                a = ["v", rng.choice(vs)[0]]
            op = rng.choice(["<<", ">>", "//", "%"])
            return [op, a, ["c", rng.choice([0, 1, 7, 31, 32, 33, 40, 63, 64, -1] if op in ("<<", ">>") else [0, 0, 1, 3, 10, -2])]]
        a, b = expr(vs, d - 1), expr(vs, rng.randrange(d))
        if a[0] == "c" and b[0] == "c":
            b = ["v", rng.choice(vs)[0]]
        return [rng.choice(EXT_OPS), a, b]

    def cond(vs):
        r = rng.random()
        if r < 0.15:
            return [rng.choice(["and", "or"]), cond(vs), cond(vs)]
        if r < 0.25:
            return ["bits", ["v", rng.choice(vs)[0]], rng.choice([1, 4, 0x80, 0xff00])]
        if r < 0.3:
            return ["not", cond(vs)]
        return [rng.choice(["==", "!=", "<", "<=", ">", ">="]), expr(vs, 1), rng.choice([leaf(vs, False), ["c", rng.randrange(0, 300)]])]

    def stmts(vs, depth, allow_sub):
        out = []
        for _ in range(rng.choice([1, 1, 2, 3])):
            r = rng.random()
            if r < 0.55 or depth == 0:
                if rng.random() < 0.3 and depth == 2:
                    d = [rng.choice(dsl.VIEWS), rng.choice([0, 2, 3, 4, 5, 6, 8, 9])]
                    have.add(d[1])
                else:
                    d = ["v", rng.choice(vs)[0]]
                out.append(["set", d, expr(vs, rng.choice([0, 1, 1, 2]))])
            elif r < 0.62:
                ia = [v for v in vs if v[1] in "IiQq" and v[2] != "h"]
                if ia:
                    out.append(["iadd", rng.choice(ia)[0], rng.choice([1, -1, 7, 1000])])
            elif r < 0.85:
                out.append(["with", cond(vs), stmts(vs, depth - 1, False), stmts(vs, depth - 1, False) if rng.random() < 0.5 else None])
            elif r < 0.9:
                out.append(["jump", cond(vs), stmts(vs, depth - 1, False)])
            elif r < 0.95 and allow_sub and subs:
                out.append(["sub", rng.randrange(len(subs))])
            else:
                out.append(["with", cond(vs), [["exit", rng.choice([0, 1, 2, 3])]], None])
        return out
    for sb in subs:
        sb["stmts"] = stmts(sb["vars"], 1, False)
    return {"kind": "ext", "spec": {"vars": vars_, "regs": regs, "subs": subs, "stmts": stmts(vars_, 2, True)}}


def gen_unowned(rng):
    """a register that was never assigned and is not a low free register: the generator must refuse"""
    k = rng.choice([6, 8, 9])
    d = rng.choice([["v", "lvQ"], ["r", rng.choice([2, 3])]])
    e = rng.choice([["+", ["r", k], ["c", 1]], ["*", ["v", "lvI"], ["r", k]], ["r", k], ["neg", ["w", k]]])
    return {"kind": "ext", "spec": {"vars": [["lvQ", "Q", "l"], ["lvI", "I", "l"]], "regs": [[0, 1], [4, 2]], "subs": [],
                                   "stmts": [["set", d, e]]}, "expect": "refused"}


RAW_CALLS = ["ktime_get_ns", "get_prandom_u32", "get_smp_processor_id"]


def gen_call(rng):
    """registers around a raw helper call `e.call(FuncId.x)`: the kernel clobbers r1-r5 and defines r0, so a read of r1-r5 after the
    call (not re-assigned) must be refused by the generator, while r0 and r6-r9 stay readable"""
    regs = [[k, rng.randrange(1, 9)] for k in sorted(rng.sample([1, 2, 3, 4, 5, 6, 8, 9], rng.randrange(3, 8)))]
    have = [k for k, _ in regs]
    k = rng.choice([0] + have + [rng.choice([1, 2, 3, 4, 5])] * 2 + [5])
    before = [["set", ["v", "lvQ"], ["+", ["r", rng.choice(have)], ["c", 3]]]] if rng.random() < 0.5 else []
    again = rng.random() < 0.3 and k in (1, 2, 3, 4, 5)
    mid = [["set", ["r", k], ["c", 11]]] if again else []
    e = rng.choice([["r", k], ["+", ["r", k], ["c", 1]], ["*", ["v", "lvI"], ["w", k]], ["neg", ["sr", k]]])
    d = rng.choice([["v", "lvQ"], ["v", "lvI"], ["r", rng.choice([6, 8])]])
    clobbered = k in (1, 2, 3, 4, 5) and not again or (k != 0 and k not in have and not again)
    case = {"kind": "ext", "spec": {"vars": [["lvQ", "Q", "l"], ["lvI", "I", "l"]], "regs": regs, "subs": [],
                                    "stmts": before + [["call", rng.choice(RAW_CALLS)]] + mid + [["set", d, e]]}}
    if clobbered:
        case["expect"] = "refused"
    return case


def build_redecl(spec):
    """C08's finding seen by the verifier: an array-map variable redeclared in a subclass of a subprogram class"""
    from ebpfcat import ebpf as E
    from ebpfcat.arraymap import ArrayMap
    from ebpfcat.bpf import ProgType
    am = ArrayMap()
    SA = type("SA", (E.SubProgram,), {n: am.globalVar(f) for n, f in spec["base"]})
    SB = type("SB", (SA,), {n: am.globalVar(f) for n, f in spec["redecl"]})
    ns = {n: am.globalVar(f) for n, f in spec["main"]}
    ns["amap"] = am
    s = SB()
    try:
        with fsim.fake_maps() as created:
            e = type("P", (E.EBPF,), ns)(ProgType.XDP, "GPL", subprograms=[s])
            for n in spec["access"]:
                setattr(s, n, 5)
            e.r0 = 2
            e.exit()
    except Exception as ex:                       # noqa: BLE001
        raise Refused(f"{type(ex).__name__}: {ex}")
    return _finish(e, created)


BUILDERS["redecl"] = build_redecl

# ---- known defect classes: predicate on the case / the generator's observed state + the verifier's symptom ----------
SHIFTS, DIVS = (6, 7, 12), (3, 9)


def _bad_shift(insns):
    return any(op & 7 in (4, 7) and not op & 8 and op >> 4 in SHIFTS and not 0 <= imm < (64 if op & 7 == 7 else 32)
               for op, _, _, _, imm in insns)


def _zero_div(insns):
    return any(op & 7 in (4, 7) and not op & 8 and op >> 4 in DIVS and imm == 0 for op, _, _, _, imm in insns)


def _pkt_iadd(c):
    if c["kind"] == "tvar":
        return c["spec"]["fmt"] in "IiQq"
    return c["kind"] == "pkt" and c["spec"]["op"] in ("iadd", "iaddarr") and c["spec"]["fmt"] in "IiQq"


# The first five classes were known findings and are repaired in /repo (`fixed` entries in known_findings.json): their
# predicates only name a failure now -- no `known` entry exists for them, so every hit is a VIOLATION.
CLASSES = [
    ("const-shift-ge-width", lambda c, b: _bad_shift(b["insns"]), r"invalid shift"),
    ("const-div-zero", lambda c, b: _zero_div(b["insns"]), r"div by zero"),
    ("pkt-atomic-add", lambda c, b: _pkt_iadd(c), r"BPF_ATOMIC stores into R\d+ pkt"),
    ("hash-read-r0-live", lambda c, b: b.get("notes", {}).get("hash_r0_live", False), r"R0 invalid mem access 'scalar'"),
    ("hash-set-narrow-memory", lambda c, b: b.get("notes", {}).get("hash_set_narrow_memory", False),
     r"invalid (indirect )?(read from|access to) stack R3|invalid access to map value|R3 min value|R3 max value"),
    ("owner-without-value", lambda c, b: b.get("notes", {}).get("owner_without_value", False),
     # the never-assigned register holds whatever the prologue left there (nothing, the context pointer, a map value pointer):
     # the verifier's complaint is about reading it or about scalar arithmetic on the stale pointer
     r"R\d+ !read_ok|on pointer prohibited|pointer arithmetic|invalid mem access|leaks addr|makes \w+ pointer be out of bounds"
     r"|math between \w+ pointer and|modified ctx ptr|pointer comparison"),
    ("redeclared-globalvar", lambda c, b: c["kind"] == "redecl" and bool({n for n, _ in c["spec"]["base"]} & {n for n, _ in c["spec"]["redecl"]}),
     r"invalid access to map value"),
]


def failure_class(case, built, log):
    msg = klass(log)[1]
    for name, pred, symptom in CLASSES:
        if pred(case, built) and re.search(symptom, msg):
            return name
    return None


def _v(n, f="Q", k="l"):
    return [n, f, k]


C = lambda v: ["c", v]                                                     # noqa: E731
CANDIDATES = [      # (c) candidate defects, run on every check: confirmed ones fall into a class above, refuted ones load
    ("shift63-into-byte", {"kind": "ext", "spec": {"vars": [_v("vq", "q"), _v("db", "b")], "regs": [], "subs": [],
                                                     "stmts": [["set", ["v", "db"], [">>", ["v", "vq"], C(63)]]]}}),
    ("shift40-w-register", {"kind": "ext", "spec": {"vars": [_v("vq", "q")], "regs": [], "subs": [],
                                                      "stmts": [["set", ["w", 3], ["<<", ["v", "vq"], C(40)]]]}}),
    ("const-zero-divisor", {"kind": "ext", "spec": {"vars": [_v("vq", "q"), _v("vi", "I")], "regs": [], "subs": [],
                                                      "stmts": [["set", ["v", "vi"], ["//", ["v", "vq"], C(0)]]]}}),
    ("const-zero-modulus", {"kind": "ext", "spec": {"vars": [_v("vq", "Q")], "regs": [], "subs": [],
                                                      "stmts": [["set", ["v", "vq"], ["%", ["v", "vq"], C(0)]]]}}),
    ("two-hash-into-hash", {"kind": "ext", "spec": {"vars": [_v("ha", "I", "h"), _v("hc", "I", "h")], "regs": [], "subs": [],
                                                      "stmts": [["set", ["v", "ha"], ["+", ["v", "ha"], ["v", "hc"]]]]}}),
    ("two-hash-into-local", {"kind": "ext", "spec": {"vars": [_v("lq"), _v("ha", "I", "h"), _v("hc", "I", "h")], "regs": [], "subs": [],
                                                       "stmts": [["set", ["v", "lq"], ["+", ["v", "ha"], ["v", "hc"]]]]}}),
    ("hash-into-r0", {"kind": "ext", "spec": {"vars": [_v("ha", "I", "h")], "regs": [], "subs": [],
                                                "stmts": [["set", ["r", 0], ["+", ["v", "ha"], C(1)]]]}}),
    ("shift40-in-64-bits", {"kind": "ext", "spec": {"vars": [_v("vq", "q")], "regs": [], "subs": [],
                                                      "stmts": [["set", ["v", "vq"], ["<<", ["v", "vq"], C(40)]]]}, "expect": "accepted"}),
    ("shift63-in-64-bits", {"kind": "ext", "spec": {"vars": [_v("vq", "q"), _v("vu", "Q")], "regs": [], "subs": [],
                                                      "stmts": [["set", ["v", "vu"], [">>", ["v", "vq"], C(63)]]]}, "expect": "accepted"}),
    ("shift31-in-32-bits", {"kind": "ext", "spec": {"vars": [_v("vi", "I")], "regs": [], "subs": [],
                                                      "stmts": [["set", ["w", 3], ["<<", ["v", "vi"], C(31)]]]}, "expect": "accepted"}),
    ("shift32-in-32-bits", {"kind": "ext", "spec": {"vars": [_v("vi", "I")], "regs": [], "subs": [],
                                                      "stmts": [["set", ["v", "vi"], ["<<", ["v", "vi"], C(32)]]]}}),
    ("shift-negative", {"kind": "ext", "spec": {"vars": [_v("vq", "q")], "regs": [], "subs": [],
                                                  "stmts": [["set", ["v", "vq"], [">>", ["v", "vq"], C(-1)]]]}}),
    ("shift40-by-register", {"kind": "ext", "spec": {"vars": [_v("vi", "I")], "regs": [[3, 40]], "subs": [],
                                                       "stmts": [["set", ["v", "vi"], ["<<", ["v", "vi"], ["w", 3]]]]}, "expect": "accepted"}),
    ("divide-by-one", {"kind": "ext", "spec": {"vars": [_v("vq", "Q")], "regs": [], "subs": [],
                                                 "stmts": [["set", ["v", "vq"], ["//", ["v", "vq"], C(1)]]]}, "expect": "accepted"}),
    ("pkt-iadd-I", {"kind": "pkt", "spec": {"fmt": "I", "op": "iadd", "p": 4, "arg": 3, "N": 20, "guard": "min"}}),
    ("pkt-iadd-q", {"kind": "pkt", "spec": {"fmt": "q", "op": "iadd", "p": 8, "arg": -1, "N": 20, "guard": "with"}}),
    ("pkt-iadd-H", {"kind": "pkt", "spec": {"fmt": "H", "op": "iadd", "p": 4, "arg": 3, "N": 20, "guard": "min"}}),
    ("pkt-array-iadd-I", {"kind": "pkt", "spec": {"fmt": "I", "op": "iaddarr", "p": 4, "arg": 3, "N": 20, "guard": "with"}}),
    ("pkt-array-iadd-Q", {"kind": "pkt", "spec": {"fmt": "Q", "op": "iaddarr", "p": 8, "arg": -1, "N": 20, "guard": "min"}}),
    ("terminal-var-iadd-I", {"kind": "tvar", "spec": {"fmt": "I", "amount": 3}}),
    ("terminal-var-isub-q", {"kind": "tvar", "spec": {"fmt": "q", "amount": 1, "sub": True, "pos": 8}}),
    ("hash-set-from-big-endian-local", {"kind": "ext", "spec": {"vars": [_v("lb", ">Q"), _v("ha", "Q", "h")], "regs": [], "subs": [],
                                                                  "stmts": [["set", ["v", "ha"], ["v", "lb"]]]}}),
    ("hash-set-from-array-var", {"kind": "ext", "spec": {"vars": [_v("gb", "B", "g"), _v("gi", "i", "g"), _v("ha", "q", "h")], "regs": [],
                                                           "subs": [], "stmts": [["set", ["v", "ha"], ["v", "gb"]]]}}),
    ("self-read-register", {"kind": "ext", "spec": {"vars": [], "regs": [], "subs": [],
                                                      "stmts": [["set", ["r", 2], ["+", ["r", 2], C(1)]]]}}),
    ("temporary-read", {"kind": "dsl", "spec": {"prog": {"owned": [1, 10], "vars": [_v("lq")],
                                                          "stmts": [["set", ["v", "lq"], ["+", ["r", 0], C(5)]]]}}}),
    ("hash-set-from-short-local", {"kind": "ext", "spec": {"vars": [_v("lh", "h"), _v("ha", "I", "h")], "regs": [], "subs": [],
                                                             "stmts": [["set", ["v", "ha"], ["v", "lh"]]]}}),
    ("hash-set-from-long-local", {"kind": "ext", "spec": {"vars": [_v("lq", "q"), _v("ha", "I", "h")], "regs": [], "subs": [],
                                                            "stmts": [["set", ["v", "ha"], ["v", "lq"]]]}}),
    ("hash-set-from-expression", {"kind": "ext", "spec": {"vars": [_v("lh", "h"), _v("ha", "I", "h")], "regs": [], "subs": [],
                                                            "stmts": [["set", ["v", "ha"], ["+", ["v", "lh"], C(0)]]]}}),
    ("and-else", {"kind": "ext", "spec": {"vars": [_v("li", "I")], "regs": [], "subs": [], "stmts": [
        ["with", ["bits", ["v", "li"], 4], [["set", ["r", 3], C(5)]], [["set", ["r", 4], C(6)]]], ["set", ["v", "li"], C(1)]]}}),
    ("and-else-inherit", {"kind": "ext", "spec": {"vars": [_v("li", "I")], "regs": [], "subs": [], "stmts": [
        ["with", ["bits", ["v", "li"], 4], [["set", ["r", 3], C(5)]], [["set", ["r", 4], ["r", 3]]]]]}}),
    ("jump-then-read", {"kind": "ext", "spec": {"vars": [_v("li", "I")], "regs": [], "subs": [], "stmts": [
        ["jump", ["==", ["v", "li"], C(1)], [["set", ["r", 3], C(5)]]], ["set", ["r", 4], ["r", 3]]]}}),
    ("jump-unconditional-then-read", {"kind": "ext", "spec": {"vars": [], "regs": [], "subs": [], "stmts": [
        ["jump", None, []], ["set", ["r", 4], ["r", 5]]]}}),
    ("redeclared-globalvar", {"kind": "redecl", "spec": {"base": [["a", "B"], ["b", "B"]], "redecl": [["a", "Q"]], "main": [["z", "B"]],
                                                           "access": ["a"]}}),
    ("redeclared-same-size", {"kind": "redecl", "spec": {"base": [["a", "I"], ["b", "B"]], "redecl": [["a", "i"]], "main": [["z", "B"]],
                                                           "access": ["a", "b"]}}),
]


# ---- the check ---------------------------------------------------------------------------------------------------
REGEN_OBLIGATIONS = [f"MiniV.accepts(lib:{n})" for n in LIB] + [f"MiniV.accepts(corpus:{k})" for k in ("dsl", "pkt", "c09", "ext", "tvar")]
CONSERVATIVE = ("ptr-var", "ctx", "internal")      # reject reasons of MiniV that name something it does not model


def _line(built):
    return {"insns": built["insns"], "maps": [m[:4] for m in built["maps"]]}


def _tail(log, n=8):
    return "\n".join(log.strip().splitlines()[-n:])


def _bad_at(insns):
    return [k for k, (op, _, _, _, imm) in enumerate(insns) if op & 7 in (4, 7) and not op & 8 and (
        (op >> 4 in SHIFTS and not 0 <= imm < (64 if op & 7 == 7 else 32)) or (op >> 4 in DIVS and imm == 0))]


def justify_refusal(ctx, case, msg, have_kernel):
    """no over-rejection by the repaired `Binary.calculate`: a program it refuses because of a constant shift count or
    divisor is re-generated without that check; the instruction must really be one the verifier's rule forbids, and
    the kernel must refuse the program (unless its walk never reaches the instruction)"""
    if case.get("expect") == "accepted":
        ctx.require(False, "the generator refuses a program that is inside its domain and would load", case, msg, "over-rejection")
        return
    if not GUARD.search(msg) or case["kind"] not in ("dsl", "ext"):
        return
    ctx.case(case, nontrivial=True, kind="refused-by-constant-check")
    try:
        built = build(case, unguard=True)
    except Refused as ex:
        ctx.stats["refusal-not-reconstructed"] += 1           # something else is refused further on
        if GUARD.search(str(ex)):
            ctx.broken.append(f"the constant check of Binary.calculate could not be lifted for the refusal oracle: {ex}")
        return
    bad = _bad_at(built["insns"])
    if not ctx.require(bool(bad), "the generator refuses a constant shift count / divisor although every instruction it would emit is legal",
                       case, {"refusal": msg}, "over-rejection"):
        return
    if not have_kernel:
        return
    v, log = kload(built["insns"], built["maps"])
    if v == "accept" and not (set(bad) & _visited_accept(built["insns"], built["maps"])):
        ctx.stats["refusal-of-an-instruction-the-kernel-never-reaches"] += 1
        return
    ctx.require(v == "reject", "the generator refuses (constant shift count / divisor) a program the kernel loads", case,
                {"refusal": msg, "insns": len(built["insns"])}, "over-rejection")
    if v == "reject":
        ctx.stats["refusal-justified:" + ("alu-rule" if re.search(r"invalid shift|div by zero", klass(log)[1]) else "other-rule-first")] += 1


def check_base(ctx, case, have_kernel):
    """build one program with the real generator and put it to the real verifier (the property's own oracle)"""
    try:
        built = build(case)
    except Refused as ex:
        if case["kind"] == "lib":
            ctx.require(False, "a program of the library cannot be assembled", case, str(ex))
        ctx.stats["refused:" + case["kind"]] += 1
        justify_refusal(ctx, case, str(ex), have_kernel)
        return None
    ctx.case(case, nontrivial=len(built["insns"]) > 4, kind=case["kind"])
    if case.get("expect") == "refused":
        ctx.stats["unowned-accepted"] += 1
    preds = [name for name, pred, _ in CLASSES if pred(case, built)]
    if not have_kernel:
        return {"case": case, "built": built, "kernel": None, "log": "", "cls": None, "preds": preds}
    v, log = kload(built["insns"], built["maps"])
    cls = failure_class(case, built, log) if v == "reject" else None
    ctx.require(v == "accept", "the kernel verifier rejects a program the generator accepted", case,
                {"verifier_log": _tail(log), "insns": len(built["insns"])}, cls)
    return {"case": case, "built": built, "kernel": v, "log": log, "cls": cls, "preds": preds}


def compare(ctx, item, out, agreement):
    """Lean MiniV verdicts (strict ; privileged) against the kernel's for one program"""
    case, v, log = item["case"], item["kernel"], item["log"]
    if out == "inconsistent" or " ; " not in out:
        ctx.agree("MiniV.check and MiniV.accepts disagree / driver output", case, "consistent", out)
        return
    strict, priv = out.split(" ; ")
    mrule = priv.split(":")[1] if priv != "accept" else None
    mutant = case["kind"] == "mutant"
    tag = "mutant" if mutant else "base"
    if v is None:                                            # no kernel: only the regenerated obligations
        if not mutant and not item["preds"]:
            ctx.agree("MiniV accepts the generated program (no kernel available)", case, "accept", strict)
        return
    krule, kmsg = klass(log) if v == "reject" else (None, "")
    if v == "accept":
        if priv == "accept":
            agreement[f"{tag}:both-accept"] += 1
            if not mutant and strict != "accept" and item["preds"]:
                # a known defect class whose symptom only the unprivileged verifier shows (unwritten stack bytes)
                agreement["base:strict-stack-rule-rejects:" + item["preds"][0]] += 1
            elif not mutant:                                 # unprivileged reading of rule 2 as well
                ctx.agree("MiniV (strict stack rule) accepts the generated program", case, "accept", strict)
        elif mrule in CONSERVATIVE:
            agreement[f"{tag}:mini-conservative:{mrule}"] += 1
        elif _pc(priv) not in visited_or_all(item):
            agreement[f"{tag}:kernel-pruned-branch:{mrule}"] += 1        # dead code for the kernel's path-sensitive walk
        elif not mutant and item["preds"]:
            agreement[f"base:known-class-kernel-accepts:{item['preds'][0]}"] += 1
        else:
            agreement[f"{tag}:mini-rejects-kernel-accepts:{mrule}"] += 1
            if not mutant:
                ctx.agree("MiniV accepts what the kernel accepts", case, "accept", priv)
            else:
                item["stricter"] = (mrule, priv)
    else:
        if krule == "unmodelled":
            agreement[f"{tag}:kernel-unmodelled"] += 1
            item["unmodelled"] = kmsg
        elif priv == "accept":
            agreement[f"{tag}:kernel-rejects-mini-accepts:{krule}"] += 1
            ctx.agree(f"MiniV rejects what the kernel rejects for a modelled rule ({krule})", case, "reject:" + kmsg, priv)
        else:
            agreement[f"{tag}:both-reject:" + ("same-rule" if krule == mrule else f"{krule}/{mrule}")] += 1
            agreement[f"rule:{krule}:agree"] += 1


def _pc(verdict):
    m = re.search(r"@(\d+)$", verdict)
    return int(m.group(1)) if m else -1


def visited_or_all(item):
    """the instructions the kernel walked when it accepted (log level 1 is only kept on rejection: reload with a log)"""
    if "visited" not in item:
        b = item["built"]
        item["visited"] = _visited_accept(b["insns"], b["maps"])
    return item["visited"]


def _visited_accept(insns, maps):
    real = {}
    try:
        for fd, kind, ks, vs, n, mtype in maps:
            real[fd] = kern._bpf(0, struct.pack("IIIII", mtype, ks, vs, max(n, 1), 0))[0]
        ins = [(op, d, s, off, (real.get(imm, imm) if op == 0x18 and s == 1 else imm)) for op, d, s, off, imm in insns]
        import ctypes
        code = kern.encode(ins)
        cbuf = ctypes.create_string_buffer(code, len(code))
        lic = ctypes.create_string_buffer(b"GPL")
        logbuf = ctypes.create_string_buffer(1 << 18)
        attr = struct.pack("IIQQIIQII16sII", 6, len(code) // 8, ctypes.addressof(cbuf), ctypes.addressof(lic),
                           1, len(logbuf), ctypes.addressof(logbuf), 0, 0, b"vtest", 0, 0)
        try:
            fd, _ = kern._bpf(5, attr)
            os.close(fd)
        except OSError:
            return set(range(len(insns)))
        return visited(logbuf.value.decode(errors="replace"))
    finally:
        for r in real.values():
            os.close(r)


def run(ctx):
    import collections
    rng = ctx.rng
    have_kernel = kernel_available()
    if not have_kernel:
        ctx.notes.append("bpf() is not available here (EPERM): the MiniVerifier-vs-kernel tie was NOT run; only the regenerated "
                         "obligations MiniV.accepts(P) were checked")
    else:
        ctx.extra["kernel"] = os.uname().release
    items = []
    for n in LIB:
        it = check_base(ctx, {"kind": "lib", "spec": {"name": n}}, have_kernel)
        if it:
            items.append(it)
    for name, case in CANDIDATES:
        it = check_base(ctx, dict(case, candidate=name), have_kernel)
        ctx.extra.setdefault("candidates", {})[name] = ("refused by the generator" if it is None else
                                                        it["kernel"] if it["kernel"] != "reject" else f"reject [{it['cls']}]: {klass(it['log'])[1]}")
        if it:
            items.append(it)
    for gen, cnt in ((gen_dsl, ctx.n(160, 3000)), (gen_pkt, ctx.n(120, 1500)), (gen_c09, ctx.n(40, 200)), (gen_ext, ctx.n(160, 3000)),
                     (gen_unowned, ctx.n(12, 60)), (gen_tvar, ctx.n(16, 200)), (gen_call, ctx.n(40, 400))):
        for _ in range(cnt):
            it = check_base(ctx, gen(rng), have_kernel)
            if it:
                items.append(it)
    # single-instruction mutants of accepted programs (all library programs, a sample of the corpus)
    bases = [it for it in items if it["kernel"] in ("accept", None)]
    libs = [it for it in bases if it["case"]["kind"] == "lib"]
    others = [it for it in bases if it["case"]["kind"] != "lib"]
    chosen = libs + rng.sample(others, min(len(others), ctx.n(60, 1200)))
    mutants = []
    import time
    t_end = time.time() + ctx.n(50, 600)                     # the kernel decides how long a load takes: never run away
    for it in chosen:
        if time.time() > t_end:
            ctx.notes.append(f"mutant generation stopped at the time budget after {len(mutants)} mutants")
            break
        per = ctx.n(12, 40) if it["case"]["kind"] == "lib" else ctx.n(5, 8)
        for mut in gen_mutants(rng, it["built"]["insns"], per):
            case = {"kind": "mutant", "base": it["case"], "mut": mut}
            built = {"insns": mutate(it["built"]["insns"], mut), "maps": it["built"]["maps"]}
            if not built["insns"]:
                continue
            if have_kernel:
                v, log = kload(built["insns"], built["maps"])
            else:
                v, log = None, ""
            ctx.case(case, nontrivial=True, kind="mutant:" + mut[0])
            mutants.append({"case": case, "built": built, "kernel": v, "log": log, "cls": None, "preds": []})
    allp = items + mutants
    outs = ctx.drive(DRIVER, [_line(it["built"]) for it in allp], "MiniVerifier")
    agreement = collections.Counter()
    if outs is not None:
        for it, out in zip(allp, outs):
            compare(ctx, it, out, agreement)
            if it["case"]["kind"] == "lib" and not out.startswith("accept ; accept"):
                ctx.broken.append(f"regenerated obligation MiniV.accepts(lib:{it['case']['spec']['name']}) fails: {out}")
    ctx.extra["agreement"] = dict(sorted(agreement.items()))
    unm = collections.Counter(re.sub(r"\d+", "N", it["unmodelled"])[:70] for it in allp if "unmodelled" in it)
    ctx.extra["kernel_rejections_outside_the_model"] = dict(unm.most_common(12))
    stricter = [it for it in mutants if "stricter" in it]
    ctx.extra["mini_stricter_samples"] = [{"mut": it["case"]["mut"], "base": it["case"]["base"]["kind"], "mini": it["stricter"][1]}
                                          for it in stricter[:8]]
    ctx.extra["regenerated_obligations"] = REGEN_OBLIGATIONS
    # the verdict line names the first failing program only: one concrete replay for every failing class outside the known ones
    known = {e["class"] for e in core.load_known(ID)}
    per_class = {}
    for cls, what, case, observed in ctx.failures:
        if cls not in known and cls not in per_class:
            per_class[cls] = core.write_replay(ctx, {"property": ID, "what": what, "case": case, "observed": observed, "class": cls})
            print(f"FAILING-CLASS property={ID} class={cls or 'unclassified'} replay={per_class[cls]}")
    if per_class:
        ctx.extra["replay_per_failing_class"] = {str(k): v for k, v in per_class.items()}


def replay(ctx, case):
    """re-generate the program from /repo, load it into the kernel, print the verifier log"""
    try:
        built = build(case)
    except Refused as ex:
        if case["kind"] == "lib":
            ctx.require(False, "a program of the library cannot be assembled", case, str(ex))
        return {"generator": f"refused: {ex}"}
    res = {"insns": built["insns"], "maps": built["maps"]}
    if not kernel_available():
        res["kernel"] = "bpf() not available"
        return res
    v, log = kload(built["insns"], built["maps"])
    res["kernel"], res["verifier_log"] = v, _tail(log, 14)
    if case["kind"] != "mutant":
        cls = failure_class(case, built, log) if v == "reject" else None
        ctx.require(v == "accept", "the kernel verifier rejects a program the generator accepted", case, res["verifier_log"], cls)
        res["class"] = cls
    return res


THEOREMS = [
    "Ebv.C05.accepts_structural", "Ebv.C05.structOk_spec", "Ebv.C05.wfInsn_imm",
    "Ebv.C05.reg_init_sound", "Ebv.C05.reg_init_sound_strict", "Ebv.C05.exit_has_r0", "Ebv.C05.accepted_pc_in_range",
    "Ebv.C05.stack_bounds_sound", "Ebv.C05.istep_regs",
    "Ebv.C05.step_next_pc", "Ebv.C05.step_call_pc", "Ebv.C05.step_frame",
    "Ebv.C05.calc_covered", "Ebv.C05.owners_sound", "Ebv.C05.owners_check_insufficient",
    "Ebv.C05.wfInsn_immOk", "Ebv.C05.badImm_exact", "Ebv.C05.calc_keeps", "Ebv.C05.emitProg_imm_ok", "Ebv.C05.imm_rule_both_sides",
]
TRUSTED = [
    "the Linux verifier itself is the oracle of this property and is NOT modelled: Ebv.MiniV is a hand-written model of seven of its rules "
    "(XDP programs), tied to the real verifier only by differential runs (every generated program and single-instruction mutants, kernel "
    "named in the evidence); nothing is proved about the kernel",
    "Ebv.Ebpf (ISA semantics, validated three-way by C01's ISA run) and Ebv.Gen (generator model of the C01 fragment, tied by C01's exact "
    "bytecode correspondence); MiniV.reads/defs/kills (tied to Ebpf.step by step_frame / step_next_pc and used by both the instrumented "
    "semantics and the checker)",
    "harness/vh/kern.py (bpf(2) wrapper), the classification of verifier messages into rules (RULES in this file)",
]
ASSUMPTIONS = [
    "program type XDP, license GPL, kernel of the sandbox (release recorded in the evidence); loads are made as root: privileged verifier mode "
    "(reads of unwritten stack allowed, pointer comparisons/leaks allowed) -- MiniV is run in both its strict and its privileged stack mode",
    "helpers outside {map_lookup_elem, map_update_elem, map_delete_elem, ktime_get_ns, get_prandom_u32, tail_call}, variable offsets into the "
    "stack/packet, data_meta, bounded loops, bpf-to-bpf calls, alignment policy and complexity limits are outside the model (MiniV rejects them)",
    "the program only uses initialised variables and owned registers, constants, declared maps and packet accesses inside a size guard, "
    "no raw memory access, no pointer-holding register (r1, r7, r10) as an integer operand, locals fit 512 bytes",
]
RULE = ("all 15 library programs (dispatcher; bare fast groups of 4 packet layouts; fast groups with each bundled device and two mixtures) and 34 "
        "candidate-defect programs on every run (the witnesses of the repaired classes, and programs the repaired generator must still accept: "
        "shift by 40/63 in 64 bits, by 31 in 32 bits, by a register, division by 1); random programs from 6 families (C01 DSL 160/3000, three "
        "of ten with constant shift counts / divisors outside C01's precondition; packet accesses of all 32 formats x 9 operations incl. `+=` on "
        "packet variables and packet arrays with half of the offsets at the last guarded byte 120/1500, C09 Dict/hash dispatchers 8/60, extended "
        "programs with hash variables (read with r0 live, set from narrow variables), constant shifts/divisions legal or not, ktime/prandom, "
        "with/Else, and/or/not/bit conditions, jumpIf, subprograms, early exits 160/3000, unowned-register reads that must be refused 12/60, "
        "`+=`/`-=` on process variables of a terminal in a fast sync group 16/200); every refusal by the constant check is re-generated without "
        "the check and put to the kernel; 5-40 single-instruction mutants (drop, change dst/src/off/imm, swap) of every library program and of "
        "a sample of the others; non-trivial = more than 4 instructions / every mutant")
LEVEL_TEXT = ("PARTIAL. The oracle is the Linux verifier, which is not modelled and about which nothing is proved. Proved (Lean 4, all programs / all "
              "executions): for the abstract interpreter MiniV.accepts (seven verifier rules), acceptance implies forward in-range jumps that avoid "
              "second slots, well-formed LD_IMM64, EXIT last, legal shift/division/byte-swap immediates (accepts_structural), and -- against the ISA "
              "semantics Ebpf.step with arbitrary helper behaviour -- that every register an instruction reads has been written, r1-r5 being dead "
              "after a call (reg_init_sound, exit_has_r0), and that every load/store through a register tracked as frame pointer stays inside the 512-byte "
              "frame (stack_bounds_sound); for the generator model Gen (C01 fragment) every register an emitted instruction reads is "
              "initially owned or written earlier (owners_sound) provided the expression's leaf registers have values, and that proviso is necessary "
              "(owners_check_insufficient); for the same generator model, which refuses constant shift counts outside the width of the operation "
              "and constant zero divisors like the repaired Binary.calculate, no accepted program contains an instruction that the immediate part "
              "of rule (7) forbids (emitProg_imm_ok, calc_keeps), that part is implied by MiniV's rule (wfInsn_immOk), and the generator's check "
              "is exactly the rule, so it refuses nothing the rule allows (badImm_exact). Checked on every run, not proved: the real kernel accepts every regenerated program (property oracle), "
              "MiniV accepts them too (regenerated obligations) and agrees with the kernel on mutants for the modelled rules.")
LEVEL_NOTE = ("partial by nature: the kernel's full rule set (bounds tracking, path sensitivity, pruning, helper prototypes per program type, alignment, "
              "complexity, version differences) is outside; the initialised-bytes part of rule (2) and rules (3),(4),(6) of MiniV are executable and differentially tested but have "
              "no soundness theorem against the ISA semantics; the link generator -> MiniV.accepts for whole programs (EmitAccepts) is stated, not "
              "proved; trusted: Lean kernel + standard axioms, hand model MiniV, kern.py; open known findings: the two owner-without-value "
              "classes (findings/C05.json); five former classes are repaired in /repo (fixed entries, FIXB_repo_*.diff) and are violations again")
TECHNIQUE = "Lean 4 proof about a verifier-rule model + differential runs against the real verifier (bpf(2) in the sandbox)"
DESIGN_REF = "§4 C05"
LEANCHECKER = True
