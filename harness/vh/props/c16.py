"""C16 — SDO transfers carry values byte-for-byte.

Real `Terminal.sdo_read/sdo_write/mbx_send/mbx_recv` on top of the real
`EtherCat.roundtrip`; only the datagram queue is replaced: every datagram is
answered at once by a simulated terminal = mailbox registers + a strict
ETG.1000.6 CoE SDO server (class `Server`, written from the specification).
The terminal object gets its mailbox offsets and sizes from the real
`Terminal.parse_sync_managers`, fed with a sync manager table that describes the
simulated hardware (several table shapes, symmetric and asymmetric mailboxes);
the simulation hands a mail over only with the last byte of the hardware's mailbox.

Three correspondences per composed case, all exact:
  * real master  vs  Lean `Ebv.Sdo` master on the mails the real master received,
  * Python `Server`  vs  Lean `Ebv.SdoServer` on the requests the real master sent,
  * real master ∥ Python server  vs  Lean `Ebv.SdoSystem.system` (the object the theorems speak about),
plus scripted (non-conformant, adversarial) mail lists for the master alone and
adversarial request streams for the server alone.

The property oracle is the property text: object bytes equal, the call returns,
segment toggles alternate from 0, every message fits its mailbox.  No known
defect class is left (`classify` is constant): the four classes of
findings/C16.json were repaired in /repo (fix: 7fef356, a0eb33f); their former
witnesses are run as ordinary cases on every check.
"""
import asyncio
import collections
import json
import logging
import struct
from pathlib import Path

ID = "C16"
LEAN_MODULES = ["Ebv.Props.C16", "Ebv.Props.C16Config"]
MODEL_MODULES = ["Ebv.Model.Sdo", "Ebv.Model.SdoServer", "Ebv.Model.SdoSystem", "Ebv.Model.SdoConfig"]
DRIVER = "Drivers/C16.lean"
THEOREMS = [
    "Ebv.C16.read_expedited_exact", "Ebv.C16.read_normal_exact", "Ebv.C16.read_segmented_exact",
    "Ebv.C16.write_expedited_exact", "Ebv.C16.write_normal_exact", "Ebv.C16.write_complete_exact",
    "Ebv.C16.write_zero_exact",
    "Ebv.C16.fits_mailbox", "Ebv.C16.toggle_alternates",
    "Ebv.C16.read_requests_fit_and_toggle", "Ebv.C16.write_requests_fit_and_toggle", "Ebv.C16.server_responses_fit",
    "Ebv.C16.read_long_run", "Ebv.C16.write_run",
    "Ebv.C16.mailboxes_exact", "Ebv.C16.configure_exact", "Ebv.C16.configure_none",
]
TRUSTED = [
    "hand-written model Ebv.Sdo of Terminal.sdo_read/sdo_write/mbx_send/mbx_recv, tied by exact trace correspondence",
    "Ebv.SdoServer: our reading of the ETG.1000.6 CoE SDO server (trusted, stated); the Python server in "
    "harness/vh/props/c16.py is checked against it on every run",
    "Ebv.SdoSystem.system: composition master||server by causal iteration, checked against the real interleaving",
    "MBXType/CoECmd/ODCmd values regenerated into Ebv.Generated.Consts",
    "Ebv.SdoConfig.configure: the transfer parameters are what Ebv.Eeprom.parseSM (C17's model of parse_sync_managers, "
    "sm_exact) extracts from the case's sync manager table; the driver derives the model's sizes from the table",
]
ASSUMPTIONS = [
    "the datagram queue behind EtherCat.roundtrip is the only way the SDO code touches the bus (answered in-process)",
    "mailbox sizes 16 <= size < 65536, index < 65536, subindex < 256",
    "the terminal processes a written mailbox at once; register 0x805 bit 3 is under control of the schedule "
    "(set only while unrelated mail is pending), unrelated mail has a non-CoE mailbox type",
    "a zero-length object is uploaded with a normal response of complete size 0",
]
RULE = ("composed cases: kind in {read,write} x (out,in) mailbox sizes from {24,32,64,128,256} and odd ones {25,31,57,100,255} x subindex/complete access x "
        "lengths 0..3*mbx+9 (every length for small mailboxes, +-3 around every segment boundary and a random sample for the "
        "large ones in the quick tier) x schedules (none / delays / unrelated mail with and without the 0x805 drain) x sync manager "
        "table shape (standard four records, mailboxes only, receive mailbox first, process data first, interleaved, the 0x80-byte "
        "register image with unused managers, managers of unknown kinds anywhere, random upper control bits and status bytes); "
        "scripted cases: random and near-conformant mail lists (bad types, short bodies, 7-byte last segments, aborts); "
        "server cases: the request streams of the composed cases + random request streams; non-trivial = at least one "
        "message sent and a response consumed")
LEVEL_TEXT = (
    "Lean 4 proof over a hand-written model of sdo_read/sdo_write (the code after fix: 7fef356 and a0eb33f) composed with a "
    "conformant ETG.1000.6 SDO server model: uploads (expedited, one frame, any number of segments incl. a short last one) return "
    "the object byte for byte, downloads (expedited 1..4 bytes, normal, segmented, complete access, the empty value) leave exactly "
    "the value in the object and return - for all contents, all lengths below 2^32, all mailbox sizes 16..65535, indices, counters "
    "and schedules (delays, unrelated mail before every response, 0x805 drain), by induction over the segments that are left; "
    "for every mail script (conformant server or not) all messages fit the receive mailbox and segment toggles alternate from 0; "
    "every server mail fits the send mailbox. Tied to /repo by exact message-trace correspondence of the real coroutines.")
LEVEL_NOTE = (
    "trusted: Lean kernel + propext/Classical.choice/Quot.sound; hand transcription Ebv.Sdo validated (not verified) by "
    "differential traces; the conformant server is our reading of ETG.1000.6 (expedited answer for 1..4 bytes, normal with complete "
    "size otherwise); ESC behaviour for writes to a full mailbox is not modelled; the four former defect classes (findings/C16.json, "
    "fixed) are ordinary cases now and their witnesses are re-run on every check")
TECHNIQUE = "Lean 4 symbolic evaluation/induction over composed master||server model + differential trace correspondence"
DESIGN_REF = "§4 C16"

OUT_OFF, IN_OFF = 0x1000, 0x1400
SIZES = (24, 32, 64, 128, 256)
ODD_SIZES = (25, 31, 57, 100, 255)        # mailboxes need not be a power of two, nor even
INDEX = 0x2000


class Blocked(Exception):
    pass


# ------------------------------------------------------------------------------------------------
# strict CoE SDO server, from ETG.1000.6 §5.6.2 (SDO services) and ETG.1000.4 (mailbox header/errors)

def u16(b, o):
    return b[o] | b[o + 1] << 8


def u32(b, o):
    return b[o] | b[o + 1] << 8 | b[o + 2] << 16 | b[o + 3] << 24


AB_TOGGLE, AB_CMD, AB_NOOBJ, AB_LEN, AB_TOOHIGH = 0x05030000, 0x05040001, 0x06020000, 0x06070010, 0x06070012
MBXERR_UNSUPPORTED, MBXERR_SERVICE, MBXERR_TOOSHORT, MBXERR_INVALIDSIZE = 2, 4, 6, 8


class Server:
    """objects: list of [index, sub, ca, cap, bytes]; one transfer at a time"""

    def __init__(self, out_sz, in_sz, objs):
        self.out_sz, self.in_sz = out_sz, in_sz
        self.objs = [[i, s, bool(ca), cap, bytes(v)] for i, s, ca, cap, v in objs]
        self.cnt = 1
        self.xfer = None

    def find(self, idx, sub, ca):
        for o in self.objs:
            if o[0] == idx and o[1] == sub and o[2] == ca:
                return o
        return None

    def mail(self, typ, body):
        m = struct.pack("<HHBB", len(body), 0, 0, typ | self.cnt << 4) + body
        self.cnt = self.cnt % 7 + 1
        assert len(m) <= self.in_sz, "server built a response that does not fit"
        return [m]

    def mbxerr(self, code):
        return self.mail(0, struct.pack("<HH", 1, code))

    def abort(self, idx, sub, code):
        self.xfer = None
        return self.mail(3, struct.pack("<HBHBI", 2 << 12, 0x80, idx, sub, code))

    def sdores(self, cmd, idx, sub, rest):
        return self.mail(3, struct.pack("<HBHB", 3 << 12, cmd, idx, sub) + rest)

    def handle(self, msg):
        """msg: what was written into the receive mailbox (at most out_sz bytes); returns the mails produced"""
        if len(msg) < 6:
            return []
        dlen, typ = u16(msg, 0), msg[5] & 0xf
        if 6 + dlen > self.out_sz:
            return self.mbxerr(MBXERR_INVALIDSIZE)
        body = msg[6:6 + dlen]
        if len(body) < dlen:                    # fewer bytes written than announced: the rest of the mailbox is zero
            body = body + bytes(dlen - len(body))
        if typ != 3:
            return self.mbxerr(MBXERR_UNSUPPORTED)
        if dlen < 2:
            return self.mbxerr(MBXERR_TOOSHORT)
        if u16(body, 0) >> 12 != 2:
            return self.mbxerr(MBXERR_SERVICE)
        if dlen < 10:
            return self.mbxerr(MBXERR_TOOSHORT)
        cmd = body[2]
        ccs = cmd >> 5
        idx, sub, ca = u16(body, 3), body[5], bool(cmd & 0x10)
        cab = 0x10 if ca else 0
        if ccs == 1:                            # initiate download
            self.xfer = None
            o = self.find(idx, sub, ca)
            if o is None:
                return self.abort(idx, sub, AB_NOOBJ)
            if cmd & 2:                         # expedited
                n = 4 - ((cmd >> 2) & 3) if cmd & 1 else 4
                if n > o[3]:
                    return self.abort(idx, sub, AB_TOOHIGH)
                o[4] = bytes(body[6:6 + n])
                return self.sdores(0x60 | cab, idx, sub, bytes(4))
            if not cmd & 1:                     # normal transfer without size indication
                return self.abort(idx, sub, AB_CMD)
            size, data = u32(body, 6), bytes(body[10:])
            if size > o[3]:
                return self.abort(idx, sub, AB_TOOHIGH)
            if len(data) > size:
                return self.abort(idx, sub, AB_LEN)
            if len(data) == size:
                o[4] = data
            else:
                self.xfer = ["down", idx, sub, ca, size, data, 0]
            return self.sdores(0x60 | cab, idx, sub, bytes(4))
        if ccs == 0:                            # download segment
            if self.xfer is None or self.xfer[0] != "down":
                return self.abort(0, 0, AB_CMD)
            _, xi, xs, xca, size, buf, tog = self.xfer
            t = (cmd >> 4) & 1
            if t != tog:
                return self.abort(xi, xs, AB_TOGGLE)
            seg = bytes(body[3:])
            if dlen == 10:
                seg = seg[:7 - ((cmd >> 1) & 7)]
            buf = buf + seg
            if len(buf) > size:
                return self.abort(xi, xs, AB_LEN)
            if cmd & 1:
                if len(buf) != size:
                    return self.abort(xi, xs, AB_LEN)
                self.find(xi, xs, xca)[4] = buf
                self.xfer = None
            else:
                self.xfer = ["down", xi, xs, xca, size, buf, tog ^ 1]
            return self.mail(3, struct.pack("<HB", 3 << 12, 0x20 | t << 4) + bytes(7))
        if ccs == 2:                            # initiate upload
            self.xfer = None
            o = self.find(idx, sub, ca)
            if o is None:
                return self.abort(idx, sub, AB_NOOBJ)
            v = o[4]
            if 1 <= len(v) <= 4:
                return self.sdores(0x43 | (4 - len(v)) << 2 | cab, idx, sub, v + bytes(4 - len(v)))
            room = self.in_sz - 16
            if len(v) > room:
                self.xfer = ["up", idx, sub, ca, v[room:], 0]
            return self.sdores(0x41 | cab, idx, sub, struct.pack("<I", len(v)) + v[:room])
        if ccs == 3:                            # upload segment
            if self.xfer is None or self.xfer[0] != "up":
                return self.abort(0, 0, AB_CMD)
            _, xi, xs, xca, rest, tog = self.xfer
            t = (cmd >> 4) & 1
            if t != tog:
                return self.abort(xi, xs, AB_TOGGLE)
            room = self.in_sz - 9
            seg, rest = rest[:room], rest[room:]
            last = 0 if rest else 1
            n = 7 - len(seg) if len(seg) < 7 else 0
            self.xfer = ["up", xi, xs, xca, rest, tog ^ 1] if rest else None
            return self.mail(3, struct.pack("<HB", 3 << 12, t << 4 | n << 1 | last) + seg + bytes(n))
        if ccs == 4:                            # abort transfer (from the client)
            self.xfer = None
            return []
        return self.abort(0, 0, AB_CMD)

    def show_objs(self):
        return ",".join(f"{i}:{s}:{int(ca)}:{cap}:{v.hex()}" for i, s, ca, cap, v in self.objs)


# ------------------------------------------------------------------------------------------------
# the simulated terminal behind the datagram queue

class Sim:
    """answers the datagrams of one sdo_read/sdo_write call.
    composed mode (server given): slot k of the schedule belongs to the k-th mbx_send
    scripted mode: `mails` is all the terminal will ever have in its send mailbox"""

    def __init__(self, out_sz, in_sz, fulls, mails=(), server=None, sched=()):
        self.out_sz, self.in_sz = out_sz, in_sz
        self.fulls = list(fulls)
        self.queue = collections.deque([d, bytes(r)] for d, r in mails)
        self.server, self.sched = server, list(sched)
        self.trace, self.received, self.requests, self.responses = [], [], [], []
        self.pending = None
        self.nsend = 0
        self.ndgram = 0
        if server is not None and self.sched:
            self.queue.extend([0, m] for m in self.sched[0]["pre"])

    def pad(self, m):
        return (m + bytes(self.in_sz))[:self.in_sz]

    def datagram(self, cmd, out, pos, off):
        from ebpfcat.ethercat import ECCmd
        n = len(out)
        self.ndgram += 1
        if self.ndgram > 4000:
            raise Blocked()             # the call keeps the bus busy without getting anywhere
        if cmd is ECCmd.FPRD and off == 0x805 and n == 1:
            full = self.fulls.pop(0) if self.fulls else False
            self.trace.append("s8" if full else "s0")
            return bytes([8 if full else 0])
        if cmd is ECCmd.FPRD and off == 0x80D and n == 1:
            if not self.queue:
                raise Blocked()
            if self.queue[0][0] > 0:
                self.queue[0][0] -= 1
                self.trace.append("p0")
                return bytes([0])
            self.trace.append("p8")
            return bytes([8])
        if cmd is ECCmd.FPRD and off == IN_OFF and n == self.in_sz:
            d, m = self.queue.popleft()
            self.trace.append("r")
            self.received.append(m)
            return self.pad(m)
        if cmd is ECCmd.FPWR and off == OUT_OFF:
            self.trace.append("w" + out.hex())
            self.pending = bytes(out)
            return out
        if cmd is ECCmd.FPWR and off == OUT_OFF + self.out_sz - 1 and n == 1:
            self.trace.append("k")
            msg, self.pending = self.pending, None
            k, self.nsend = self.nsend, self.nsend + 1
            if self.server is not None and msg is not None:
                req = msg[:self.out_sz]
                self.requests.append(req)
                rs = self.server.handle(req)
                self.responses.append(rs)
                delay = self.sched[k]["delay"] if k < len(self.sched) else 0
                self.queue.extend([delay, m] for m in rs)
                if k + 1 < len(self.sched):
                    self.queue.extend([0, m] for m in self.sched[k + 1]["pre"])
            return out
        # accesses inside the mailboxes that are not the ones a mail is handed over with: the memory is read / written,
        # but a mail only changes hands with the LAST byte of its mailbox (the hardware's sizes, whatever the master thinks)
        if cmd is ECCmd.FPRD and IN_OFF <= off and off + n <= IN_OFF + self.in_sz:
            if not self.queue:
                raise Blocked()
            self.trace.append(f"r@{off - IN_OFF}+{n}")
            m = self.pad(self.queue[0][1])[off - IN_OFF:off - IN_OFF + n]
            if off + n == IN_OFF + self.in_sz:
                self.received.append(self.queue.popleft()[1])
            return m
        if cmd is ECCmd.FPWR and OUT_OFF <= off and off + n <= OUT_OFF + self.out_sz:
            self.trace.append(f"w@{off - OUT_OFF}:" + out.hex())
            if off + n == OUT_OFF + self.out_sz:
                raise AssertionError("a mail handed over in a way this simulation does not know")
            return out
        raise AssertionError(f"unexpected bus access {cmd} {off:#x} len {n}")


# ------------------------------------------------------------------------------------------------
# the terminal's configuration: the sync manager table `Terminal.parse_sync_managers` reads the mailbox
# offsets and sizes from (category 41 of the EEPROM in apply_eeprom, the registers 0x800.. in gentle_initialize)

def sm_record(off, size, ctrl, rest=(0, 1, 0)):
    return struct.pack("<HHBBBB", off, size, ctrl, *rest)


def standard_sm(out_sz, in_sz):
    return sm_record(OUT_OFF, out_sz, 0x26) + sm_record(IN_OFF, in_sz, 0x22) + sm_record(0x1800, 0, 0x24) + sm_record(0x1c00, 0, 0x20)


def make_sm(rng, out_sz, in_sz):
    """a table that describes the simulated hardware (send mailbox out_sz bytes at OUT_OFF, receive mailbox in_sz bytes at
    IN_OFF) in one of the shapes such tables come in"""
    hi = lambda: rng.choice([0x00, 0x20, 0x20, 0x30, 0x60])
    rest = lambda: (rng.randrange(256), rng.randrange(2), rng.randrange(4))
    mo, mi = sm_record(OUT_OFF, out_sz, hi() | 6, rest()), sm_record(IN_OFF, in_sz, hi() | 2, rest())
    po = sm_record(0x1800, rng.choice([0, 0, 2, 8, out_sz, in_sz]), hi() | 4, rest())
    pi = sm_record(0x1c00, rng.choice([0, 0, 1, 6, out_sz, in_sz]), hi() | 0, rest())
    shape = rng.choice(["std", "std", "mbx", "rev", "pdo-first", "regs", "split"])
    if shape == "std":
        recs = [mo, mi, po, pi]
    elif shape == "mbx":
        recs = [mo, mi]
    elif shape == "rev":
        recs = [mi, mo] + ([pi, po] if rng.random() < 0.5 else [])
    elif shape == "pdo-first":
        recs = [po, pi, mo, mi]
    elif shape == "regs":           # the 0x80 bytes of sync manager registers: unused managers read as zeros
        recs = [mo, mi, po, pi] + [bytes(8)] * 12
    else:
        recs = [mo, po, mi, pi]
    # managers of a kind the driver does not know (control nibble not 0/2/4/6) are skipped wherever they stand
    for _ in range(rng.choice([0, 0, 1, 2])):
        junk = sm_record(rng.choice([OUT_OFF, IN_OFF, 0x1100, 0]), rng.choice([0, 16, out_sz + 8, in_sz + 8, 512]),
                         hi() | rng.choice([1, 3, 5, 7, 8, 9, 10, 11, 12, 13, 14, 15]), rest())
        recs.insert(rng.randrange(len(recs) + 1), junk)
    return b"".join(recs)


class Queue:
    """stands in for EtherCat.send_queue: the datagram is answered immediately"""

    def __init__(self, sim):
        self.sim = sim

    def put_nowait(self, item):
        cmd, out, idx, pos, off, future = item
        try:
            future.set_result(self.sim.datagram(cmd, bytes(out), pos, off))
        except Exception as e:
            future.set_exception(e)


_loop = None


def call(kind, sim, out_sz, in_sz, index, sub, cnt, value, sm=None):
    """run the real sdo_read / sdo_write on a terminal object configured by the real parse_sync_managers from the
    sync manager table `sm`; returns the canonical outcome"""
    global _loop
    from ebpfcat.ethercat import EtherCat, Terminal, EtherCatError
    from ebpfcat.lock import MailboxLock
    if _loop is None:
        _loop = asyncio.new_event_loop()
    ec = EtherCat.__new__(EtherCat)
    ec.send_queue = Queue(sim)
    t = Terminal(ec)
    t.position = 5
    t.name = "T5"

    async def go():
        t.parse_sync_managers(standard_sm(out_sz, in_sz) if sm is None else sm)
        t.mbx_lock = MailboxLock()
        t.mbx_lock.counter = cnt
        if kind == "read":
            return await t.sdo_read(index, sub)
        return await t.sdo_write(value, index, sub)

    logging.disable(logging.CRITICAL)
    try:
        ret = _loop.run_until_complete(go())
        if kind == "read":
            return "ok:" + bytes(ret).hex()
        return "ok:" if ret is None else "other:returned"
    except Blocked:
        return "blocked"
    except AssertionError:
        return "assertion"
    except EtherCatError:
        return "ethercat-error"
    except TypeError:
        return "type-error"
    except NameError:
        return "name-error"
    except ValueError:
        return "value-error"
    except struct.error:
        return "struct-error"
    except Exception as e:
        return "other:" + type(e).__name__
    finally:
        logging.disable(logging.NOTSET)


def show(trace, out):
    return " ".join(trace) + " | " + out


# ------------------------------------------------------------------------------------------------
# cases

def key_of(case):
    sub = case["sub"]
    return (case["index"], 1 if sub is None else sub, sub is None)


def sm_of(case):
    return bytes.fromhex(case["sm"]) if "sm" in case else None


def run_sys(case):
    """composed run: real master against the Python server"""
    val = bytes.fromhex(case["value"])
    idx, sub, ca = key_of(case)
    stored = val if case["kind"] == "read" else bytes.fromhex(case["init"])
    srv = Server(case["out"], case["in"], [[idx, sub, ca, case["cap"], stored]])
    sched = [{"full": s["full"], "delay": s["delay"], "pre": [bytes.fromhex(m) for m in s["pre"]]} for s in case["sched"]]
    sim = Sim(case["out"], case["in"], [s["full"] for s in sched], server=srv, sched=sched)
    out = call(case["kind"], sim, case["out"], case["in"], case["index"], case["sub"], case["cnt"], val, sm_of(case))
    return sim, srv, out


def run_script(case):
    sim = Sim(case["out"], case["in"], case["fulls"], mails=[(d, bytes.fromhex(m)) for d, m in case["mails"]])
    out = call(case["kind"], sim, case["out"], case["in"], case["index"], case["sub"], case["cnt"],
               bytes.fromhex(case["value"]), sm_of(case))
    return sim, out


def run_server(case):
    srv = Server(case["out"], case["in"], [[i, s, ca, cap, bytes.fromhex(v)] for i, s, ca, cap, v in case["objs"]])
    outs = []
    for r in case["reqs"]:
        outs.append("+".join(m.hex() for m in srv.handle(bytes.fromhex(r))) or "-")
    return " ".join(outs) + " | " + srv.show_objs()


def classify(case):
    """known-defect classes, decided on the input alone: none are left since the fix: commits 7fef356 / a0eb33f"""
    return None


def sdo_requests(sim):
    """(ccs, toggle) of every CoE SDO request the master wrote"""
    res = []
    for m in sim.requests:
        if len(m) >= 9 and m[5] & 0xf == 3 and u16(m, 6) >> 12 == 2:
            res.append((m[8] >> 5, (m[8] >> 4) & 1))
    return res


def oracle(require, case, sim, srv, out, attributed=True):
    """the property text on the implementation's observable behaviour (`require` = ctx.require or a buffer).
    `attributed`: the implementation showed exactly the recorded defect behaviour of its class"""
    cls = classify(case) if attributed else None
    obs = show(sim.trace, out)
    val = bytes.fromhex(case["value"])
    ok = True
    for m in sim.trace:
        if m[0] == "w":
            ok &= require(len(m) // 2 <= case["out"], "a message does not fit the receive mailbox", case, obs, cls)
    for rs in sim.responses:
        for m in rs:
            ok &= require(len(m) <= case["in"], "a response does not fit the send mailbox", case, obs, None)
    segs = [t for ccs, t in sdo_requests(sim) if ccs in (0, 3)]
    ok &= require(segs == [i & 1 for i in range(len(segs))], "segment toggles do not alternate from 0", case, obs, cls)
    if case["kind"] == "read":
        ok &= require(out == "ok:" + val.hex(), "sdo_read did not return the object's bytes", case, obs, cls)
    else:
        stored = srv.find(*key_of(case))[4]
        ok &= require(stored == val, "the object does not hold the written bytes", case,
                      obs + " | obj:" + stored.hex(), cls)
        ok &= require(out == "ok:", "sdo_write did not return although nothing went wrong on the bus", case, obs, cls)
    return ok


def pattern(rng, n):
    k = rng.randrange(1, 251)
    a = rng.randrange(0, 256)
    return bytes((a + i * k) % 256 for i in range(n))


def unrelated(rng, in_sz):
    """a mail of a non-CoE type that fits the send mailbox"""
    typ = rng.choice([0, 1, 2, 4, 5, 15])
    body = pattern(rng, rng.randrange(0, min(in_sz - 6, 12) + 1))
    return struct.pack("<HHBB", len(body), 0, 0, typ | rng.randrange(1, 8) << 4) + body


def schedule(rng, in_sz, style, slots):
    sched = []
    for k in range(slots):
        if style == "plain":
            break
        if style == "delay":
            sched.append({"full": False, "pre": [], "delay": rng.randrange(0, 4)})
        else:
            pre = [unrelated(rng, in_sz).hex() for _ in range(rng.choice([0, 1, 1, 2]))] if k == 0 or rng.random() < 0.3 else []
            full = bool(pre) and (style == "drain" or rng.random() < 0.3)
            sched.append({"full": full, "pre": pre, "delay": rng.randrange(0, 3)})
    return sched


def boundaries(out_sz, in_sz, kind):
    """lengths at which the number of frames changes"""
    first = (in_sz if kind == "read" else out_sz) - 16
    seg = (in_sz if kind == "read" else out_sz) - 9
    top = 3 * max(out_sz, in_sz) + 9
    bs = {0, 4, first, top}
    k = first
    while k <= top:
        bs.add(k)
        for short in range(0, 8):
            bs.add(k + short)
        k += seg
    return sorted(b for b in bs if 0 <= b <= top)


def sys_case(rng, kind, out_sz, in_sz, sub, n, style):
    val = pattern(rng, n)
    slots = 2 + n // max(1, min(out_sz, in_sz) - 9)
    c = {"mode": "sys", "kind": kind, "out": out_sz, "in": in_sz, "index": INDEX if rng.random() < 0.7 else rng.randrange(0x1000, 0x10000),
         "sub": sub, "cnt": rng.randrange(0, 8), "value": val.hex(), "cap": n + rng.randrange(0, 3),
         "sched": schedule(rng, in_sz, style, min(slots, 8)), "sm": make_sm(rng, out_sz, in_sz).hex()}
    if c["sub"] is not None and rng.random() < 0.3:
        c["sub"] = rng.randrange(0, 256)
    if kind == "write":
        c["init"] = pattern(rng, rng.randrange(0, 7)).hex()
    return c


def gen_sys(ctx):
    rng = ctx.rng
    cases = []
    pairs = [(s, s) for s in SIZES] + [(24, 64), (64, 24), (32, 256), (256, 32), (128, 64), (25, 31), (31, 25), (57, 57)]
    for out_sz, in_sz in pairs:
        small = max(out_sz, in_sz) <= ctx.n(32, 256) and out_sz == in_sz
        top = 3 * max(out_sz, in_sz) + 9
        for kind in ("read", "write"):
            for sub in (1, None):
                if small:
                    lens = list(range(0, top + 1))
                else:
                    lens = set(range(0, 13))
                    for b in boundaries(out_sz, in_sz, kind):
                        lens.update(range(max(0, b - 3), min(top, b + 3) + 1))
                    lens.update(rng.randrange(0, top + 1) for _ in range(ctx.n(6, 60)))
                    lens = sorted(lens)
                for n in lens:
                    cases.append(sys_case(rng, kind, out_sz, in_sz, sub, n, "plain"))
                    r = rng.random()
                    if n <= 12 or r < ctx.n(0.12, 1.0):
                        cases.append(sys_case(rng, kind, out_sz, in_sz, sub, n, rng.choice(["delay", "mail", "mail", "drain"])))
    return cases


def gen_working(ctx):
    """the modes the code gets right, with everything else varied: index, subindex, counter, sizes, schedules"""
    rng = ctx.rng
    cases = []
    for _ in range(ctx.n(1000, 40000)):
        kind = rng.choice(["read", "read", "write"])
        out_sz, in_sz = rng.choice(SIZES + ODD_SIZES), rng.choice(SIZES + ODD_SIZES)
        if kind == "read":
            sub = rng.choice([None, None, 0, 1, 2, rng.randrange(0, 256)])
            n = rng.choice([0, 1, 2, 3, 4, 5, 6, in_sz - 17, in_sz - 16, rng.randrange(0, in_sz - 15)])
            style = rng.choice(["plain", "delay", "mail", "mail", "drain"])
        else:
            sub = rng.choice([0, 1, 2, rng.randrange(0, 256)])
            n = rng.randrange(1, 5)
            style = rng.choice(["plain", "delay", "delay", "drain1"])
        c = sys_case(rng, kind, out_sz, in_sz, sub, n, style if style != "drain1" else "delay")
        c["sub"] = sub
        c["index"] = rng.choice([INDEX, 0x1c12, 0xffff, 0, rng.randrange(0, 0x10000)])
        if style == "drain1":
            c["sched"] = [{"full": True, "pre": [unrelated(rng, in_sz).hex()], "delay": rng.randrange(0, 3)}]
        cases.append(c)
    return cases


def coe_mail(rng, body, typ=3):
    return struct.pack("<HHBB", len(body), 0, 0, typ | rng.randrange(0, 8) << 4) + body


def gen_script(rng):
    """mail lists that are not what a conformant server sends: validates the master model on every branch"""
    kind = rng.choice(["read", "write"])
    out_sz, in_sz = rng.choice(SIZES + ODD_SIZES), rng.choice(SIZES + ODD_SIZES)
    index = rng.choice([INDEX, 0x1c12, 0x6000])
    sub = rng.choice([None, 0, 1, 2, 200])
    n = rng.choice([0, 1, 2, 3, 4, 5, 6, 7, 8, 9, 10, 11, 17, 30, 60, 300])
    val = pattern(rng, n)
    mails = []
    s1 = 1 if sub is None else sub

    def idx():
        return index if rng.random() < 0.9 else index ^ 1

    def sb():
        return s1 if rng.random() < 0.9 else (s1 + 1) & 0xff

    for _ in range(rng.randrange(0, 7)):
        r = rng.random()
        room = in_sz - 6
        if r < 0.12:
            m = unrelated(rng, in_sz)
        elif r < 0.17:
            m = struct.pack("<HHBB", rng.randrange(0, 5), 0, 0, rng.choice([6, 7, 9, 14]))
        elif r < 0.25:
            m = coe_mail(rng, pattern(rng, rng.randrange(0, min(room, 12) + 1)))
        elif r < 0.32:
            m = coe_mail(rng, struct.pack("<HBHBI", 2 << 12, 0x80, idx(), sb(), 0x06020000))
        elif kind == "read":
            q = rng.random()
            if q < 0.25:
                k = rng.randrange(0, 4)
                m = coe_mail(rng, struct.pack("<HBHB", 3 << 12, 0x43 | k << 2, idx(), sb()) + pattern(rng, 4))
            elif q < 0.55:
                k = rng.randrange(0, min(room - 10, 40) + 1)
                size = rng.choice([k, k, k + 7, k + 4, k + rng.randrange(0, 30), max(0, k - 1)])
                m = coe_mail(rng, struct.pack("<HBHBI", 3 << 12, 0x41, idx(), sb(), size) + pattern(rng, k))
            else:
                k = rng.choice([0, 1, 4, 4, 4, 7, 7, 7, 8, 12, min(room - 3, 30)])
                k = min(k, room - 3)
                cmd = rng.choice([0, 1, 1]) | rng.randrange(0, 8) << 1 | rng.choice([0, 0, 0x10]) | rng.choice([0, 0, 0, 0x20, 0x80])
                coe = 3 << 12 if rng.random() < 0.93 else 2 << 12
                m = coe_mail(rng, struct.pack("<HB", coe, cmd) + pattern(rng, k))
        else:
            q = rng.random()
            coe = 3 << 12 if rng.random() < 0.9 else 2 << 12
            if q < 0.6:
                m = coe_mail(rng, struct.pack("<HBHB4x", coe, 0x60, idx(), sb()))
            elif q < 0.8:
                k = rng.randrange(0, min(room - 6, 60) + 1)
                m = coe_mail(rng, struct.pack("<HBHB", coe, 0x60, idx(), sb()) + pattern(rng, k))
            else:
                m = coe_mail(rng, struct.pack("<HB", coe, 0x20 | rng.choice([0, 0x10])) + bytes(7))
        mails.append([rng.choice([0, 0, 0, 1, 2]), m[:in_sz].hex()])
    fulls = [rng.random() < 0.15 for _ in range(rng.randrange(0, 5))]
    return {"mode": "script", "kind": kind, "out": out_sz, "in": in_sz, "index": index, "sub": sub,
            "cnt": rng.randrange(0, 8), "value": val.hex(), "fulls": fulls, "mails": mails,
            "sm": make_sm(rng, out_sz, in_sz).hex()}


def gen_server(rng):
    """request streams, mostly protocol-shaped, with wrong toggles/sizes/objects and mailbox-level faults"""
    out_sz, in_sz = rng.choice(SIZES), rng.choice(SIZES)
    objs = []
    for i in range(rng.randrange(1, 4)):
        n = rng.choice([0, 1, 2, 4, 5, 7, 8, 9, 20, in_sz - 16, in_sz - 15, 2 * in_sz, 3 * in_sz + 5])
        objs.append([INDEX + i, rng.choice([0, 1, 2]), rng.random() < 0.3, n + rng.randrange(0, 20), pattern(rng, n).hex()])
    reqs = []
    tog = 0
    for _ in range(rng.randrange(1, 12)):
        o = rng.choice(objs)
        idx = o[0] if rng.random() < 0.9 else o[0] + 7
        sub = o[1] if rng.random() < 0.9 else o[1] + 1
        cab = 0x10 if (o[2] if rng.random() < 0.9 else not o[2]) else 0
        r = rng.random()
        typ, coe = 3, 2 << 12
        if r < 0.2:
            body = struct.pack("<HBHB4x", coe, 0x40 | cab, idx, sub)
            tog = 0
        elif r < 0.45:
            body = struct.pack("<HB", coe, 0x60 | tog << 4) + (bytes(7) if rng.random() < 0.5 else struct.pack("<HB4x", idx, sub))
            tog ^= 1 if rng.random() < 0.9 else 0
        elif r < 0.6:
            n = rng.randrange(0, 5)
            cmd = 0x23 | cab | ((4 - n) << 2 & 0xc) if rng.random() < 0.8 else 0x22 | cab
            body = struct.pack("<HBHB", coe, cmd, idx, sub) + pattern(rng, n) + bytes(4 - n)
        elif r < 0.8:
            n = rng.randrange(0, max(1, out_sz - 16) + 1)
            size = rng.choice([n, n, n, n + 7, n + 3, n + out_sz, max(0, n - 1), 0])
            body = struct.pack("<HBHBI", coe, rng.choice([0x21, 0x21, 0x21, 0x20]) | cab, idx, sub, size) + pattern(rng, n)
            tog = 0
        elif r < 0.93:
            n = rng.choice([0, 1, 3, 6, 7, 7, 8, out_sz - 9, out_sz - 9, out_sz - 8])
            last = rng.choice([0, 1, 1])
            if n < 7:
                cmd, d = last | (7 - n) << 1 | tog << 4, pattern(rng, n) + bytes(7 - n)
            else:
                cmd, d = last | tog << 4, pattern(rng, n)
            body = struct.pack("<HB", coe, cmd) + d
            tog ^= 1 if rng.random() < 0.9 else 0
        else:
            q = rng.random()
            if q < 0.25:
                body, typ = pattern(rng, rng.randrange(0, 12)), rng.choice([0, 1, 2, 4, 5, 15])
            elif q < 0.5:
                body = struct.pack("<H", rng.choice([1, 3, 8]) << 12) + pattern(rng, rng.randrange(0, 10))
            elif q < 0.75:
                body = struct.pack("<HB", coe, rng.choice([0x80, 0xa0, 0xe0])) + bytes(7)
            else:
                body = struct.pack("<HB", coe, 0x40)[:rng.randrange(0, 4)] + bytes(rng.randrange(0, 5))
        msg = struct.pack("<HHBB", len(body), 0, 0, typ | rng.randrange(0, 8) << 4) + body
        reqs.append(msg[:out_sz].hex())
    return {"mode": "server", "out": out_sz, "in": in_sz, "objs": objs, "reqs": reqs}


def script_of(case, sim):
    """the scripted twin of a composed run: the mails the master got, as it got them"""
    got = sim.received + [m for _, m in sim.queue]
    delays = []
    fulls = [s["full"] for s in case["sched"]]
    # reconstruct the delays as scheduled: slot k's delay on the responses to request k, 0 on unrelated mail
    plan = []
    for k in range(max(len(case["sched"]), len(sim.responses)) + 1):
        if k < len(case["sched"]):
            plan += [0] * len(case["sched"][k]["pre"])
        if k < len(sim.responses):
            plan += [case["sched"][k]["delay"] if k < len(case["sched"]) else 0] * len(sim.responses[k])
        else:
            break
    delays = plan[:len(got)]
    s2 = {"mode": "script", "kind": case["kind"], "out": case["out"], "in": case["in"], "index": case["index"],
          "sub": case["sub"], "cnt": case["cnt"], "value": case["value"], "fulls": fulls,
          "mails": [[d, m.hex()] for d, m in zip(delays, got)]}
    if "sm" in case:
        s2["sm"] = case["sm"]
    return s2


def server_of(case, sim):
    idx, sub, ca = key_of(case)
    stored = case["value"] if case["kind"] == "read" else case["init"]
    return {"mode": "server", "out": case["out"], "in": case["in"], "objs": [[idx, sub, ca, case["cap"], stored]],
            "reqs": [r.hex() for r in sim.requests]}


def sys_line(case, sim, srv, out):
    return show(sim.trace, out) + " | obj:" + srv.find(*key_of(case))[4].hex()


def drive_chunks(ctx, lines, parts=6):
    """ctx.drive on interleaved slices, side by side (the driver is a one-line-in, one-line-out filter)"""
    import concurrent.futures
    chunks = [lines[k::parts] for k in range(parts)]
    ctx.lean.locked()        # no rebuild of the imported modules by a concurrent check while the driver runs
    try:
        with concurrent.futures.ThreadPoolExecutor(max_workers=parts) as ex:
            outs = list(ex.map(lambda ch: ctx.drive(DRIVER, ch, "sdo") if ch else [], chunks))
    finally:
        ctx.lean.unlock()
    if any(o is None for o in outs):
        return None
    res = [None] * len(lines)
    for k, o in enumerate(outs):
        res[k::parts] = o
    return res


def known_witnesses():
    f = Path(__file__).resolve().parents[3] / "findings" / "C16.json"
    if not f.exists():
        return []
    return [e["witness"] for e in json.loads(f.read_text()) if e.get("property") == ID]


def run(ctx):
    rng = ctx.rng
    lines, checks = [], []          # driver input lines; (what, case, impl_out, oracle-args or None)
    witnesses = known_witnesses()
    syscases = [{k: v for k, v in w.items() if k != "expect"} for w in witnesses] + gen_sys(ctx) + gen_working(ctx)
    for c in syscases:
        sim, srv, out = run_sys(c)
        ctx.case(c, nontrivial=bool(sim.requests) and bool(sim.received),
                 kind=f"{c['kind']}:{classify(c) or 'working'}:{out.split(':')[0]}")
        lines.append(c)
        checks.append(("composed system", c, sys_line(c, sim, srv, out), (sim, srv, out)))
        s2 = script_of(c, sim)
        lines.append(s2)
        checks.append(("master on the observed mails", s2, show(sim.trace, out), None))
        s3 = server_of(c, sim)
        lines.append(s3)
        checks.append(("python server vs SdoServer", s3,
                       " ".join("+".join(m.hex() for m in rs) or "-" for rs in sim.responses) + " | " + srv.show_objs(), None))
    for _ in range(ctx.n(1500, 60000)):
        c = gen_script(rng)
        sim, out = run_script(c)
        ns = sum(1 for t in sim.trace if t[0] == "w")
        ctx.case(c, nontrivial=ns > 0 and bool(sim.received), kind=f"script:{c['kind']}:{out.split(':')[0]}:{min(ns, 3)}msg")
        lines.append(c)
        checks.append(("master on a scripted mail list", c, show(sim.trace, out), None))
    for _ in range(ctx.n(1000, 40000)):
        c = gen_server(rng)
        ctx.case(c, nontrivial=True, kind="server")
        lines.append(c)
        checks.append(("python server vs SdoServer", c, run_server(c), None))
    model = drive_chunks(ctx, lines)
    found = []                       # oracle failures, buffered: (cls, what, case, observed)

    def buffer(cond, what, case, observed=None, cls=None):
        if not cond:
            found.append((cls, what, case, observed))
        return bool(cond)

    for i, (what, c, impl, orc) in enumerate(checks):
        same = model is not None
        if model is not None:
            same = ctx.agree(what, c, impl, model[i])
            if orc is not None:      # the scripted twin of a composed case must agree as well
                same = same and show(orc[0].trace, orc[2]) == model[i + 1]
        if orc is not None:
            # a failure is attributed to its class only when the code showed exactly the modelled defect
            oracle(buffer, c, *orc, attributed=same)
    if model is not None:
        for w in witnesses:           # a witness that still records a defect behaviour: it is what the model says today
            if "expect" in w:
                i = next(k for k, ch in enumerate(checks) if ch[1] == {k2: v for k2, v in w.items() if k2 != "expect"})
                ctx.agree("recorded behaviour of a known finding vs model", w, w["expect"], model[i])
    # ctx keeps the first 50 failures only: report the unattributed ones first, then a few per known class
    # order: outside every known class, then inside a class but not the recorded behaviour, then the known ones
    found.sort(key=lambda f: (f[0] is not None) * 2 + (f[0] is None and classify(f[2]) is not None))
    per = collections.Counter()
    for cls, what, case, observed in found:
        per[cls] += 1
        if cls is None or per[cls] <= 4:
            ctx.require(False, what, case, observed, cls)
        else:
            ctx.stats["oracle-fail:" + cls] += 1


def replay(ctx, case):
    if case.get("mode") == "script":
        sim, out = run_script(case)
        return {"trace": show(sim.trace, out)}
    if case.get("mode") == "server":
        return {"server": run_server(case)}
    sim, srv, out = run_sys(case)
    line = sys_line(case, sim, srv, out)
    # a witness of a known finding records the defect behaviour; anything else inside the class is a new failure
    oracle(ctx.require, case, sim, srv, out, attributed=("expect" not in case or case["expect"] == line))
    return {"trace": line, "class": classify(case)}
