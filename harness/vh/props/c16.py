"""C16 — SDO transfers carry values byte-for-byte.

Real `Terminal.sdo_read/sdo_write/mbx_send/mbx_recv` on top of the real
`EtherCat.roundtrip`; only the datagram queue is replaced: every datagram is
answered at once by a simulated terminal = mailbox registers + a strict
ETG.1000.6 CoE SDO server (class `Server`, written from the specification).
The terminal object gets its mailbox offsets and sizes from the real
`Terminal.parse_sync_managers`, fed with a sync manager table that describes the
simulated hardware (several table shapes, symmetric and asymmetric mailboxes);
the simulation hands a mail over only with the last byte of the hardware's mailbox.

Three correspondences per composed case, all exact:
  * real master  vs  Lean `Ebv.Sdo` master on the mails the real master received,
  * Python `Server`  vs  Lean `Ebv.SdoServer` on the requests the real master sent,
  * real master ∥ Python server  vs  Lean `Ebv.SdoSystem.system` (the object the theorems speak about),
plus scripted (non-conformant, adversarial) mail lists for the master alone and
adversarial request streams for the server alone.

Histories (mode `hist`): real Terminal objects stay alive over 10-30 steps — configured again through
the real `parse_sync_managers` / `apply_eeprom` with other mailbox sizes and offsets (the simulated
hardware follows the table), several objects with different mailboxes used in turn, transfers that
fail or are cancelled followed by further ones, objects changed between reads, two transfers started
together.  Every transfer is judged by the mailboxes of its terminal's LAST config step; the whole
history is compared with Lean `Ebv.SdoHistory.runOps`.  A failing history is shrunk before it is reported.

The property oracle is the property text: object bytes equal, the call returns,
segment toggles alternate from 0, every message fits its mailbox.  No known
defect class is left (`classify` is constant): the four classes of
findings/C16.json were repaired in /repo (fix: 7fef356, a0eb33f); their former
witnesses are run as ordinary cases on every check.
"""
import asyncio
import collections
import json
import logging
import struct
from pathlib import Path

ID = "C16"
LEAN_MODULES = ["Ebv.Props.C16", "Ebv.Props.C16Config", "Ebv.Props.C16History"]
MODEL_MODULES = ["Ebv.Model.Sdo", "Ebv.Model.SdoServer", "Ebv.Model.SdoSystem", "Ebv.Model.SdoConfig", "Ebv.Model.SdoHistory"]
DRIVER = "Drivers/C16.lean"
THEOREMS = [
    "Ebv.C16.read_expedited_exact", "Ebv.C16.read_normal_exact", "Ebv.C16.read_segmented_exact",
    "Ebv.C16.write_expedited_exact", "Ebv.C16.write_normal_exact", "Ebv.C16.write_complete_exact",
    "Ebv.C16.write_zero_exact",
    "Ebv.C16.fits_mailbox", "Ebv.C16.toggle_alternates",
    "Ebv.C16.read_requests_fit_and_toggle", "Ebv.C16.write_requests_fit_and_toggle", "Ebv.C16.server_responses_fit",
    "Ebv.C16.read_long_run", "Ebv.C16.write_run",
    "Ebv.C16.mailboxes_exact", "Ebv.C16.configure_exact", "Ebv.C16.configure_none",
    "Ebv.C16.xfer_msgs_ok", "Ebv.C16.xfer_write_exact", "Ebv.C16.xfer_read_exact",
    "Ebv.C16.history_present_config", "Ebv.C16.history_write_exact", "Ebv.C16.history_read_exact",
    "Ebv.C16.history_msgs_ok", "Ebv.C16.instances_independent", "Ebv.C16.after_any_transfer_exact",
]
TRUSTED = [
    "hand-written model Ebv.Sdo of Terminal.sdo_read/sdo_write/mbx_send/mbx_recv, tied by exact trace correspondence",
    "Ebv.SdoServer: our reading of the ETG.1000.6 CoE SDO server (trusted, stated); the Python server in "
    "harness/vh/props/c16.py is checked against it on every run",
    "Ebv.SdoSystem.system: composition master||server by causal iteration, checked against the real interleaving",
    "MBXType/CoECmd/ODCmd values regenerated into Ebv.Generated.Consts",
    "Ebv.SdoConfig.configure: the transfer parameters are what Ebv.Eeprom.parseSM (C17's model of parse_sync_managers, "
    "sm_exact) extracts from the case's sync manager table; the driver derives the model's sizes from the table",
    "Ebv.SdoHistory: a Terminal object keeps between two uses its four mailbox attributes and the lock's counter, the "
    "simulated terminal its objects, its mail counter and the transfer it believes to be under way - nothing else, and "
    "nothing shared between terminals; tied by exact correspondence of whole histories run on live Terminal objects "
    "(apply_eeprom's EEPROM read is C17's subject: a config step is modelled by the table it ends up parsing)",
]
ASSUMPTIONS = [
    "the datagram queue behind EtherCat.roundtrip is the only way the SDO code touches the bus (answered in-process)",
    "mailbox sizes 16 <= size < 65536, index < 65536, subindex < 256",
    "the terminal processes a written mailbox at once - written = its last byte was written by an access sequence that "
    "began at its first byte: a full-size message is handed over by its own write, and the one-byte write mbx_send adds "
    "is then denied by the ESC (a buffer access must begin at the start address), otherwise that one-byte write hands "
    "it over; register 0x805 bit 3 is under control of the schedule "
    "(set only while unrelated mail is pending), unrelated mail has a non-CoE mailbox type",
    "a zero-length object is uploaded with a normal response of complete size 0",
    "histories: a transfer is cancelled only between two exchanges (at the mailbox read of an answer or at the 0x805 "
    "poll that follows, with delays as the only schedule), i.e. while the terminal has no answer outstanding and no "
    "message half written; a config step gives the simulated hardware the mailboxes its table describes and ends a transfer the "
    "terminal believed to be under way; transfers started together on one terminal are serialised by its mbx_lock",
]
RULE = ("composed cases: kind in {read,write} x (out,in) mailbox sizes from {24,32,64,128,256} and odd ones {25,31,57,100,255} x subindex/complete access x "
        "lengths 0..3*mbx+9 (every length for small mailboxes, +-3 around every segment boundary and a random sample for the "
        "large ones in the quick tier) x schedules (none / delays / unrelated mail with and without the 0x805 drain) x sync manager "
        "table shape (standard four records, mailboxes only, receive mailbox first, process data first, interleaved, the 0x80-byte "
        "register image with unused managers, managers of unknown kinds anywhere, random upper control bits and status bytes); "
        "scripted cases: random and near-conformant mail lists (bad types, short bodies, 7-byte last segments, aborts); "
        "server cases: the request streams of the composed cases + random request streams; non-trivial = at least one "
        "message sent and a response consumed; "
        "history cases (mode hist): 1-3 Terminal objects that stay alive for 10-30 steps = config (real parse_sync_managers or real "
        "apply_eeprom over a simulated EEPROM; 13 (out,in) size pairs 16..256 incl. odd and asymmetric ones, out/in changed "
        "independently, smaller and larger, mailbox offsets changed too) / the terminal changes an object / transfer (lengths at the "
        "message-count boundaries of the present AND of earlier/other mailboxes; all schedules; object missing; value too long for "
        "the object; cancelled after j answers at the read or the next poll) / two transfers started together on one "
        "or two terminals with answers arriving 0-2 loop iterations late; families reconf (A->B->C on one object), multi (several "
        "objects with different mailboxes used in turn), fail (failed/cancelled transfer then the same object again), repeat (same "
        "object read again after the terminal or a download changed it); every transfer judged by the mailboxes declared by its "
        "terminal's LAST config step")
LEVEL_TEXT = (
    "Lean 4 proof over a hand-written model of sdo_read/sdo_write (the code after fix: 7fef356 and a0eb33f) composed with a "
    "conformant ETG.1000.6 SDO server model: uploads (expedited, one frame, any number of segments incl. a short last one) return "
    "the object byte for byte, downloads (expedited 1..4 bytes, normal, segmented, complete access, the empty value) leave exactly "
    "the value in the object and return - for all contents, all lengths below 2^32, all mailbox sizes 16..65535, indices, counters "
    "and schedules (delays, unrelated mail before every response, 0x805 drain), by induction over the segments that are left; "
    "for every mail script (conformant server or not) all messages fit the receive mailbox and segment toggles alternate from 0; "
    "every server mail fits the send mailbox. All of this for every state the terminal's mailbox service may have been left in "
    "(any mail counter, any transfer believed under way). Histories (Ebv.SdoHistory: any number of Terminal objects, lists of "
    "config / object change / transfer operations of any length, transfers cancelled at any bus access): the mailboxes of an object "
    "are those of its LAST table (history_present_config); after any history a download/upload is exact and every message - also "
    "of failing and cancelled calls - fits the mailbox of the last table with toggles from 0 (history_write_exact, history_read_exact, "
    "history_msgs_ok); terminals are independent (instances_independent); a transfer after a failed or cancelled one is exact "
    "(after_any_transfer_exact). Tied to /repo by exact message-trace correspondence of the real coroutines, single calls and "
    "whole histories on live Terminal objects.")
LEVEL_NOTE = (
    "trusted: Lean kernel + propext/Classical.choice/Quot.sound; hand transcription Ebv.Sdo validated (not verified) by "
    "differential traces; the conformant server is our reading of ETG.1000.6 (expedited answer for 1..4 bytes, normal with complete "
    "size otherwise); the one-byte write after a full-size message is taken to be denied by the ESC (stated assumption); the four former defect classes (findings/C16.json, "
    "fixed) are ordinary cases now and their witnesses are re-run on every check")
TECHNIQUE = "Lean 4 symbolic evaluation/induction over composed master||server model + differential trace correspondence"
DESIGN_REF = "§4 C16"

OUT_OFF, IN_OFF = 0x1000, 0x1400
SIZES = (24, 32, 64, 128, 256)
ODD_SIZES = (25, 31, 57, 100, 255)        # mailboxes need not be a power of two, nor even
INDEX = 0x2000


class Blocked(Exception):
    pass


# ------------------------------------------------------------------------------------------------
# strict CoE SDO server, from ETG.1000.6 §5.6.2 (SDO services) and ETG.1000.4 (mailbox header/errors)

def u16(b, o):
    return b[o] | b[o + 1] << 8


def u32(b, o):
    return b[o] | b[o + 1] << 8 | b[o + 2] << 16 | b[o + 3] << 24


AB_TOGGLE, AB_CMD, AB_NOOBJ, AB_LEN, AB_TOOHIGH = 0x05030000, 0x05040001, 0x06020000, 0x06070010, 0x06070012
MBXERR_UNSUPPORTED, MBXERR_SERVICE, MBXERR_TOOSHORT, MBXERR_INVALIDSIZE = 2, 4, 6, 8


class Server:
    """objects: list of [index, sub, ca, cap, bytes]; one transfer at a time"""

    def __init__(self, out_sz, in_sz, objs):
        self.out_sz, self.in_sz = out_sz, in_sz
        self.objs = [[i, s, bool(ca), cap, bytes(v)] for i, s, ca, cap, v in objs]
        self.cnt = 1
        self.xfer = None

    def find(self, idx, sub, ca):
        for o in self.objs:
            if o[0] == idx and o[1] == sub and o[2] == ca:
                return o
        return None

    def mail(self, typ, body):
        m = struct.pack("<HHBB", len(body), 0, 0, typ | self.cnt << 4) + body
        self.cnt = self.cnt % 7 + 1
        assert len(m) <= self.in_sz, "server built a response that does not fit"
        return [m]

    def mbxerr(self, code):
        return self.mail(0, struct.pack("<HH", 1, code))

    def abort(self, idx, sub, code):
        self.xfer = None
        return self.mail(3, struct.pack("<HBHBI", 2 << 12, 0x80, idx, sub, code))

    def sdores(self, cmd, idx, sub, rest):
        return self.mail(3, struct.pack("<HBHB", 3 << 12, cmd, idx, sub) + rest)

    def handle(self, msg):
        """msg: what was written into the receive mailbox (at most out_sz bytes); returns the mails produced"""
        if len(msg) < 6:
            return []
        dlen, typ = u16(msg, 0), msg[5] & 0xf
        if 6 + dlen > self.out_sz:
            return self.mbxerr(MBXERR_INVALIDSIZE)
        body = msg[6:6 + dlen]
        if len(body) < dlen:                    # fewer bytes written than announced: the rest of the mailbox is zero
            body = body + bytes(dlen - len(body))
        if typ != 3:
            return self.mbxerr(MBXERR_UNSUPPORTED)
        if dlen < 2:
            return self.mbxerr(MBXERR_TOOSHORT)
        if u16(body, 0) >> 12 != 2:
            return self.mbxerr(MBXERR_SERVICE)
        if dlen < 10:
            return self.mbxerr(MBXERR_TOOSHORT)
        cmd = body[2]
        ccs = cmd >> 5
        idx, sub, ca = u16(body, 3), body[5], bool(cmd & 0x10)
        cab = 0x10 if ca else 0
        if ccs == 1:                            # initiate download
            self.xfer = None
            o = self.find(idx, sub, ca)
            if o is None:
                return self.abort(idx, sub, AB_NOOBJ)
            if cmd & 2:                         # expedited
                n = 4 - ((cmd >> 2) & 3) if cmd & 1 else 4
                if n > o[3]:
                    return self.abort(idx, sub, AB_TOOHIGH)
                o[4] = bytes(body[6:6 + n])
                return self.sdores(0x60 | cab, idx, sub, bytes(4))
            if not cmd & 1:                     # normal transfer without size indication
                return self.abort(idx, sub, AB_CMD)
            size, data = u32(body, 6), bytes(body[10:])
            if size > o[3]:
                return self.abort(idx, sub, AB_TOOHIGH)
            if len(data) > size:
                return self.abort(idx, sub, AB_LEN)
            if len(data) == size:
                o[4] = data
            else:
                self.xfer = ["down", idx, sub, ca, size, data, 0]
            return self.sdores(0x60 | cab, idx, sub, bytes(4))
        if ccs == 0:                            # download segment
            if self.xfer is None or self.xfer[0] != "down":
                return self.abort(0, 0, AB_CMD)
            _, xi, xs, xca, size, buf, tog = self.xfer
            t = (cmd >> 4) & 1
            if t != tog:
                return self.abort(xi, xs, AB_TOGGLE)
            seg = bytes(body[3:])
            if dlen == 10:
                seg = seg[:7 - ((cmd >> 1) & 7)]
            buf = buf + seg
            if len(buf) > size:
                return self.abort(xi, xs, AB_LEN)
            if cmd & 1:
                if len(buf) != size:
                    return self.abort(xi, xs, AB_LEN)
                self.find(xi, xs, xca)[4] = buf
                self.xfer = None
            else:
                self.xfer = ["down", xi, xs, xca, size, buf, tog ^ 1]
            return self.mail(3, struct.pack("<HB", 3 << 12, 0x20 | t << 4) + bytes(7))
        if ccs == 2:                            # initiate upload
            self.xfer = None
            o = self.find(idx, sub, ca)
            if o is None:
                return self.abort(idx, sub, AB_NOOBJ)
            v = o[4]
            if 1 <= len(v) <= 4:
                return self.sdores(0x43 | (4 - len(v)) << 2 | cab, idx, sub, v + bytes(4 - len(v)))
            room = self.in_sz - 16
            if len(v) > room:
                self.xfer = ["up", idx, sub, ca, v[room:], 0]
            return self.sdores(0x41 | cab, idx, sub, struct.pack("<I", len(v)) + v[:room])
        if ccs == 3:                            # upload segment
            if self.xfer is None or self.xfer[0] != "up":
                return self.abort(0, 0, AB_CMD)
            _, xi, xs, xca, rest, tog = self.xfer
            t = (cmd >> 4) & 1
            if t != tog:
                return self.abort(xi, xs, AB_TOGGLE)
            room = self.in_sz - 9
            seg, rest = rest[:room], rest[room:]
            last = 0 if rest else 1
            n = 7 - len(seg) if len(seg) < 7 else 0
            self.xfer = ["up", xi, xs, xca, rest, tog ^ 1] if rest else None
            return self.mail(3, struct.pack("<HB", 3 << 12, t << 4 | n << 1 | last) + seg + bytes(n))
        if ccs == 4:                            # abort transfer (from the client)
            self.xfer = None
            return []
        return self.abort(0, 0, AB_CMD)

    def show_objs(self):
        return ",".join(f"{i}:{s}:{int(ca)}:{cap}:{v.hex()}" for i, s, ca, cap, v in self.objs)


# ------------------------------------------------------------------------------------------------
# the simulated terminal behind the datagram queue

class Sim:
    """answers the datagrams of one sdo_read/sdo_write call.
    composed mode (server given): slot k of the schedule belongs to the k-th mbx_send
    scripted mode: `mails` is all the terminal will ever have in its send mailbox"""

    def __init__(self, out_sz, in_sz, fulls, mails=(), server=None, sched=(), out_off=None, in_off=None, cut=None, queue=None):
        self.out_sz, self.in_sz = out_sz, in_sz
        self.out_off = OUT_OFF if out_off is None else out_off      # where the hardware's mailboxes are
        self.in_off = IN_OFF if in_off is None else in_off
        self.fulls = list(fulls)
        self.queue = collections.deque() if queue is None else queue     # the send mailbox and what waits behind it
        self.queue.extend([d, bytes(r)] for d, r in mails)
        self.server, self.sched = server, list(sched)
        self.trace, self.received, self.requests, self.responses = [], [], [], []
        self.pending = None
        self.nsend = 0
        self.npoll = 0
        self.ndgram = 0
        # cut = (j, e): the call is cancelled at the await of a bus access (the access itself takes place): for j >= 1
        # the e-th one counted from the read of the j-th mail (e = 0: that read), for j = 0 the e-th one of the call
        self.cut, self.nread, self.after, self.cancel_now = cut, 0, 0, False

    def datagram(self, cmd, out, pos, off):
        res = self.access(cmd, out, pos, off)
        if self.cut is not None:
            j, e = self.cut
            if self.nread == j:
                if self.after == e:
                    self.cancel_now, self.cut = True, None
                self.after += 1
        return res

    def pad(self, m):
        return (m + bytes(self.in_sz))[:self.in_sz]

    def deliver(self):
        """the terminal takes the mail out of its receive mailbox and answers"""
        msg, self.pending = self.pending, None
        k, self.nsend = self.nsend, self.nsend + 1
        if self.server is not None:
            req = msg[:self.out_sz]
            self.requests.append(req)
            rs = self.server.handle(req)
            self.responses.append(rs)
            delay = self.sched[k]["delay"] if k < len(self.sched) else 0
            self.queue.extend([delay, m] for m in rs)

    def access(self, cmd, out, pos, off):
        from ebpfcat.ethercat import ECCmd
        OUT_OFF, IN_OFF = self.out_off, self.in_off
        n = len(out)
        self.ndgram += 1
        if self.ndgram > 4000:
            raise Blocked()             # the call keeps the bus busy without getting anywhere
        if cmd is ECCmd.FPRD and off == 0x805 and n == 1:
            # unrelated mail of slot k is in the send mailbox when the k-th mbx_send starts (the master cannot tell
            # this from "since the previous request was handed over": it reads nothing in between)
            k, self.npoll = self.npoll, self.npoll + 1
            if self.server is not None and k < len(self.sched):
                self.queue.extend([0, m] for m in self.sched[k]["pre"])
            full = self.fulls.pop(0) if self.fulls else False
            self.trace.append("s8" if full else "s0")
            return bytes([8 if full else 0])
        if cmd is ECCmd.FPRD and off == 0x80D and n == 1:
            if not self.queue:
                raise Blocked()
            if self.queue[0][0] > 0:
                self.queue[0][0] -= 1
                self.trace.append("p0")
                return bytes([0])
            self.trace.append("p8")
            return bytes([8])
        if cmd is ECCmd.FPRD and off == IN_OFF and n == self.in_sz:
            d, m = self.queue.popleft()
            self.trace.append("r")
            self.received.append(m)
            self.nread, self.after = self.nread + 1, 0
            return self.pad(m)
        if cmd is ECCmd.FPWR and off == OUT_OFF:
            self.trace.append("w" + out.hex())
            self.pending = bytes(out)
            if n >= self.out_sz:        # the write reaches the mailbox's last byte (a full-size segment): handed over now
                self.deliver()
            return out
        if cmd is ECCmd.FPWR and off == OUT_OFF + self.out_sz - 1 and n == 1:
            # the last byte alone: hands over what was written from the start of the mailbox; when that was handed over
            # already, the ESC denies the access (an access to a mailbox buffer must begin at its start address)
            self.trace.append("k")
            if self.pending is not None:
                self.deliver()
            return out
        # accesses inside the mailboxes that are not the ones a mail is handed over with: the memory is read / written,
        # but a mail only changes hands with the LAST byte of its mailbox (the hardware's sizes, whatever the master thinks)
        if cmd is ECCmd.FPRD and IN_OFF <= off and off + n <= IN_OFF + self.in_sz:
            if not self.queue:
                raise Blocked()
            self.trace.append(f"r@{off - IN_OFF}+{n}")
            m = self.pad(self.queue[0][1])[off - IN_OFF:off - IN_OFF + n]
            if off + n == IN_OFF + self.in_sz:
                self.received.append(self.queue.popleft()[1])
            return m
        if cmd is ECCmd.FPWR and OUT_OFF <= off and off + n <= OUT_OFF + self.out_sz:
            self.trace.append(f"w@{off - OUT_OFF}:" + out.hex())
            if off + n == OUT_OFF + self.out_sz:
                raise AssertionError("a mail handed over in a way this simulation does not know")
            return out
        raise AssertionError(f"unexpected bus access {cmd} {off:#x} len {n}")


# ------------------------------------------------------------------------------------------------
# the terminal's configuration: the sync manager table `Terminal.parse_sync_managers` reads the mailbox
# offsets and sizes from (category 41 of the EEPROM in apply_eeprom, the registers 0x800.. in gentle_initialize)

def sm_record(off, size, ctrl, rest=(0, 1, 0)):
    return struct.pack("<HHBBBB", off, size, ctrl, *rest)


def standard_sm(out_sz, in_sz):
    return sm_record(OUT_OFF, out_sz, 0x26) + sm_record(IN_OFF, in_sz, 0x22) + sm_record(0x1800, 0, 0x24) + sm_record(0x1c00, 0, 0x20)


def make_sm(rng, out_sz, in_sz, OUT_OFF=OUT_OFF, IN_OFF=IN_OFF):
    """a table that describes the simulated hardware (send mailbox out_sz bytes at OUT_OFF, receive mailbox in_sz bytes at
    IN_OFF) in one of the shapes such tables come in"""
    hi = lambda: rng.choice([0x00, 0x20, 0x20, 0x30, 0x60])
    rest = lambda: (rng.randrange(256), rng.randrange(2), rng.randrange(4))
    mo, mi = sm_record(OUT_OFF, out_sz, hi() | 6, rest()), sm_record(IN_OFF, in_sz, hi() | 2, rest())
    po = sm_record(0x1800, rng.choice([0, 0, 2, 8, out_sz, in_sz]), hi() | 4, rest())
    pi = sm_record(0x1c00, rng.choice([0, 0, 1, 6, out_sz, in_sz]), hi() | 0, rest())
    shape = rng.choice(["std", "std", "mbx", "rev", "pdo-first", "regs", "split"])
    if shape == "std":
        recs = [mo, mi, po, pi]
    elif shape == "mbx":
        recs = [mo, mi]
    elif shape == "rev":
        recs = [mi, mo] + ([pi, po] if rng.random() < 0.5 else [])
    elif shape == "pdo-first":
        recs = [po, pi, mo, mi]
    elif shape == "regs":           # the 0x80 bytes of sync manager registers: unused managers read as zeros
        recs = [mo, mi, po, pi] + [bytes(8)] * 12
    else:
        recs = [mo, po, mi, pi]
    # managers of a kind the driver does not know (control nibble not 0/2/4/6) are skipped wherever they stand
    for _ in range(rng.choice([0, 0, 1, 2])):
        junk = sm_record(rng.choice([OUT_OFF, IN_OFF, 0x1100, 0]), rng.choice([0, 16, out_sz + 8, in_sz + 8, 512]),
                         hi() | rng.choice([1, 3, 5, 7, 8, 9, 10, 11, 12, 13, 14, 15]), rest())
        recs.insert(rng.randrange(len(recs) + 1), junk)
    return b"".join(recs)


class Queue:
    """stands in for EtherCat.send_queue: the datagram is answered immediately"""

    def __init__(self, sim):
        self.sim = sim

    def put_nowait(self, item):
        cmd, out, idx, pos, off, future = item
        try:
            future.set_result(self.sim.datagram(cmd, bytes(out), pos, off))
        except Exception as e:
            future.set_exception(e)


_loop = None


def call(kind, sim, out_sz, in_sz, index, sub, cnt, value, sm=None):
    """run the real sdo_read / sdo_write on a terminal object configured by the real parse_sync_managers from the
    sync manager table `sm`; returns the canonical outcome"""
    global _loop
    from ebpfcat.ethercat import EtherCat, Terminal, EtherCatError
    from ebpfcat.lock import MailboxLock
    if _loop is None:
        _loop = asyncio.new_event_loop()
    ec = EtherCat.__new__(EtherCat)
    ec.send_queue = Queue(sim)
    t = Terminal(ec)
    t.position = 5
    t.name = "T5"

    async def go():
        t.parse_sync_managers(standard_sm(out_sz, in_sz) if sm is None else sm)
        t.mbx_lock = MailboxLock()
        t.mbx_lock.counter = cnt
        if kind == "read":
            return await t.sdo_read(index, sub)
        return await t.sdo_write(value, index, sub)

    logging.disable(logging.CRITICAL)
    try:
        ret = _loop.run_until_complete(go())
        if kind == "read":
            return "ok:" + bytes(ret).hex()
        return "ok:" if ret is None else "other:returned"
    except Blocked:
        return "blocked"
    except AssertionError:
        return "assertion"
    except EtherCatError:
        return "ethercat-error"
    except TypeError:
        return "type-error"
    except NameError:
        return "name-error"
    except ValueError:
        return "value-error"
    except struct.error:
        return "struct-error"
    except Exception as e:
        return "other:" + type(e).__name__
    finally:
        logging.disable(logging.NOTSET)


def show(trace, out):
    return " ".join(trace) + " | " + out


# ------------------------------------------------------------------------------------------------
# cases

def key_of(case):
    sub = case["sub"]
    return (case["index"], 1 if sub is None else sub, sub is None)


def sm_of(case):
    return bytes.fromhex(case["sm"]) if "sm" in case else None


def run_sys(case):
    """composed run: real master against the Python server"""
    val = bytes.fromhex(case["value"])
    idx, sub, ca = key_of(case)
    stored = val if case["kind"] == "read" else bytes.fromhex(case["init"])
    srv = Server(case["out"], case["in"], [[idx, sub, ca, case["cap"], stored]])
    sched = [{"full": s["full"], "delay": s["delay"], "pre": [bytes.fromhex(m) for m in s["pre"]]} for s in case["sched"]]
    sim = Sim(case["out"], case["in"], [s["full"] for s in sched], server=srv, sched=sched)
    out = call(case["kind"], sim, case["out"], case["in"], case["index"], case["sub"], case["cnt"], val, sm_of(case))
    return sim, srv, out


def run_script(case):
    sim = Sim(case["out"], case["in"], case["fulls"], mails=[(d, bytes.fromhex(m)) for d, m in case["mails"]])
    out = call(case["kind"], sim, case["out"], case["in"], case["index"], case["sub"], case["cnt"],
               bytes.fromhex(case["value"]), sm_of(case))
    return sim, out


def run_server(case):
    srv = Server(case["out"], case["in"], [[i, s, ca, cap, bytes.fromhex(v)] for i, s, ca, cap, v in case["objs"]])
    outs = []
    for r in case["reqs"]:
        outs.append("+".join(m.hex() for m in srv.handle(bytes.fromhex(r))) or "-")
    return " ".join(outs) + " | " + srv.show_objs()


def classify(case):
    """known-defect classes, decided on the input alone: none are left since the fix: commits 7fef356 / a0eb33f"""
    return None


def sdo_requests(sim):
    """(ccs, toggle) of every CoE SDO request the master wrote"""
    res = []
    for m in sim.requests:
        if len(m) >= 9 and m[5] & 0xf == 3 and u16(m, 6) >> 12 == 2:
            res.append((m[8] >> 5, (m[8] >> 4) & 1))
    return res


def oracle(require, case, sim, srv, out, attributed=True):
    """the property text on the implementation's observable behaviour (`require` = ctx.require or a buffer).
    `attributed`: the implementation showed exactly the recorded defect behaviour of its class"""
    cls = classify(case) if attributed else None
    obs = show(sim.trace, out)
    val = bytes.fromhex(case["value"])
    ok = True
    for m in sim.trace:
        if m[0] == "w":
            ok &= require(len(m) // 2 <= case["out"], "a message does not fit the receive mailbox", case, obs, cls)
    for rs in sim.responses:
        for m in rs:
            ok &= require(len(m) <= case["in"], "a response does not fit the send mailbox", case, obs, None)
    segs = [t for ccs, t in sdo_requests(sim) if ccs in (0, 3)]
    ok &= require(segs == [i & 1 for i in range(len(segs))], "segment toggles do not alternate from 0", case, obs, cls)
    if case["kind"] == "read":
        ok &= require(out == "ok:" + val.hex(), "sdo_read did not return the object's bytes", case, obs, cls)
    else:
        stored = srv.find(*key_of(case))[4]
        ok &= require(stored == val, "the object does not hold the written bytes", case,
                      obs + " | obj:" + stored.hex(), cls)
        ok &= require(out == "ok:", "sdo_write did not return although nothing went wrong on the bus", case, obs, cls)
    return ok


def pattern(rng, n):
    k = rng.randrange(1, 251)
    a = rng.randrange(0, 256)
    return bytes((a + i * k) % 256 for i in range(n))


def unrelated(rng, in_sz):
    """a mail of a non-CoE type that fits the send mailbox"""
    typ = rng.choice([0, 1, 2, 4, 5, 15])
    body = pattern(rng, rng.randrange(0, min(in_sz - 6, 12) + 1))
    return struct.pack("<HHBB", len(body), 0, 0, typ | rng.randrange(1, 8) << 4) + body


def schedule(rng, in_sz, style, slots):
    sched = []
    for k in range(slots):
        if style == "plain":
            break
        if style == "delay":
            sched.append({"full": False, "pre": [], "delay": rng.randrange(0, 4)})
        else:
            pre = [unrelated(rng, in_sz).hex() for _ in range(rng.choice([0, 1, 1, 2]))] if k == 0 or rng.random() < 0.3 else []
            full = bool(pre) and (style == "drain" or rng.random() < 0.3)
            sched.append({"full": full, "pre": pre, "delay": rng.randrange(0, 3)})
    return sched


def boundaries(out_sz, in_sz, kind):
    """lengths at which the number of frames changes"""
    first = (in_sz if kind == "read" else out_sz) - 16
    seg = (in_sz if kind == "read" else out_sz) - 9
    top = 3 * max(out_sz, in_sz) + 9
    bs = {0, 4, first, top}
    k = first
    while k <= top:
        bs.add(k)
        for short in range(0, 8):
            bs.add(k + short)
        k += seg
    return sorted(b for b in bs if 0 <= b <= top)


def sys_case(rng, kind, out_sz, in_sz, sub, n, style):
    val = pattern(rng, n)
    slots = 2 + n // max(1, min(out_sz, in_sz) - 9)
    c = {"mode": "sys", "kind": kind, "out": out_sz, "in": in_sz, "index": INDEX if rng.random() < 0.7 else rng.randrange(0x1000, 0x10000),
         "sub": sub, "cnt": rng.randrange(0, 8), "value": val.hex(), "cap": n + rng.randrange(0, 3),
         "sched": schedule(rng, in_sz, style, min(slots, 8)), "sm": make_sm(rng, out_sz, in_sz).hex()}
    if c["sub"] is not None and rng.random() < 0.3:
        c["sub"] = rng.randrange(0, 256)
    if kind == "write":
        c["init"] = pattern(rng, rng.randrange(0, 7)).hex()
    return c


def gen_sys(ctx):
    rng = ctx.rng
    cases = []
    pairs = [(s, s) for s in SIZES] + [(24, 64), (64, 24), (32, 256), (256, 32), (128, 64), (25, 31), (31, 25), (57, 57)]
    for out_sz, in_sz in pairs:
        small = max(out_sz, in_sz) <= ctx.n(32, 256) and out_sz == in_sz
        top = 3 * max(out_sz, in_sz) + 9
        for kind in ("read", "write"):
            for sub in (1, None):
                if small:
                    lens = list(range(0, top + 1))
                else:
                    lens = set(range(0, 13))
                    for b in boundaries(out_sz, in_sz, kind):
                        lens.update(range(max(0, b - 3), min(top, b + 3) + 1))
                    lens.update(rng.randrange(0, top + 1) for _ in range(ctx.n(6, 60)))
                    lens = sorted(lens)
                for n in lens:
                    cases.append(sys_case(rng, kind, out_sz, in_sz, sub, n, "plain"))
                    r = rng.random()
                    if n <= 12 or r < ctx.n(0.12, 1.0):
                        cases.append(sys_case(rng, kind, out_sz, in_sz, sub, n, rng.choice(["delay", "mail", "mail", "drain"])))
    return cases


def gen_working(ctx):
    """the modes the code gets right, with everything else varied: index, subindex, counter, sizes, schedules"""
    rng = ctx.rng
    cases = []
    for _ in range(ctx.n(1000, 40000)):
        kind = rng.choice(["read", "read", "write"])
        out_sz, in_sz = rng.choice(SIZES + ODD_SIZES), rng.choice(SIZES + ODD_SIZES)
        if kind == "read":
            sub = rng.choice([None, None, 0, 1, 2, rng.randrange(0, 256)])
            n = rng.choice([0, 1, 2, 3, 4, 5, 6, in_sz - 17, in_sz - 16, rng.randrange(0, in_sz - 15)])
            style = rng.choice(["plain", "delay", "mail", "mail", "drain"])
        else:
            sub = rng.choice([0, 1, 2, rng.randrange(0, 256)])
            n = rng.randrange(1, 5)
            style = rng.choice(["plain", "delay", "delay", "drain1"])
        c = sys_case(rng, kind, out_sz, in_sz, sub, n, style if style != "drain1" else "delay")
        c["sub"] = sub
        c["index"] = rng.choice([INDEX, 0x1c12, 0xffff, 0, rng.randrange(0, 0x10000)])
        if style == "drain1":
            c["sched"] = [{"full": True, "pre": [unrelated(rng, in_sz).hex()], "delay": rng.randrange(0, 3)}]
        cases.append(c)
    return cases


def coe_mail(rng, body, typ=3):
    return struct.pack("<HHBB", len(body), 0, 0, typ | rng.randrange(0, 8) << 4) + body


def gen_script(rng):
    """mail lists that are not what a conformant server sends: validates the master model on every branch"""
    kind = rng.choice(["read", "write"])
    out_sz, in_sz = rng.choice(SIZES + ODD_SIZES), rng.choice(SIZES + ODD_SIZES)
    index = rng.choice([INDEX, 0x1c12, 0x6000])
    sub = rng.choice([None, 0, 1, 2, 200])
    n = rng.choice([0, 1, 2, 3, 4, 5, 6, 7, 8, 9, 10, 11, 17, 30, 60, 300])
    val = pattern(rng, n)
    mails = []
    s1 = 1 if sub is None else sub

    def idx():
        return index if rng.random() < 0.9 else index ^ 1

    def sb():
        return s1 if rng.random() < 0.9 else (s1 + 1) & 0xff

    for _ in range(rng.randrange(0, 7)):
        r = rng.random()
        room = in_sz - 6
        if r < 0.12:
            m = unrelated(rng, in_sz)
        elif r < 0.17:
            m = struct.pack("<HHBB", rng.randrange(0, 5), 0, 0, rng.choice([6, 7, 9, 14]))
        elif r < 0.25:
            m = coe_mail(rng, pattern(rng, rng.randrange(0, min(room, 12) + 1)))
        elif r < 0.32:
            m = coe_mail(rng, struct.pack("<HBHBI", 2 << 12, 0x80, idx(), sb(), 0x06020000))
        elif kind == "read":
            q = rng.random()
            if q < 0.25:
                k = rng.randrange(0, 4)
                m = coe_mail(rng, struct.pack("<HBHB", 3 << 12, 0x43 | k << 2, idx(), sb()) + pattern(rng, 4))
            elif q < 0.55:
                k = rng.randrange(0, min(room - 10, 40) + 1)
                size = rng.choice([k, k, k + 7, k + 4, k + rng.randrange(0, 30), max(0, k - 1)])
                m = coe_mail(rng, struct.pack("<HBHBI", 3 << 12, 0x41, idx(), sb(), size) + pattern(rng, k))
            else:
                k = rng.choice([0, 1, 4, 4, 4, 7, 7, 7, 8, 12, min(room - 3, 30)])
                k = min(k, room - 3)
                cmd = rng.choice([0, 1, 1]) | rng.randrange(0, 8) << 1 | rng.choice([0, 0, 0x10]) | rng.choice([0, 0, 0, 0x20, 0x80])
                coe = 3 << 12 if rng.random() < 0.93 else 2 << 12
                m = coe_mail(rng, struct.pack("<HB", coe, cmd) + pattern(rng, k))
        else:
            q = rng.random()
            coe = 3 << 12 if rng.random() < 0.9 else 2 << 12
            if q < 0.6:
                m = coe_mail(rng, struct.pack("<HBHB4x", coe, 0x60, idx(), sb()))
            elif q < 0.8:
                k = rng.randrange(0, min(room - 6, 60) + 1)
                m = coe_mail(rng, struct.pack("<HBHB", coe, 0x60, idx(), sb()) + pattern(rng, k))
            else:
                m = coe_mail(rng, struct.pack("<HB", coe, 0x20 | rng.choice([0, 0x10])) + bytes(7))
        mails.append([rng.choice([0, 0, 0, 1, 2]), m[:in_sz].hex()])
    fulls = [rng.random() < 0.15 for _ in range(rng.randrange(0, 5))]
    return {"mode": "script", "kind": kind, "out": out_sz, "in": in_sz, "index": index, "sub": sub,
            "cnt": rng.randrange(0, 8), "value": val.hex(), "fulls": fulls, "mails": mails,
            "sm": make_sm(rng, out_sz, in_sz).hex()}


def gen_server(rng):
    """request streams, mostly protocol-shaped, with wrong toggles/sizes/objects and mailbox-level faults"""
    out_sz, in_sz = rng.choice(SIZES), rng.choice(SIZES)
    objs = []
    for i in range(rng.randrange(1, 4)):
        n = rng.choice([0, 1, 2, 4, 5, 7, 8, 9, 20, in_sz - 16, in_sz - 15, 2 * in_sz, 3 * in_sz + 5])
        objs.append([INDEX + i, rng.choice([0, 1, 2]), rng.random() < 0.3, n + rng.randrange(0, 20), pattern(rng, n).hex()])
    reqs = []
    tog = 0
    for _ in range(rng.randrange(1, 12)):
        o = rng.choice(objs)
        idx = o[0] if rng.random() < 0.9 else o[0] + 7
        sub = o[1] if rng.random() < 0.9 else o[1] + 1
        cab = 0x10 if (o[2] if rng.random() < 0.9 else not o[2]) else 0
        r = rng.random()
        typ, coe = 3, 2 << 12
        if r < 0.2:
            body = struct.pack("<HBHB4x", coe, 0x40 | cab, idx, sub)
            tog = 0
        elif r < 0.45:
            body = struct.pack("<HB", coe, 0x60 | tog << 4) + (bytes(7) if rng.random() < 0.5 else struct.pack("<HB4x", idx, sub))
            tog ^= 1 if rng.random() < 0.9 else 0
        elif r < 0.6:
            n = rng.randrange(0, 5)
            cmd = 0x23 | cab | ((4 - n) << 2 & 0xc) if rng.random() < 0.8 else 0x22 | cab
            body = struct.pack("<HBHB", coe, cmd, idx, sub) + pattern(rng, n) + bytes(4 - n)
        elif r < 0.8:
            n = rng.randrange(0, max(1, out_sz - 16) + 1)
            size = rng.choice([n, n, n, n + 7, n + 3, n + out_sz, max(0, n - 1), 0])
            body = struct.pack("<HBHBI", coe, rng.choice([0x21, 0x21, 0x21, 0x20]) | cab, idx, sub, size) + pattern(rng, n)
            tog = 0
        elif r < 0.93:
            n = rng.choice([0, 1, 3, 6, 7, 7, 8, out_sz - 9, out_sz - 9, out_sz - 8])
            last = rng.choice([0, 1, 1])
            if n < 7:
                cmd, d = last | (7 - n) << 1 | tog << 4, pattern(rng, n) + bytes(7 - n)
            else:
                cmd, d = last | tog << 4, pattern(rng, n)
            body = struct.pack("<HB", coe, cmd) + d
            tog ^= 1 if rng.random() < 0.9 else 0
        else:
            q = rng.random()
            if q < 0.25:
                body, typ = pattern(rng, rng.randrange(0, 12)), rng.choice([0, 1, 2, 4, 5, 15])
            elif q < 0.5:
                body = struct.pack("<H", rng.choice([1, 3, 8]) << 12) + pattern(rng, rng.randrange(0, 10))
            elif q < 0.75:
                body = struct.pack("<HB", coe, rng.choice([0x80, 0xa0, 0xe0])) + bytes(7)
            else:
                body = struct.pack("<HB", coe, 0x40)[:rng.randrange(0, 4)] + bytes(rng.randrange(0, 5))
        msg = struct.pack("<HHBB", len(body), 0, 0, typ | rng.randrange(0, 8) << 4) + body
        reqs.append(msg[:out_sz].hex())
    return {"mode": "server", "out": out_sz, "in": in_sz, "objs": objs, "reqs": reqs}


def script_of(case, sim):
    """the scripted twin of a composed run: the mails the master got, as it got them"""
    got = sim.received + [m for _, m in sim.queue]
    delays = []
    fulls = [s["full"] for s in case["sched"]]
    # reconstruct the delays as scheduled: slot k's delay on the responses to request k, 0 on unrelated mail
    plan = []
    for k in range(max(len(case["sched"]), len(sim.responses)) + 1):
        if k < len(case["sched"]):
            plan += [0] * len(case["sched"][k]["pre"])
        if k < len(sim.responses):
            plan += [case["sched"][k]["delay"] if k < len(case["sched"]) else 0] * len(sim.responses[k])
        else:
            break
    delays = plan[:len(got)]
    s2 = {"mode": "script", "kind": case["kind"], "out": case["out"], "in": case["in"], "index": case["index"],
          "sub": case["sub"], "cnt": case["cnt"], "value": case["value"], "fulls": fulls,
          "mails": [[d, m.hex()] for d, m in zip(delays, got)]}
    if "sm" in case:
        s2["sm"] = case["sm"]
    return s2


def server_of(case, sim):
    idx, sub, ca = key_of(case)
    stored = case["value"] if case["kind"] == "read" else case["init"]
    return {"mode": "server", "out": case["out"], "in": case["in"], "objs": [[idx, sub, ca, case["cap"], stored]],
            "reqs": [r.hex() for r in sim.requests]}


def sys_line(case, sim, srv, out):
    return show(sim.trace, out) + " | obj:" + srv.find(*key_of(case))[4].hex()


def drive_chunks(ctx, lines, parts=6):
    """ctx.drive on interleaved slices, side by side (the driver is a one-line-in, one-line-out filter)"""
    import concurrent.futures
    chunks = [lines[k::parts] for k in range(parts)]
    ctx.lean.locked()        # no rebuild of the imported modules by a concurrent check while the driver runs
    try:
        with concurrent.futures.ThreadPoolExecutor(max_workers=parts) as ex:
            outs = list(ex.map(lambda ch: ctx.drive(DRIVER, ch, "sdo") if ch else [], chunks))
    finally:
        ctx.lean.unlock()
    if any(o is None for o in outs):
        return None
    res = [None] * len(lines)
    for k, o in enumerate(outs):
        res[k::parts] = o
    return res


# ------------------------------------------------------------------------------------------------
# histories: Terminal objects that stay alive and are used again — re-configured with other mailboxes, several of them
# side by side, after failed and cancelled transfers, two transfers started together

POS0 = 0x3e9


class Hw:
    """the simulated hardware of one terminal over a whole history: the object dictionary and the mailbox service
    (`Server`) persist; `configure` gives it the mailboxes the sync manager table of a config step describes"""

    def __init__(self, objs):
        self.server = Server(0, 0, objs)
        self.out_off = self.in_off = self.out_sz = self.in_sz = None
        self.image = b""
        self.ee_addr = 0
        self.sims = collections.deque()          # the transfers that are under way or waiting, in the order they were started
        self.queue = collections.deque()         # mail the terminal has for the master: it stays until it is read
        self.sm_written = []

    def configure(self, st):
        self.out_off, self.out_sz, self.in_off, self.in_sz = st["out_off"], st["out"], st["in_off"], st["in"]
        self.server.out_sz, self.server.in_sz = st["out"], st["in"]
        self.server.xfer = None                  # the mailboxes were set up anew: no transfer is under way,
        self.queue.clear()                       # no mail waits
        # the EEPROM as apply_eeprom reads it: 0x80 bytes of header, a strings category, category 41 = the table
        sm = bytes.fromhex(st["sm"])
        self.image = bytes(0x80) + struct.pack("<HH", 10, 2) + b"\x01\x02ab" + struct.pack("<HH", 41, len(sm) // 2) + sm \
            + struct.pack("<HH", 0xffff, 0xffff)

    def datagram(self, cmd, out, pos, off):
        from ebpfcat.ethercat import ECCmd
        n = len(out)
        if off == 0x502:                         # EEPROM interface, 8 bytes at a time
            if cmd is ECCmd.FPWR:
                self.ee_addr = u32(out, 2) if n >= 6 else self.ee_addr
                return out
            data = (self.image[2 * self.ee_addr:2 * self.ee_addr + 8] + b"\xff" * 8)[:8]
            return (struct.pack("<HI", 0x40, self.ee_addr) + data + bytes(n))[:n]
        if cmd is ECCmd.FPWR and 0x800 <= off and off + n <= 0xa00:      # the sync manager registers (the table may have spare records)
            self.sm_written.append((off, bytes(out)))
            return out
        if not self.sims:
            raise AssertionError(f"bus access {cmd} {off:#x} len {n} while no transfer is under way")
        return self.sims[0].datagram(cmd, out, pos, off)


class HQueue:
    """stands in for EtherCat.send_queue in a history: the datagram takes effect at once at the terminal it is addressed
    to; `lag` is None: the answer is there at once, else the answer arrives lag[k] loop iterations later (so that tasks
    started together interleave at every await)"""

    def __init__(self, hws):
        self.hws, self.lag, self.k = hws, None, 0

    def put_nowait(self, item):
        cmd, out, idx, pos, off, future = item
        hw = self.hws.get(pos)
        try:
            if hw is None:
                raise AssertionError(f"datagram for position {pos}: no such terminal")
            res, exc = hw.datagram(cmd, bytes(out), pos, off), None
        except Exception as e:
            res, exc = None, e
        sim = hw.sims[0] if hw is not None and hw.sims else None
        if exc is None and sim is not None and sim.cancel_now:
            sim.cancel_now = False
            future.cancel()                       # the await of this datagram raises CancelledError
            return
        done = (lambda: future.set_exception(exc)) if exc is not None else (lambda: future.set_result(res))
        if self.lag is None:
            return done()
        n, self.k = self.lag[self.k % len(self.lag)], self.k + 1
        loop = asyncio.get_event_loop()

        def later(left):
            if future.cancelled():
                return
            done() if left <= 0 else loop.call_soon(later, left - 1)
        loop.call_soon(later, n)


def outcome_of(kind, fut_result, exc):
    from ebpfcat.ethercat import EtherCatError
    if exc is None:
        if kind == "read":
            return "ok:" + bytes(fut_result).hex()
        return "ok:" if fut_result is None else "other:returned"
    for typ, name in ((Blocked, "blocked"), (asyncio.CancelledError, "cancelled"), (AssertionError, "assertion"),
                      (EtherCatError, "ethercat-error"), (TypeError, "type-error"), (NameError, "name-error"),
                      (ValueError, "value-error"), (struct.error, "struct-error")):
        if isinstance(exc, typ):
            return name
    return "other:" + type(exc).__name__


def hist_key(st):
    return (st["index"], 1 if st["sub"] is None else st["sub"], st["sub"] is None)


def run_hist(case):
    """a history on real Terminal objects that stay alive from the first step to the last; returns one record per step"""
    global _loop
    from ebpfcat.ethercat import EtherCat, Terminal
    if _loop is None:
        _loop = asyncio.new_event_loop()
    asyncio.set_event_loop(_loop)
    hws = {POS0 + i: Hw([]) for i in range(len(case["objs"]))}
    for hw, objs in zip(hws.values(), case["objs"]):
        hw.server.objs = [[i, s, bool(ca), cap, bytes.fromhex(v)] for i, s, ca, cap, v in objs]
    ec = EtherCat("sim")
    queue = ec.send_queue = HQueue(hws)
    terms = []
    for i, pos in enumerate(hws):
        t = Terminal(ec)
        t.position, t.name = pos, f"T{i}"
        t.mbx_lock = ec.get_mbx_lock(pos)              # as Terminal.initialize does
        t.mbx_lock.counter = case["cnt"][i]
        terms.append(t)
    recs = []

    async def transfer(st, rec):
        t, hw = terms[st["t"]], hws[POS0 + st["t"]]
        sched = [{"full": s["full"], "delay": s["delay"], "pre": [bytes.fromhex(m) for m in s["pre"]]} for s in st["sched"]]
        sim = Sim(hw.out_sz, hw.in_sz, [s["full"] for s in sched], server=hw.server, sched=sched,
                  out_off=hw.out_off, in_off=hw.in_off, cut=tuple(st["cut"]) if st.get("cut") else None, queue=hw.queue)
        rec["sim"] = sim
        hw.sims.append(sim)
        res = exc = None
        try:
            if st["kind"] == "read":
                res = await t.sdo_read(st["index"], st["sub"])
            else:
                res = await t.sdo_write(bytes.fromhex(st["value"]), st["index"], st["sub"])
        except BaseException as e:      # CancelledError included: it is an outcome here
            exc = e
        finally:
            hw.sims.remove(sim)          # the next transfer on this terminal has the mailboxes from here on
        rec["out"] = outcome_of(st["kind"], res, exc)
        o = hw.server.find(*hist_key(st))
        rec["obj"] = None if o is None else o[4]

    async def go():
        steps, i = case["steps"], 0
        while i < len(steps):
            st = steps[i]
            t, hw = terms[st["t"]], hws[POS0 + st["t"]]
            rec = {"st": st, "hw": (hw.out_sz, hw.in_sz)}
            if st["op"] == "config":
                hw.configure(st)
                rec["hw"] = (hw.out_sz, hw.in_sz)
                try:
                    if st.get("via") == "eeprom":
                        await t.apply_eeprom()
                    else:
                        t.parse_sync_managers(bytes.fromhex(st["sm"]))
                    rec["out"] = "cfg:" + ":".join(str(getattr(t, a, None)) for a in
                                                   ("mbx_out_off", "mbx_out_sz", "mbx_in_off", "mbx_in_sz"))
                except Exception as e:
                    rec["out"] = "cfg-failed:" + type(e).__name__
                recs.append(rec)
            elif st["op"] == "set":                     # the terminal itself changes the object
                o = hw.server.find(st["index"], st["sub"], st["ca"])
                if o is not None:
                    o[4] = bytes.fromhex(st["value"])
                rec["out"] = "set"
                recs.append(rec)
            else:
                group = [(st, rec)]
                if st.get("par") and i + 1 < len(steps) and steps[i + 1]["op"] == "xfer":
                    i += 1
                    h2 = hws[POS0 + steps[i]["t"]]
                    group.append((steps[i], {"st": steps[i], "hw": (h2.out_sz, h2.in_sz)}))
                for s, r in group:
                    o = hws[POS0 + s["t"]].server.find(*hist_key(s))
                    r["before"] = None if o is None else o[4]
                if len(group) == 1:
                    await transfer(st, rec)
                else:
                    queue.lag, queue.k = st.get("lag") or [0], 0
                    try:
                        await asyncio.gather(*[transfer(s, r) for s, r in group])
                    finally:
                        queue.lag = None
                    if group[0][0]["t"] == group[1][0]["t"] and group[0][0]["kind"] == "write" \
                            and hist_key(group[0][0]) == hist_key(group[1][0]):
                        group[1][1]["before"] = group[0][1]["obj"]      # the lock serialises them in this order
                recs.extend(r for _, r in group)
            i += 1

    logging.disable(logging.CRITICAL)
    try:
        _loop.run_until_complete(go())
    finally:
        logging.disable(logging.NOTSET)
    return recs


def hist_line(recs):
    parts = []
    for r in recs:
        if r["st"]["op"] == "xfer":
            parts.append(show(r["sim"].trace, r["out"]) + " | obj:" + ("-" if r["obj"] is None else r["obj"].hex()))
        else:
            parts.append(r["out"])
    return " || ".join(parts)


def oracle_hist(require, case, recs):
    """the property text on every transfer of the history, each judged by the mailboxes its terminal has AT THAT TIME (the
    sizes declared by the last config step for it) and by what the terminal's object holds at that time"""
    obs = hist_line(recs)
    caps = [{(i, s, bool(ca)): cap for i, s, ca, cap, _ in objs} for objs in case["objs"]]
    last_cnt = {}
    ok = True
    for k, r in enumerate(recs):
        st = r["st"]
        if st["op"] != "xfer":
            continue
        sim, (out_sz, in_sz) = r["sim"], r["hw"]
        if out_sz is None:
            continue                             # a terminal that was never configured: outside the domain
        at = f"step {k} (terminal {st['t']}, mailboxes {out_sz}/{in_sz}): "
        for m in sim.trace:
            if m[0] == "w" and m[1:2] != "@":
                ok &= require(len(m) // 2 <= out_sz, at + "a message does not fit the receive mailbox", case, obs, None)
        for rs in sim.responses:
            for m in rs:
                ok &= require(len(m) <= in_sz, at + "a response does not fit the send mailbox", case, obs, None)
        segs = [t for ccs, t in sdo_requests(sim) if ccs in (0, 3)]
        ok &= require(segs == [i & 1 for i in range(len(segs))], at + "segment toggles do not alternate from 0", case, obs, None)
        for m in sim.requests:                   # ETG.1000.4: a mail with the counter of the one before is a repetition
            c = m[5] >> 4 if len(m) >= 6 else 0
            ok &= require(c == 0 or c != last_cnt.get(st["t"]), at + "a mail carries the counter of the mail before it "
                          "(a conformant terminal drops it as a repetition)", case, obs, None)
            last_cnt[st["t"]] = c
        val = bytes.fromhex(st["value"])
        cap = caps[st["t"]].get(hist_key(st))
        if st.get("cut") or cap is None or r["before"] is None:
            continue                             # cancelled, or no such object: the property promises nothing
        if st["kind"] == "read":
            ok &= require(r["out"] == "ok:" + r["before"].hex(), at + "sdo_read did not return the object's bytes", case, obs, None)
        elif len(val) <= cap:
            ok &= require(r["obj"] == val, at + "the object does not hold the written bytes", case, obs, None)
            ok &= require(r["out"] == "ok:", at + "sdo_write did not return although nothing went wrong on the bus", case, obs, None)
    return ok


def hist_fails(case):
    bad = []
    oracle_hist(lambda cond, *a, **k: bool(cond) or bad.append(1) is not None and False, case, run_hist(case))
    return bool(bad)


def shrink_hist(case):
    """a shorter history that still fails: the shortest failing prefix, then without every step that is not needed"""
    steps = case["steps"]
    for n in range(1, len(steps) + 1):
        if hist_fails(dict(case, steps=steps[:n])):
            steps = steps[:n]
            break
    i = len(steps) - 2
    while i >= 0:
        first_config = steps[i]["op"] == "config" and not any(
            q["op"] == "config" and q["t"] == steps[i]["t"] for q in steps[:i])      # a terminal is configured before it is used
        if not first_config and not steps[i].get("par") and not (i > 0 and steps[i - 1].get("par")):
            cand = steps[:i] + steps[i + 1:]
            if hist_fails(dict(case, steps=cand)):
                steps = cand
        i -= 1
    return dict(case, steps=steps)


HIST_CONFS = [(24, 24), (32, 32), (64, 48), (128, 128), (256, 64), (40, 40), (128, 256), (25, 31), (57, 100), (255, 24),
              (16, 16), (64, 64), (48, 200)]
BIG, SMALLCAP, MISSING = 2000, 0x2ff0, 0x2ee0      # capacity of ordinary objects; an object that holds 4 bytes; no object


def hist_objs(rng):
    objs = []
    for k in range(4):
        objs.append([INDEX + k, 1 + k % 2, False, BIG, pattern(rng, rng.choice([0, 2, 9, 40])).hex()])
        objs.append([INDEX + k, 1, True, BIG, pattern(rng, rng.choice([0, 3, 30])).hex()])
    objs.append([SMALLCAP, 1, False, 4, "0102"])
    objs.append([SMALLCAP, 1, True, 4, ""])
    return objs


def hist_config(rng, t, conf):
    out_sz, in_sz = conf
    oo, io = rng.choice([0x1000, 0x1000, 0x1080, 0x1100]), rng.choice([0x1400, 0x1400, 0x1200, 0x1480, 0x1600])
    return {"op": "config", "t": t, "out": out_sz, "in": in_sz, "out_off": oo, "in_off": io,
            "sm": make_sm(rng, out_sz, in_sz, oo, io).hex(), "via": rng.choice(["parse", "parse", "eeprom"])}


def hist_lengths(rng, kind, cur, others, k):
    """k lengths around the points where the number of messages changes — for the mailbox the terminal has now and for
    the mailboxes it (or another Terminal object of the history) had before"""
    def marks(conf):
        s = conf[1] if kind == "read" else conf[0]
        first, seg = s - 16, s - 9
        return [first - 1, first, first + 1, first + 6, first + 7, first + seg - 1, first + seg, first + seg + 1,
                first + 2 * seg, first + 2 * seg + 1, first + 2 * seg + 5]
    res = [rng.choice(marks(cur)[2:])]                       # at least one segmented transfer
    pool = marks(cur) + [m for o in others for m in marks(o)] + [0, 1, 4, 5, 11]
    while len(res) < k:
        res.append(rng.choice(pool) if rng.random() < 0.9 else rng.randrange(0, 3 * max(cur) + 10))
    return [max(0, n) for n in res]


def hist_xfer(rng, t, kind, conf, n, k=None, sub="std", style="plain", cut=None):
    k = rng.randrange(4) if k is None else k
    index = INDEX + k
    if sub == "std":
        sub = rng.choice([1 + k % 2, 1 + k % 2, None])
    st = {"op": "xfer", "t": t, "kind": kind, "index": index, "sub": sub, "value": pattern(rng, n).hex() if kind == "write" else "",
          "sched": schedule(rng, conf[1], style, min(2 + n // max(1, min(conf) - 9), 8)), "cut": cut}
    return st


def hist_set(rng, st, n):
    i, s, ca = hist_key(st)
    return {"op": "set", "t": st["t"], "index": i, "sub": s, "ca": ca, "value": pattern(rng, n).hex()}


def hist_phase(rng, t, conf, others, nw, nr):
    """transfers on terminal t while it has the mailboxes `conf`: downloads each read back, uploads of what the terminal
    put into the object itself"""
    steps = []
    for n in hist_lengths(rng, "write", conf, others, nw):
        style = rng.choice(["plain", "plain", "plain", "delay", "mail", "drain"])
        w = hist_xfer(rng, t, "write", conf, n, style=style)
        steps.append(w)
        if rng.random() < 0.6:
            r = dict(w, kind="read", value="", sched=schedule(rng, conf[1], rng.choice(["plain", "delay"]), 8))
            steps.append(r)
    for n in hist_lengths(rng, "read", conf, others, nr):
        r = hist_xfer(rng, t, "read", conf, n, style=rng.choice(["plain", "plain", "delay", "mail", "drain"]))
        steps += [hist_set(rng, r, n), r]
    return steps


def gen_hist_reconf(rng):
    """one Terminal object configured three times, with transfers in between"""
    confs = rng.sample(HIST_CONFS, 3)
    if rng.random() < 0.3:
        confs[2] = confs[0]                                   # back to the first configuration
    steps = []
    for j, conf in enumerate(confs):
        steps.append(hist_config(rng, 0, conf))
        steps += hist_phase(rng, 0, conf, confs[:j] + confs[j + 1:], 3, 2)
    return {"mode": "hist", "family": "reconf", "cnt": [rng.randrange(0, 8)], "objs": [hist_objs(rng)], "steps": steps}


def gen_hist_multi(rng):
    """two or three Terminal objects with different mailboxes, used in turn; one of them gets other mailboxes on the way"""
    nt = rng.choice([2, 2, 3])
    confs = rng.sample(HIST_CONFS, nt)
    steps = [hist_config(rng, t, confs[t]) for t in range(nt)]
    for _ in range(rng.randrange(6, 11)):
        t = rng.randrange(nt)
        if rng.random() < 0.12:
            confs[t] = rng.choice(HIST_CONFS)
            steps.append(hist_config(rng, t, confs[t]))
            continue
        others = confs[:t] + confs[t + 1:]
        kind = rng.choice(["read", "write"])
        n = hist_lengths(rng, kind, confs[t], others, 2)[rng.randrange(2)]
        x = hist_xfer(rng, t, kind, confs[t], n, style=rng.choice(["plain", "plain", "delay", "mail"]))
        if kind == "read":
            steps.append(hist_set(rng, x, n))
        steps.append(x)
        if rng.random() < 0.3:                                # started together with a transfer on this or another terminal
            t2 = rng.randrange(nt)
            kind2 = rng.choice(["read", "write"])
            n2 = hist_lengths(rng, kind2, confs[t2], confs[:t2] + confs[t2 + 1:], 1)[0]
            y = hist_xfer(rng, t2, kind2, confs[t2], n2, k=(x["index"] - INDEX + 1 + rng.randrange(3)) % 4, style="plain")
            y["sub"] = 1 + (y["index"] - INDEX) % 2
            if kind2 == "read":
                steps.insert(len(steps) - 1, hist_set(rng, y, n2))
            x["par"], x["lag"] = True, [rng.randrange(0, 3) for _ in range(rng.randrange(1, 6))]
            steps.append(y)
    return {"mode": "hist", "family": "multi", "cnt": [rng.randrange(0, 8) for _ in range(nt)],
            "objs": [hist_objs(rng) for _ in range(nt)], "steps": steps}


def gen_hist_fail(rng):
    """transfers that fail (no such object, value too long for the object) or are cancelled between two exchanges, each
    followed by further transfers on the same Terminal object"""
    conf = rng.choice(HIST_CONFS)
    steps = [hist_config(rng, 0, conf)]
    for _ in range(rng.randrange(2, 5)):
        mode = rng.choice(["missing", "toolong", "cut", "cut", "cut"])
        kind = "write" if mode == "toolong" else rng.choice(["read", "write"])
        s = conf[1] if kind == "read" else conf[0]
        msgs = rng.randrange(2, 6)                            # messages a complete transfer of n bytes takes
        n = (s - 16) + (msgs - 2) * (s - 9) + rng.randrange(1, s - 8) if mode != "missing" or rng.random() < 0.5 else rng.randrange(0, 9)
        x = hist_xfer(rng, 0, kind, conf, n, style=rng.choice(["plain", "delay"]))
        if mode == "missing":
            x["index"] = MISSING
        elif mode == "toolong":
            x["index"], x["sub"] = SMALLCAP, rng.choice([1, None])
        else:
            j = rng.randrange(0, msgs + 1)
            x["cut"] = [j, 0 if j == 0 else rng.randrange(0, 2)]      # at the first poll / at the read of answer j or the poll after it
            if kind == "read":
                steps.append(hist_set(rng, x, n))
        steps.append(x)
        # the next uses: the same object again (a segmented transfer, so that toggles start anew), then others
        y = hist_xfer(rng, 0, rng.choice(["read", "write"]), conf, 0, style="plain")
        if mode == "cut":
            y["index"], y["sub"] = x["index"], x["sub"]
        n2 = hist_lengths(rng, y["kind"], conf, [], 1)[0]
        if y["kind"] == "read":
            steps.append(hist_set(rng, y, n2))
        else:
            y["value"] = pattern(rng, n2).hex()
        steps.append(y)
        steps += hist_phase(rng, 0, conf, [], 1, 1)
    return {"mode": "hist", "family": "fail", "cnt": [rng.randrange(0, 8)], "objs": [hist_objs(rng)], "steps": steps}


def gen_hist_repeat(rng):
    """the same object of the same terminal again and again, changed in between by the terminal and by downloads"""
    conf = rng.choice(HIST_CONFS)
    steps = [hist_config(rng, 0, conf)]
    x = hist_xfer(rng, 0, "read", conf, 0)
    n = 0
    for _ in range(rng.randrange(5, 10)):
        r = rng.random()
        if r < 0.35:
            n = hist_lengths(rng, "read", conf, [], 1)[0] if rng.random() < 0.6 else n      # often the same length again
            steps.append(hist_set(rng, x, n))
        elif r < 0.65:
            n = hist_lengths(rng, "write", conf, [], 1)[0] if rng.random() < 0.6 else n
            steps.append(dict(x, kind="write", value=pattern(rng, n).hex()))
        steps.append(dict(x, sched=schedule(rng, conf[1], rng.choice(["plain", "plain", "delay"]), 8)))
    return {"mode": "hist", "family": "repeat", "cnt": [rng.randrange(0, 8)], "objs": [hist_objs(rng)], "steps": steps}


def gen_hist(ctx):
    rng = ctx.rng
    cases = []
    for gen, quick, thorough in ((gen_hist_reconf, 36, 500), (gen_hist_multi, 40, 600), (gen_hist_fail, 40, 600),
                                 (gen_hist_repeat, 24, 300)):
        cases += [gen(rng) for _ in range(ctx.n(quick, thorough))]
    return cases


def known_witnesses():
    f = Path(__file__).resolve().parents[3] / "findings" / "C16.json"
    if not f.exists():
        return []
    return [e["witness"] for e in json.loads(f.read_text()) if e.get("property") == ID]


def run(ctx):
    rng = ctx.rng
    lines, checks = [], []          # driver input lines; (what, case, impl_out, oracle-args or None)
    witnesses = known_witnesses()
    syscases = [{k: v for k, v in w.items() if k != "expect"} for w in witnesses] + gen_sys(ctx) + gen_working(ctx)
    for c in syscases:
        sim, srv, out = run_sys(c)
        ctx.case(c, nontrivial=bool(sim.requests) and bool(sim.received),
                 kind=f"{c['kind']}:{classify(c) or 'working'}:{out.split(':')[0]}")
        lines.append(c)
        checks.append(("composed system", c, sys_line(c, sim, srv, out), (sim, srv, out)))
        s2 = script_of(c, sim)
        lines.append(s2)
        checks.append(("master on the observed mails", s2, show(sim.trace, out), None))
        s3 = server_of(c, sim)
        lines.append(s3)
        checks.append(("python server vs SdoServer", s3,
                       " ".join("+".join(m.hex() for m in rs) or "-" for rs in sim.responses) + " | " + srv.show_objs(), None))
    for c in gen_hist(ctx):
        recs = run_hist(c)
        xs = [r for r in recs if r["st"]["op"] == "xfer"]
        ctx.case(c, nontrivial=sum(1 for r in xs if r["sim"].requests and r["sim"].received) >= 2, kind="hist:" + c["family"])
        for r in xs:
            ctx.stats[f"hist-transfer:{r['st']['kind']}:{'cut:' if r['st'].get('cut') else ''}{r['out'].split(':')[0]}"] += 1
        lines.append(c)
        checks.append(("history on live Terminal objects vs SdoHistory.runOps", c, hist_line(recs), ("hist", recs)))
    for _ in range(ctx.n(1500, 60000)):
        c = gen_script(rng)
        sim, out = run_script(c)
        ns = sum(1 for t in sim.trace if t[0] == "w")
        ctx.case(c, nontrivial=ns > 0 and bool(sim.received), kind=f"script:{c['kind']}:{out.split(':')[0]}:{min(ns, 3)}msg")
        lines.append(c)
        checks.append(("master on a scripted mail list", c, show(sim.trace, out), None))
    for _ in range(ctx.n(1000, 40000)):
        c = gen_server(rng)
        ctx.case(c, nontrivial=True, kind="server")
        lines.append(c)
        checks.append(("python server vs SdoServer", c, run_server(c), None))
    model = drive_chunks(ctx, lines)
    found = []                       # oracle failures, buffered: (cls, what, case, observed)
    shrunk = 0

    def buffer(cond, what, case, observed=None, cls=None):
        if not cond:
            found.append((cls, what, case, observed))
        return bool(cond)

    for i, (what, c, impl, orc) in enumerate(checks):
        same = model is not None
        if model is not None:
            same = ctx.agree(what, c, impl, model[i])
            if orc is not None and orc[0] != "hist":      # the scripted twin of a composed case must agree as well
                same = same and show(orc[0].trace, orc[2]) == model[i + 1]
        if orc is not None and orc[0] == "hist":
            n0 = len(found)
            if not oracle_hist(buffer, c, orc[1]) and shrunk < 4:      # report a short history that still fails
                shrunk += 1
                del found[n0:]
                small = shrink_hist(c)
                oracle_hist(buffer, small, run_hist(small))
        elif orc is not None:
            # a failure is attributed to its class only when the code showed exactly the modelled defect
            oracle(buffer, c, *orc, attributed=same)
    if model is not None:
        for w in witnesses:           # a witness that still records a defect behaviour: it is what the model says today
            if "expect" in w:
                i = next(k for k, ch in enumerate(checks) if ch[1] == {k2: v for k2, v in w.items() if k2 != "expect"})
                ctx.agree("recorded behaviour of a known finding vs model", w, w["expect"], model[i])
    # ctx keeps the first 50 failures only: report the unattributed ones first, then a few per known class
    # order: outside every known class, then inside a class but not the recorded behaviour, then the known ones
    found.sort(key=lambda f: (f[0] is not None) * 2 + (f[0] is None and classify(f[2]) is not None))
    per = collections.Counter()
    for cls, what, case, observed in found:
        per[cls] += 1
        if cls is None or per[cls] <= 4:
            ctx.require(False, what, case, observed, cls)
        else:
            ctx.stats["oracle-fail:" + cls] += 1


def replay(ctx, case):
    if case.get("mode") == "hist":
        recs = run_hist(case)
        oracle_hist(ctx.require, case, recs)
        return {"trace": hist_line(recs)}
    if case.get("mode") == "script":
        sim, out = run_script(case)
        return {"trace": show(sim.trace, out)}
    if case.get("mode") == "server":
        return {"server": run_server(case)}
    sim, srv, out = run_sys(case)
    line = sys_line(case, sim, srv, out)
    # a witness of a known finding records the defect behaviour; anything else inside the class is a new failure
    oracle(ctx.require, case, sim, srv, out, attributed=("expect" not in case or case["expect"] == line))
    return {"trace": line, "class": classify(case)}
