"""C07 — packet variables access exactly their declared bytes and byte order.
For every struct format (B H I Q b h i q x native,<,>,!) the real generator is asked
for the read / write / in-place-update code of a PacketVar and of a packet array
element, the code is executed by the interpreter on random packets, and the result is
compared with the Lean model `Ebv.PktVar` (what the emitted instructions compute) and,
as the property's oracle, with Python's struct module."""
import struct

from .. import interp

ID = "C07"
LEAN_MODULES = ["Ebv.Props.C07", "Ebv.Props.C07Seq", "Ebv.Props.C07TV"]
MODEL_MODULES = ["Ebv.Model.PktVar", "Ebv.Model.PktSeq"]
DRIVER = "Drivers/C07.lean"
THEOREMS = ["Ebv.C07.read_exact", "Ebv.C07.read_old_refuted", "Ebv.C07.write_exact", "Ebv.C07.write_own_bytes",
            "Ebv.C07.write_then_slice", "Ebv.C07.guard_iff", "Ebv.C07.guard_covers",
            # statements whose value is another variable, for every pair of formats; sequences of statements in one program
            "Ebv.C07Seq.copy_is_struct", "Ebv.C07Seq.via_is_struct", "Ebv.C07Seq.iaddVar_is_struct", "Ebv.C07Seq.iaddc_is_struct",
            "Ebv.C07Seq.execMem_is_struct", "Ebv.C07Seq.execAll_is_struct", "Ebv.C07Seq.exec_touches_only_dst", "Ebv.C07Seq.copy_pkt",
            "Ebv.C07Seq.get_set_same", "Ebv.C07Seq.read_after_store", "Ebv.C07Seq.read_reg_is_struct", "Ebv.C07Seq.wf_exec",
            "Ebv.C07Seq.execAll_append", "Ebv.C07Seq.execAll_same_memory",
            # translation validation: every member of the regenerated table of 232 real programs refines the model, for all packets/registers
            "Ebv.C07TV.table_refines", "Ebv.C07TV.table_covers", "Ebv.C07TV.table_ok", "Ebv.C07TV.read_is_struct",
            "Ebv.C07TV.write_is_struct", "Ebv.C07TV.exLayout"]
REGEN_OBLIGATIONS = ["the 232 programs regenerated into Ebv.Generated.ProgramsFmt (32 formats x 7 statement shapes + packet arrays) refine Ebv.PktVar "
                     "(re-proved against the code emitted now)"]
TRUSTED = ["translation validation by proof (Ebv.C07TV.table_refines): for the regenerated table the real bytecode is proved to compute the "
           "model under the Lean eBPF semantics (Ebv.Ebpf + Ebv.XdpRun.runXdp) for all packets and registers; each member at one offset/guard size/"
           "constant, minimumPacketSize wrapper only - other offsets, constants and the `with packetSize > N` form stay correspondence",
           "hand-written model Ebv.PktVar of the code emitted for packet-variable reads/writes/in-place updates, tied by exact correspondence "
           "with the real generated code (regenerated every run) executed in harness/vh/interp.py, for the whole format table",
           "harness/vh/interp.py (validated three-way against the Lean ISA model and the kernel)"]
ASSUMPTIONS = ["host is little-endian (asserted by the harness)", "XDP context gives data/data_end; a packet access outside [data, data_end) is a fault"]
RULE = ("exhaustive over the 32 formats x {64-bit, 32-bit destination} x {read, write from register, write constant, in-place add}, offsets 0..N, "
        "packet contents and values from boundary sets and random; guard: lengths N-2..N+2 for several N; non-trivial = value with the top bit of "
        "the format set or a multi-byte swap; statements between variables: every (source format, destination format) pair of the 32x32 "
        "table with `dst = src`, through r/w registers, `dst += src`, `dst -= src` on packet variables, packet array elements and local "
        "variables, overlapping and disjoint offsets; random programs of 2-6 statements (chains, read/store/read of one variable, the same "
        "statement twice); second instances of one class, derived classes redefining the variables, the base class again afterwards")

FMTS = [o + c for o in ("", "<", ">", "!") for c in "BHIQbhiq"]
SZ = {"b": 1, "h": 2, "i": 4, "q": 8}
_cache = {}


def build(fmt, op, p, arg=None, N=40, guard="min"):
    key = (fmt, op, p, arg, N, guard)
    if key in _cache:
        return _cache[key]
    from ebpfcat.xdp import XDP, PacketVar, XDPExitCode

    def body(self):
        if op == "read64":
            self.r2 = self.pv
        elif op == "read32":
            self.w2 = self.pv
        elif op == "readarr":
            arr = {1: self.pB, 2: self.pH, 4: self.pI, 8: self.pQ}[SZ[fmt[-1].lower()]]
            self.r2 = arr[p]
        elif op == "writereg":
            self.owners.add(3)
            self.pv = self.r3
        elif op == "writearr":
            self.owners.add(3)
            arr = {1: self.pB, 2: self.pH, 4: self.pI, 8: self.pQ}[SZ[fmt[-1].lower()]]
            arr[p] = self.r3
        elif op == "writeconst":
            self.pv = arg
        elif op == "iadd":
            self.pv += arg
        elif op == "marker":
            self.exit(XDPExitCode.TX)
        elif op == "access":
            self.r2 = self.pv
            self.exit(XDPExitCode.TX)

    ns = {"license": "GPL", "pv": PacketVar(p, fmt)}
    if guard == "min":
        ns["minimumPacketSize"] = N
        ns["program"] = body
    else:
        def program(self):
            with self.packetSize > N as pk:
                self.pB, self.pH, self.pI, self.pQ = pk.pB, pk.pH, pk.pI, pk.pQ
                body(self)
            self.exit(XDPExitCode.PASS)
        ns["program"] = program
    e = type("P", (XDP,), ns)()
    try:
        e.assemble()
        res = list(e.opcodes)
    except Exception as ex:
        res = f"{type(ex).__name__}"
    _cache[key] = res
    return res


def execute(insns, pkt, r3=None):
    regions, pk = interp.xdp_regions(pkt)
    m = interp.Machine(insns, regions)
    m.wr(1, interp.CTX_BASE)
    if r3 is not None:
        m.wr(3, r3)
    try:
        r0 = m.run()
    except interp.Fault as e:
        return f"fault:{e}", None, None
    return r0, bytes(pk.data), (m.regs[2] if m.init[2] else None)


def wrap(fmt, v):
    c = fmt[-1]
    n = SZ[c.lower()]
    v %= 1 << (8 * n)
    if c.islower() and v >> (8 * n - 1):
        v -= 1 << (8 * n)
    return v


def edge_bytes(rng, n):
    r = rng.random()
    if r < 0.25:
        return bytes(rng.choice([0, 0xff, 0x80, 0x7f, 1, 0xfe]) for _ in range(n))
    return bytes(rng.getrandbits(8) for _ in range(n))


def run_checks(ctx):
    rng = ctx.rng
    cases, impl = [], []
    N = 40
    reps = ctx.n(6, 120)
    for fmt in FMTS:
        n = SZ[fmt[-1].lower()]
        signed = fmt[-1].islower()
        explicit = len(fmt) == 2
        for _ in range(reps):
            p = rng.randrange(0, N - n + 2)
            pkt = bytearray(rng.getrandbits(8) for _ in range(rng.choice([N + 1, N + 2, N + 17])))
            bs = edge_bytes(rng, n)
            pkt[p:p + n] = bs
            want, = struct.unpack(fmt if explicit else "=" + fmt, bs)
            # reads
            for op, long in (("read64", True), ("read32", False), ("readarr", True)):
                if op == "readarr" and (explicit or signed):
                    continue
                code = build(fmt, op, p)
                r0, out, r2 = execute(code, bytes(pkt))
                case = {"op": "read", "fmt": fmt, "long": long, "bytes": bs.hex(), "p": p, "via": op}
                ctx.case(case, nontrivial=bool(bs[-1] & 0x80 or bs[0] & 0x80), kind=f"read{'64' if long else '32'}")
                bits = 64 if long else 32
                cls = None
                # a 32-bit destination view only defines the low 32 bits of the register
                ctx.require(r2 is not None and r2 % (1 << bits) == want % (1 << bits), "read does not give struct.unpack's value", case,
                            f"got {r2} want {want % (1 << bits)}", cls)
                ctx.require(out == bytes(pkt), "a read changed the packet", case, None)
                cases.append(case); impl.append(str(r2))
            # write from a register
            v = rng.choice([0, 1, 0x7f, 0x80, 0xff, 0x1234, 0x8000, 0xfffe, 0x7fffffff, 0x80000000, 0x123456789abcdef0,
                            (1 << 64) - 1, (1 << 63)]) if rng.random() < 0.5 else rng.getrandbits(64)
            for op in ("writereg", "writearr"):
                if op == "writearr" and (explicit or signed):
                    continue
                code = build(fmt, op, p)
                r0, out, _ = execute(code, bytes(pkt), r3=v)
                case = {"op": "write", "fmt": fmt, "value": v, "p": p, "via": op}
                ctx.case(case, nontrivial=True, kind="write")
                exp = struct.pack(fmt if explicit else "=" + fmt, wrap(fmt, v))
                ok = out is not None and out[p:p + n] == exp
                ctx.require(ok, "write does not store struct.pack's bytes", case, None if out is None else out[p:p + n].hex())
                ctx.require(out is not None and out[:p] == bytes(pkt[:p]) and out[p + n:] == bytes(pkt[p + n:]),
                            "a write touched other packet bytes", case, None)
                cases.append(case); impl.append(out[p:p + n].hex() if out else str(r0))
            # constants (inside the format's range, as struct requires)
            c = wrap(fmt, rng.choice([0, 1, -1, 0x12, 0x1234, 0x12345678, -0x8000, 0x7fffffff, -0x80000000, 0x80000000, 0xffffffff, 0xdeadbeef,
                                       0x100000000, 0x123456789abcdef0, rng.getrandbits(32), rng.getrandbits(64)]))
            code = build(fmt, "writeconst", p, c)
            if isinstance(code, str):
                ctx.require(False, "generator refused an in-range constant", {"fmt": fmt, "const": c}, code)
            else:
                r0, out, _ = execute(code, bytes(pkt))
                case = {"op": "write", "fmt": fmt, "value": c % (1 << 64), "p": p, "via": "const"}
                ctx.case(case, nontrivial=True, kind="writeconst")
                exp = struct.pack(fmt if explicit else "=" + fmt, c)
                ctx.require(out is not None and out[p:p + n] == exp and out[:p] == bytes(pkt[:p]) and out[p + n:] == bytes(pkt[p + n:]),
                            "constant write does not store struct.pack's bytes / touches other bytes", case, None if out is None else out[p:p + n].hex())
                cases.append(case); impl.append(out[p:p + n].hex() if out else str(r0))
            # in-place update with a constant amount
            a = rng.choice([1, 5, -1, 255, 256, -300, 0x7fff])
            code = build(fmt, "iadd", p, a)
            r0, out, _ = execute(code, bytes(pkt))
            case = {"op": "iadd", "fmt": fmt, "bytes": bs.hex(), "amount": a, "p": p}
            ctx.case(case, nontrivial=True, kind="iadd")
            exp = struct.pack(fmt if explicit else "=" + fmt, wrap(fmt, want + a))
            ctx.require(out is not None and out[p:p + n] == exp and out[:p] == bytes(pkt[:p]) and out[p + n:] == bytes(pkt[p + n:]),
                        "in-place update wrong / touches other bytes", case, None if out is None else out[p:p + n].hex())
            cases.append(case); impl.append(out[p:p + n].hex() if out else str(r0))
    # the size guard: body runs iff len > N, and never faults for accesses with p + n <= N + 1
    for N in (14, 30, 40, 63):
        for guard in ("min", "with"):
            for ln in range(max(0, N - 2), N + 4):
                pkt = bytes(rng.getrandbits(8) for _ in range(ln))
                r0, out, _ = execute(build("B", "marker", 0, None, N, guard), pkt)
                case = {"op": "guard", "fmt": "B", "N": N, "len": ln, "via": guard}
                ctx.case(case, nontrivial=abs(ln - N) <= 1, kind="guard")
                ctx.require(r0 == (3 if ln > N else 2), "guarded body ran on a short packet or not on a long one", case, str(r0))
                cases.append(case); impl.append("true" if r0 == 3 else "false" if r0 == 2 else str(r0))
                for fmt in ("Q", ">h", "I"):
                    n = SZ[fmt[-1].lower()]
                    p = N + 1 - n
                    r0, out, _ = execute(build(fmt, "access", p, None, N, guard), pkt)
                    ctx.require(r0 == (3 if ln > N else 2), "access at the last guarded offset faults or guard wrong",
                                {"op": "guard-access", "fmt": fmt, "N": N, "len": ln, "p": p, "via": guard}, str(r0))
    return cases, impl


# ---- statement sequences: copies between variables, updates by a variable, several statements in one program -------------
# A program is data: {"N": guard size, "guard": "min"|"with", "vars": [[kind, fmt, offset], ...], "stmts": [...]} where kind is
# "p" (PacketVar(offset, fmt)) or "l" (LocalVar(fmt)); a reference is ["v", i] (variable i) or ["a", letter, pos] (element pos of
# the packet array pB/pH/pI/pQ); statements:
#   ["copy", d, s]            d = s
#   ["via", d, s, long, k]    rk = s (wk = s when not long); d = rk (wk)
#   ["iadd", d, s, sign]      d += s  /  d -= s
#   ["const", d, value]       d = value
#   ["iaddc", d, amount]      d += amount
#   ["read", k, s, long]      rk = s (wk = s): observed at the end of the program
LETTER = {1: "B", 2: "H", 4: "I", 8: "Q"}
_seq_cache = {}


def ref_fmt(spec, ref):
    return spec["vars"][ref[1]][1] if ref[0] == "v" else ref[1]


def fsize(fmt):
    return SZ[fmt[-1].lower()]


def std(fmt):
    return fmt if len(fmt) == 2 else "=" + fmt


def seq_class(spec, base=None):
    """the XDP subclass for `spec` (its variables are class-level descriptors, as in user code)"""
    import operator
    from ebpfcat.ebpf import LocalVar
    from ebpfcat.xdp import XDP, PacketVar, XDPExitCode

    def get(self, ref):
        if ref[0] == "v":
            return getattr(self, f"v{ref[1]}")
        return getattr(self, "p" + ref[1])[ref[2]]

    def put(self, ref, value):
        if ref[0] == "v":
            setattr(self, f"v{ref[1]}", value)
        else:
            getattr(self, "p" + ref[1])[ref[2]] = value

    def body(self):
        for st in spec["stmts"]:
            t = st[0]
            if t == "copy":
                put(self, st[1], get(self, st[2]))
            elif t == "via":
                regs = self.r if st[3] else self.w
                regs[st[4]] = get(self, st[2])
                put(self, st[1], regs[st[4]])
            elif t == "iadd":
                op = operator.iadd if st[3] > 0 else operator.isub
                put(self, st[1], op(get(self, st[1]), get(self, st[2])))
            elif t == "const":
                put(self, st[1], st[2])
            elif t == "iaddc":
                put(self, st[1], operator.iadd(get(self, st[1]), st[2]))
            elif t == "read":
                (self.r if st[3] else self.w)[st[1]] = get(self, st[2])
        self.exit(XDPExitCode.TX)

    ns = {"license": "GPL"}
    for i, (kind, fmt, off) in enumerate(spec["vars"]):
        ns[f"v{i}"] = PacketVar(off, fmt) if kind == "p" else LocalVar(fmt)
    N = spec["N"]
    if base is not None:
        pass        # a derived class: the library runs the base class's program (same statements) on the redefined variables
    elif spec.get("guard", "min") == "min":
        ns["minimumPacketSize"] = N
        ns["program"] = body
    else:
        def program(self):
            with self.packetSize > N as pk:
                self.pB, self.pH, self.pI, self.pQ = pk.pB, pk.pH, pk.pI, pk.pQ
                body(self)
            self.exit(XDPExitCode.PASS)
        ns["program"] = program
    return type("S", (base or XDP,), ns)


def build_seq(spec, cls=None):
    """the instructions the real generator emits for `spec` (a fresh instance; `cls` = instantiate this class once more) and
    where its local variables ended up on the stack: {"code": [...] or error text, "loc": {variable index: offset from r10}}"""
    key = None
    if cls is None:
        key = canon_spec(spec)
        if key in _seq_cache:
            return _seq_cache[key]
        cls = seq_class(spec)
    e = cls()
    try:
        e.assemble()
        code = list(e.opcodes)
    except Exception as ex:
        code = f"{type(ex).__name__}: {ex}"
    res = {"code": code, "keep": e,
           "loc": {i: cls.__dict__[f"v{i}"].relative_addr for i, v in enumerate(spec["vars"]) if v[0] == "l"}}
    if key is not None:
        _seq_cache[key] = res
    return res


def canon_spec(spec):
    import json
    return json.dumps(spec, sort_keys=True)


def execute_seq(insns, pkt):
    """(r0, packet afterwards, registers, stack) of one run"""
    regions, pk = interp.xdp_regions(pkt)
    m = interp.Machine(insns, regions)
    m.wr(1, interp.CTX_BASE)
    try:
        r0 = m.run()
    except interp.Fault as e:
        return f"fault:{e}", None, {}, b""
    return r0, bytes(pk.data), {k: m.regs[k] for k in range(10) if m.init[k]}, bytes(m.stack.data)


def struct_seq(spec, pkt):
    """the property's statement applied statement by statement: what is read is struct.unpack of the bytes at the source, what
    is stored is struct.pack of the value reduced to the destination's range, nothing else changes; a local variable holds a
    value of its format.  Returns (packet, {register: (value, bits)})"""
    pkt = bytearray(pkt)
    loc, regs = {}, {}

    def rd(ref):
        fmt = ref_fmt(spec, ref)
        if ref[0] == "v" and spec["vars"][ref[1]][0] == "l":
            return loc[ref[1]]
        off = spec["vars"][ref[1]][2] if ref[0] == "v" else ref[2]
        return struct.unpack_from(std(fmt), pkt, off)[0]

    def wr(ref, v):
        fmt = ref_fmt(spec, ref)
        v = wrap(fmt, v)
        if ref[0] == "v" and spec["vars"][ref[1]][0] == "l":
            loc[ref[1]] = v
            return
        off = spec["vars"][ref[1]][2] if ref[0] == "v" else ref[2]
        struct.pack_into(std(fmt), pkt, off, v)

    for st in spec["stmts"]:
        t = st[0]
        if t == "copy":
            wr(st[1], rd(st[2]))
        elif t == "via":
            bits = 64 if st[3] else 32
            regs[st[4]] = (rd(st[2]) % (1 << bits), bits)
            wr(st[1], regs[st[4]][0])
        elif t == "iadd":
            wr(st[1], rd(st[1]) + st[3] * rd(st[2]))
        elif t == "const":
            wr(st[1], st[2])
        elif t == "iaddc":
            wr(st[1], rd(st[1]) + st[2])
        elif t == "read":
            bits = 64 if st[3] else 32
            regs[st[1]] = (rd(st[2]) % (1 << bits), bits)
    return bytes(pkt), regs


CONSTS = [0, 1, -1, 0x12, 0x1234, 0x12345678, -0x8000, 0x7fffffff, -0x80000000, 0x80000000, 0xffffffff, 0xdeadbeef, 0x100000000,
          0x123456789abcdef0]
AMOUNTS = [1, 5, -1, 255, 256, -300, 0x7fff]


def place(rng, N, n, near=None):
    """an offset for an n-byte variable inside the guarded size; `near` = (offset, size) to overlap with"""
    if near is not None:
        lo, hi = max(0, near[0] - n + 1), min(N + 1 - n, near[0] + near[1] - 1)
        if lo <= hi:
            return rng.randint(lo, hi)
    return rng.randrange(0, N + 2 - n)


def pair_spec(rng, sf, df, N):
    """one statement from a variable of format sf to a variable of format df, in a random setting: packet variables, packet
    array elements, local variables on either side, overlapping or disjoint offsets, a read of the destination before/after"""
    sn, dn = fsize(sf), fsize(df)
    kind = rng.choice(["copy"] * 4 + ["viaL"] * 2 + (["viaW"] if dn <= 4 else []) + ["iadd", "iadd", "isub"])
    sp = place(rng, N, sn)
    dp = place(rng, N, dn, (sp, sn) if rng.random() < 0.3 else None)
    vs = [["p", sf, sp], ["p", df, dp]]
    s, d = ["v", 0], ["v", 1]
    pre, post = [], []
    r = rng.random()
    if sf in "BHIQ" and r < 0.25:
        s = ["a", sf, sp]
    elif r < 0.45:          # the source is a local variable of this format, loaded from the packet
        vs.append(["l", sf, 0])
        s = ["v", len(vs) - 1]
        pre.append(["copy", s, ["v", 0]])
    r = rng.random()
    if df in "BHIQ" and r < 0.25:
        d = ["a", df, dp]
    elif r < 0.4:           # the destination is a local variable, loaded from and stored back to the packet
        vs.append(["l", df, 0])
        d = ["v", len(vs) - 1]
        pre.append(["copy", d, ["v", 1]])
        post.append(["copy", ["v", 1], d])
    if rng.random() < 0.2:
        pre.append(["read", 7, d, True])
    st = {"copy": ["copy", d, s], "viaL": ["via", d, s, True, 5], "viaW": ["via", d, s, False, 5],
          "iadd": ["iadd", d, s, 1], "isub": ["iadd", d, s, -1]}[kind]
    if rng.random() < 0.3:
        post.append(["read", 6, d, rng.random() < 0.7])
    return {"N": N, "guard": "with" if rng.random() < 0.15 else "min", "vars": vs, "stmts": pre + [st] + post}, kind


def random_spec(rng, N):
    """a program of several statements over a few variables: later statements read what earlier ones stored"""
    vs = []
    for i in range(rng.randint(2, 4)):
        fmt = rng.choice(FMTS)
        kind = "l" if i and rng.random() < 0.25 else "p"
        near = None
        if vs and vs[-1][0] == "p" and rng.random() < 0.3:
            near = (vs[-1][2], fsize(vs[-1][1]))
        vs.append([kind, fmt, place(rng, N, fsize(fmt), near) if kind == "p" else 0])
    ready = {i for i, v in enumerate(vs) if v[0] == "p"}
    spec = {"N": N, "guard": "with" if rng.random() < 0.15 else "min", "vars": vs, "stmts": []}

    used = []

    def elem():     # packet array elements; the same position is used again with another width now and then
        letter = rng.choice("BHIQ")
        pos = place(rng, N, fsize(letter))
        if used and rng.random() < 0.4:
            pos = min(rng.choice(used), N + 1 - fsize(letter))
        used.append(pos)
        return ["a", letter, pos]

    def src():
        return elem() if rng.random() < 0.15 else ["v", rng.choice(sorted(ready))]

    def dst(must_be_ready=False):
        if rng.random() < 0.15:
            return elem()
        return ["v", rng.choice(sorted(ready)) if must_be_ready else rng.randrange(len(vs))]

    sts = spec["stmts"]
    for _ in range(rng.randint(2, 6)):
        t = rng.choice(["copy"] * 4 + ["via"] * 2 + ["iadd"] * 2 + ["const", "iaddc", "read", "read", "again"])
        if t == "copy":
            st = ["copy", dst(), src()]
        elif t == "via":
            d = dst()
            long = fsize(ref_fmt(spec, d)) == 8 or rng.random() < 0.6
            st = ["via", d, src(), long, rng.choice([4, 5])]
        elif t == "iadd":
            st = ["iadd", dst(True), src(), rng.choice([1, -1])]
        elif t == "const":
            d = dst()
            st = ["const", d, wrap(ref_fmt(spec, d), rng.choice(CONSTS + [rng.getrandbits(64)]))]
        elif t == "iaddc":
            st = ["iaddc", dst(True), rng.choice(AMOUNTS)]
        elif t == "read":
            st = ["read", rng.choice([6, 7, 8]), src(), rng.random() < 0.7]
        else:       # the same statement once more, after its operands may have changed
            cands = [x for x in sts if x[0] in ("copy", "via", "iadd", "read")]
            if not cands:
                continue
            st = list(rng.choice(cands))
        sts.append(st)
        if st[0] != "read" and st[1][0] == "v":
            ready.add(st[1][1])
    return spec


def vary_spec(rng, a):
    """the same statements over variables of the same names and kinds but other formats and offsets (a derived class that
    redefines the variables: the library runs the base class's program on them); variables the statements store a constant
    to keep their format, destinations of a 32-bit register stay at most 4 bytes wide"""
    import copy
    b = copy.deepcopy(a)
    fixed = {st[1][1] for st in a["stmts"] if st[0] == "const" and st[1][0] == "v"}
    narrow = {st[1][1] for st in a["stmts"] if st[0] == "via" and not st[3] and st[1][0] == "v"}
    for i, v in enumerate(b["vars"]):
        if i not in fixed:
            v[1] = rng.choice([f for f in FMTS if fsize(f) <= 4] if i in narrow else FMTS)
        if v[0] == "p":
            v[2] = place(rng, b["N"], fsize(v[1]))
    return b


def check_seq(ctx, case, prog, kind=None):
    """run one program on the case's packet, evaluate the property, return the line compared with the model:
    packet, local variables' stack bytes, the registers the statements set"""
    pkt = bytes.fromhex(case["pkt"])
    ctx.case(case, nontrivial=True, kind=kind)
    code = prog["code"]
    if isinstance(code, str):
        ctx.require(False, "generator refused statements between variables", case, code)
        return code
    r0, out, regs, stack = execute_seq(code, pkt)
    want, wregs = struct_seq(case, pkt)
    ctx.require(r0 == 3, "guarded body with statements between variables did not run to its end", case, str(r0))
    if out is None:
        return str(r0)
    diff = [i for i in range(len(want)) if out[i] != want[i]]
    ctx.require(not diff, "statements between variables: stored bytes are not struct.pack's of the struct.unpack'ed source, "
                "or another packet byte changed", case, f"packet {out.hex()} want {want.hex()} first difference at {diff[:1]}")
    for k, (v, bits) in sorted(wregs.items()):
        ctx.require(k in regs and regs[k] % (1 << bits) == v, "a read inside a sequence does not give struct.unpack's value "
                    "of the bytes at that point", case, f"r{k}={regs.get(k)} want {v}")
    locs = [stack[512 + a:512 + a + fsize(case["vars"][i][1])].hex() for i, a in sorted(prog["loc"].items())]
    ks = sorted({st[4] for st in case["stmts"] if st[0] == "via"} | {st[1] for st in case["stmts"] if st[0] == "read"})
    return out.hex() + " " + ",".join(locs) + " " + ",".join(f"{k}={regs.get(k)}" for k in ks)


def make_packet(rng, spec):
    N = spec["N"]
    pkt = bytearray(rng.getrandbits(8) for _ in range(rng.choice([N + 1, N + 2, N + 17])))
    for kind, fmt, off in spec["vars"]:
        if kind == "p" and rng.random() < 0.7:
            pkt[off:off + fsize(fmt)] = edge_bytes(rng, fsize(fmt))
    return bytes(pkt)


def build_history(case):
    """programs generated one after another in this process: `hist` = earlier steps [spec, base, reuse] (base/reuse = index of
    an earlier step or None: subclass of that step's class / one more instance of that step's class), all kept alive; the
    last step is the case's own program.  Returns the program under test."""
    steps = list(case.get("hist", [])) + [[{k: case[k] for k in ("N", "guard", "vars", "stmts")}, case.get("base"), case.get("reuse")]]
    classes, progs = [], []
    for spec, base, reuse in steps:
        if reuse is not None:
            cls = classes[reuse]
        else:
            cls = seq_class(spec, None if base is None else classes[base])
        classes.append(cls)
        progs.append(build_seq(spec, cls))
    return progs[-1]


def run_seq_checks(ctx):
    """copies / updates between variables of every pair of formats, sequences of statements, several programs and instances"""
    rng = ctx.rng
    cases, impl = [], []

    def one(spec, kind, extra=None):
        case = {"op": "seq", **spec, "pkt": make_packet(rng, spec).hex(), **(extra or {})}
        prog = build_history(case) if extra else build_seq(spec)
        cases.append(case)
        impl.append(check_seq(ctx, case, prog, kind))

    # every (source format, destination format) pair
    for _ in range(ctx.n(2, 12)):
        for sf in FMTS:
            for df in FMTS:
                spec, kind = pair_spec(rng, sf, df, rng.choice([14, 30, 40, 63]))
                one(spec, kind)
    # programs of several statements
    for _ in range(ctx.n(600, 6000)):
        one(random_spec(rng, rng.choice([14, 30, 40, 63])), "sequence")
    # the same class instantiated again, subclasses redefining the variables, the base class used again afterwards
    for _ in range(ctx.n(100, 1200)):
        N = rng.choice([30, 40])
        a = random_spec(rng, N)
        b, c = vary_spec(rng, a), vary_spec(rng, a)
        one(a, "instances", {"hist": [[a, None, None]], "reuse": 0})            # second instance of the same class
        one(b, "instances", {"hist": [[a, None, None]], "base": 0})             # subclass with other variables under the same names
        one(a, "instances", {"hist": [[a, None, None], [b, 0, None]], "reuse": 0})   # the base class again after the subclass
        one(c, "instances", {"hist": [[a, None, None], [b, 0, None]], "base": 0})    # a second subclass next to the first
    return cases, impl


def run(ctx):
    import sys
    assert sys.byteorder == "little"
    cases, impl = run_checks(ctx)
    c2, i2 = run_seq_checks(ctx)
    cases += c2
    impl += i2
    model = ctx.drive(DRIVER, [{k: v for k, v in c.items() if k not in ("p", "via", "hist", "base", "reuse")} for c in cases], "packet variable")
    if model is not None:
        for c, i, m in zip(cases, impl, model):
            ctx.agree(f"packet variable {c['op']}", c, i, m)


def replay(ctx, case):
    if case["op"] == "seq":
        line = check_seq(ctx, case, build_history(case), "replay")
        return {"observed": line, "struct": struct_seq(case, bytes.fromhex(case["pkt"]))[0].hex()}
    fmt = case["fmt"]
    explicit, n = len(fmt) == 2, SZ[fmt[-1].lower()]
    if case["op"] == "read":
        p = case.get("p", 3)
        pkt = bytearray(60)
        bs = bytes.fromhex(case["bytes"])
        pkt[p:p + n] = bs
        op = case.get("via", "read64" if case["long"] else "read32")
        r0, out, r2 = execute(build(fmt, op, p), bytes(pkt))
        want, = struct.unpack(fmt if explicit else "=" + fmt, bs)
        bits = 64 if case["long"] else 32
        cls = None
        ctx.require(r2 is not None and r2 % (1 << bits) == want % (1 << bits), "read does not give struct.unpack's value", case,
                    f"got {r2} want {want % (1 << bits)}", cls)
        return {"register": r2, "struct": want}
    if case["op"] == "guard":
        r0, out, _ = execute(build("B", "marker", 0, None, case["N"], case.get("via", "min")), bytes(case["len"]))
        ctx.require(r0 == (3 if case["len"] > case["N"] else 2), "guard", case, str(r0))
        return {"r0": r0}
    p = case.get("p", 3)
    pkt = bytearray(60)
    if case["op"] == "write":
        via = case.get("via", "writereg")
        if via == "const":
            c = wrap(fmt, case["value"])
            r0, out, _ = execute(build(fmt, "writeconst", p, c), bytes(pkt))
            exp = struct.pack(fmt if explicit else "=" + fmt, c)
        else:
            r0, out, _ = execute(build(fmt, via, p), bytes(pkt), r3=case["value"])
            exp = struct.pack(fmt if explicit else "=" + fmt, wrap(fmt, case["value"]))
        ctx.require(out is not None and out[p:p + n] == exp and out[:p] + out[p + n:] == bytes(pkt[:p] + pkt[p + n:]), "write", case,
                    None if out is None else out[p:p + n].hex())
        return {"stored": out[p:p + n].hex() if out else None, "struct": exp.hex()}
    bs = bytes.fromhex(case["bytes"])
    pkt[p:p + n] = bs
    r0, out, _ = execute(build(fmt, "iadd", p, case["amount"]), bytes(pkt))
    want, = struct.unpack(fmt if explicit else "=" + fmt, bs)
    exp = struct.pack(fmt if explicit else "=" + fmt, wrap(fmt, want + case["amount"]))
    ctx.require(out is not None and out[p:p + n] == exp, "iadd", case, None if out is None else out[p:p + n].hex())
    return {"stored": out[p:p + n].hex() if out else None, "struct": exp.hex()}


LEVEL_TEXT = ("Translation validation by proof of 232 regenerated programs (all 32 formats x read64/read32/write-register/write-constant/"
              "in-place add + packet arrays: the real bytecode computes Ebv.PktVar for all packets and registers) + "
              "Lean 4 proofs over a hand-written model of the code emitted for packet variables, for every byte string/value and the whole "
              "format table: reads give struct.unpack's value (read_exact: all 32 formats, full strength since the fix: commit that extends the sign "
              "after the byte swap; the old order is kept as a refuted variant), "
              "writes store exactly struct.pack's bytes and touch no other byte, the "
              "guarded body runs iff len > N and accesses with p+n <= N+1 are in bounds; statements between variables (copy_is_struct, "
              "via_is_struct, iaddVar_is_struct, iaddc_is_struct: for every pair of formats the stored bytes are pack(dst fmt) of the "
              "unpack(src fmt)'ed value reduced to the destination's range) and programs of any number of statements on packet + local "
              "variables (execAll_is_struct: the emitted code's effect is the struct semantics applied statement by statement; "
              "exec_touches_only_dst: no other byte changes; read_after_store: a later read sees the stored bytes). Tie: exact correspondence of the real generated code "
              "(regenerated from /repo every run, interpreted) with the model over all formats, destinations, offsets and boundary/random data.")
LEVEL_NOTE = ("trusted: Lean kernel + standard axioms; hand model validated by differential execution (not verified against the generator: the inductive "
              "generator model is C01's); little-endian host; "
              "interpreter semantics")
TECHNIQUE = "Lean 4 proof over the format table (all byte strings) + exact generated-code/model correspondence"
DESIGN_REF = "§4 C07"
