"""C07 — packet variables access exactly their declared bytes and byte order.
For every struct format (B H I Q b h i q x native,<,>,!) the real generator is asked
for the read / write / in-place-update code of a PacketVar and of a packet array
element, the code is executed by the interpreter on random packets, and the result is
compared with the Lean model `Ebv.PktVar` (what the emitted instructions compute) and,
as the property's oracle, with Python's struct module."""
import struct

from .. import interp

ID = "C07"
LEAN_MODULES = ["Ebv.Props.C07", "Ebv.Props.C07TV"]
MODEL_MODULES = ["Ebv.Model.PktVar"]
DRIVER = "Drivers/C07.lean"
THEOREMS = ["Ebv.C07.read_exact", "Ebv.C07.read_old_refuted", "Ebv.C07.write_exact", "Ebv.C07.write_own_bytes",
            "Ebv.C07.write_then_slice", "Ebv.C07.guard_iff", "Ebv.C07.guard_covers",
            # translation validation: every member of the regenerated table of 232 real programs refines the model, for all packets/registers
            "Ebv.C07TV.table_refines", "Ebv.C07TV.table_covers", "Ebv.C07TV.table_ok", "Ebv.C07TV.read_is_struct",
            "Ebv.C07TV.write_is_struct", "Ebv.C07TV.exLayout"]
REGEN_OBLIGATIONS = ["the 232 programs regenerated into Ebv.Generated.ProgramsFmt (32 formats x 7 statement shapes + packet arrays) refine Ebv.PktVar "
                     "(re-proved against the code emitted now)"]
TRUSTED = ["translation validation by proof (Ebv.C07TV.table_refines): for the regenerated table the real bytecode is proved to compute the "
           "model under the Lean eBPF semantics (Ebv.Ebpf + Ebv.XdpRun.runXdp) for all packets and registers; each member at one offset/guard size/"
           "constant, minimumPacketSize wrapper only - other offsets, constants and the `with packetSize > N` form stay correspondence",
           "hand-written model Ebv.PktVar of the code emitted for packet-variable reads/writes/in-place updates, tied by exact correspondence "
           "with the real generated code (regenerated every run) executed in harness/vh/interp.py, for the whole format table",
           "harness/vh/interp.py (validated three-way against the Lean ISA model and the kernel)"]
ASSUMPTIONS = ["host is little-endian (asserted by the harness)", "XDP context gives data/data_end; a packet access outside [data, data_end) is a fault"]
RULE = ("exhaustive over the 32 formats x {64-bit, 32-bit destination} x {read, write from register, write constant, in-place add}, offsets 0..N, "
        "packet contents and values from boundary sets and random; guard: lengths N-2..N+2 for several N; non-trivial = value with the top bit of "
        "the format set or a multi-byte swap")

FMTS = [o + c for o in ("", "<", ">", "!") for c in "BHIQbhiq"]
SZ = {"b": 1, "h": 2, "i": 4, "q": 8}
_cache = {}


def build(fmt, op, p, arg=None, N=40, guard="min"):
    key = (fmt, op, p, arg, N, guard)
    if key in _cache:
        return _cache[key]
    from ebpfcat.xdp import XDP, PacketVar, XDPExitCode

    def body(self):
        if op == "read64":
            self.r2 = self.pv
        elif op == "read32":
            self.w2 = self.pv
        elif op == "readarr":
            arr = {1: self.pB, 2: self.pH, 4: self.pI, 8: self.pQ}[SZ[fmt[-1].lower()]]
            self.r2 = arr[p]
        elif op == "writereg":
            self.owners.add(3)
            self.pv = self.r3
        elif op == "writearr":
            self.owners.add(3)
            arr = {1: self.pB, 2: self.pH, 4: self.pI, 8: self.pQ}[SZ[fmt[-1].lower()]]
            arr[p] = self.r3
        elif op == "writeconst":
            self.pv = arg
        elif op == "iadd":
            self.pv += arg
        elif op == "marker":
            self.exit(XDPExitCode.TX)
        elif op == "access":
            self.r2 = self.pv
            self.exit(XDPExitCode.TX)

    ns = {"license": "GPL", "pv": PacketVar(p, fmt)}
    if guard == "min":
        ns["minimumPacketSize"] = N
        ns["program"] = body
    else:
        def program(self):
            with self.packetSize > N as pk:
                self.pB, self.pH, self.pI, self.pQ = pk.pB, pk.pH, pk.pI, pk.pQ
                body(self)
            self.exit(XDPExitCode.PASS)
        ns["program"] = program
    e = type("P", (XDP,), ns)()
    try:
        e.assemble()
        res = list(e.opcodes)
    except Exception as ex:
        res = f"{type(ex).__name__}"
    _cache[key] = res
    return res


def execute(insns, pkt, r3=None):
    regions, pk = interp.xdp_regions(pkt)
    m = interp.Machine(insns, regions)
    m.wr(1, interp.CTX_BASE)
    if r3 is not None:
        m.wr(3, r3)
    try:
        r0 = m.run()
    except interp.Fault as e:
        return f"fault:{e}", None, None
    return r0, bytes(pk.data), (m.regs[2] if m.init[2] else None)


def wrap(fmt, v):
    c = fmt[-1]
    n = SZ[c.lower()]
    v %= 1 << (8 * n)
    if c.islower() and v >> (8 * n - 1):
        v -= 1 << (8 * n)
    return v


def edge_bytes(rng, n):
    r = rng.random()
    if r < 0.25:
        return bytes(rng.choice([0, 0xff, 0x80, 0x7f, 1, 0xfe]) for _ in range(n))
    return bytes(rng.getrandbits(8) for _ in range(n))


def run_checks(ctx):
    rng = ctx.rng
    cases, impl = [], []
    N = 40
    reps = ctx.n(6, 120)
    for fmt in FMTS:
        n = SZ[fmt[-1].lower()]
        signed = fmt[-1].islower()
        explicit = len(fmt) == 2
        for _ in range(reps):
            p = rng.randrange(0, N - n + 2)
            pkt = bytearray(rng.getrandbits(8) for _ in range(rng.choice([N + 1, N + 2, N + 17])))
            bs = edge_bytes(rng, n)
            pkt[p:p + n] = bs
            want, = struct.unpack(fmt if explicit else "=" + fmt, bs)
            # reads
            for op, long in (("read64", True), ("read32", False), ("readarr", True)):
                if op == "readarr" and (explicit or signed):
                    continue
                code = build(fmt, op, p)
                r0, out, r2 = execute(code, bytes(pkt))
                case = {"op": "read", "fmt": fmt, "long": long, "bytes": bs.hex(), "p": p, "via": op}
                ctx.case(case, nontrivial=bool(bs[-1] & 0x80 or bs[0] & 0x80), kind=f"read{'64' if long else '32'}")
                bits = 64 if long else 32
                cls = None
                # a 32-bit destination view only defines the low 32 bits of the register
                ctx.require(r2 is not None and r2 % (1 << bits) == want % (1 << bits), "read does not give struct.unpack's value", case,
                            f"got {r2} want {want % (1 << bits)}", cls)
                ctx.require(out == bytes(pkt), "a read changed the packet", case, None)
                cases.append(case); impl.append(str(r2))
            # write from a register
            v = rng.choice([0, 1, 0x7f, 0x80, 0xff, 0x1234, 0x8000, 0xfffe, 0x7fffffff, 0x80000000, 0x123456789abcdef0,
                            (1 << 64) - 1, (1 << 63)]) if rng.random() < 0.5 else rng.getrandbits(64)
            for op in ("writereg", "writearr"):
                if op == "writearr" and (explicit or signed):
                    continue
                code = build(fmt, op, p)
                r0, out, _ = execute(code, bytes(pkt), r3=v)
                case = {"op": "write", "fmt": fmt, "value": v, "p": p, "via": op}
                ctx.case(case, nontrivial=True, kind="write")
                exp = struct.pack(fmt if explicit else "=" + fmt, wrap(fmt, v))
                ok = out is not None and out[p:p + n] == exp
                ctx.require(ok, "write does not store struct.pack's bytes", case, None if out is None else out[p:p + n].hex())
                ctx.require(out is not None and out[:p] == bytes(pkt[:p]) and out[p + n:] == bytes(pkt[p + n:]),
                            "a write touched other packet bytes", case, None)
                cases.append(case); impl.append(out[p:p + n].hex() if out else str(r0))
            # constants (inside the format's range, as struct requires)
            c = wrap(fmt, rng.choice([0, 1, -1, 0x12, 0x1234, 0x12345678, -0x8000, 0x7fffffff, -0x80000000, 0x80000000, 0xffffffff, 0xdeadbeef,
                                       0x100000000, 0x123456789abcdef0, rng.getrandbits(32), rng.getrandbits(64)]))
            code = build(fmt, "writeconst", p, c)
            if isinstance(code, str):
                ctx.require(False, "generator refused an in-range constant", {"fmt": fmt, "const": c}, code)
            else:
                r0, out, _ = execute(code, bytes(pkt))
                case = {"op": "write", "fmt": fmt, "value": c % (1 << 64), "p": p, "via": "const"}
                ctx.case(case, nontrivial=True, kind="writeconst")
                exp = struct.pack(fmt if explicit else "=" + fmt, c)
                ctx.require(out is not None and out[p:p + n] == exp and out[:p] == bytes(pkt[:p]) and out[p + n:] == bytes(pkt[p + n:]),
                            "constant write does not store struct.pack's bytes / touches other bytes", case, None if out is None else out[p:p + n].hex())
                cases.append(case); impl.append(out[p:p + n].hex() if out else str(r0))
            # in-place update with a constant amount
            a = rng.choice([1, 5, -1, 255, 256, -300, 0x7fff])
            code = build(fmt, "iadd", p, a)
            r0, out, _ = execute(code, bytes(pkt))
            case = {"op": "iadd", "fmt": fmt, "bytes": bs.hex(), "amount": a, "p": p}
            ctx.case(case, nontrivial=True, kind="iadd")
            exp = struct.pack(fmt if explicit else "=" + fmt, wrap(fmt, want + a))
            ctx.require(out is not None and out[p:p + n] == exp and out[:p] == bytes(pkt[:p]) and out[p + n:] == bytes(pkt[p + n:]),
                        "in-place update wrong / touches other bytes", case, None if out is None else out[p:p + n].hex())
            cases.append(case); impl.append(out[p:p + n].hex() if out else str(r0))
    # the size guard: body runs iff len > N, and never faults for accesses with p + n <= N + 1
    for N in (14, 30, 40, 63):
        for guard in ("min", "with"):
            for ln in range(max(0, N - 2), N + 4):
                pkt = bytes(rng.getrandbits(8) for _ in range(ln))
                r0, out, _ = execute(build("B", "marker", 0, None, N, guard), pkt)
                case = {"op": "guard", "fmt": "B", "N": N, "len": ln, "via": guard}
                ctx.case(case, nontrivial=abs(ln - N) <= 1, kind="guard")
                ctx.require(r0 == (3 if ln > N else 2), "guarded body ran on a short packet or not on a long one", case, str(r0))
                cases.append(case); impl.append("true" if r0 == 3 else "false" if r0 == 2 else str(r0))
                for fmt in ("Q", ">h", "I"):
                    n = SZ[fmt[-1].lower()]
                    p = N + 1 - n
                    r0, out, _ = execute(build(fmt, "access", p, None, N, guard), pkt)
                    ctx.require(r0 == (3 if ln > N else 2), "access at the last guarded offset faults or guard wrong",
                                {"op": "guard-access", "fmt": fmt, "N": N, "len": ln, "p": p, "via": guard}, str(r0))
    return cases, impl


def run(ctx):
    import sys
    assert sys.byteorder == "little"
    cases, impl = run_checks(ctx)
    model = ctx.drive(DRIVER, [{k: v for k, v in c.items() if k not in ("p", "via")} for c in cases], "packet variable")
    if model is not None:
        for c, i, m in zip(cases, impl, model):
            ctx.agree(f"packet variable {c['op']}", c, i, m)


def replay(ctx, case):
    fmt = case["fmt"]
    explicit, n = len(fmt) == 2, SZ[fmt[-1].lower()]
    if case["op"] == "read":
        p = case.get("p", 3)
        pkt = bytearray(60)
        bs = bytes.fromhex(case["bytes"])
        pkt[p:p + n] = bs
        op = case.get("via", "read64" if case["long"] else "read32")
        r0, out, r2 = execute(build(fmt, op, p), bytes(pkt))
        want, = struct.unpack(fmt if explicit else "=" + fmt, bs)
        bits = 64 if case["long"] else 32
        cls = None
        ctx.require(r2 is not None and r2 % (1 << bits) == want % (1 << bits), "read does not give struct.unpack's value", case,
                    f"got {r2} want {want % (1 << bits)}", cls)
        return {"register": r2, "struct": want}
    if case["op"] == "guard":
        r0, out, _ = execute(build("B", "marker", 0, None, case["N"], case.get("via", "min")), bytes(case["len"]))
        ctx.require(r0 == (3 if case["len"] > case["N"] else 2), "guard", case, str(r0))
        return {"r0": r0}
    p = case.get("p", 3)
    pkt = bytearray(60)
    if case["op"] == "write":
        via = case.get("via", "writereg")
        if via == "const":
            c = wrap(fmt, case["value"])
            r0, out, _ = execute(build(fmt, "writeconst", p, c), bytes(pkt))
            exp = struct.pack(fmt if explicit else "=" + fmt, c)
        else:
            r0, out, _ = execute(build(fmt, via, p), bytes(pkt), r3=case["value"])
            exp = struct.pack(fmt if explicit else "=" + fmt, wrap(fmt, case["value"]))
        ctx.require(out is not None and out[p:p + n] == exp and out[:p] + out[p + n:] == bytes(pkt[:p] + pkt[p + n:]), "write", case,
                    None if out is None else out[p:p + n].hex())
        return {"stored": out[p:p + n].hex() if out else None, "struct": exp.hex()}
    bs = bytes.fromhex(case["bytes"])
    pkt[p:p + n] = bs
    r0, out, _ = execute(build(fmt, "iadd", p, case["amount"]), bytes(pkt))
    want, = struct.unpack(fmt if explicit else "=" + fmt, bs)
    exp = struct.pack(fmt if explicit else "=" + fmt, wrap(fmt, want + case["amount"]))
    ctx.require(out is not None and out[p:p + n] == exp, "iadd", case, None if out is None else out[p:p + n].hex())
    return {"stored": out[p:p + n].hex() if out else None, "struct": exp.hex()}


LEVEL_TEXT = ("Translation validation by proof of 232 regenerated programs (all 32 formats x read64/read32/write-register/write-constant/"
              "in-place add + packet arrays: the real bytecode computes Ebv.PktVar for all packets and registers) + "
              "Lean 4 proofs over a hand-written model of the code emitted for packet variables, for every byte string/value and the whole "
              "format table: reads give struct.unpack's value (read_exact: all 32 formats, full strength since the fix: commit that extends the sign "
              "after the byte swap; the old order is kept as a refuted variant), "
              "writes store exactly struct.pack's bytes and touch no other byte, the "
              "guarded body runs iff len > N and accesses with p+n <= N+1 are in bounds. Tie: exact correspondence of the real generated code "
              "(regenerated from /repo every run, interpreted) with the model over all formats, destinations, offsets and boundary/random data.")
LEVEL_NOTE = ("trusted: Lean kernel + standard axioms; hand model validated by differential execution (not verified against the generator: the inductive "
              "generator model is C01's); in-place updates are covered by correspondence + the struct oracle only (no theorem); little-endian host; "
              "interpreter semantics")
TECHNIQUE = "Lean 4 proof over the format table (all byte strings) + exact generated-code/model correspondence"
DESIGN_REF = "§4 C07"
