"""C08 — array-map variables read back the same on both sides.
Random declaration sets (class hierarchies built with `type(...)`, subprogram instances, overriding
declarations, multi-element / fixed-point / byte-order formats) are instantiated as real `EBPF`
programs on an anonymous-mmap-backed map; the real `ArrayMap.collect` positions, Python-side set/get,
program-side store/load (real generated code run by the independent interpreter) and per-CPU reads are
compared with the Lean model `Ebv.Collect`; the property's own statement (disjoint ranges, write from one
side / read from the other) is evaluated on the implementation's behaviour."""
import io
import mmap
import struct
from fractions import Fraction

from .. import fsim, interp

ID = "C08"
LEAN_MODULES = ["Ebv.Props.C08"]
MODEL_MODULES = ["Ebv.Model.Collect"]
DRIVER = "Drivers/C08.lean"
THEOREMS = [
    "Ebv.C08.collect_disjoint_full_proved", "Ebv.C08.collect_disjoint", "Ebv.C08.keysDistinct_triples", "Ebv.C08.collect_total_mod",
    "Ebv.C08.collect_sorted_aligned", "Ebv.C08.collect_aligned_full", "Ebv.C08.collect_aligned_pow2", "Ebv.C08.py_roundtrip",
    "Ebv.C08.percpu_slice", "Ebv.C08.percpu_index_error", "Ebv.C08.percpu_block", "Ebv.C08.stride_total",
    "Ebv.C08.prog_store_eq_pySet", "Ebv.C08.prog_load_eq_unpack", "Ebv.C08.packM_spec", "Ebv.C08.member_load_eq_unpack",
    "Ebv.C08.ebpf_init_full_proved", "Ebv.C08.uninitialised_keyError",
    "Ebv.C08.collect_disjoint_old_refuted", "Ebv.C08.ebpf_init_old_refuted",
    "Ebv.C08.writeAll_get", "Ebv.C08.collectInto_get", "Ebv.C08.collectAll_get", "Ebv.C08.collect_history_free", "Ebv.C08.collect_frame",
    "Ebv.C08.positionOf_prog", "Ebv.C08.runNews_frame", "Ebv.C08.history_layout", "Ebv.C08.freshPos_single", "Ebv.C08.create_dicts",
    "Ebv.C08.pySet_dicts",
]
TRUSTED = ["hand-written model Ebv.Collect of ArrayMap.collect / ArrayGlobalVarDesc / PerCPUVar / EBPF.__init__ map discovery, "
           "tied by exact correspondence (positions, map sizes, map bytes, values, error kinds) on generated declaration sets",
           "harness/vh/interp.py (executes the really generated programs); Python's struct module and C3 MRO; little-endian host",
           "struct letter sizes, fmtsize('x'), FIXED_BASE and the rounding granularity are regenerated into Ebv.Generated.Consts"]
ASSUMPTIONS = ["formats: x, [<>!=@]?[count]c, and multi-letter formats ([count]c)+ with c in bBhHiIqQ: native ones with the alignment gaps "
               "struct.calcsize inserts (alignments regenerated from the real calcsize), prefixed ones packed",
               "the program side is modelled at byte level (an n-byte store/load at r[base]+position); that the generator emits exactly "
               "that access is observed by executing the real code in the interpreter, not proved (C01/C04 territory)",
               "a program with a map access outside the map value is rejected as a whole (kernel verifier); the interpreter's fault stands for it",
               "per-CPU lookups return one block of round_up(value_size, 8) bytes per possible CPU (emulated kernel)",
               "a map all of whose variables have size 0 ('0B') is never created; such declaration sets are outside the property",
               "histories: the per-CPU variables of earlier instances are read again after the later instances were created, against an emulated "
               "kernel side of the instance's own value size (blocks filled with cpu + 1; oracle only, no model line); this is what the defect "
               "C08-percpu-size-shared (size kept on the map object shared by all instances of a class; repaired by /repo 4aac77c) breaks",
               "x values are dyadic decimals, for which float*FIXED_BASE is an exact integer, so the setter's rounding plays no role "
               "(the float -> fixed-point conversion itself belongs to C02)"]
RULE = ("cases = 1-12 globalVar declarations spread over a program class with 0-3 bases (chain or fan), 0-3 subprogram instances of 1-2 "
        "classes with own bases, optional overriding redeclaration, optional map declared in a base class, optional duplicated subprogram "
        "(the two witnesses repaired by commit 6422374 are run first); "
        "formats incl. multi-letter ones with native alignment gaps (BI, HQ, BHI, bq, IB, QH, 3BH, random groups); "
        "kinds: layout (Python set/get of distinct random values), prog (real program stores constants / copies variables / stores into and "
        "copies out of single members at their natural offsets, run in interp), "
        "percpu (emulated possible-CPU file, one program run per CPU); 30% of the cases are the LAST object of a history: 1-2 further "
        "instances of the main class were created before it in the same process from the same classes, with other subprogram instances, "
        "counts and orders (half of them with as many subprograms as the final object), some of the subprogram instances the very objects "
        "the final program gets too; each earlier object is judged right after its creation (ranges disjoint inside its own map) and written "
        "from Python, and at the end every variable an earlier object still owns must read back what was written; "
        "non-trivial = at least two variables of different sizes")

SINGLES = "bBhHiIqQ"
MAPID = {"m": 0, "pc": 1}


def vid(name):
    """variable name -> the model's number (v7 -> 7, p7 -> 100 + 7)"""
    return int(name[1:]) + (100 if name[0] == "p" else 0)


def members(fmt):
    """the letters of a format, counts expanded ('3BH' -> BBBH, 'x' -> x)"""
    if fmt == "x":
        return ["x"]
    out, n = [], ""
    for ch in fmt.lstrip("<>!=@"):
        if ch.isdigit():
            n += ch
        else:
            out += [ch] * (int(n) if n else 1)
            n = ""
    return out


def mixed(fmt):
    """several letter groups: the kind of format that has alignment gaps in native mode"""
    return fmt != "x" and sum(not ch.isdigit() for ch in fmt.lstrip("<>!=@")) > 1


def parse(fmt):
    """(prefix, count, letter) of a one-letter format; 'x' -> ('', 1, 'x'); letter None for multi-letter formats"""
    if fmt == "x":
        return "", 1, "x"
    pre = fmt[0] if fmt[0] in "<>!=@" else ""
    body = fmt[len(pre):]
    if mixed(fmt):
        return pre, len(members(fmt)), None
    return pre, (int(body[:-1]) if len(body) > 1 else 1), body[-1]


def single(fmt):
    pre, n, c = parse(fmt)
    return c is not None and n == 1 and fmt == pre + c


def member_offset(fmt, j):
    """natural offset of member j inside a native multi-letter format, by Python's struct alone"""
    ms = members(fmt)
    return struct.calcsize("".join(ms[:j + 1])) - struct.calcsize(ms[j])


def rand_value(rng, letter):
    if letter == "x":      # scaled integer n of a decimal n / 100000: five-place decimals, or exact dyadic ones (n = k * 3125 * 2**(5-j))
        r = rng.random()
        if r < 0.1:
            return rng.choice([0, 100000, -100000, 3125, -3125, 2 ** 46 * 100000, -2 ** 46 * 100000])
        if r < 0.45:       # any decimal with five places (0.29, 4.35, ...): k / 100000 is not exact as a float, but the
            # nearest scaled integer of the float is k again (|k| < 2**40: the error of v * 100000 stays below 2**-11)
            return rng.choice([29000, 435000, -29000, 1, -1, 99999, rng.randrange(-2 ** 40, 2 ** 40), rng.randrange(-10 ** 6, 10 ** 6)])
        return rng.randrange(-2 ** 30, 2 ** 30) * 3125 * 2 ** rng.randrange(0, 6)
    bits = 8 * struct.calcsize(letter)
    lo, hi = (-(1 << (bits - 1)), (1 << (bits - 1)) - 1) if letter.islower() else (0, (1 << bits) - 1)
    r = rng.random()
    if r < 0.15:
        return rng.choice([lo, hi, 0, 1, hi - 1, lo + 1 if lo else 2])
    return rng.randrange(lo, hi + 1)


def rand_values(rng, fmt):
    return [rand_value(rng, c) for c in members(fmt)]


PADDED = ["BI", "HQ", "BHI", "bq", "IB", "QH", "3BH", "BH", "bQ", "hI", "BQB", "2BI2H", "Hq", "IQ", "B3I", "iBh"]


def rand_mixed(rng, prog_side):
    """a multi-letter format: mostly native (alignment gaps), from the fixed list or random groups"""
    if rng.random() < 0.6:
        f = rng.choice(PADDED)
    else:
        f = "".join((str(rng.choice([2, 3])) if rng.random() < 0.2 else "") + rng.choice(SINGLES)
                    for _ in range(rng.choice([2, 2, 3, 4])))
        if not mixed(f):
            f = "BI"
    if not prog_side and rng.random() < 0.2:
        f = rng.choice("<>!=@") + f
    return f


def rand_fmt(rng, prog_side=False):
    r = rng.random()
    if r < 0.12:
        return "x"
    if rng.random() < 0.17:
        return rand_mixed(rng, prog_side)
    c = rng.choice(SINGLES)
    pre = ""
    if rng.random() < 0.2:
        pre = rng.choice("<>!" if prog_side else "<>!=@")
    if r < 0.7 or prog_side and r < 0.85:
        return pre + c
    n = rng.choice([2, 3, 3, 4, 5, 7, 9, 16, 64]) if rng.random() < 0.9 else rng.choice([0, 1, 33])
    return f"{pre}{n}{c}"


def gen(rng, kind):
    """one declaration set; see RULE"""
    prog_side = kind != "layout"
    classes = {}           # name -> spec, in creation order (bases first)
    nb = rng.choice([0, 0, 1, 1, 2, 3])
    fan = nb >= 2 and rng.random() < 0.3
    names = [f"B{i}" for i in range(nb)]
    for i, b in enumerate(names):
        classes[b] = {"root": "E", "bases": [] if fan or i == 0 else [names[i - 1]], "maps": [], "vars": []}
    classes["Leaf"] = {"root": "E", "bases": (names if fan else names[-1:]), "maps": ["m"], "vars": []}
    main_family = names + ["Leaf"]
    sub_families = []
    subs = []
    if rng.random() < 0.6:
        for s in range(rng.choice([1, 1, 2])):
            fam = []
            for d in range(rng.choice([1, 1, 2, 3])):
                nm = f"S{s}_{d}"
                classes[nm] = {"root": "S", "bases": fam[-1:], "maps": [], "vars": []}
                fam.append(nm)
            sub_families.append(fam)
        for i in range(rng.choice([1, 1, 2, 3])):
            fam = rng.choice(sub_families)
            subs.append([fam[-1] if rng.random() < 0.8 else rng.choice(fam), i + 1])
        if rng.random() < 0.06:
            subs.append(list(rng.choice(subs)))       # the same instance listed twice
    used = [c for fam in [main_family] + sub_families for c in fam
            if fam is main_family or any(s[0] == c or c in ancestors(classes, s[0]) for s in subs)]
    nv = rng.randrange(1, 13)
    for i in range(nv):
        cname = rng.choice(used) if rng.random() < 0.7 else "Leaf"
        classes[cname]["vars"].append([f"v{i}", "m", rand_fmt(rng, prog_side)])
    if all(csize(v[2]) == 0 for c in classes.values() for v in c["vars"]):
        next(c for c in classes.values() if c["vars"])["vars"][0][2] = "B"    # a map of size 0 is never created
    if rng.random() < 0.22:                           # an overriding redeclaration in a derived class
        cands = [(c, v) for c in used for a in ancestors(classes, c) for v in classes[a]["vars"]]
        if cands:
            c, v = rng.choice(cands)
            if all(w[0] != v[0] for w in classes[c]["vars"]):
                f = v[2] if rng.random() < 0.15 else rand_fmt(rng, prog_side)
                classes[c]["vars"].insert(rng.randrange(len(classes[c]["vars"]) + 1), [v[0], "m", f])
    if nb and kind != "percpu" and rng.random() < 0.05:    # the map is declared in a base class
        classes["Leaf"]["maps"] = []
        classes[rng.choice(names)]["maps"] = ["m"]
    case = {"kind": kind, "classes": [[k, v] for k, v in classes.items()], "main": "Leaf", "subs": subs}
    if all(csize(fmt_of(case, k)) == 0 for k in all_keys(case)):     # only size-0 variables remain visible: map of size 0
        i, v = all_keys(case)[0]
        owner = next(c for c in mro_names(case, instances(case)[i]) if any(w[0] == v for w in classes[c]["vars"]))
        next(w for w in classes[owner]["vars"] if w[0] == v)[2] = "B"
    return case


def ancestors(classes, c):
    out = []
    todo = list(classes[c]["bases"])
    while todo:
        b = todo.pop(0)
        if b not in out:
            out.append(b)
            todo.extend(classes[b]["bases"])
    return out


# ---- what a case declares, worked out from the case alone (Python's MRO, no /repo code) ---------------

def mro_names(case, cname):
    specs = dict(case["classes"])
    dummies = {}
    for k, spec in case["classes"]:
        dummies[k] = type(k, tuple(dummies[b] for b in spec["bases"]) or (object,), {})
    return [c.__name__ for c in dummies[cname].__mro__ if c.__name__ in specs]


def resolved(case, cname):
    """name -> (map, fmt) of the declaration attribute lookup finds"""
    specs = dict(case["classes"])
    out = {}
    for c in mro_names(case, cname):
        for v, m, f in specs[c]["vars"]:
            out.setdefault(v, (m, f))
    return out


def instances(case):
    inst = {0: case["main"]}
    for c, i in case["subs"]:
        inst[i] = c
    return inst


def all_keys(case, mapname="m"):
    return [(i, v) for i, c in instances(case).items() for v, (m, f) in resolved(case, c).items() if m == mapname]


def fmt_of(case, key):
    return resolved(case, instances(case)[key[0]])[key[1]][1]


# ---- earlier objects of the same process ------------------------------------------------------------------
# `case["pre"]` lists objects created (and written) BEFORE the object the case is about, from the same classes:
# further instances of the main class with other subprograms, in another order, some of the subprogram instances
# the same objects the final program gets too.  Instance numbers: the final main is 0, earlier mains 200, 201, ...

def pre_instances(case, j):
    p = case["pre"][j]
    inst = {p["id"]: p["main"]}
    for c, i in p["subs"]:
        inst[i] = c
    return inst


def pre_keys(case, j, mapname="m"):
    return [(i, v) for i, c in pre_instances(case, j).items() for v, (m, f) in resolved(case, c).items() if m == mapname]


def pre_fmt(case, j, key):
    return resolved(case, pre_instances(case, j)[key[0]])[key[1]][1]


def pre_alive(case, j):
    """the variables of earlier object j whose instance was not handed to a later object: still this object's"""
    later = {i for p in case["pre"][j + 1:] for c, i in p["subs"]} | {i for c, i in case["subs"]}
    return [k for k in pre_keys(case, j) if k[0] not in later]


def add_pre(rng, case):
    subclasses = [k for k, v in case["classes"] if v["root"] == "S"]
    pool = {i: c for c, i in case["subs"]}
    case["pre"] = []
    for j in range(rng.choice([1, 1, 2])):
        subs = []
        want = rng.choice([0, 1, 2, 3]) if rng.random() < 0.5 else len(dict.fromkeys(i for c, i in case["subs"]))
        for _ in range(want if subclasses else 0):
            if pool and rng.random() < 0.5:
                i = rng.choice(sorted(pool))
            else:
                i = max([9] + list(pool)) + 1
                pool[i] = rng.choice(subclasses)
            if all(x[1] != i for x in subs):
                subs.append([pool[i], i])
        case["pre"].append({"main": case["main"], "id": 200 + len(case["pre"]), "subs": subs})
        if all(csize(pre_fmt(case, len(case["pre"]) - 1, k)) == 0 for k in pre_keys(case, len(case["pre"]) - 1)):
            case["pre"].pop()          # a map of size 0 is never created: outside the property (see ASSUMPTIONS)
    if not case["pre"]:
        del case["pre"]
        return case
    for j, p in enumerate(case["pre"]):
        keys = pre_keys(case, j)
        rng.shuffle(keys)
        p["sets"] = [[i, v, rand_values(rng, pre_fmt(case, j, (i, v)))] for i, v in keys]
    return case


def shape(case):
    """label for the distribution table: the declaration shapes that were defects before commit 6422374"""
    specs = dict(case["classes"])
    if "m" not in specs[case["main"]]["maps"]:
        return "map-in-base"
    seen = set()
    for i, c in [(0, case["main"])] + [(i, c) for c, i in case["subs"]]:
        for k in mro_names(case, c):
            for v, m, f in specs[k]["vars"]:
                if (i, v, m) in seen:
                    return "collected-twice"
                seen.add((i, v, m))
    return None


def complete(rng, case):
    """add the operations: Python-side sets of distinct values, program stores/copies, per-CPU rounds"""
    keys = all_keys(case)
    rng.shuffle(keys)
    kind = case["kind"]
    case["sets"] = [[i, v, rand_values(rng, fmt_of(case, (i, v)))] for i, v in keys]
    case["prog"] = []
    if kind == "prog":
        free = [k for k in keys if single(fmt_of(case, k)) and fmt_of(case, k)[0] not in "=@"]
        for k in keys:        # members of native multi-letter variables: program stores into one, copies another out
            f = fmt_of(case, k)
            if mixed(f) and f[0] not in "<>!=@":
                ms = members(f)
                j = rng.randrange(len(ms))
                if rng.random() < 0.5:
                    case["prog"].append(["mstore", k[0], k[1], j, rand_value(rng, ms[j])])
                j2 = rng.randrange(len(ms))
                tgt = next((t for t in free if fmt_of(case, t) == ms[j2]), None)
                if tgt is not None and (j2 != j or rng.random() < 0.5):
                    free.remove(tgt)
                    case["prog"].append(["mcopy", k[0], k[1], j2, tgt[0], tgt[1]])
        while free:
            k = free.pop()
            f = fmt_of(case, k)
            twin = next((t for t in free if fmt_of(case, t) == f), None)
            if twin is not None and rng.random() < 0.7:
                free.remove(twin)
                case["prog"].append(["copy", k[0], k[1], twin[0], twin[1]])
            elif rng.random() < 0.8:
                case["prog"].append(["store", k[0], k[1], rand_value(rng, parse(f)[2])])
    if kind == "percpu":
        specs = dict(case["classes"])
        pairs = []
        for cname, spec in case["classes"]:
            for v, m, f in list(spec["vars"]):
                if single(f) and f[0] not in "=@" and rng.random() < 0.7 and cname in used_classes(case):
                    spec["vars"].append(["p" + v[1:], "pc", f])
        for n in range(rng.randrange(0, 3)):
            specs[case["main"]]["vars"].append([f"p{20 + n}", "pc", rand_fmt(rng)])
        specs[case["main"]]["maps"] = ["m", "pc"]
        for i, p in all_keys(case, "pc"):
            if vid(p) < 120 and ("v" + p[1:]) in resolved(case, instances(case)[i]) and \
                    fmt_of(case, (i, "v" + p[1:])) == fmt_of(case, (i, p)):
                pairs.append([i, "v" + p[1:], i, p])
        case["pairs"] = pairs
        ncpu = rng.choice([1, 2, 3, 4, 5, 8])
        case["cpufile"] = cpu_file(rng, ncpu)
        case["rounds"] = [[[i, v, rand_values(rng, fmt_of(case, (i, v)))] for i, v, _, _ in pairs] for _ in range(ncpu)]
        case["seed"] = rng.randrange(2 ** 32)
    if rng.random() < 0.3 and "m" in dict(case["classes"])[case["main"]]["maps"]:
        add_pre(rng, case)
    return case


def used_classes(case):
    out = set()
    for c in instances(case).values():
        out.update(mro_names(case, c))
    return out


def cpu_file(rng, n):
    """a /sys/devices/system/cpu/possible content naming exactly n CPUs, in ranges with gaps"""
    parts, cur, left = [], 0, n
    while left:
        k = rng.randrange(1, left + 1)
        parts.append(str(cur) if k == 1 else f"{cur}-{cur + k - 1}")
        cur += k + rng.choice([0, 1, 4])
        left -= k
    return ",".join(parts)


def count_cpus(text):
    """independent reading of the kernel's cpu list format"""
    n = 0
    for part in text.strip().split(","):
        lo, _, hi = part.partition("-")
        n += int(hi or lo) - int(lo) + 1
    return n


# ---- the real code ------------------------------------------------------------------------------------

def exc_name(e):
    import struct as st
    if isinstance(e, KeyError):
        return "key-error"
    if isinstance(e, st.error):
        return "struct-error"
    if isinstance(e, (IndexError, ValueError)):
        return "index-error"
    return "other:" + type(e).__name__


def fixed_base():
    """FIXED_BASE of the working tree; the dyadic x values of `rand_value` are exact for 100000 = 2**5 * 3125"""
    from ebpfcat.ebpf import Expression
    fb = int(Expression.FIXED_BASE)
    if fb != 100000:
        raise ValueError(f"FIXED_BASE is {fb}: the generator of exact fixed-point values assumes 100000")
    return fb


def to_py(fmt, vals):
    """the Python value handed to / expected from the descriptor"""
    if fmt == "x":
        v = vals[0] / fixed_base()
        assert round(Fraction(v) * fixed_base()) == vals[0] and (abs(vals[0]) < 2 ** 41 or Fraction(v) * fixed_base() == vals[0]), \
            "x value is neither a five-place decimal of moderate size nor an exact dyadic one"
        return v
    return vals[0] if len(vals) == 1 else tuple(vals)


def from_py(fmt, v):
    if fmt == "x":      # the scaled integer, recoverable from the float below 2**52 (larger ones: see the bytes)
        n = round(Fraction(v) * fixed_base())
        return [n if abs(n) < 2 ** 52 else "big"]
    return list(v) if isinstance(v, tuple) else [v]


def show_vals(vals, fmt=None):
    if fmt == "x" and abs(vals[0]) >= 2 ** 52:
        return "(big)"
    return "(" + ",".join(str(v) for v in vals) + ")"


class Built:
    """the case's classes as real EBPF / SubProgram classes, instantiated on anonymous mmaps"""

    def __init__(self, case, cpu_text=None):
        from ebpfcat.ebpf import EBPF, SubProgram
        from ebpfcat.arraymap import ArrayMap, PerCPUArrayMap
        import ebpfcat.arraymap as am
        from ebpfcat.bpf import ProgType
        from ebpfcat.xdp import XDPExitCode
        self.case = case
        self.maps = {"m": ArrayMap(), "pc": PerCPUArrayMap()}
        roots = {"E": EBPF, "S": SubProgram}
        self.classes = {}
        built = self

        def program(ebpf):
            for op in case["prog"]:
                if op[0] == "store":
                    f = fmt_of(case, (op[1], op[2]))
                    setattr(built.objs[op[1]], op[2], to_py(f, [op[3]]))
                elif op[0] in ("mstore", "mcopy"):        # member access as a program does it: address + natural offset
                    f = fmt_of(case, (op[1], op[2]))
                    mem = getattr(ebpf, "m" + members(f)[op[3]])
                    with getattr(built.objs[op[1]], op[2]).get_address(None, True, False) as (dst, _):
                        if op[0] == "mstore":
                            mem[ebpf.r[dst] + member_offset(f, op[3])] = op[4]
                        else:
                            setattr(built.objs[op[4]], op[5], mem[ebpf.r[dst] + member_offset(f, op[3])])
                else:
                    setattr(built.objs[op[3]], op[4], getattr(built.objs[op[1]], op[2]))
            for si, sv, di, dv in case.get("pairs", []):
                setattr(built.objs[di], dv, getattr(built.objs[si], sv))
            ebpf.exit(XDPExitCode.PASS)
        for cname, spec in case["classes"]:
            ns = {mn: self.maps[mn] for mn in spec["maps"]}
            for v, mn, f in spec["vars"]:
                ns[v] = self.maps[mn].globalVar(f)
            if cname == case["main"]:
                ns["program"] = program
            bases = tuple(self.classes[b] for b in spec["bases"]) or (roots[spec["root"]],)
            self.classes[cname] = type(cname, bases, ns)
        self.objs = {}
        self.buffers = []
        self.raw = {}
        self.pre = []

        def instantiate(cname, subs):
            for c, i in subs:
                if i not in self.objs:
                    self.objs[i] = self.classes[c]()
            with fsim.fake_maps() as created:
                am.mmap = lambda fd, size: self._mmap(size)      # the real mmap type: fixed size, like the kernel's
                saved_open = am.__dict__.get("open")
                if cpu_text is not None:
                    am.open = lambda path, *a, **k: self._open(path, cpu_text)
                try:
                    return self.classes[cname](ProgType.XDP, "GPL", subprograms=[self.objs[i] for c, i in subs]), created
                finally:
                    if saved_open is None:
                        am.__dict__.pop("open", None)
                    else:
                        am.open = saved_open
        for j, p in enumerate(case.get("pre", [])):      # the earlier objects: created, looked at, written from Python
            main, made = instantiate(p["main"], p["subs"])
            self.objs[p["id"]] = main
            main.loaded = True
            buf = main.__dict__.get("m")
            rec = {"size": len(buf) if isinstance(buf, mmap.mmap) else None,
                   "sizes": {mn: getattr(self.maps[mn], "size", None) for mn in self.maps},
                   "mapmro": self.map_attrs(main), "progs": [{"id": i, "mro": self.mro_decls(self.objs[i])}
                                                             for i in [p["id"]] + [i for c, i in p["subs"]]],
                   "ranges": [(self.objs[i].__dict__.get(v), csize(pre_fmt(case, j, (i, v))), (i, v)) for i, v in pre_keys(case, j)]}
            rec["main"] = main
            rec["pc_size"] = next((a[2] for fd, a in made if a[0].name == "PERCPU_ARRAY"), None)   # value size of ITS kernel map
            rec["sets"] = []
            for i, v, vals in p["sets"]:
                try:
                    setattr(self.objs[i], v, to_py(pre_fmt(case, j, (i, v)), vals))
                    rec["sets"].append("ok")
                except Exception as e:
                    rec["sets"].append(exc_name(e))
            self.pre.append(rec)
        self.opened = []      # (what the creation of the final object opens)
        self.main, created = instantiate(case["main"], case["subs"])
        self.objs[0] = self.main
        self.created = created
        self.opened = getattr(self, "opened", [])

    def pre_reads(self):
        """every variable the earlier objects still own, read now: (key, expected values, what Python gets)"""
        out = []
        for j, p in enumerate(self.case.get("pre", [])):
            exp = {(i, v): vals for i, v, vals in p["sets"]}
            for k in pre_alive(self.case, j):
                f = pre_fmt(self.case, j, k)
                try:
                    raw = getattr(self.objs[k[0]], k[1])
                    out.append((k, f, exp[k], raw, show_vals(from_py(f, raw))))
                except Exception as e:
                    out.append((k, f, exp[k], exc_name(e), exc_name(e)))
        return out

    def _mmap(self, size):
        b = mmap.mmap(-1, size)
        self.buffers.append(b)
        return b

    def _open(self, path, text):
        self.opened = getattr(self, "opened", []) + [path]
        return io.StringIO(text + "\n")

    def close(self):
        for b in self.buffers:
            try:
                b.close()
            except BufferError:
                pass

    def pre_percpu(self, ncpu):
        """the per-CPU variables of the earlier objects, read now (after every later object was created): the kernel side of
        object j holds, for CPU k, a block of ITS value size filled with the byte k + 1 - so what a variable of CPU k must read
        is known without knowing where it lies.  [(object, key, cpu, got, want)], and the buffer sizes asked for"""
        import ebpfcat.arraymap as am
        out, asked_all = [], []
        for j, r in enumerate(self.pre):
            reader = r["main"].__dict__.get("pc")
            if r["pc_size"] is None or reader is None:
                continue
            stride = (r["pc_size"] + 7) // 8 * 8
            kernel = b"".join(bytes([k + 1]) * stride for k in range(ncpu))
            asked = []

            def lookup_elem(fd, key, sz):
                asked.append(sz)
                return bytearray(kernel[:sz].ljust(sz, b"\0"))
            saved = am.lookup_elem
            am.lookup_elem = lookup_elem
            try:
                reader.read()
            except Exception as e:
                out.append((j, None, None, exc_name(e), "read() works"))
                continue
            finally:
                am.lookup_elem = saved
            asked_all.append((j, asked, len(kernel)))
            later = {i for p in self.case["pre"][j + 1:] for c, i in p["subs"]} | {i for c, i in self.case["subs"]}
            for key in pre_keys(self.case, j, "pc"):
                if key[0] in later:
                    continue
                f = pre_fmt(self.case, j, key)
                for k in range(ncpu):
                    want = to_py(f, list(struct.unpack("q" if f == "x" else f, bytes([k + 1]) * csize(f)))) if f != "x" else \
                        struct.unpack("q", bytes([k + 1]) * 8)[0] / fixed_base()
                    try:
                        got = getattr(self.objs[key[0]], key[1])[k]
                    except Exception as e:
                        got = exc_name(e)
                    out.append((j, key, k, got, want))
        return out, asked_all

    def mro_decls(self, obj):
        """the instance's real MRO with the case's declarations per class (model input)"""
        specs = dict(self.case["classes"])
        return [[[vid(v), MAPID[m], f] for v, m, f in specs[c.__name__]["vars"]] if c.__name__ in specs and
                 self.classes.get(c.__name__) is c else [] for c in type(obj).__mro__]

    def map_attrs(self, main=None):
        specs = dict(self.case["classes"])
        return [[[MAPID[m], MAPID[m]] for m in specs[c.__name__]["maps"]] if self.classes.get(c.__name__) is c else []
                for c in type(main or self.main).__mro__]

    def buffer(self, mapname):
        return self.main.__dict__.get(mapname)

    def py_set(self, i, v, vals):
        try:
            setattr(self.objs[i], v, to_py(fmt_of(self.case, (i, v)), vals))
            return "ok"
        except Exception as e:
            return exc_name(e)

    def py_get(self, i, v):
        try:
            raw = getattr(self.objs[i], v)
            self.raw[(i, v)] = raw
            return show_vals(from_py(fmt_of(self.case, (i, v)), raw))
        except Exception as e:
            self.raw[(i, v)] = exc_name(e)
            return exc_name(e)

    def run_program(self, percpu_block=None):
        """execute the assembled program once; a fault (access outside a map value) = rejected, no effect"""
        regions, models = [], {}
        snaps = []
        for fd, args in self.created:
            if args[0].name == "ARRAY":
                mm = interp.ArrayMapModel(fd, args[2], index=0)
                mm.value.data = self.buffer("m")
                snaps.append((mm.value.data, bytes(mm.value.data)))
            else:
                mm = interp.ArrayMapModel(fd, args[2], index=1)
                mm.value.data = percpu_block
                snaps.append((percpu_block, bytes(percpu_block)))
            regions.append(mm.value)
            models[fd] = mm
        m = interp.Machine(self.insns, regions, interp.std_helpers(models))
        m.wr(1, interp.CTX_BASE)
        try:
            m.run()
            return "ok"
        except interp.Fault as e:
            for buf, old in snaps:
                buf[:] = old
            return "index-error" if "outside every region" in str(e) else "fault:" + str(e)


def csize(fmt):
    """size of a format by Python's struct alone (the oracle's own arithmetic)"""
    return 8 if fmt == "x" else struct.calcsize(fmt)


def observe(case):
    """`_observe`, with an exception of the real code anywhere on the way (sizing helpers, map creation, read()) turned
    into an observation the oracle judges instead of an abort of the whole run"""
    try:
        return _observe(case)
    except Exception as e:
        return "raised=" + exc_name(e), None, {"build": f"{exc_name(e)}: {type(e).__name__}: {e}"}


def _observe(case):
    """run the real code on the case; returns (canonical output line, model input, observations for the oracle)"""
    import random
    import ebpfcat.arraymap as am
    kind = case["kind"]
    try:
        b = Built(case, cpu_text=case.get("cpufile"))
    except Exception as e:      # the real classes refuse the declaration set: nothing was laid out at all
        return "build=" + exc_name(e), None, {"build": f"{exc_name(e)}: {type(e).__name__}: {e}"}
    try:
        obs = {"sets": [], "prog": "ok", "reads": {}, "percpu": {}, "notes": []}
        specs = dict(case["classes"])
        decl_maps = [mn for c in mro_names(case, case["main"]) for mn in specs[c]["maps"]]
        sizes = {mn: getattr(b.maps[mn], "size", None) for mn in decl_maps}
        leaf_maps = [mn for mn in decl_maps if sizes[mn] is not None]      # the maps the object really initialised
        keys = all_keys(case)
        # positions and ranges as the implementation left them
        layout = {}
        for mn in ["m"] + (["pc"] if kind == "percpu" else []):
            rs = []
            for i, v in all_keys(case, mn):
                p = b.objs[i].__dict__.get(v)
                rs.append((p, csize(fmt_of(case, (i, v))), (i, v)))
            ok = all(p is not None and sizes.get(mn) is not None and p + s <= sizes[mn] for p, s, k in rs) and \
                all(a[0] + a[1] <= c[0] or c[0] + c[1] <= a[0] for n, a in enumerate(rs) for c in rs[n + 1:])
            layout[mn] = ok
            obs.setdefault("ranges", {})[mn] = rs
        obs["layout"], obs["sizes"] = layout, sizes
        obs["pos"] = {k: b.objs[k[0]].__dict__.get(k[1]) for k in keys}
        if kind != "layout":
            try:
                b.main.assemble()
                b.insns = list(b.main.opcodes)
            except Exception as e:
                obs["prog"] = exc_name(e)
                b.insns = None
        b.main.loaded = True
        all_sets = list(case["sets"])
        for i, v, vals in case["sets"]:
            obs["sets"].append(b.py_set(i, v, vals))
        pc_line = "-"
        model_pc = None
        if kind == "prog" and b.insns is not None:
            obs["prog"] = b.run_program()
        if kind == "percpu":
            ncpu = count_cpus(case["cpufile"])
            size = sizes.get("pc") or 0
            rnd = random.Random(case["seed"])
            blocks = [bytearray(rnd.randbytes(size)) for _ in range(ncpu)]
            for k, rd in enumerate(case["rounds"]):
                for i, v, vals in rd:
                    obs["sets"].append(b.py_set(i, v, vals))
                    all_sets.append([i, v, vals])
                if b.insns is not None:
                    r = b.run_program(blocks[k])
                    if r != "ok":
                        obs["prog"] = r
            pckeys = all_keys(case, "pc")
            got, data = {}, b""
            if pckeys and size:
                stride = (size + 7) // 8 * 8
                kernel = b"".join(bytes(bl) + bytes(stride - size) for bl in blocks)
                asked = []

                def lookup_elem(fd, key, sz):
                    asked.append(sz)
                    return kernel[:sz].ljust(sz, b"\0")
                saved = am.lookup_elem
                am.lookup_elem = lookup_elem
                try:
                    b.main.pc.read()
                finally:
                    am.lookup_elem = saved
                data = bytes(b.main.pc.data)
                obs["kernel_bytes"], obs["asked"] = len(kernel), asked
                obs["cpu_no"] = getattr(b.maps["pc"], "cpu_no", None)
                obs["opened"] = b.opened
                qs = []
                for i, p in pckeys:
                    f = fmt_of(case, (i, p))
                    try:
                        var = getattr(b.objs[i], p)
                        obs["percpu_len"] = len(var)
                    except Exception as e:
                        var = e
                    for k in range(-1, ncpu + 1):
                        try:
                            if isinstance(var, Exception):
                                raise var
                            raw = var[k]
                            obs.setdefault("pcraw", {})[(i, p, k)] = raw
                            got[(i, p, k)] = show_vals(from_py(f, raw))
                        except Exception as e:
                            got[(i, p, k)] = exc_name(e)
                        qs.append([i, vid(p), k])
                pc_line = f"{size}x{obs['cpu_no']}:" + " ".join(got[(q[0], 'p' + str(q[1] - 100), q[2])] for q in qs)
                model_pc = {"map": 1, "cpus": ncpu, "data": data.hex(), "queries": qs}
            obs["percpu"] = got
            if b.pre:
                obs["pre_percpu"] = b.pre_percpu(ncpu)
        for k in keys:
            obs["reads"][k] = b.py_get(*k)
        obs["raw"] = dict(b.raw)
        bufs = []
        for mn in leaf_maps:
            if not sizes[mn]:
                continue
            if mn == "m":
                buf = b.buffer("m")
                bufs.append("0:" + (bytes(buf).hex() if isinstance(buf, mmap.mmap) else ""))
            else:
                bufs.append("1:" + "00" * (sizes["pc"] or 0))
        line = ("maps=" + ",".join(f"{MAPID[mn]}:{sizes[mn]}" for mn in leaf_maps)
                + " layout=" + ",".join("ok" if layout[mn] else "overlap" for mn in leaf_maps)
                + " pos=" + " ".join(f"{i}.{vid(v)}@{'-' if obs['pos'][(i, v)] is None else obs['pos'][(i, v)]}" for i, v in keys)
                + " ops=" + ",".join(obs["sets"]) + " prog=" + obs["prog"]
                + " bytes=" + ",".join(bufs)
                + " reads=" + " ".join(obs["reads"][k] for k in keys) + " percpu=" + pc_line)
        mi = {"progs": [{"id": i, "mro": b.mro_decls(b.objs[i])} for i in [0] + [i for c, i in case["subs"]]],
              "mapmro": b.map_attrs(), "discover": "ebpf",
              "ops": [["set", i, vid(v), vals] for i, v, vals in all_sets],
              "prog": [[op[0], op[1], vid(op[2]), op[3]] if op[0] == "store" else
                       ["mstore", op[1], vid(op[2]), op[3], op[4]] if op[0] == "mstore" else
                       ["mcopy", op[1], vid(op[2]), op[3], op[4], vid(op[5])] if op[0] == "mcopy" else
                       ["copy", op[1], vid(op[2]), op[3], vid(op[4])] for op in case["prog"]],
              "reads": [[i, vid(v)] for i, v in keys]}
        if kind == "percpu":
            mi["progcheck"] = [["copy", si, vid(sv), di, vid(dp)] for si, sv, di, dp in case["pairs"]]
        if model_pc is not None:
            mi["percpu"] = model_pc
        if b.pre:
            prs = b.pre_reads()
            obs["pre"], obs["prereads"] = b.pre, prs
            line += (" pre=" + " ; ".join(
                "maps=" + ",".join(f"{MAPID[mn]}:{r['sizes'][mn]}" for mn in decl_maps if r["sizes"][mn] is not None)
                + " pos=" + " ".join(f"{k[0]}.{vid(k[1])}@{'-' if p_ is None else p_}" for p_, s_, k in r["ranges"])
                + " ops=" + ",".join(r["sets"]) for r in b.pre)
                + " prereads=" + " ".join(x[4] for x in prs))
            mi["pre"] = [{"main": p["id"], "progs": r["progs"], "mapmro": r["mapmro"],
                          "sets": [[i, vid(v), vals] for i, v, vals in p["sets"]],
                          "reads": [[k[0], vid(k[1])] for p_, s_, k in r["ranges"]]} for p, r in zip(case["pre"], b.pre)]
            mi["prereads"] = [[x[0][0], vid(x[0][1])] for x in prs]
        return line, mi, obs
    finally:
        b.close()


def oracle(ctx, case, obs):
    """the property text on the implementation's behaviour: disjoint ranges inside the map; what one side wrote
    the other side reads, for every variable (first differing variable reported)"""
    cls = None
    if not ctx.require("build" not in obs, "declaring the variables / instantiating the program raised: no variable has bytes of its own",
                       case, obs.get("build"), cls):
        return
    for j, r in enumerate(obs.get("pre", [])):      # every earlier object, as it was right after its creation
        rs, sz = r["ranges"], r["size"]
        bad = next((f"{k} at {p}+{s} in a map of {sz}" for p, s, k in rs if p is None or sz is None or p + s > sz), None)
        if bad is None:
            bad = next((f"{a[2]} [{a[0]},{a[0] + a[1]}) overlaps {c[2]} [{c[0]},{c[0] + c[1]})"
                        for n, a in enumerate(rs) for c in rs[n + 1:] if not (a[0] + a[1] <= c[0] or c[0] + c[1] <= a[0])), None)
        if not ctx.require(bad is None, f"variable ranges of object {j} of the process overlap / leave the map value / have no position",
                           case, bad, cls):
            return
        if not ctx.require(all(x == "ok" for x in r["sets"]), f"Python-side assignment on object {j} of the process raised", case,
                           r["sets"], cls):
            return
    for mn, rs in obs["ranges"].items():
        sz = obs["sizes"].get(mn)
        bad = next((f"{k} at {p}+{s} in a map of {sz}" for p, s, k in rs
                    if p is None or sz is None or p + s > sz), None)
        if bad is None:
            bad = next((f"{a[2]} [{a[0]},{a[0] + a[1]}) overlaps {c[2]} [{c[0]},{c[0] + c[1]})"
                        for n, a in enumerate(rs) for c in rs[n + 1:]
                        if not (a[0] + a[1] <= c[0] or c[0] + c[1] <= a[0])), None)
        if not ctx.require(bad is None, "variable ranges overlap / leave the map value / have no position", case, bad, cls):
            return
    for mn, rs in obs["ranges"].items():
        if rs and all(s in (1, 2, 4, 8) for p, s, k in rs):      # single-element formats only: natural alignment
            bad = next((f"{k} (size {s}) at {p}" for p, s, k in rs if p % s), None)
            if not ctx.require(bad is None, "variable not aligned to its size (atomic add and strict-alignment verifiers need it)",
                               case, bad, cls):
                return
    exp = {}
    for i, v, vals in case["sets"] + [s for rd in case.get("rounds", []) for s in rd]:
        exp[(i, v)] = vals
    if not ctx.require(all(s == "ok" for s in obs["sets"]), "Python-side assignment raised", case, obs["sets"], cls):
        return
    if not ctx.require(obs["prog"] == "ok", "the generated program is refused / faults", case, obs["prog"], cls):
        return
    for op in case["prog"]:
        if op[0] == "store":
            exp[(op[1], op[2])] = [op[3]]
        elif op[0] == "mstore":
            exp[(op[1], op[2])] = exp[(op[1], op[2])][:op[3]] + [op[4]] + exp[(op[1], op[2])][op[3] + 1:]
        elif op[0] == "mcopy":
            exp[(op[4], op[5])] = [exp[(op[1], op[2])][op[3]]]
        else:
            exp[(op[3], op[4])] = exp[(op[1], op[2])]
    for k, vals in exp.items():
        want = to_py(fmt_of(case, k), vals)
        got = obs["raw"][k]
        if not ctx.require(type(got) is type(want) and got == want, "variable reads back differently", case,
                           f"{k}: wrote {want!r} read {got!r}", cls):
            return
    for k, f, vals, raw, shown in obs.get("prereads", []):      # what was written to an earlier object is still there
        want = to_py(f, vals)
        if not ctx.require(type(raw) is type(want) and raw == want,
                           "a variable of an earlier object of the process reads back differently after later objects were created", case,
                           f"{k}: wrote {want!r} read {raw!r}", cls):
            return
    if "pre_percpu" in obs:      # the per-CPU variables of the earlier objects, read after the later ones were created
        reads, asked = obs["pre_percpu"]
        for j, a, kb in asked:
            if not ctx.require(a and min(a) >= kb, f"lookup buffer smaller than what the kernel copies for the per-CPU map of object {j} of the process",
                               case, f"asked={a} kernel={kb}", cls):
                return
        for j, key, k, got, want in reads:
            if not ctx.require(type(got) is type(want) and got == want,
                               f"per-CPU variable of object {j} of the process does not read CPU {k}'s value after later objects were created",
                               case, f"{key} cpu {k}: read {got!r}, that CPU's block holds {want!r}", cls):
                return
    if case["kind"] == "percpu" and obs["percpu"]:
        n = count_cpus(case["cpufile"])
        ok = ctx.require(obs["cpu_no"] == n and obs.get("percpu_len") == n and obs["opened"] == ["/sys/devices/system/cpu/possible"],
                         "per-CPU variable does not have one entry per possible CPU", case,
                         f"cpu_no={obs['cpu_no']} expected {n} opened={obs['opened']}", cls)
        ok = ok and ctx.require(obs["asked"] and min(obs["asked"]) >= obs["kernel_bytes"],
                                "lookup buffer smaller than what the kernel copies for a per-CPU map", case,
                                f"asked={obs['asked']} kernel={obs['kernel_bytes']}", cls)
        for si, sv, di, dp in case["pairs"] if ok else []:
            for k in range(n):
                want = to_py(fmt_of(case, (si, sv)), case["rounds"][k][[(r[0], r[1]) for r in case["rounds"][k]].index((si, sv))][2])
                got = obs.get("pcraw", {}).get((di, dp, k), obs["percpu"][(di, dp, k)])
                if not ctx.require(type(got) is type(want) and got == want, "per-CPU value differs from what that CPU's run stored",
                                   case, f"{(di, dp)} cpu {k}: stored {want!r} read {got!r}", cls):
                    return


# the witnesses of the two defects repaired by commit 6422374 (override: a at 9, b at 10, map 16; map in a base class)
WITNESSES = [{"kind": "layout", "classes": [["Leaf", {"root": "E", "bases": [], "maps": ["m"], "vars": [["v2", "m", "B"]]}], ["S0_0", {"root": "S", "bases": [], "maps": [], "vars": [["v0", "m", "B"], ["v1", "m", "B"]]}], ["S0_1", {"root": "S", "bases": ["S0_0"], "maps": [], "vars": [["v0", "m", "Q"]]}]], "main": "Leaf", "subs": [["S0_1", 1]], "sets": [[1, "v1", [7]], [1, "v0", [1]], [0, "v2", [3]]], "prog": []}, {"kind": "layout", "classes": [["B0", {"root": "E", "bases": [], "maps": ["m"], "vars": [["v0", "m", "B"]]}], ["Leaf", {"root": "E", "bases": ["B0"], "maps": [], "vars": [["v1", "m", "I"]]}]], "main": "Leaf", "subs": [], "sets": [[0, "v0", [5]], [0, "v1", [9]]], "prog": []}]


def nontrivial(case):
    return len({csize(fmt_of(case, k)) for k in all_keys(case)}) >= 2


def unit_possible_cpus(ctx):
    """the real parser of /sys/devices/system/cpu/possible on cpu-list texts"""
    import ebpfcat.arraymap as am
    for text in ["0", "0-3", "0-3,8-11", "0,2-3", "0-15", "0-1,4,6-7", "0-63,128-191"]:
        saved = am.__dict__.get("open")
        am.open = lambda path, *a, **k: io.StringIO(text + "\n")
        try:
            got = am.possible_cpus()
        except Exception as e:
            got = exc_name(e)
        finally:
            if saved is None:
                del am.open
            else:
                am.open = saved
        ctx.require(got == count_cpus(text), "possible_cpus misreads a cpu list", {"kind": "cpulist", "text": text}, got)


def run(ctx):
    assert __import__("sys").byteorder == "little"
    unit_possible_cpus(ctx)
    plan = [("layout", ctx.n(2000, 40000)), ("prog", ctx.n(500, 10000)), ("percpu", ctx.n(200, 4000))]
    cases, lines = [], []
    todo = list(WITNESSES)
    for kind, n in plan:
        for _ in range(n):
            case = todo.pop(0) if todo else complete(ctx.rng, gen(ctx.rng, kind))
            line, mi, obs = observe(case)
            ctx.case(case, nontrivial=nontrivial(case), kind=kind + (":" + shape(case) if shape(case) else ""))
            if case.get("pre"):
                ctx.stats["after-earlier-objects"] += 1
            oracle(ctx, case, obs)
            if mi is not None:      # (a declaration set the real code refused is an oracle failure; the model has no line for it)
                cases.append((case, mi)); lines.append(line)
    model = ctx.drive(DRIVER, [mi for c, mi in cases], "collect")
    if model is not None:
        for (c, mi), i, m in zip(cases, lines, model):
            ctx.agree("collect/set/get/program/per-CPU", c, i, m)


def percpu_two_instances(ctx, case):
    """Witness of the finding C08-percpu-size-shared (not generated by `run`): two live instances of one program class
    with a per-CPU map whose sizes differ (other subprograms); the kernel side of the FIRST instance is emulated with
    its own value size, then its per-CPU variable is read from Python after the second instance was created."""
    import ebpfcat.arraymap as am
    from ebpfcat.arraymap import PerCPUArrayMap
    from ebpfcat.ebpf import EBPF, SubProgram
    from ebpfcat.bpf import ProgType
    pc = PerCPUArrayMap()
    Sub = type("Sub", (SubProgram,), {f"s{k}": pc.globalVar(f) for k, f in enumerate(case["sub"])})
    P = type("P", (EBPF,), {"pc": pc, "a": pc.globalVar(case["fmt"])})
    ncpu = count_cpus(case["cpufile"])
    saved = (am.__dict__.get("open"), am.lookup_elem)
    am.open = lambda path, *a, **k: io.StringIO(case["cpufile"] + "\n")
    try:
        with fsim.fake_maps() as created:
            p1 = P(ProgType.XDP, "GPL", subprograms=[Sub()])
            size1 = created[-1][1][2]                   # the value size the first instance's kernel map was created with
            p2 = P(ProgType.XDP, "GPL", subprograms=[])
        stride = (size1 + 7) // 8 * 8
        kernel = bytes((7 * i + 1) % 256 for i in range(stride * ncpu))
        asked = []

        def lookup_elem(fd, key, sz):
            asked.append(sz)
            return bytearray(kernel[:sz].ljust(sz, b"\0"))
        am.lookup_elem = lookup_elem
        p1.loaded = True
        p1.pc.read()
        pos, n = p1.__dict__["a"], csize(case["fmt"])
        bad = [(k, p1.a[k], struct.unpack_from(case["fmt"], kernel, k * stride + pos)[0]) for k in range(ncpu)]
        bad = [b for b in bad if b[1] != b[2]]
    finally:
        am.lookup_elem = saved[1]
        if saved[0] is None:
            am.__dict__.pop("open", None)
        else:
            am.open = saved[0]
    ctx.require(asked and min(asked) >= len(kernel), "lookup buffer smaller than what the kernel copies for the first instance's per-CPU map",
                case, f"asked={asked} kernel={len(kernel)} (value size {size1}, the class's map object now says {pc.size})", "percpu-size-shared")
    ctx.require(not bad, "per-CPU value of the first instance differs from what that CPU holds", case,
                "; ".join(f"cpu {k}: read {g:#x}, the kernel holds {w:#x}" for k, g, w in bad), "percpu-size-shared")
    return {"size_first": size1, "size_on_class": pc.size, "asked": asked}


def replay(ctx, case):
    if case.get("kind") == "cpulist":
        unit_possible_cpus(ctx)
        return {}
    if case.get("kind") == "percpu-two-instances":
        return percpu_two_instances(ctx, case)
    line, mi, obs = observe(case)
    oracle(ctx, case, obs)
    return {"impl": line}


LEVEL_TEXT = ("Lean 4 proof over a hand-written model of ArrayMap.collect and the accessors: for every list of programs (the EBPF object and its "
              "subprograms, possibly listed twice) with arbitrary class hierarchies, including overriding redeclarations, no (program, name) is "
              "collected twice (keysDistinct_triples) and the variables occupy pairwise disjoint ranges inside a map whose size is a multiple of 8 "
              "(collect_disjoint_full_proved), aligned to their size when larger sizes are multiples of it (collect_aligned_full); "
              "unpack(pack v) = v for every modelled format and only the variable's bytes change (py_roundtrip); program-side n-byte access and "
              "Python-side access use the same bytes (prog_store_eq_pySet, prog_load_eq_unpack), also for each member of a multi-letter format at its "
              "native-alignment offset (packM_spec, member_load_eq_unpack); CPU k's value is read from CPU k's block "
              "(percpu_slice, percpu_block, stride_total); maps declared in base classes are initialised (ebpf_init_full_proved). Positions live in the "
              "instances' __dict__s, which outlive a layout: whatever they held before (instances laid out earlier in other objects, in any number "
              "of earlier creations), every variable a new object collects ends at the position of a layout from scratch and every other entry is "
              "untouched (collectInto_get, collect_history_free, collect_frame), so in any history an object none of whose instances was listed again "
              "later has exactly the fresh, disjoint layout (history_layout); Python-side accesses never touch a __dict__ (pySet_dicts). The behaviour "
              "before commit 6422374 is refuted on its witnesses (collect_disjoint_old_refuted, ebpf_init_old_refuted). Tie: exact correspondence "
              "of the real code with the model on generated declaration sets, incl. really generated programs run in the interpreter, and on histories "
              "of several objects created in one process from shared classes and shared subprogram instances (model: World).")
LEVEL_NOTE = ("trusted: Lean kernel + standard axioms; hand model validated (not verified) by differential runs; interpreter; Python struct; "
              "emulated kernel for per-CPU lookups; program side only at byte level; variable names are distinct across the maps of one program")
TECHNIQUE = "Lean 4 induction over the sorted collection + byte-codec lemmas; refutation by decide; differential correspondence"
DESIGN_REF = "§4 C08"
