"""C03 — conditional blocks run exactly the branch the condition selects.

(a) tie: exact equality of the instruction list emitted by the REAL generator (real `with cond as Else:` / `with Else:`
    blocks entered through the real `__enter__`/`__exit__`/`Elser`, real `jumpIf`/`target`/`Else`; harness/vh/dsl_cond.py)
    and by the Lean model `Ebv.Gen.emitCProg` (Drivers/C03.lean), together with the comparison object trees the
    operator overloads built, the refusals, and the shape-level defect-class predicates;
(b) property oracle on the implementation: the REAL emitted code is executed by the independent interpreter
    (harness/vh/interp.py) from inputs chosen around every comparison constant and sign bit; the final variables
    (marker bits `res |= 1 << k`, marker stores) and all owned registers are compared with the structured reference
    semantics in Python big integers (`dsl_cond.run_ref`), inside the precondition that the compared values fit the
    narrowest width involved;
(c) replay of one stored case."""
from .. import dsl, dsl_cond as dc, interp
from . import c01

ID = "C03"
LEAN_MODULES = ["Ebv.Props.C03"]
MODEL_MODULES = ["Ebv.Model.GenCond", "Ebv.Model.CondClass"]
DRIVER = "Drivers/C03.lean"
M64 = dsl.M64
# classes of the unchanged tree, in order of precedence (shape predicates shared with Ebv.Gen.CondClass)
CLASSES = ["sum-minus", "unary-in-place", "unary-32-in-64", "widen-in-place", "narrow-reg-in-64", "abs-32",
           "u64-vs-negative-short"]


# ----------------------------------------------------------------------------- per-atom precondition and class refinement
def narrow_leaf(E, v):
    """the operand mentions a value of at most 4 bytes (variable format or w/sw view)"""
    if isinstance(v, E.Register):
        return not v.long
    if isinstance(v, E.Constant):
        return False
    if isinstance(v, E.Unary):
        return narrow_leaf(E, v.arg)
    if isinstance(v, E.Memory):
        return v.fmt not in "Qq"
    return narrow_leaf(E, v.left) or narrow_leaf(E, v.right)


def atom_status(E, at, regs, varat):
    """(inside precondition?, classes fired on this input) for one atom ('atom', kind, op, l, r)"""
    _, kind, op, l, r = at
    try:
        a, b = c01.eval_obj(E, l, regs, varat), c01.eval_obj(E, r, regs, varat)
    except (dsl.Outside, KeyError):
        return False, set()
    info = dc.atom_info(E, l, r)
    W = 32 if (narrow_leaf(E, l) or narrow_leaf(E, r)) else 64
    if info["sg"]:
        inside = all(-(1 << (W - 1)) <= v < (1 << (W - 1)) for v in (a, b))
    else:
        inside = all(0 <= v < (1 << W) for v in (a, b))
    shape = dc.atom_classes(E, l, r)
    fired = set(shape) - {"u64-vs-negative-short", "narrow-reg-in-64", "widen-in-place"}
    if "u64-vs-negative-short" in shape and b < 0:
        fired.add("u64-vs-negative-short")
    if "widen-in-place" in shape:
        x = l
        while isinstance(x, E.Unary):
            x = x.arg
        raw = regs[x.no] & M64
        if raw != dsl.sx(raw, 32) & M64:
            fired.add("widen-in-place")
    if "narrow-reg-in-64" in shape:
        inner = set()
        c01.tree_classes(E, l, info["l_long"], False, None, inner)
        if not info["r_imm"]:
            c01.tree_classes(E, r, info["r_width"], False, None, inner)
        hit = "narrow-reg-in-64" in inner
        for x, isleft in ((l, True), (r, False)):
            if dc.is_short_reg(E, x) and not info["short"] and not (isleft and info["widen"]) and (isleft or not info["r_imm"]):
                raw = regs[x.no] & M64
                seen = dsl.sx(raw, 64) if info["sg"] else raw
                if seen != dsl.view_value("sw" if x.signed else "w", raw):
                    hit = True
        if hit:
            fired.add("narrow-reg-in-64")
    return inside, fired


def cond_status(E, at, regs, varat):
    k = at[0]
    if k == "atom":
        return atom_status(E, at, regs, varat)
    if k == "not":
        return cond_status(E, at[1], regs, varat)
    if k in ("and", "or"):
        i1, f1 = cond_status(E, at[1], regs, varat)
        i2, f2 = cond_status(E, at[2], regs, varat)
        return i1 and i2, f1 | f2
    return False, set()


# ----------------------------------------------------------------------------- inputs
EDGES = [0, 1, 2, 0x7f, 0x80, 0xff, 0x100, 0x7fff, 0x8000, 0xffff, 0x7fffffff, 0x80000000, 0xffffffff, 0x100000000,
         0x7fffffffffffffff, 0x8000000000000000, M64, M64 - 1, 0xffffffff80000000, 0xffffffffffffff80, 0xffffffffffff8000]


def const_pool(x, out):
    if isinstance(x, list):
        if len(x) == 2 and x[0] == "c":
            c = int(x[1])
            out.update((c - 1, c, c + 1, -c))
        else:
            for y in x:
                const_pool(y, out)
    return out


def make_inputs(rng, prog, pool, mode):
    has_global = any(v[2] == "g" for v in prog["vars"])

    def pick():
        if mode == "small":
            return c01.rnd_small(rng)
        if mode == "pool" and pool and rng.random() < 0.75:
            return rng.choice(pool) & M64
        if mode == "tiny":
            return rng.choice([0, 1, 2, 3, 5, M64, M64 - 1, 127, 128, 255, 256])
        return c01.rnd64(rng)
    same = pick() if rng.random() < 0.15 else None
    regs = {k: (same if same is not None and rng.random() < 0.7 else pick())
            for k in prog["owned"] if k != 10 and not (k == 7 and has_global)}
    vars_ = {}
    for name, fmt, kind in prog["vars"]:
        v = same if same is not None and rng.random() < 0.7 else pick()
        vars_[name] = 0 if name == "res" else v & ((1 << (8 * dsl.FSIZE[fmt])) - 1)
    return {"regs": {str(k): v for k, v in regs.items()}, "vars": vars_}


# ----------------------------------------------------------------------------- the oracle
def check_program(ctx, prog, built, insns, inputs_list):
    E = built.E
    R = c01.Runner({"owned": prog["owned"], "vars": prog["vars"], "stmts": []}, built, insns)
    byloc = {(b, off): n for n, (b, off, f) in R.layout.items()}
    code = [tuple(x) for x in insns]
    final_owned = set(built.e.owners)
    status = []
    for inp in inputs_list:
        regs = {int(k): v for k, v in inp["regs"].items()}
        if R.has_global:
            regs[7] = c01.GLOBAL_BASE
        regview = dict(regs)
        regview.setdefault(10, interp.STACK_TOP)
        varbytes = dict(inp["vars"])
        case = {"prog": prog, "inputs": inp}
        st = dc.RefState(regview, varbytes, R.fm)
        seen = {"inside": True, "fired": set()}

        def on_cond(idx, cj, state):
            vals = state.vals()
            varat = lambda base, off, fmt: vals[byloc[(base, off)]]
            inside, fired = cond_status(E, built.cobjs[idx][1], state.regs, varat)
            seen["inside"] = seen["inside"] and inside
            seen["fired"] |= fired | built.cobjs[idx][2]
        try:
            dc.run_ref(prog["body"], st, on_cond)
        except (dsl.Outside, KeyError, ValueError):
            status.append("outside-ref")
            continue
        if not seen["inside"]:
            status.append("outside")
            continue
        cls = next((c for c in CLASSES if c in seen["fired"]), None)
        m = R.machine(code, regs, varbytes)
        fault = None
        try:
            m.run()
        except interp.Fault as e:
            if not (m.trace and m.trace[-1] == len(code)):
                fault = str(e)
        if fault is not None:
            ctx.require(False, "generated code faults inside the precondition", case, fault, cls)
            status.append("fail:" + str(cls))
            continue
        got_res = m.load(R.addr("res"), 8)
        ok1 = ctx.require(got_res == st.vb["res"], "the set of executed marker assignments differs from the branches the "
                          "conditions select (with body iff true, Else body iff false, control reaches the end)", case,
                          f"markers got={got_res:#x} want={st.vb['res']:#x}", cls)
        bad = [n for n in varbytes if n != "res" and m.load(R.addr(n), dsl.FSIZE[R.fm[n]]) != st.vb[n]]
        # registers the generator still owns at the end hold user values; others may have served as temporaries
        bad += [f"r{k}" for k in sorted(st.regs) if k != 10 and not (k == 7 and R.has_global) and k in final_owned
                and (m.regs[k] if m.init[k] else None) != st.regs[k]]
        ok2 = ctx.require(not bad, "a variable or owned register differs from the reference run (conditions must not change "
                          "owned registers or memory; marker stores must happen exactly in the selected branches)", case,
                          "differs=" + ",".join(bad), cls)
        status.append("ok" if ok1 and ok2 else "fail:" + str(cls))
        for idx, t in st.conds:
            ctx.stats[f"cond-truth:{t}"] += 1
    return status


def inputs_for(ctx, prog, n):
    pool = sorted(const_pool(prog["body"], set(EDGES)))
    modes = ["pool", "pool", "small", "rnd", "tiny", "pool"]
    return [make_inputs(ctx.rng, prog, pool, modes[k % len(modes)]) for k in range(n)]


# ----------------------------------------------------------------------------- canonical forms, generation
def canon_real(res, built):
    if isinstance(res, str):
        return "err " + res
    cls = ",".join(sorted(dc.prog_classes(built))) or "-"
    return "ok " + " ".join(":".join(map(str, i)) for i in res) + " | " + " ; ".join(built.ctrees) + " | " + cls


def gen_programs(ctx):
    rng = ctx.rng
    out = []
    descs = list(dc.enum_atoms())
    if ctx.quick:
        descs = rng.sample(descs, 1500)
    for d in descs:
        out.append((f"atom-{d[0]}", dc.build_atom(rng, d)))
    for _ in range(ctx.n(900, 40000)):
        out.append(("random", dc.gen_random(rng)))
    for _ in range(ctx.n(300, 8000)):
        out.append(("random-leafonly", dc.gen_random(rng, compound=0.0)))
    for _ in range(ctx.n(150, 4000)):
        out.append(("deep-cond", dc.gen_random(rng, nest=1, cdepth=3, compound=0.05)))
    for _ in range(ctx.n(150, 3000)):
        out.append(("owners", dc.gen_owners(rng)))
    return out


def internal_error(ctx, prog, res):
    """a well-formed statement program must be compiled or refused with AssembleError (no register left, register
    without value) or the TypeError Python raises for `Sum +- int`; anything else (AssertionError in target(), a
    placeholder that was never patched, IndexError in the splice ...) leaves the user without the selected branch"""
    if isinstance(res, str) and res.startswith("other:") and res not in ("other:TypeError", "other:AttributeError"):
        ctx.require(False, "the generator fails with an internal error on a well-formed statement program",
                    {"prog": prog}, res, None)
        return True
    return False


def run(ctx):
    progs = gen_programs(ctx)
    impl_lines, accepted = [], []
    for fam, p in progs:
        res, built = dc.emit_real(p, True)
        impl_lines.append(canon_real(res, built))
        kind = "accepted" if not isinstance(res, str) else res
        ctx.case(p, nontrivial=not isinstance(res, str) and len(built.cobjs) > 0, kind=f"{fam}:{kind}")
        internal_error(ctx, p, res)
        if not isinstance(res, str):
            accepted.append((fam, p, built, res))
            for t in built.ctrees:
                ctx.stats["cond-shape:" + t.split(" ")[0].lstrip("(")] += 1
    # (a) the tie: exact opcode lists, comparison object trees, refusals, shape-level classes
    model = ctx.drive(DRIVER, [p for _, p in progs], "emit")
    if model is not None:
        for (fam, p), i, m in zip(progs, impl_lines, model):
            ctx.agree("emitted instruction list, comparison objects and classes (real generator vs GenCond)", p, i, m)
    # (b) the property oracle on the real emitted code
    accepted.sort(key=lambda a: len(a[3]))
    n = 0
    for fam, p, built, res in accepted:
        for st in check_program(ctx, p, built, res, inputs_for(ctx, p, ctx.n(6, 12))):
            ctx.stats["oracle:" + st] += 1
            n += 1
    ctx.extra["oracle_executions"] = n
    ctx.extra["corresponded_not_proved"] = CORRESPONDED_NOT_PROVED
    ctx.extra["proved_by_induction"] = PROVED


def replay(ctx, case):
    prog = case["prog"]
    res, built = dc.emit_real(prog, True)
    if isinstance(res, str):
        internal_error(ctx, prog, res)
        return {"emit": res}
    inputs = [case["inputs"]] if "inputs" in case else inputs_for(ctx, prog, 12)
    st = check_program(ctx, prog, built, res, inputs)
    return {"emit": res, "status": st, "conditions": built.ctrees, "classes": sorted(dc.prog_classes(built))}


PROVED = []
CORRESPONDED_NOT_PROVED = []
THEOREMS = ["Ebv.C03.stub"]
TRUSTED = []
ASSUMPTIONS = []
RULE = ""
LEVEL_TEXT = ""
LEVEL_NOTE = ""
TECHNIQUE = "Lean 4 structural induction over condition trees and statements (compiler correctness) + exact opcode-list correspondence"
DESIGN_REF = "§4 C03"
