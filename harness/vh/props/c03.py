"""C03 — conditional blocks run exactly the branch the condition selects.

(a) tie: exact equality of the instruction list emitted by the REAL generator (real `with cond as Else:` / `with Else:`
    blocks entered through the real `__enter__`/`__exit__`/`Elser`, real `jumpIf`/`target`/`Else`; harness/vh/dsl_cond.py)
    and by the Lean model `Ebv.Gen.emitCProg` (Drivers/C03.lean), together with the comparison object trees the
    operator overloads built, the refusals, and the shape-level defect-class predicates;
(b) property oracle on the implementation: the REAL emitted code is executed by the independent interpreter
    (harness/vh/interp.py) from inputs chosen around every comparison constant and sign bit; the final variables
    (marker bits `res |= 1 << k`, marker stores) and all owned registers are compared with the structured reference
    semantics in Python big integers (`dsl_cond.run_ref`), inside the precondition that the compared values fit the
    narrowest width involved -- signed range if the PROPERTY types an operand signed (dsl.psigned on the program text), else
    unsigned range; the implementation's own `signed` attributes decide neither the precondition nor a class;
(c) replay of one stored case."""
from .. import dsl, dsl_cond as dc, interp
from . import c01

ID = "C03"
LEAN_MODULES = ["Ebv.Props.C03"]
MODEL_MODULES = ["Ebv.Model.GenCond", "Ebv.Model.CondClass"]
DRIVER = "Drivers/C03.lean"
M64 = dsl.M64
# classes of the unchanged tree, in order of precedence (shape predicates shared with Ebv.Gen.CondClass)
CLASSES = ["widen-in-place", "narrow-reg-in-64",
           "const-left-32"]


# ----------------------------------------------------------------------------- per-atom precondition and class refinement
def fits_s(v, w):
    return -(1 << (w - 1)) <= v < (1 << (w - 1))


def fits_u(v, w):
    return 0 <= v < (1 << w)


def theorem_pre(kind, info, a, b):
    """mirror of Ebv.Gen.atomPre (the precondition C03_partial states per atom), shift counts aside"""
    if kind == "bits":
        z = a & b
        w = 32 if info["short"] else 64
        return (not info["widen"] or fits_s(a, 32)) and (fits_s(z, w) or fits_u(z, w))
    if info["sg"]:
        if info["short"]:
            return fits_s(a, 32) and fits_s(b, 32)
        if info["widen"]:
            return fits_s(a, 32) and fits_s(b, 64)
        return fits_s(a, 64) and fits_s(b, 64)
    return fits_u(a, 64) and fits_u(b, 64)


def atom_status(E, at, cj, regs, vals, varat, fm):
    """(inside the property's precondition?, classes fired on this input, inside the theorem's precondition?) for one
    atom: `at` = ('atom', kind, op, l, r) as built, `cj` = the JSON atom it was built from.
    The precondition and the classes are decided on the PROGRAM TEXT: operand values by the reference semantics, signedness
    by dsl.psigned, W by the declared sizes.  The implementation's own `signed` attributes are not consulted (a wrong typing
    in the implementation would otherwise move its failing inputs outside the precondition or into a class)."""
    _, kind, op, l, r = at
    ja, jb = dc.atom_operands(cj, kind)
    sg = dsl.psigned(ja, fm) or dsl.psigned(jb, fm)
    try:
        va, vb = dsl.eval_ref(ja, regs, vals), dsl.eval_ref(jb, regs, vals)
    except (dsl.Outside, KeyError):
        return False, set(), False
    W = dsl.pwidth([ja, jb], fm)
    fits = fits_s if sg else fits_u
    inside = all(fits(v, W) for v in va | vb)
    info = dc.atom_info(E, l, r, sg)
    shape = dc.atom_classes(E, l, r, sg)
    fired = set(shape) - {"narrow-reg-in-64", "widen-in-place", "const-left-32"}
    if "const-left-32" in shape:
        in32 = (lambda v: -(1 << 31) <= v < (1 << 31)) if sg else (lambda v: 0 <= v < (1 << 32))
        # the operand is computed in 32 bits and makes the whole comparison a 32-bit one: either value may be cut
        if not all(in32(v) for v in va | vb):
            fired.add("const-left-32")
    if "widen-in-place" in shape:
        x = l
        while isinstance(x, E.Unary):
            x = x.arg
        raw = regs[x.no] & M64
        if raw != dsl.sx(raw, 32) & M64:
            fired.add("widen-in-place")
    if "narrow-reg-in-64" in shape:
        inner = set()
        c01.tree_classes(E, l, info["l_long"], False, None, inner)
        if not info["r_imm"]:
            c01.tree_classes(E, r, info["r_width"], False, None, inner)
        hit = "narrow-reg-in-64" in inner
        for x, isleft in ((l, True), (r, False)):
            if dc.is_short_reg(E, x) and not info["short"] and not (isleft and info["widen"]) and (isleft or not info["r_imm"]):
                raw = regs[x.no] & M64
                seen = dsl.sx(raw, 64) if sg else raw
                if seen != dsl.view_value(dsl.reg_view(x), raw):
                    hit = True
        if hit:
            fired.add("narrow-reg-in-64")
    # the theorem (C03_partial) speaks about the comparison objects as built: its precondition takes their own attributes
    try:
        a, b = c01.eval_obj(E, l, regs, varat), c01.eval_obj(E, r, regs, varat)
        thm = theorem_pre(kind, dc.atom_info(E, l, r, l.signed or r.signed), a, b)
    except (dsl.Outside, KeyError):
        thm = False
    return inside, fired, thm


def operands_pre(cj, regs, vals, fm):
    """C01's precondition for the operand expressions of a JSON condition (values below abs fit the signed width, ...)"""
    k = cj[0]
    if k in ("not",):
        return operands_pre(cj[1], regs, vals, fm)
    if k in ("and", "or"):
        return operands_pre(cj[1], regs, vals, fm) and operands_pre(cj[2], regs, vals, fm)
    es = [cj[1]] if k == "truth" else [cj[2], cj[3]]
    W = dsl.pwidth(es, fm)
    return all(dsl.pre_holds(e, regs, vals, W) for e in es)


def cond_status(E, at, cj, regs, vals, varat, fm):
    """all atoms of one condition (JSON `cj`, built structure `at`)"""
    pairs = list(dc.atom_pairs(cj, at))
    if not pairs:
        return False, set(), False
    inside, fired, thm = True, set(), True
    for aj, a in pairs:
        i, f, t = atom_status(E, a, aj, regs, vals, varat, fm)
        inside, fired, thm = inside and i, fired | f, thm and t
    return inside, fired, thm


# ----------------------------------------------------------------------------- inputs
EDGES = [0, 1, 2, 0x7f, 0x80, 0xff, 0x100, 0x7fff, 0x8000, 0xffff, 0x7fffffff, 0x80000000, 0xffffffff, 0x100000000,
         0x7fffffffffffffff, 0x8000000000000000, M64, M64 - 1, 0xffffffff80000000, 0xffffffffffffff80, 0xffffffffffff8000]


def const_pool(x, out):
    if isinstance(x, list):
        if len(x) == 2 and x[0] == "c":
            c = int(x[1])
            out.update((c - 1, c, c + 1, -c))
        else:
            for y in x:
                const_pool(y, out)
    return out


def make_inputs(rng, prog, pool, mode):
    has_global = any(v[2] == "g" for v in prog["vars"])

    def pick():
        if mode == "small":
            return c01.rnd_small(rng)
        if mode == "pool" and pool and rng.random() < 0.75:
            return rng.choice(pool) & M64
        if mode == "tiny":
            return rng.choice([0, 1, 2, 3, 5, M64, M64 - 1, 127, 128, 255, 256])
        return c01.rnd64(rng)
    same = pick() if rng.random() < 0.15 else None
    regs = {k: (same if same is not None and rng.random() < 0.7 else pick())
            for k in prog["owned"] if k != 10 and not (k == 7 and has_global)}
    vars_ = {}
    for name, fmt, kind in prog["vars"]:
        v = same if same is not None and rng.random() < 0.7 else pick()
        vars_[name] = 0 if name == "res" else v & ((1 << (8 * dsl.FSIZE[fmt])) - 1)
    return {"regs": {str(k): v for k, v in regs.items()}, "vars": vars_}


# ----------------------------------------------------------------------------- the oracle
def check_program(ctx, prog, built, insns, inputs_list, proved=False):
    E = built.E
    R = c01.Runner({"owned": prog["owned"], "vars": prog["vars"], "stmts": []}, built, insns)
    byloc = {(b, off): n for n, (b, off, f) in R.layout.items()}
    code = [tuple(x) for x in insns]
    final_owned = set(built.e.owners)
    status = []
    for inp in inputs_list:
        regs = {int(k): v for k, v in inp["regs"].items()}
        if R.has_global:
            regs[7] = c01.GLOBAL_BASE
        regview = dict(regs)
        regview.setdefault(10, interp.STACK_TOP)
        varbytes = dict(inp["vars"])
        case = {"prog": prog, "inputs": inp, "progOkC": proved}
        st = dc.RefState(regview, varbytes, R.fm)
        seen = {"inside": True, "fired": set(), "thm": True}

        def on_cond(idx, cj, state):
            vals = state.vals()
            varat = lambda base, off, fmt: vals[byloc[(base, off)]]
            inside, fired, thm = cond_status(E, built.cobjs[idx][1], cj, state.regs, vals, varat, R.fm)
            inside = inside and operands_pre(cj, state.regs, vals, R.fm)
            seen["thm"] = seen["thm"] and thm
            seen["inside"] = seen["inside"] and inside
            seen["fired"] |= fired | built.cobjs[idx][2]
        try:
            dc.run_ref(prog["body"], st, on_cond)
        except (dsl.Outside, KeyError, ValueError):
            status.append("outside-ref")
            continue
        in_thm = proved and seen["thm"]          # the program satisfies progOkC and every reached atom atomPre
        if not seen["inside"] and not in_thm:
            status.append("outside")
            continue
        cls = next((c for c in CLASSES if c in seen["fired"]), None)
        if in_thm:
            cls = None                           # C03_partial says this run cannot fail: no class may excuse it
            ctx.stats["oracle:inside-C03_partial"] += 1
        m = R.machine(code, regs, varbytes)
        fault = None
        try:
            m.run()
        except interp.Fault as e:
            if not (m.trace and m.trace[-1] == len(code)):
                fault = str(e)
        if fault is not None:
            ctx.require(False, "generated code faults inside the precondition", case, fault, cls)
            status.append("fail:" + str(cls))
            continue
        got_res = m.load(R.addr("res"), 8)
        ok1 = ctx.require(got_res == st.vb["res"], "the set of executed marker assignments differs from the branches the "
                          "conditions select (with body iff true, Else body iff false, control reaches the end)", case,
                          f"markers got={got_res:#x} want={st.vb['res']:#x}", cls)
        bad = [n for n in varbytes if n != "res" and m.load(R.addr(n), dsl.FSIZE[R.fm[n]]) != st.vb[n]]
        # registers the generator still owns at the end hold user values; others may have served as temporaries
        bad += [f"r{k}" for k in sorted(st.regs) if k != 10 and not (k == 7 and R.has_global) and k in final_owned
                and (m.regs[k] if m.init[k] else None) != st.regs[k]]
        ok2 = ctx.require(not bad, "a variable or owned register differs from the reference run (conditions must not change "
                          "owned registers or memory; marker stores must happen exactly in the selected branches)", case,
                          "differs=" + ",".join(bad), cls)
        status.append("ok" if ok1 and ok2 else "fail:" + str(cls))
        for idx, t in st.conds:
            ctx.stats[f"cond-truth:{t}"] += 1
    return status


def inputs_for(ctx, prog, n):
    pool = sorted(const_pool(prog["body"], set(EDGES)))
    modes = ["pool", "pool", "small", "rnd", "tiny", "pool"]
    return [make_inputs(ctx.rng, prog, pool, modes[k % len(modes)]) for k in range(n)]


# ----------------------------------------------------------------------------- canonical forms, generation
def canon_real(res, built):
    if isinstance(res, str):
        return "err " + res
    cls = ",".join(sorted(dc.prog_classes(built))) or "-"
    return "ok " + " ".join(":".join(map(str, i)) for i in res) + " | " + " ; ".join(built.ctrees) + " | " + cls


def gen_programs(ctx):
    rng = ctx.rng
    out = []
    descs = list(dc.enum_atoms())
    if ctx.quick:
        descs = rng.sample(descs, 1500)
    for d in descs:
        out.append((f"atom-{d[0]}", dc.build_atom(rng, d)))
    for _ in range(ctx.n(900, 40000)):
        out.append(("random", dc.gen_random(rng)))
    for _ in range(ctx.n(300, 8000)):
        out.append(("random-leafonly", dc.gen_random(rng, compound=0.0)))
    for _ in range(ctx.n(150, 4000)):
        out.append(("deep-cond", dc.gen_random(rng, nest=1, cdepth=3, compound=0.05)))
    for _ in range(ctx.n(150, 3000)):
        out.append(("owners", dc.gen_owners(rng)))
    for _ in range(ctx.n(200, 4000)):
        out.append(("unary-operand", dc.gen_unary(rng)))
    for _ in range(ctx.n(400, 8000)):
        out.append(("typing", dc.gen_typing(rng)))
    return out


def internal_error(ctx, prog, res):
    """a well-formed statement program must be compiled or refused with AssembleError (no register left, register
    without value) or a TypeError/AttributeError of Python itself (`with 3 < 5:`); anything else (AssertionError in target(), a
    placeholder that was never patched, IndexError in the splice ...) leaves the user without the selected branch"""
    if isinstance(res, str) and res.startswith("other:") and res not in ("other:TypeError", "other:AttributeError"):
        ctx.require(False, "the generator fails with an internal error on a well-formed statement program",
                    {"prog": prog}, res, None)
        return True
    return False


def run(ctx):
    progs = gen_programs(ctx)
    impl_lines, accepted = [], []
    for fam, p in progs:
        res, built = dc.emit_real(p, True)
        impl_lines.append(canon_real(res, built))
        kind = "accepted" if not isinstance(res, str) else res
        ctx.case(p, nontrivial=not isinstance(res, str) and len(built.cobjs) > 0, kind=f"{fam}:{kind}")
        internal_error(ctx, p, res)
        if not isinstance(res, str):
            accepted.append((fam, p, built, res))
            for t in built.ctrees:
                ctx.stats["cond-shape:" + t.split(" ")[0].lstrip("(")] += 1
    # (a) the tie: exact opcode lists, comparison object trees, refusals, shape-level classes
    model = ctx.drive(DRIVER, [p for _, p in progs], "emit")
    proved = {}
    if model is not None:
        for k, ((fam, p), i, m) in enumerate(zip(progs, impl_lines, model)):
            m, _, flag = m.partition(" # ")
            proved[id(p)] = flag == "P"
            ctx.stats["model:progOkC" if flag == "P" else "model:outside-progOkC"] += 1
            ctx.agree("emitted instruction list, comparison objects and classes (real generator vs GenCond)", p, i, m)
    # (b) the property oracle on the real emitted code
    accepted.sort(key=lambda a: len(a[3]))
    n = 0
    for fam, p, built, res in accepted:
        for st in check_program(ctx, p, built, res, inputs_for(ctx, p, ctx.n(6, 12)), proved.get(id(p), False)):
            ctx.stats["oracle:" + st] += 1
            n += 1
    ctx.extra["oracle_executions"] = n
    ctx.extra["corresponded_not_proved"] = CORRESPONDED_NOT_PROVED
    ctx.extra["proved_by_induction"] = PROVED


def replay(ctx, case):
    prog = case["prog"]
    res, built = dc.emit_real(prog, True)
    if isinstance(res, str):
        internal_error(ctx, prog, res)
        return {"emit": res}
    inputs = [case["inputs"]] if "inputs" in case else inputs_for(ctx, prog, 12)
    if "progOkC" in case:                     # recorded when the case was stored: no need to start the Lean driver
        proved = bool(case["progOkC"])
    else:
        model = ctx.drive(DRIVER, [prog], "emit")
        proved = bool(model) and model[0].endswith(" # P")
    st = check_program(ctx, prog, built, res, inputs, proved)
    return {"emit": res, "status": st, "conditions": built.ctrees, "classes": sorted(dc.prog_classes(built)),
            "progOkC": proved}


PROVED = [
    "closed-segment lemmas (Ebpf.segRun_of_exec, SegRun.append, JumpRun.prepend/taken_append/fall_append/join/over, run_of_reach)",
    "SimpleComparison.compare/target for all six operators: JMP vs JMP32 from l_long/r_long, the <<= 32; s>>= 32 widening, "
    "immediate vs register form, release of the operand registers, owners; operands = C01's fragment at width None (calc_none)",
    "AndComparison (JSET): positive sense, negative sense (JSET +1 / JMP), Else with the instruction splice (splice_shape, "
    "withElse_bits_correct)",
    "AndOrComparison (all four is_and x negative cases, left targets patched at the end of the comparison code or at the "
    "final target), InvertComparison, Expression.__eq__ as ~(!=), Expression.__enter__ (!= 0)",
    "Comparison.__enter__/__exit__/Else, Elser: with cond: / with cond as Else: ... with Else: ..., nested and sequenced with C01's "
    "assignments (with_correct by induction on statements); placeholders as patched slots (Pend.patch, target_ok)",
    "integer level: mtruth_eq_truth (signed/unsigned/mixed-width comparisons and bit tests = Python integers when the compared "
    "values fit the width of the jump); elabC_truth (operator protocol of comparisons: int < expr, Binary < Sum, ==, (a & b) != 0, "
    "expression as condition) preserves the truth value",
]
CORRESPONDED_NOT_PROVED = [
    "jumpIf(...) / target() / Else() used directly (statement forms jif, jifElse; the only way to reach the off+1 branch of "
    "AndComparison.Else): modelled + corresponded + oracle",
    "operands outside C01's proved fragment: abs, computed non-Sum addresses, // % >> (integer level); a compound 32-bit operand "
    "(Binary, Negate) in a 64-bit unsigned comparison (atomFrag: only constants and unsigned 1/2/4-byte variables are known at 64 bits)",
    "a register assigned in both branches and read after the join: accepted by the generator for a SimpleComparison condition; the "
    "theorem's ownership tracking (KStmt.own) is conservative and treats it as not owned",
    "surface level: C03_partial speaks about the comparison objects the operator overloads built; elabC_truth proves that their truth "
    "value is that of the surface text (reflected operators, ~(!=), bit tests); the statement-level semantics is not restated over "
    "surface statements (the oracle evaluates the JSON text directly)",
    "bit fields (Memory.__ne__/__invert__ with a tuple format) and fixed-point comparisons: not modelled (dsl.py has no such variables)",
]
THEOREMS = [
    "Ebv.Ebpf.run_of_reach", "Ebv.Ebpf.segRun_of_exec", "Ebv.Ebpf.SegRun.append", "Ebv.Ebpf.JumpRun.join",
    "Ebv.Gen.JumpRun.over", "Ebv.Gen.calc_none", "Ebv.Gen.cmpCore_correct", "Ebv.Gen.target_ok", "Ebv.Gen.cond_correct",
    "Ebv.Gen.splice_shape", "Ebv.Gen.withThen_correct", "Ebv.Gen.withElse_correct", "Ebv.Gen.withElse_bits_correct",
    "Ebv.Gen.with_correct", "Ebv.Gen.mtruth_eq_truth", "Ebv.Gen.sem_semZ", "Ebv.Gen.emitS_compile", "Ebv.Gen.elabC_truth",
    "Ebv.C03.C03_surface_truth", "Ebv.Gen.abs_segment", "Ebv.Gen.abs_top_correct",
    "Ebv.C03.C03_core", "Ebv.C03.C03_partial", "Ebv.C03.C03_full_refuted",
    "Ebv.C03.before_fix_u64_vs_negative_short", "Ebv.C03.narrow_reg_in_64_refuted", "Ebv.C03.widen_in_place_refuted",
    "Ebv.C03.before_fix_unary_in_place", "Ebv.C03.before_fix_unary_32_in_64", "Ebv.C03.const_left_32_refuted",
    "Ebv.Gen.elab_psigned", "Ebv.Gen.elabC_cmp_sg", "Ebv.Gen.elabC_truth_sg",
    "Ebv.C03.comparison_typing_exact", "Ebv.C03.truth_typing_exact",
    "Ebv.C03.before_fix_sum_signed", "Ebv.C03.before_fix_sum_merged", "Ebv.C03.before_fix_and_signed",
]
TRUSTED = ["hand-written model Ebv.Gen + Ebv.Model.GenCond of the comparison / with-block code generator (ebpfcat/ebpf.py: comparison, "
           "SimpleComparison, AndComparison, AndOrComparison, InvertComparison, Comparison.__enter__/__exit__/Else, Elser, jumpIf), tied "
           "by EXACT opcode-list equality with the real generator on generated statement programs (only as far as they reach)",
           "instruction semantics Ebv.Ebpf (validated three-way by C01: Lean / harness/vh/interp.py / kernel)",
           "harness/vh/dsl_cond.py (enters and leaves the real with-blocks while walking the JSON), harness/vh/interp.py",
           "C01's theorems (calc_correct, setReg/setMem, evalBV_eq_evalZ) for operands and assignments"]
ASSUMPTIONS = ["registers in `owned` are declared by assigning EBPF.owners before the first statement; array-map variables through r7",
               "flat byte memory (bounds: C05); all jumps are forward, fuel = code length + 1",
               "oracle precondition = property text: per comparison W = 32 if an operand mentions a variable of at most 4 bytes or a "
               "w/sw register view, else 64; a signed comparison needs both values in the signed W-bit range, an unsigned one in "
               "[0, 2^W); signed = the property types one operand signed (dsl.psigned on the program text: leaves by declared kind, a "
               "result signed as soon as one operand is; -a signed, abs unsigned, a & b signed iff both are, int (op) int one constant) "
               "-- never the implementation's `signed` attribute; the same typing feeds the class predicates; comparison_typing_exact "
               "proves that the model builds exactly this comparison; the theorem's precondition (atomPre) is weaker; runs that "
               "satisfy the theorem's hypotheses may not fail at all",
               "marker assignments: res |= 1 << k, constant stores, r-view register assignments; registers are compared only if the "
               "generator still owns them at the end"]
RULE = ("statement programs = JSON (dsl_cond.py): the atom family (6 comparison operators x 13 leaf kinds x 13 leaf kinds, bit tests x "
        "14 masks x 3 spellings, expressions as conditions; each x {with, with/Else, jumpIf, jumpIf/Else}), sampled (quick) or "
        "enumerated (thorough); random trees: nesting <= 3, and/or/not depth <= 3, compound operands (+ - * | ^ & neg abs, int on "
        "either side, Sum - expression, Sum +- int, one Sum object used twice with different added constants), ownership at joins, "
        "the unary-operand family (abs / unary minus of every leaf kind against a constant or a leaf), the typing family "
        "(a comparison with an operand whose signedness an operator rule decides: register +- int in every spelling, & of signed "
        "/ mixed / constant operands, unsigned differences, neg, abs); inputs = boundary values around every constant in the program (c-1, c, c+1, -c), "
        "sign bits and width edges, small values, all-equal vectors; non-trivial = accepted with at least one condition")
LEVEL_TEXT = ("Lean 4 proof by structural induction of a hand-written model of the comparison / with-block generator: closed-segment "
              "lemmas for code with forward jumps; cond_correct (induction on the condition tree: the code of `compare negative`, "
              "patched by `target` for any later position, falls through iff truth = not negative-sense, else reaches exactly that "
              "position, no owned register or memory changed); with_correct (induction on statements incl. the AndComparison "
              "splice): run(emit s) realises the structured big-step semantics; mtruth_eq_truth (jump decisions = Python integer "
              "comparisons when the values fit); C03_partial in terms of Ebpf.run with the defect classes excluded by a decidable "
              "predicate; C03_full_refuted and one kernel-evaluated witness per class. Tie: exact opcode-list equality real vs model "
              "every run; oracle executes the real code; runs inside the theorem's hypotheses must not fail at all.")
LEVEL_NOTE = ("trusted: Lean kernel + propext/Classical.choice/Quot.sound; model <-> Python only as far as generated programs reach; ISA "
              "model validated, not verified. Proved: all six comparisons, bit tests incl. Else splice, & | ~ ==, with / with-Else, "
              "nesting, sequencing, owners intersection (conservatively). Corresponded + oracle only (NOT proved): jumpIf/target/Else "
              "used directly (off+1 branch), operands outside C01's fragment or compound 32-bit operands in unsigned 64-bit "
              "comparisons, reads of registers assigned in both branches, bit fields and "
              "fixed point (not modelled). Known defect classes of the unchanged tree (each refuted in Lean): "
              "narrow-reg-in-64, widen-in-place, const-left-32 (C01's unary classes are repaired). A signed right operand of a 64-bit "
              "unsigned left operand is computed in 64 bits (was class u64-vs-negative-short; regression witness "
              "before_fix_u64_vs_negative_short). Unary operators on a register operand work on a "
              "copy (was class unary-in-place) and are executed in 64 bits inside a 64-bit comparison (was class unary-32-in-64); "
              "cond_correct / C03_partial hold without these exclusions. Sum - expression operands "
              "(was class sum-minus) are inside elabC_truth / C03_partial since Sum.__sub__ was repaired; abs operands of 32-bit "
              "comparisons (was class abs-32) are judged by the oracle without excuse since Absolute was repaired; abs_segment / "
              "abs_top_correct prove the abs code at both widths (abs inside cond_correct's operands stays outside Expr.frag). "
              "Typing repaired with C01 (masked before: the oracle took signedness from the implementation's objects): register +- int "
              "forgot the register's signedness (`with sr2 + 1 < 5` was unsigned), followed the merged number, & of two signed "
              "operands was unsigned; regression witnesses before_fix_sum_signed / _sum_merged / _and_signed; "
              "comparison_typing_exact: the comparison built is signed iff the property types an operand signed.")
TECHNIQUE = "Lean 4 structural induction over condition trees and statements (compiler correctness) + exact opcode-list correspondence"
DESIGN_REF = "§4 C03"
