"""JSON representation of surface DSL programs of the ebpfcat code generator, the builder
that turns such a program into the REAL objects (real `EBPF` subclass, real operator
overloads, real descriptors; no eval), PRNG-driven generators and a reference evaluator in
Python big integers.

program   = {"owned": [regno, ...],                 registers owned before the first statement
             "vars":  [[name, fmt, kind], ...],     kind "l" = LocalVar (base r10), "g" = ArrayMap.globalVar (base r7)
             "stmts": [stmt, ...]}
stmt      = ["set", dest, expr]                      (room for ["with", cond, [stmts], [stmts]] -- C03)
dest      = ["r"|"sr"|"w"|"sw", k] | ["v", name]     (room for ["x", k] -- C02)
expr      = ["r"|"sr"|"w"|"sw", k] | ["v", name] | ["c", int]            leaves
          | [op, a, b]   op in + - * // % & | ^ << >>
          | ["neg", a] | ["abs", a]
          | ["m", fmt, addr_expr]                    e.mB[addr] ... e.mq[addr]
          | ["let", name, a, body] | ["ref", name]   s = <a>; ... s ... s ...: ONE real object used at every ["ref", name]

A ["c", n] leaf is a plain Python int, exactly as a user writes it: int (op) int is folded by
Python itself, int (op) Expression goes through the reflected operator of the real class.
"""
import operator

from . import fsim

VIEWS = ("r", "sr", "w", "sw")
FMTS = "BHIQbhiq"
FSIZE = {"B": 1, "H": 2, "I": 4, "Q": 8, "b": 1, "h": 2, "i": 4, "q": 8}
BINOPS = {"+": operator.add, "-": operator.sub, "*": operator.mul, "//": operator.floordiv,
          "%": operator.mod, "&": operator.and_, "|": operator.or_, "^": operator.xor,
          "<<": operator.lshift, ">>": operator.rshift}
RING = ("+", "-", "*", "|", "^", "<<")
STAGE3 = ("&", ">>", "//", "%")
M64 = (1 << 64) - 1


# ----------------------------------------------------------------------------- real builder
class Built:
    """the real program object of one JSON program, before its statements are issued"""

    def __init__(self, prog):
        from ebpfcat import ebpf as E
        self.E = E
        ns = {}
        amap = None
        if any(v[2] == "g" for v in prog["vars"]):
            from ebpfcat.arraymap import ArrayMap
            amap = ArrayMap()
            ns["gmap"] = amap
        for name, fmt, kind in prog["vars"]:
            ns[name] = E.LocalVar(fmt) if kind == "l" else amap.globalVar(fmt)
        cls = type("P", (E.EBPF,), ns)
        with fsim.fake_maps():
            self.e = cls()
        self.n0 = len(self.e.opcodes)              # prologue of ArrayMap.init (not part of the compared code)
        self.owners_after_init = set(self.e.owners)
        self.e.owners = set(prog["owned"])
        self.prog = prog
        self.trees = []
        self.objs = []                             # the object (or int) assigned by every statement
        self.cuts = []                             # code length after every statement
        self.flags = []                            # per statement: surface-level observations (see `expr`)
        self._flags = set()
        self._bound = {}                           # objects bound by ["let", ...]

    def layout(self):
        """name -> (base register, offset, fmt) as the real descriptors decided"""
        out = {}
        for name, fmt, kind in self.prog["vars"]:
            d = type(self.e).__dict__[name]
            f, addr = d.fmt_addr(self.e)
            out[name] = (d.base_register, addr, f)
        return out

    def expr(self, j):
        e = self.e
        k = j[0]
        if k == "c":
            return int(j[1])
        if k in VIEWS:
            v = getattr(e, k)[j[1]]
            v._pview = k                           # the view as written (property-level typing, see `reg_view`)
            return v
        if k == "v":
            return getattr(e, j[1])
        if k == "neg":
            return operator.neg(self.expr(j[1]))
        if k == "abs":
            return abs(self.expr(j[1]))
        if k == "m":
            return getattr(e, "m" + j[1])[self.expr(j[2])]
        if k == "ref":
            return self._bound[j[1]]               # the very same object again
        if k == "let":
            old = self._bound.get(j[1])
            self._bound[j[1]] = self.expr(j[2])
            try:
                return self.expr(j[3])
            finally:
                if old is None:
                    del self._bound[j[1]]
                else:
                    self._bound[j[1]] = old
        a, b = self.expr(j[1]), self.expr(j[2])
        return BINOPS[k](a, b)

    def stmt(self, s):
        assert s[0] == "set"
        self._flags = set()
        val = self.expr(s[2])
        self.trees.append(tree(self.E, val))
        self.objs.append(val)
        self.flags.append(self._flags)
        d = s[1]
        if d[0] == "v":
            setattr(self.e, d[1], val)
        else:
            getattr(self.e, d[0])[d[1]] = val
        self.cuts.append(len(self.e.opcodes) - self.n0)

    def run(self):
        for s in self.prog["stmts"]:
            self.stmt(s)

    def insns(self):
        return [[i.opcode.value, i.dst, i.src, i.off, i.imm] for i in self.e.opcodes[self.n0:]]


def emit_real(prog, want_built=False):
    """instruction list [[op, dst, src, off, imm], ...] emitted by the real generator, or the enum
    'asm-error' (AssembleError) / 'other:<type>'"""
    b = Built(prog)
    try:
        b.run()
        res = b.insns()
    except b.E.AssembleError:
        res = "asm-error"
    except Exception as ex:                     # noqa: BLE001 - canonicalised into the enum
        res = "other:" + type(ex).__name__
    return (res, b) if want_built else res


def tree(E, v):
    """canonical rendering of the object tree the real operator overloads built"""
    if isinstance(v, int):
        return f"i{v}"
    if v is None:
        return "none"
    if isinstance(v, E.Constant):
        return f"c{v.value}"
    if isinstance(v, E.Register):
        return ("s" if v.signed else "") + ("r" if v.long else "w") + str(v.no)
    su = lambda x: "s" if x.signed else "u"
    if isinstance(v, E.Sum):
        return f"(sum {tree(E, v.left)} {tree(E, v.right)} {su(v)})"
    if isinstance(v, E.AndExpression):
        return f"(and {tree(E, v.left)} {tree(E, v.right)} {su(v)})"
    if isinstance(v, E.Binary):
        return f"({v.operator.name.lower()} {tree(E, v.left)} {tree(E, v.right)} {su(v)})"
    if isinstance(v, E.Negate):
        return f"(neg {tree(E, v.arg)})"
    if isinstance(v, E.Absolute):
        return f"(abs {tree(E, v.arg)})"
    if isinstance(v, E.Memory):
        return f"(mem {v.fmt} {tree(E, v.address)})"
    return f"?{type(v).__name__}"


# ----------------------------------------------------------------------------- reference semantics
def sx(v, bits):
    v &= (1 << bits) - 1
    return v - (1 << bits) if v >> (bits - 1) else v


def view_value(view, raw):
    """value of a register (raw 64-bit content) seen through a view"""
    if view == "r":
        return raw & M64
    if view in ("sr", "x"):                        # x: the raw content of a fixed-point register (C02)
        return sx(raw, 64)
    if view == "w":
        return raw & 0xffffffff
    return sx(raw, 32)


def fmt_value(fmt, raw):
    bits = 8 * FSIZE[fmt]
    return sx(raw, bits) if fmt.islower() else raw & ((1 << bits) - 1)


class Outside(Exception):
    """the expression has no value in the reference semantics (division by zero, negative shift)"""


def expand(j, bound=None):
    """the surface expression with every ["let", name, a, body] written out: what the user's text means (a name
    bound to an expression object stands for that expression at every use)"""
    k = j[0]
    if k in ("c", "v") or k in VIEWS:
        return j
    bound = bound or {}
    if k == "ref":
        return bound[j[1]]
    if k == "let":
        return expand(j[3], {**bound, j[1]: expand(j[2], bound)})
    if k in ("neg", "abs"):
        return [k, expand(j[1], bound)]
    if k == "m":
        return ["m", j[1], expand(j[2], bound)]
    return [k, expand(j[1], bound), expand(j[2], bound)]


def eval_ref(j, regs, vars_, mem=None):
    """set of acceptable mathematical values (Python int semantics; for // and % with a negative operand
    both the flooring and the truncating result are acceptable, so the result is a set)"""
    k = j[0]
    if k == "let":
        return eval_ref(expand(j), regs, vars_, mem)
    if k == "c":
        return {int(j[1])}
    if k in VIEWS:
        return {view_value(k, regs[j[1]])}
    if k == "v":
        return {vars_[j[1]]}
    if k == "neg":
        return {-a for a in eval_ref(j[1], regs, vars_, mem)}
    if k == "abs":
        return {abs(a) for a in eval_ref(j[1], regs, vars_, mem)}
    if k == "m":
        if mem is None:
            raise Outside("no memory")
        return {mem(j[1], a) for a in eval_ref(j[2], regs, vars_, mem)}
    A, B = eval_ref(j[1], regs, vars_, mem), eval_ref(j[2], regs, vars_, mem)
    out = set()
    for a in A:
        for b in B:
            if k in ("//", "%"):
                if b == 0:
                    raise Outside("division by zero")
                q = abs(a) // abs(b)
                if (a < 0) != (b < 0):
                    q = -q
                out.add(a // b if k == "//" else a % b)
                out.add(q if k == "//" else a - q * b)
            elif k in ("<<", ">>"):
                if b < 0 or b > 4096:
                    raise Outside("shift count")
                out.add(a << b if k == "<<" else a >> b)
            else:
                out.add(BINOPS[k](a, b))
    return out


def leaves(j):
    k = j[0]
    if k == "let":
        return leaves(expand(j))
    if k in ("c", "v", "d", "x") or k in VIEWS:           # d, x: decimal constants and fixed-point registers of C02
        return [j]
    if k in ("neg", "abs"):
        return leaves(j[1])
    if k == "m":
        return [j] + leaves(j[2])
    return leaves(j[1]) + leaves(j[2])


def ops_of(j):
    k = j[0]
    if k == "let":
        return ops_of(expand(j))
    if k in ("c", "v") or k in VIEWS:
        return []
    if k in ("neg", "abs"):
        return [k] + ops_of(j[1])
    if k == "m":
        return ["m"] + ops_of(j[2])
    return [k] + ops_of(j[1]) + ops_of(j[2])


def depth(j):
    k = j[0]
    if k == "let":
        return depth(expand(j))
    if k in ("c", "v") or k in VIEWS:
        return 0
    if k in ("neg", "abs"):
        return 1 + depth(j[1])
    if k == "m":
        return 1 + depth(j[2])
    return 1 + max(depth(j[1]), depth(j[2]))


def width_W(prog, stmt):
    """W of DESIGN §4 C01: 32 if any leaf or the destination is at most 4 bytes wide, else 64"""
    return pwidth([stmt[2]], {n: f for n, f, _ in prog["vars"]}, dest=stmt[1])


# ----------------------------------------------------------------------------- property-level typing
# What an operand's size and signedness ARE is defined by the property text ("each operand taking the value its own
# size and signedness define"), not by the generator: the oracles take the signedness that decides a precondition
# (signed range vs unsigned range) or the membership in a known-finding class from HERE, from the program text --
# never from the `signed` / `long` attributes of the implementation's own objects.  (Taking them from the objects lets
# a wrong typing in the implementation move the failing inputs outside the precondition or into a known class.)
SIGNED_VIEWS = ("sr", "sw", "x")          # x: the fixed-point register view of C02 (long, signed)
NARROW_VIEWS = ("w", "sw")


def fmt_signed(f):
    """lower-case struct formats and the fixed-point format x are signed"""
    return f == "x" or f.islower()


def fold_int(j):
    """the value of a surface expression that is a plain Python int (int (op) int is folded by Python itself, the
    generator only ever sees the result), else None; None also where Python raises (the builder reports that)"""
    k = j[0]
    if k == "c":
        return int(j[1])
    if k == "let":
        return fold_int(expand(j))
    if k in ("neg", "abs"):
        a = fold_int(j[1])
        return None if a is None else (-a if k == "neg" else abs(a))
    if k in BINOPS:
        a, b = fold_int(j[1]), fold_int(j[2])
        if a is None or b is None:
            return None
        try:
            return BINOPS[k](a, b) if not (k in ("<<", ">>") and b > 4096) else None
        except (ZeroDivisionError, ValueError):
            return None
    return None


def psigned(j, fm):
    """SIGNEDNESS OF AN EXPRESSION AS THE PROPERTY DEFINES IT (fm: variable name -> declared format).
    Leaves: r / w views and upper-case formats are unsigned; sr / sw / x views, lower-case formats and the format x
    are signed; a constant is signed iff it is negative (a decimal constant ["d", n] likewise).  A sub-expression of
    plain Python ints is ONE constant (Python folds it): signed iff its value is negative.  Operators: a result is
    signed as soon as one operand is, except for four rules that follow from the exact value of the result:
      neg  signed:   -a is <= 0 for every a >= 0
      abs  unsigned: |a| >= 0
      &    signed iff BOTH operands are: a & b >= 0 as soon as one operand is >= 0
      >>   the signedness of the left operand: a >> n has the sign of a (n is a count in [0, W))"""
    k = j[0]
    if k == "let":
        return psigned(expand(j), fm)
    if k in VIEWS or k == "x":
        return k in SIGNED_VIEWS
    if k == "v":
        return fmt_signed(fm[j[1]])
    if k == "d":
        return j[1] < 0
    if k == "m":
        return fmt_signed(j[1])
    v = fold_int(j)
    if v is not None:
        return v < 0
    if k == "neg":
        return True
    if k == "abs":
        return False
    if k == "&":
        return psigned(j[1], fm) and psigned(j[2], fm)
    if k == ">>":
        return psigned(j[1], fm)
    return psigned(j[1], fm) or psigned(j[2], fm)


def leaf_narrow(l, fm):
    """the leaf is at most 4 bytes wide (w / sw view, variable or m[...] format of 1, 2 or 4 bytes)"""
    if l[0] in NARROW_VIEWS:
        return True
    if l[0] == "v":
        return fm[l[1]] != "x" and FSIZE[fm[l[1]]] <= 4
    if l[0] == "m":
        return FSIZE[l[1]] <= 4
    return False


def pnarrow(j, fm):
    """the expression mentions a value of at most 4 bytes (declared sizes): such a leaf makes W = 32"""
    return any(leaf_narrow(l, fm) for l in leaves(j))


def pwidth(exprs, fm, dest=None):
    """W of the property text: 32 if any operand (or the destination) is at most 4 bytes wide, else 64"""
    if dest is not None and leaf_narrow(dest, fm):
        return 32
    return 32 if any(pnarrow(e, fm) for e in exprs) else 64


def reg_view(v):
    """the view (r sr w sw x) a register leaf was WRITTEN in: the builder records it on the object it gets from the real
    register array; registers the library creates itself carry no record and are described by their own flags"""
    pv = getattr(v, "_pview", None)
    if pv is None:
        pv = ("s" if v.signed else "") + ("r" if v.long else "w")
    return pv


def reg_long(v):
    return reg_view(v) in ("r", "sr", "x")


def reg_signed(v):
    return reg_view(v) in SIGNED_VIEWS


def pre_holds(j, regs, vars_, W, mem=None):
    """precondition of DESIGN §4 C01 for the non-ring operators: below every // % >> abs node every
    sub-expression fits the signed W-bit range, shift amounts are in [0, W), divisors are non-zero"""
    lo, hi = -(1 << (W - 1)), 1 << (W - 1)
    j = expand(j)

    def fits(x):
        try:
            vs = eval_ref(x, regs, vars_, mem)
        except Outside:
            return False
        if not all(lo <= v < hi for v in vs):
            return False
        k = x[0]
        if k in ("neg", "abs"):
            return fits(x[1])
        if k == "m":
            return fits(x[2])
        if k in BINOPS:
            return fits(x[1]) and fits(x[2])
        return True

    def go(x):
        k = x[0]
        if k in ("c", "v") or k in VIEWS:
            return True
        if k == "neg":
            return go(x[1])
        if k == "abs":
            return fits(x[1]) and go(x[1])
        if k == "m":
            return go(x[2])
        if not (go(x[1]) and go(x[2])):
            return False
        if k in ("<<", ">>"):
            try:
                bs = eval_ref(x[2], regs, vars_, mem)
            except Outside:
                return False
            if not all(0 <= b < W for b in bs):
                return False
        if k in ("//", "%"):
            try:
                bs = eval_ref(x[2], regs, vars_, mem)
            except Outside:
                return False
            if any(b == 0 for b in bs):
                return False
        if k in ("//", "%", ">>"):
            return fits(x[1]) and fits(x[2])
        return True
    return go(j)


# ----------------------------------------------------------------------------- generators
CONST_CLASSES = {
    "zero": [0], "one": [1], "minus-one": [-1], "small": [2, 3, 7, 100, -5, 48, 31, 32, 63],
    "edge31": [2**31 - 1, 2**31, -2**31, -2**31 - 1, 2**31 + 1],
    "ge32": [2**32, 2**32 - 1, 2**32 + 1, 0x123456789, 2**63 - 1, 2**63, 2**64 - 1],
    "neg64": [-2**32, -2**63, -2**63 - 1, -0x123456789abcdef, -2**64 + 1],
    "gt64": [2**64, 2**64 + 5, 2**70, -2**64, -2**70 - 3, 3 * 2**64 + 2**31],
}
CONST_CLASS_NAMES = list(CONST_CLASSES)


def const_of(rng, cls=None):
    cls = cls or rng.choice(CONST_CLASS_NAMES)
    return ["c", rng.choice(CONST_CLASSES[cls])]


def rand_const(rng):
    r = rng.random()
    if r < 0.55:
        return const_of(rng)
    if r < 0.8:
        return ["c", rng.randrange(-300, 300)]
    if r < 0.9:
        return ["c", rng.randrange(-2**31, 2**31)]
    return ["c", rng.randrange(-2**65, 2**65)]


def std_vars(kinds="l"):
    """one variable of every format; kinds 'l', 'g' or 'lg'"""
    out = []
    for kd in kinds:
        for f in FMTS:
            out.append([f"{kd}v{f}" if f.isupper() else f"{kd}s{f}", f, kd])
    return out


def leaf_choices(prog, kind):
    """all leaves of one kind available in prog (kind: a view, 'v<fmt>', 'c')"""
    if kind in VIEWS:
        return [[kind, k] for k in prog["owned"] if k < 10]
    if kind[0] == "v":
        return [["v", n] for n, f, _ in prog["vars"] if f == kind[1]]
    return []


LEAF_KINDS = list(VIEWS) + ["v" + f for f in FMTS] + ["c"]
DEST_KINDS = list(VIEWS) + ["v" + f for f in FMTS]


def pick_leaf(rng, prog, kind, constcls=None, stage=2):
    if kind == "c":
        return const_of(rng, constcls) if constcls else rand_const(rng)
    ch = leaf_choices(prog, kind)
    if not ch:
        return const_of(rng, constcls)
    return rng.choice(ch)


def pick_dest(rng, prog, kind):
    if kind in VIEWS:
        # mostly a fresh or an owned low register; sometimes one that occurs in the expression (aliasing)
        return [kind, rng.choice([0, 2, 3, 4, 5, 6, 8, 9])]
    ch = [["v", n] for n, f, _ in prog["vars"] if f == kind[1]]
    return rng.choice(ch)


def base_prog(rng, stage=2, kinds=None):
    owned = sorted({10} | ({1} if rng.random() < 0.8 else set())
                   | set(rng.sample([0, 2, 3, 4, 5, 6, 8, 9], rng.choice([2, 3, 3, 4, 5, 7, 8]))))
    if kinds is None:
        kinds = "" if stage < 2 else rng.choice(["l", "l", "g", "lg"])
    if "g" in kinds:
        owned = sorted(set(owned) | {7})
    return {"owned": owned, "vars": std_vars(kinds), "stmts": []}


def rand_expr(rng, prog, d, ops, unary, stage=2, leafkinds=None):
    leafkinds = leafkinds or (LEAF_KINDS if prog["vars"] else list(VIEWS) + ["c"])
    if d == 0 or rng.random() < 0.15:
        k = rng.choice(leafkinds)
        if rng.random() < 0.012:               # a register nobody owns: the generator must refuse
            return [rng.choice(VIEWS), rng.choice([k for k in range(10) if k not in prog["owned"]] or [0])]
        return pick_leaf(rng, prog, k)
    r = rng.random()
    if unary and r < 0.12:
        return [rng.choice(unary), rand_expr(rng, prog, d - 1, ops, unary, stage, leafkinds)]
    op = rng.choice(ops)
    a = rand_expr(rng, prog, d - 1, ops, unary, stage, leafkinds)
    b = rand_expr(rng, prog, rng.randrange(d), ops, unary, stage, leafkinds)
    if rng.random() < 0.5:
        a, b = b, a
    if a[0] == "c" and b[0] == "c" and rng.random() < 0.9:
        b = pick_leaf(rng, prog, rng.choice([k for k in leafkinds if k != "c"]))
    if op in ("<<", ">>") and rng.random() < 0.8:
        b = ["c", rng.choice([0, 1, 3, 8, 16, 31, 32, 33, 63])] if rng.random() < 0.7 else b
    return safe_shift(rng, [op, a, b])


def is_int(j):
    """the surface expression is a plain Python int (folded by Python itself)"""
    k = j[0]
    if k == "c":
        return True
    if k == "let":
        return is_int(expand(j))
    if k in ("neg", "abs"):
        return is_int(j[1])
    if k in BINOPS:
        return is_int(j[1]) and is_int(j[2])
    return False


def safe_shift(rng, e):
    """int << int is evaluated by Python itself: keep the count small (a count of 2**32 would allocate
    half a gigabyte); negative counts stay in (ValueError must be mirrored by the model)"""
    if e[0] in ("<<", ">>") and is_int(e[1]) and is_int(e[2]):
        return [e[0], e[1], ["c", rng.choice([0, 1, 5, 31, 32, 64, 70, -1, -3])]]
    return e


def gen_random(rng, stage, maxdepth=5):
    """one random program (one to three statements) of the given stage"""
    prog = base_prog(rng, stage)
    ops = list(RING) + (list(STAGE3) if stage >= 3 else [])
    unary = ["neg"] + (["abs"] if stage >= 3 else [])
    for _ in range(rng.choice([1, 1, 1, 2, 3])):
        dk = rng.choice(DEST_KINDS if prog["vars"] else list(VIEWS))
        d = pick_dest(rng, prog, dk)
        e = rand_expr(rng, prog, rng.randrange(1, maxdepth + 1), ops, unary, stage)
        prog["stmts"].append(["set", d, e])
    if rng.random() < 0.05:                      # register pressure: nearly everything owned
        prog["owned"] = sorted(set(prog["owned"]) | set(rng.sample(range(10), 9)))
    return prog


def enum_depth1(stage, ops=None):
    """descriptors of the exhaustive depth-1 family: (op, leafkind a, leafkind b, destkind, constclass)"""
    ops = ops or (list(RING) + (list(STAGE3) if stage >= 3 else []))
    lk = LEAF_KINDS if stage >= 2 else list(VIEWS) + ["c"]
    dk = DEST_KINDS if stage >= 2 else list(VIEWS)
    for op in ops:
        for a in lk:
            for b in lk:
                for d in dk:
                    if a == "c" or b == "c":
                        for cc in CONST_CLASS_NAMES:
                            yield ("d1", op, a, b, d, cc)
                    else:
                        yield ("d1", op, a, b, d, None)
    for u in ["neg"] + (["abs"] if stage >= 3 else []):
        for a in lk:
            for d in dk:
                for cc in (CONST_CLASS_NAMES if a == "c" else [None]):
                    yield ("u1", u, a, None, d, cc)
    for a in lk:                                   # plain moves / stores
        for d in dk:
            for cc in (CONST_CLASS_NAMES if a == "c" else [None]):
                yield ("u1", None, a, None, d, cc)


KIND_CLASSES = ["r", "sr", "w", "sw", "vU", "vQ", "vS", "vq", "c"]


def enum_depth2(stage):
    """descriptors of the depth-2 family: (shape, op1, op2, three leaf kind classes); destination kind and
    constant class rotate with a counter so that every combination occurs with varying destinations"""
    ops = list(RING) + (list(STAGE3) if stage >= 3 else [])
    un = ["neg"] + (["abs"] if stage >= 3 else [])
    kc = KIND_CLASSES if stage >= 2 else ["r", "sr", "w", "sw", "c"]
    for shape in ("L", "R"):
        for op1 in ops:
            for op2 in ops + un:
                for a in kc:
                    for b in kc:
                        if op2 in un:
                            yield ("d2", shape, op1, op2, a, b, None)
                        else:
                            for c in kc:
                                yield ("d2", shape, op1, op2, a, b, c)


def _kc(rng, k):
    if k == "vU":
        return "v" + rng.choice("BHI")
    if k == "vS":
        return "v" + rng.choice("bhi")
    if k in ("vQ", "vq"):
        return k
    return k


def build_desc(rng, desc, stage):
    """turn a family descriptor into a program"""
    prog = base_prog(rng, stage, kinds=None if stage >= 2 else "")
    if stage >= 2 and not prog["vars"]:
        prog["vars"] = std_vars("l")
    if desc[0] in ("d1", "u1"):
        _, op, a, b, d, cc = desc
        la = pick_leaf(rng, prog, a, cc)
        if desc[0] == "u1":
            e = la if op is None else [op, la]
        else:
            lb = pick_leaf(rng, prog, b, cc if a != "c" else None)
            e = safe_shift(rng, [op, la, lb])
        dest = pick_dest(rng, prog, d)
    else:
        _, shape, op1, op2, a, b, c = desc
        la, lb = pick_leaf(rng, prog, _kc(rng, a)), pick_leaf(rng, prog, _kc(rng, b))
        if c is None:
            inner = [op2, lb]
        else:
            inner = [op2, lb, pick_leaf(rng, prog, _kc(rng, c))]
        inner = safe_shift(rng, inner)
        e = safe_shift(rng, [op1, inner, la] if shape == "L" else [op1, la, inner])
        dest = pick_dest(rng, prog, rng.choice(DEST_KINDS if stage >= 2 else list(VIEWS)))
    if dest[0] in VIEWS and rng.random() < 0.3:        # aliasing: the destination occurs in the expression
        regs = [l for l in leaves(e) if l[0] in VIEWS]
        if regs:
            dest = [dest[0], rng.choice(regs)[1]]
    prog["stmts"] = [["set", dest, e]]
    return prog


def sum_shared(rng, r, c, any_leaf):
    """s = r + c0 (ONE Sum object) used twice with different added constants: s + c1, s - c2, c3 + s, s - expr, s as
    an address ... -- before Sum.__add__/__sub__ were repaired the first use changed the constant the second one sees"""
    s = ["ref", "s"]

    def use():
        t = rng.randrange(6)
        if t == 0:
            return ["+", s, c()]
        if t == 1:
            return ["-", s, c()]
        if t == 2:
            return ["+", c(), s]
        if t == 3:
            return ["-", s, any_leaf()]
        if t == 4:
            return ["m", rng.choice(FMTS), ["+", s, ["c", rng.choice([0, 4, -8, 16])]]]
        return s
    a, b = use(), use()
    if a == s and b == s:
        b = ["+", s, c()]
    body = [rng.choice(["+", "-", "*", "|", "^"]), a, b]
    if rng.random() < 0.3:
        body = [rng.choice(["+", "-", "*"]), body, ["-", s, c()]]              # a third use
    return ["let", "s", [rng.choice("+-"), r(), c()], body]


def gen_special(rng):
    """targeted shapes: Sum objects combined with ints and expressions (Sum.__add__/__sub__), computed addresses,
    destination aliasing, register pressure"""
    prog = base_prog(rng, 3, kinds=rng.choice(["l", "lg"]))
    regs = [k for k in prog["owned"] if k < 10 and k != 7] or [1]
    r = lambda: ["r", rng.choice(regs)]
    any_leaf = lambda: pick_leaf(rng, prog, rng.choice(LEAF_KINDS))
    c = lambda: ["c", rng.choice([0, 1, -1, 8, -8, 2**31, -2**31 - 1, 2**40])]
    k = rng.randrange(11)
    if k == 0:
        e = [rng.choice("+-"), [rng.choice("+-"), r(), c()], c()]              # Sum (+|-) int: a new Sum
    elif k == 1:
        e = [rng.choice("+-"), [rng.choice("+-"), r(), c()], any_leaf()]       # Sum (+|-) expr: Binary ADD / SUB
    elif k == 9:
        e = sum_shared(rng, r, c, any_leaf)                                    # one Sum object used twice
    elif k == 10:                                                              # Sum - expr below other operators
        d = ["-", [rng.choice("+-"), r(), c()], rng.choice([r(), ["w", rng.choice(regs)], any_leaf()])]
        e = rng.choice([[rng.choice(RING), d, any_leaf()], [rng.choice(RING), any_leaf(), d], ["neg", d],
                        ["-", ["+", d, c()], any_leaf()]])
    elif k == 2:
        e = ["+", ["*", any_leaf(), any_leaf()], [rng.choice("+-"), r(), c()]]  # Binary + Sum: Sum.__radd__ first
    elif k == 3:
        e = [rng.choice(["+", "-", "*", "|"]), c(), [rng.choice("+-"), r(), c()]]  # int (op) Sum
    elif k == 4:
        a = rng.choice([r(), ["+", r(), ["c", rng.choice([0, 4, -8, 2**31])]], ["+", r(), r()], ["w", rng.choice(regs)],
                        ["*", r(), ["c", 2]], ["v", "lvQ"]])
        e = ["m", rng.choice(FMTS), a]                                         # computed address
        if rng.random() < 0.5:
            e = [rng.choice(RING), e, any_leaf()]
    elif k == 5:
        d = rng.choice(regs)
        e = [rng.choice(RING + STAGE3), any_leaf(), [rng.choice(RING), any_leaf(), ["r", d]]]
        prog["stmts"] = [["set", [rng.choice(VIEWS), d], e]]                   # destination occurs on the right
        return prog
    elif k == 6:
        prog["owned"] = sorted(set(prog["owned"]) | set(rng.sample(range(10), rng.choice([7, 8, 9]))))
        e = rand_expr(rng, prog, 3, list(RING), ["neg"])                       # register pressure
    elif k == 7:
        e = [rng.choice(["neg", "abs"]), rng.choice([r(), ["w", rng.choice(regs)], any_leaf(), ["neg", r()]])]
    else:
        e = [rng.choice(["<<", ">>"]), any_leaf(), ["c", rng.choice([0, 1, 31, 32, 33, 63, 64, -1])]]
    dk = rng.choice(DEST_KINDS)
    prog["stmts"] = [["set", pick_dest(rng, prog, dk), e]]
    return prog


def typed_operand(rng, prog, leaf=None):
    """operands whose SIGNEDNESS is decided by an operator rule rather than by one leaf: register +- int in every
    spelling (Sum objects: signed register with a non-negative number, unsigned register with a negative one, chains that
    merge their numbers to another sign), & of signed / mixed / constant operands, differences of unsigned operands, unary
    minus and abs -- the shapes on which a wrong typing rule shows as a logical shift or an unsigned jump"""
    regs = [k for k in prog["owned"] if k < 10 and k != 7] or [1]
    reg = lambda views: [rng.choice(views), rng.choice(regs)]
    num = lambda: ["c", rng.choice([0, 1, 1, 3, 8, 100, -1, -8, -100, 2**31, -2**31])]
    other = leaf or (lambda: pick_leaf(rng, prog, rng.choice([k for k in LEAF_KINDS if k != "c"])))
    t = rng.randrange(12)
    if t == 0:
        return [rng.choice("+-"), reg(["sr"]), ["c", rng.choice([0, 1, 3, 8, 100])]]          # signed register, number >= 0
    if t == 1:
        return [rng.choice("+-"), reg(["sr", "r"]), num()]
    if t == 2:
        return [rng.choice("+-"), [rng.choice("+-"), reg(["sr", "r", "r"]), num()], num()]    # the numbers are merged
    if t == 3:
        return ["+", num(), [rng.choice("+-"), reg(["sr", "r"]), num()]]                       # int + Sum
    if t == 4:
        return ["&", reg(["sr", "sw"]), reg(["sr", "sw"])]                                     # both signed
    if t == 5:
        return ["&", reg(["sr", "sw"]), ["c", rng.choice([-1, -2, -8, -256, -2**31])]]         # signed & negative mask
    if t == 6:
        return ["&", rng.choice([reg(["sr", "sw"]), other()]), rng.choice([reg(["r", "w"]), ["c", rng.choice([1, 0xff, 2**31])]])]
    if t == 7:
        return ["-", reg(["r", "w"]), rng.choice([reg(["r", "w"]), ["c", rng.choice([1, 5, 100])]])]   # unsigned difference
    if t == 8:
        return [rng.choice(["neg", "abs"]), rng.choice([reg(list(VIEWS)), other()])]
    if t == 9:
        return [rng.choice(["+", "-", "|", "^", "*"]), ["&", reg(["sr"]), reg(["sr"])], reg(["r", "sr"])]
    if t == 10:
        return ["-", [rng.choice("+-"), reg(["sr", "r"]), num()], other()]                     # Sum - expression
    return [rng.choice(["+", "-", "*", "|", "^"]), other(), other()]


def gen_typing(rng):
    """`dest = X >> n` (and X // n, X % n) with X a `typed_operand`: the result depends on the typing of X"""
    prog = base_prog(rng, 3, kinds=rng.choice(["l", "lg"]))
    x = typed_operand(rng, prog)
    n = ["c", rng.choice([0, 1, 1, 3, 8, 31])]
    e = [">>", x, n] if rng.random() < 0.85 else [rng.choice(RING), [">>", x, n], pick_leaf(rng, prog, rng.choice(LEAF_KINDS))]
    dk = rng.choice(["r", "sr", "vQ", "vq", "r", "sr", "w", "sw", "vi"])
    prog["stmts"] = [["set", pick_dest(rng, prog, dk), e]]
    return prog
