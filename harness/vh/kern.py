"""Minimal bpf(2) wrapper of our own (independent of /repo) used only to validate
the interpreter and the Lean ISA model against the real kernel when the sandbox
permits it.  Every function raises OSError when the kernel refuses."""
import ctypes
import os
import platform
import struct

_SYS = {"x86_64": 321, "aarch64": 280, "armv7l": 386}.get(platform.machine())
_libc = ctypes.CDLL("libc.so.6", use_errno=True)


def _bpf(cmd, attr):
    buf = ctypes.create_string_buffer(attr, max(len(attr), 128))
    r = _libc.syscall(_SYS, ctypes.c_int(cmd), buf, len(buf))
    if r == -1:
        e = ctypes.get_errno()
        raise OSError(e, os.strerror(e))
    return r, buf.raw


def available():
    if _SYS is None:
        return False
    try:
        fd = create_array_map(8)
        os.close(fd)
        return True
    except OSError:
        return False


def create_array_map(value_size, max_entries=1):
    r, _ = _bpf(0, struct.pack("IIIII", 2, 4, value_size, max_entries, 0))
    return r


def lookup(fd, key, value_size):
    k = ctypes.create_string_buffer(key, len(key))
    v = ctypes.create_string_buffer(value_size)
    _bpf(1, struct.pack("IQQQ", fd, ctypes.addressof(k), ctypes.addressof(v), 0))
    return v.raw


def update(fd, key, value):
    k = ctypes.create_string_buffer(key, len(key))
    v = ctypes.create_string_buffer(value, len(value))
    _bpf(2, struct.pack("IQQQ", fd, ctypes.addressof(k), ctypes.addressof(v), 0))


def encode(insns):
    out = b""
    for op, dst, src, off, imm in insns:
        out += struct.pack("<BBHI", op, dst | src << 4, off % 0x10000, imm % 0x100000000)
    return out


def prog_load(insns, prog_type=6, log=False):
    code = encode(insns)
    cbuf = ctypes.create_string_buffer(code, len(code))
    lic = ctypes.create_string_buffer(b"GPL")
    logbuf = ctypes.create_string_buffer(1 << 16) if log else None
    attr = struct.pack("IIQQIIQII16sII", prog_type, len(code) // 8, ctypes.addressof(cbuf), ctypes.addressof(lic),
                       1 if log else 0, len(logbuf) if log else 0, ctypes.addressof(logbuf) if log else 0, 0, 0,
                       b"vtest", 0, 0)
    try:
        fd, _ = _bpf(5, attr)
    except OSError as e:
        if log:
            e.log = logbuf.value.decode(errors="replace")
        raise
    return fd


def test_run(fd, data):
    din = ctypes.create_string_buffer(data, len(data))
    dout = ctypes.create_string_buffer(len(data) + 256)
    attr = struct.pack("IIIIQQII", fd, 0, len(data), len(dout), ctypes.addressof(din), ctypes.addressof(dout), 1, 0)
    r, raw = _bpf(10, attr)
    _, retval, _, size_out = struct.unpack_from("IIII", raw)
    return retval, dout.raw[:size_out]
