"""Conditions and statement programs on top of dsl.py (C03).

program = {"owned": [...], "vars": [[name, fmt, kind], ...], "body": [stmt, ...]}
stmt    = ["set", dest, expr]
        | ["if",  cond, [stmt, ...], [stmt, ...] | null]      with cond as Else: ... / with Else: ...
        | ["jif", cond, [stmt, ...], [stmt, ...] | null]      t = e.jumpIf(cond); A; t.target(); [t.Else(); B; t.__exit__()]
cond    = ["cmp", op, expr, expr]   op in < <= > >= == !=       (Python evaluates `a op b` on the real objects)
        | ["truth", expr]                                       with expr: (Expression.__enter__, `self != 0`)
        | ["not", cond] | ["and", cond, cond] | ["or", cond, cond]

`BuiltC` issues the statements on the REAL classes: the `with` blocks are entered and left through the real
`__enter__` / `__exit__` / `Elser` objects while the JSON is walked.  Reference semantics in Python big integers:
`run_ref` (which branch runs; marker assignments change the reference state)."""
import operator

from . import dsl

CMPOPS = {"<": operator.lt, "<=": operator.le, ">": operator.gt, ">=": operator.ge, "==": operator.eq, "!=": operator.ne}
CMP_NAMES = list(CMPOPS)


class BuiltC(dsl.Built):
    def __init__(self, prog):
        super().__init__({"owned": prog["owned"], "vars": prog["vars"], "stmts": []})
        self.cprog = prog
        self.ctrees = []           # rendering of every comparison object, in program order
        self.cobjs = []            # (json cond, real comparison object as built, before compare mutates it)
        self.atoms = []            # per condition: list of (kind, left object, right object) snapshots

    def cond(self, j):
        k = j[0]
        if k == "cmp":
            a, b = self.expr(j[2]), self.expr(j[3])
            return CMPOPS[j[1]](a, b)
        if k == "truth":
            return self.expr(j[1])
        if k == "not":
            return ~self.cond(j[1])
        a, b = self.cond(j[1]), self.cond(j[2])
        return (a & b) if k == "and" else (a | b)

    def build_cond(self, j):
        self._flags = set()
        c = self.cond(j)
        E = self.E
        shown = (c != 0) if isinstance(c, E.Expression) else c      # what Expression.__enter__ will build
        self.ctrees.append(ctree(E, shown))
        self.cobjs.append((j, atoms_of(E, shown), set(self._flags)))
        return c

    def cstmt(self, s):
        k = s[0]
        if k == "set":
            return self.stmt(s)
        c = self.build_cond(s[1])
        if k == "if":
            els = c.__enter__()
            self.cstmts(s[2])
            c.__exit__(None, None, None)
            if s[3] is not None:
                els.__enter__()
                self.cstmts(s[3])
                els.__exit__(None, None, None)
        else:
            t = self.e.jumpIf(c)
            self.cstmts(s[2])
            t.target()
            if s[3] is not None:
                t.Else()
                self.cstmts(s[3])
                t.__exit__(None, None, None)

    def cstmts(self, ss):
        for s in ss:
            self.cstmt(s)

    def run(self):
        self.cstmts(self.cprog["body"])


def emit_real(prog, want_built=False):
    """instruction list emitted by the real generator for a statement program, or the error enum"""
    b = BuiltC(prog)
    try:
        b.run()
        if any(i is None for i in b.e.opcodes):
            res = "other:unpatched-placeholder"
        else:
            res = b.insns()
    except b.E.AssembleError:
        res = "asm-error"
    except Exception as ex:                     # noqa: BLE001 - canonicalised into the enum
        res = "other:" + type(ex).__name__
    return (res, b) if want_built else res


# ----------------------------------------------------------------------------- comparison object trees
_PAIR = {"JGT": "gt", "JGE": "ge", "JLT": "lt", "JLE": "le", "JSGT": "gt", "JSGE": "ge", "JSLT": "lt", "JSLE": "le"}


def ctree(E, c):
    """canonical rendering of a comparison object BEFORE compare() mutates its opcode"""
    if isinstance(c, E.AndComparison):
        return f"(jset {dsl.tree(E, c.left)} {dsl.tree(E, c.right)})"
    if isinstance(c, E.SimpleComparison):
        pos = c.opcode[0].name
        if pos == "JNE":
            nm = "ne"
        else:
            nm = _PAIR[pos] + ("s" if pos.startswith("JS") else "u")
        return f"({nm} {dsl.tree(E, c.left)} {dsl.tree(E, c.right)})"
    if isinstance(c, E.AndOrComparison):
        return f"({'and' if c.is_and else 'or'} {ctree(E, c.left)} {ctree(E, c.right)})"
    if isinstance(c, E.InvertComparison):
        return f"(not {ctree(E, c.value)})"
    return f"?{type(c).__name__}"


def atoms_of(E, c):
    """structure of a comparison object with the operand objects: ('atom', kind, op, left, right) |
    ('not', x) | ('and'|'or', x, y); kind 'cmp' (op = gt ge lt le ne, signed pair flag) or 'bits'"""
    if isinstance(c, E.AndComparison):
        return ("atom", "bits", None, c.left, c.right)
    if isinstance(c, E.SimpleComparison):
        pos = c.opcode[0].name
        return ("atom", "cmp", "ne" if pos == "JNE" else _PAIR[pos], c.left, c.right)
    if isinstance(c, E.AndOrComparison):
        return ("and" if c.is_and else "or", atoms_of(E, c.left), atoms_of(E, c.right))
    if isinstance(c, E.InvertComparison):
        return ("not", atoms_of(E, c.value))
    return ("?",)


# ----------------------------------------------------------------------------- the atoms as the property reads them
def atom_pairs(cj, at):
    """(JSON atom, built atom) pairs of one condition in program order: the tree of comparison objects has the shape of
    the JSON condition (`==` is ~(!=))"""
    if at[0] == "?":
        return
    k = cj[0]
    if k in ("cmp", "truth"):
        x = at
        while x[0] == "not":
            x = x[1]
        yield cj, x
    elif k == "not":
        yield from atom_pairs(cj[1], at[1])
    else:
        yield from atom_pairs(cj[1], at[1])
        yield from atom_pairs(cj[2], at[2])


def atom_operands(cj, kind):
    """the two operand expressions of one JSON atom: a comparison compares its two sides, `with expr:` compares expr
    with 0; a bit test (`(x & m) != 0`, for which the generator has the JSET instruction: kind 'bits') tests x against m"""
    if cj[0] == "truth":
        ja, jb = dsl.expand(cj[1]), ["c", 0]
    else:
        ja, jb = dsl.expand(cj[2]), dsl.expand(cj[3])
    if kind == "bits":
        e = jb if dsl.fold_int(ja) is not None else ja          # the other side is the plain int 0
        if e[0] == "&":
            ja, jb = e[1], e[2]
    return ja, jb


def atom_psigned(cj, kind, fm):
    """PROPERTY-LEVEL: the comparison is a signed one iff the property types one of its operands signed (dsl.psigned on
    the program text; never the `signed` attribute of the objects the implementation built)"""
    ja, jb = atom_operands(cj, kind)
    return dsl.psigned(ja, fm) or dsl.psigned(jb, fm)


# ----------------------------------------------------------------------------- shape-level classes (mirror of Ebv.Gen.CondClass)
def width_of(E, v):
    """the width flag calculate(None, None) yields"""
    if isinstance(v, E.Register):
        return dsl.reg_long(v)
    if isinstance(v, E.Constant):
        return not (-0x80000000 <= v.value < 0x100000000)
    if isinstance(v, E.Unary):
        return width_of(E, v.arg)
    if isinstance(v, E.Memory):
        return v.fmt in "Qq"
    return width_of(E, v.left)


def atom_info(E, l, r, sg):
    """what SimpleComparison.compare has to decide for the operand objects l, r of a comparison whose signedness is sg.
    sg is handed in: the class predicates and the oracle's precondition pass the property-level `atom_psigned`; only the
    mirror of the theorem's precondition (c03.theorem_pre, a statement about the objects as built) passes the objects' own"""
    from .props import c01
    l_long = width_of(E, l)
    r_imm = bool(r.small_constant)
    sg = bool(sg)
    want = True if (sg and l_long) else None
    r_width = want if want is not None else width_of(E, r)
    r_long = (not r_imm) and (c01.ret_long(E, r, True) if want else width_of(E, r))
    return dict(l_long=l_long, r_imm=r_imm, want=want, r_width=r_width, r_long=r_long, sg=sg,
                short=sg and not l_long and not r_long, widen=sg and not l_long and r_long)


def narrow_leaf(E, v):
    """the operand mentions a value of at most 4 bytes (variable format or w/sw view): makes W = 32"""
    if isinstance(v, E.Register):
        return not dsl.reg_long(v)
    if isinstance(v, E.Constant):
        return False
    if isinstance(v, E.Unary):
        return narrow_leaf(E, v.arg)
    if isinstance(v, E.Memory):
        return v.fmt not in "Qq"
    return narrow_leaf(E, v.left) or narrow_leaf(E, v.right)


def const_left_32(E, v, w):
    """computed in 32 bits (the leftmost operand is a constant) although every variable/register in it is 64 bits"""
    return (not w) and not narrow_leaf(E, v) and not isinstance(v, E.Constant)


def is_short_reg(E, v):
    return isinstance(v, E.Register) and not dsl.reg_long(v)


def atom_classes(E, l, r, sg):
    from .props import c01
    a = atom_info(E, l, r, sg)
    out = set()
    if (not a["short"]) and ((is_short_reg(E, l) and not a["widen"]) or (not a["r_imm"] and is_short_reg(E, r))):
        out.add("narrow-reg-in-64")
    if a["widen"] and c01.reg_chain(E, l):
        out.add("widen-in-place")
    c01.tree_classes(E, l, a["l_long"], False, None, out)
    if not a["r_imm"]:
        c01.tree_classes(E, r, a["r_width"], False, None, out)
    if const_left_32(E, l, a["l_long"]) or (not a["r_imm"] and const_left_32(E, r, a["r_width"])):
        out.add("const-left-32")
    return out


def shape_classes(E, at, cj, fm):
    """classes of one condition: per atom, with the property-level signedness of the atom as written"""
    out = set()
    for aj, a in atom_pairs(cj, at):
        out |= atom_classes(E, a[3], a[4], atom_psigned(aj, a[1], fm))
    return out


def prog_classes(built):
    """class names of the whole program: every condition's atoms + C01's classes of the assignments"""
    from .props import c01
    E = built.E
    out = set()
    fm = {n: f for n, f, _ in built.prog["vars"]}
    for j, at, flags in built.cobjs:
        out |= shape_classes(E, at, j, fm) | flags
    sets = [s for s in flat_stmts(built.cprog["body"]) if s[0] == "set"]
    for st, obj, fl in zip(sets, built.objs, built.flags):
        out |= c01.stmt_classes(E, st, obj, fm, fl)
    return out


def flat_stmts(ss):
    """all statements in the order the builder issues them"""
    for s in ss:
        yield s
        if s[0] != "set":
            yield from flat_stmts(s[2])
            if s[3] is not None:
                yield from flat_stmts(s[3])


# ----------------------------------------------------------------------------- reference semantics
def truth_ref(j, regs, vals):
    """truth value of a JSON condition over Python integers (surface level, independent of the object trees)"""
    k = j[0]
    if k == "cmp":
        (a,), (b,) = dsl.eval_ref(j[2], regs, vals), dsl.eval_ref(j[3], regs, vals)
        return bool(CMPOPS[j[1]](a, b))
    if k == "truth":
        (a,) = dsl.eval_ref(j[1], regs, vals)
        return a != 0
    if k == "not":
        return not truth_ref(j[1], regs, vals)
    a, b = truth_ref(j[1], regs, vals), truth_ref(j[2], regs, vals)
    return (a and b) if k == "and" else (a or b)


class RefState:
    """registers (raw 64-bit patterns) and variables (raw little-endian values) of the reference run"""

    def __init__(self, regs, varbytes, fm):
        self.regs, self.vb, self.fm = dict(regs), dict(varbytes), fm
        self.conds = []                      # (index of the condition in program order, truth) as reached

    def vals(self):
        return {n: dsl.fmt_value(self.fm[n], raw) for n, raw in self.vb.items()}

    def assign(self, dest, expr):
        (v,) = dsl.eval_ref(expr, self.regs, self.vals())
        if dest[0] == "v":
            self.vb[dest[1]] = v & ((1 << (8 * dsl.FSIZE[self.fm[dest[1]]])) - 1)
        else:
            self.regs[dest[1]] = v & dsl.M64      # generators only assign through the `r` view


def run_ref(body, st, on_cond=None):
    """structured big-step semantics: the body of a with-block runs iff the condition is true, the Else body
    iff it is false; for jumpIf the roles are swapped (the code after jumpIf is skipped when the condition holds).
    `on_cond(index, cond, state)` is called for every condition that is reached, before it is evaluated."""
    counter = [0]

    def index_skip(ss):
        for s in ss:
            if s[0] != "set":
                counter[0] += 1
                index_skip(s[2])
                if s[3] is not None:
                    index_skip(s[3])

    def go(ss):
        for s in ss:
            if s[0] == "set":
                st.assign(s[1], s[2])
                continue
            idx = counter[0]
            counter[0] += 1
            if on_cond is not None:
                on_cond(idx, s[1], st)
            t = truth_ref(s[1], st.regs, st.vals())
            st.conds.append((idx, t))
            first = t if s[0] == "if" else not t
            if first:
                go(s[2])
            else:
                index_skip(s[2])
            if s[3] is not None:
                if not first:
                    go(s[3])
                else:
                    index_skip(s[3])
    go(body)
    return st


# ----------------------------------------------------------------------------- generators
MARK_VARS = [["res", "Q"], ["mk1", "I"], ["mk2", "q"], ["mk3", "B"]]
MASKS = [1, 2, 4, 0x80, 3, 0xff, 0x100, 0x8000, 0x7fffffff, -2, -0x80000000, 0x80000000, 1 << 40, 0xffffffff]
COND_CONSTS = [0, 1, -1, 2, 5, 127, 128, -128, 255, 256, 32767, -32768, 65535, 2**31 - 1, -2**31, 2**31, 2**32 - 1,
               2**32, 2**40, -2**40, 2**63 - 1, -2**63, 100, -100]
FORMS = ["if", "ifelse", "jif", "jifelse"]
OPERAND_OPS = ["+", "-", "*", "|", "^", "&"]


def base_cprog(rng, kinds=None):
    p = dsl.base_prog(rng, 2, kinds or rng.choice(["l", "l", "g", "lg"]))
    while len(p["owned"]) > 7 and rng.random() < 0.85:
        p["owned"].remove(rng.choice([k for k in p["owned"] if k not in (1, 7, 10)]))
    kd = "g" if (p["vars"] and all(v[2] == "g" for v in p["vars"])) else "l"
    return {"owned": p["owned"], "vars": p["vars"] + [[n, f, kd] for n, f in MARK_VARS], "body": []}


class Marks:
    def __init__(self):
        self.k = 0

    def bit(self):
        self.k += 1
        return ["set", ["v", "res"], ["|", ["v", "res"], ["c", 1 << (self.k % 62)]]]

    def any(self, rng):
        r = rng.random()
        if r < 0.7:
            return self.bit()
        if r < 0.85:
            n, f = rng.choice(MARK_VARS[1:])
            return ["set", ["v", n], ["c", rng.choice([0, 1, 7, 100, 255])]]
        return ["set", ["r", rng.choice([0, 2, 3, 4, 5, 6, 8, 9])], ["c", rng.choice([0, 1, 7, -1, 2**31, 2**40])]]


SUM_CONSTS = [0, 1, -1, 3, 8, -8, 100, 2**31 - 1, -2**31, 2**31, 2**40]


def sum_operand(rng, prog, leaf):
    """operands built from a Sum object (long register +- int): Sum - expression (Binary SUB since Sum.__sub__ was
    repaired; it used to compute the sum), Sum +- int (a new Sum), and ONE Sum object used twice with different added
    constants (let/ref: a real shared object; the first use used to change the constant the second one sees)"""
    regs = [k for k in prog["owned"] if k < 10 and k != 7] or [1]
    c = lambda: ["c", rng.choice(SUM_CONSTS)]
    sm = lambda: [rng.choice("+-"), [rng.choice(["r", "r", "sr"]), rng.choice(regs)], c()]
    t = rng.randrange(5)
    if t == 0:
        return ["-", sm(), leaf()]
    if t == 1:
        return [rng.choice("+-"), sm(), c()] if rng.random() < 0.7 else ["+", c(), sm()]
    if t == 2:
        return ["-", [rng.choice("+-"), sm(), c()], leaf()]
    s = ["ref", "s"]
    use = lambda: rng.choice([["+", s, c()], ["-", s, c()], ["+", c(), s], ["-", s, leaf()], s])
    a, b = use(), use()
    if a == s and b == s:
        b = ["-", s, c()]
    return ["let", "s", sm(), [rng.choice(["+", "-", "|", "^", "*"]), a, b]]


def operand(rng, prog, kind=None, compound=0.2):
    kinds = [k for k in dsl.LEAF_KINDS if k != "c"]
    leaf = lambda: dsl.pick_leaf(rng, prog, kind or rng.choice(kinds))
    if rng.random() >= compound:
        return leaf()
    if rng.random() < 0.2:
        return sum_operand(rng, prog, leaf)
    r = rng.random()
    if r < 0.6:
        b = leaf() if rng.random() < 0.6 else ["c", rng.choice(COND_CONSTS)]
        if rng.random() < 0.15:
            return [rng.choice(OPERAND_OPS), ["c", rng.choice(COND_CONSTS)], leaf()]     # int (op) expr
        return [rng.choice(OPERAND_OPS), leaf(), b]
    if r < 0.8:
        return ["neg", leaf()]
    if r < 0.9:
        return ["abs", leaf()]
    return [rng.choice(OPERAND_OPS), [rng.choice(OPERAND_OPS), leaf(), leaf()], leaf()]


def atom(rng, prog, top, compound=0.2):
    r = rng.random()
    if r < 0.2:
        e = ["&", operand(rng, prog, compound=0.05), ["c", rng.choice(MASKS)] if rng.random() < 0.8 else operand(rng, prog, compound=0)]
        if top and rng.random() < 0.5:
            return ["truth", e]
        return ["cmp", rng.choice(["!=", "=="]), e, ["c", 0]]
    if r < 0.27 and top:
        return ["truth", operand(rng, prog, compound=compound)]
    a = operand(rng, prog, compound=compound)
    b = ["c", rng.choice(COND_CONSTS)] if rng.random() < 0.45 else operand(rng, prog, compound=compound)
    if rng.random() < 0.08:
        a, b = b, a                                   # int (op) expr: the reflected operator
    return ["cmp", rng.choice(CMP_NAMES), a, b]


def gcond(rng, prog, depth, top=True, compound=0.2):
    if depth == 0 or rng.random() < 0.35:
        return atom(rng, prog, top, compound)
    k = rng.choice(["and", "or", "not", "and", "or"])
    if k == "not":
        return ["not", gcond(rng, prog, depth - 1, False, compound)]
    return [k, gcond(rng, prog, depth - 1, False, compound), gcond(rng, prog, depth - 1, False, compound)]


def gstmts(rng, prog, nest, marks, cdepth=3, compound=0.2):
    out = []
    for _ in range(rng.choice([1, 1, 2, 3])):
        if nest > 0 and rng.random() < 0.6:
            c = gcond(rng, prog, rng.randrange(cdepth + 1), True, compound)
            form = rng.choice(FORMS + ["if", "ifelse"])
            a = gstmts(rng, prog, nest - 1, marks, cdepth, compound)
            b = gstmts(rng, prog, nest - 1, marks, cdepth, compound) if form.endswith("else") else None
            out.append(["if" if form.startswith("if") else "jif", c, a, b])
        else:
            out.append(marks.any(rng))
    return out


def gen_random(rng, nest=3, cdepth=3, compound=0.2):
    prog = base_cprog(rng)
    marks = Marks()
    prog["body"] = gstmts(rng, prog, nest, marks, cdepth, compound) + [marks.bit()]
    return prog


def form_stmt(form, c, a, b):
    return ["if" if form.startswith("if") else "jif", c, a, b if form.endswith("else") else None]


def enum_atoms():
    """descriptors of the exhaustive atom family: operator x leaf kind x leaf kind x statement form"""
    kinds = dsl.LEAF_KINDS
    for op in CMP_NAMES:
        for a in kinds:
            for b in kinds:
                if a == "c" and b == "c":
                    continue
                for form in FORMS:
                    yield ("cmp", op, a, b, form)
    for a in kinds[:-1]:
        for m in MASKS + ["leaf"]:
            for shape in ("truth", "!=", "=="):
                for form in FORMS:
                    yield ("bit", shape, a, m, form)
    for a in kinds[:-1]:
        for form in FORMS:
            yield ("truth", None, a, None, form)


def build_atom(rng, desc):
    prog = base_cprog(rng, kinds=rng.choice(["l", "lg"]))
    marks = Marks()
    fam, x, a, b, form = desc
    la = dsl.pick_leaf(rng, prog, a) if a != "c" else ["c", rng.choice(COND_CONSTS)]
    if fam == "cmp":
        lb = dsl.pick_leaf(rng, prog, b) if b != "c" else ["c", rng.choice(COND_CONSTS)]
        c = ["cmp", x, la, lb]
    elif fam == "bit":
        m = ["c", b] if b != "leaf" else operand(rng, prog, compound=0)
        e = ["&", la, m]
        c = ["truth", e] if x == "truth" else ["cmp", x, e, ["c", 0]]
    else:
        c = ["truth", la]
    prog["body"] = [marks.bit(), form_stmt(form, c, [marks.bit()], [marks.bit()]), marks.bit()]
    return prog


def gen_unary(rng):
    """comparisons with a unary operator over one leaf as an operand (abs / unary minus of every leaf kind against a
    constant or another leaf): the shapes of the repaired classes abs-32, unary-in-place and unary-32-in-64"""
    prog = base_cprog(rng, kinds=rng.choice(["l", "lg"]))
    marks = Marks()
    kinds = [k for k in dsl.LEAF_KINDS if k != "c"]
    a = [rng.choice(["abs", "abs", "neg"]), dsl.pick_leaf(rng, prog, rng.choice(kinds))]
    b = ["c", rng.choice(COND_CONSTS)] if rng.random() < 0.5 else dsl.pick_leaf(rng, prog, rng.choice(kinds))
    if rng.random() < 0.3:
        a, b = b, a
    c = ["cmp", rng.choice(CMP_NAMES), a, b]
    prog["body"] = [marks.bit(), form_stmt(rng.choice(FORMS), c, [marks.bit()], [marks.bit()]), marks.bit()]
    return prog


def gen_owners(rng):
    """a register assigned inside the branches and read afterwards: ownership at the join"""
    prog = base_cprog(rng, kinds="l")
    marks = Marks()
    k = rng.choice([2, 3, 4, 5, 6, 8, 9])
    prog["owned"] = sorted(set(prog["owned"]) - ({k} if rng.random() < 0.7 else set()))
    c = gcond(rng, prog, rng.randrange(3), True, 0)
    setk = lambda: ["set", ["r", k], ["c", rng.choice([1, 2, 3])]]
    form = rng.choice(FORMS)
    a = [setk()] if rng.random() < 0.8 else [marks.bit()]
    b = [setk()] if rng.random() < 0.8 else [marks.bit()]
    use = rng.choice([["set", ["v", "mk2"], ["r", k]], form_stmt("if", ["cmp", ">", ["r", k], ["c", 1]], [marks.bit()], None)])
    prog["body"] = [form_stmt(form, c, a, b), use, marks.bit()]
    return prog


def gen_typing(rng):
    """one comparison whose signedness is decided by an operator rule (dsl.typed_operand) against a constant or a leaf"""
    prog = base_cprog(rng, kinds=rng.choice(["l", "lg"]))
    marks = Marks()
    kinds = [k for k in dsl.LEAF_KINDS if k != "c"]
    a = dsl.typed_operand(rng, prog)
    b = ["c", rng.choice(COND_CONSTS)] if rng.random() < 0.6 else dsl.pick_leaf(rng, prog, rng.choice(kinds))
    if rng.random() < 0.2:
        a, b = b, a
    c = ["truth", a] if (a[0] != "c" and rng.random() < 0.1) else ["cmp", rng.choice(CMP_NAMES), a, b]
    prog["body"] = [marks.bit(), form_stmt(rng.choice(FORMS), c, [marks.bit()], [marks.bit()]), marks.bit()]
    return prog
