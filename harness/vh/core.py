"""Shared plumbing of every check: build + audit of the Lean side, the line
protocol to the model drivers, verdict, evidence, known findings.

A property module (vh/props/cxx.py) provides
    ID, LEAN_MODULES, THEOREMS, DRIVER (or None), TRUSTED, ASSUMPTIONS, RULE
    run(ctx)                 -- correspondence + property oracle on the real code
    replay(ctx, case)        -- re-run one stored case (used by --replay and known findings)
and reports through ctx.  Nothing here decides a property: the Lean kernel
checks the theorems, ctx.agree() checks model == implementation, ctx.require()
checks the property's own observable statement on the implementation.
"""
import collections
import fcntl
import hashlib
import json
import os
import random
import re
import subprocess
import sys
import time
from pathlib import Path

VERIF = Path(__file__).resolve().parents[2]
LEAN = VERIF / "lean"
REPO = Path(os.environ.get("VERIF_REPO", "/repo"))
STD_AXIOMS = {"propext", "Classical.choice", "Quot.sound"}
FORBIDDEN = re.compile(
    r"\bsorry\b|\badmit\b|^\s*axiom\s|\bnative_decide\b|\bimplemented_by\b|"
    r"\bunsafe\s|maxHeartbeats\s+0\b|\bbv_decide\b", re.M)


class Infra(Exception):
    """infrastructure failure: exit 2, never a violation"""


def canon(obj):
    return json.dumps(obj, sort_keys=True, separators=(",", ":"), default=str)


def strip_comments(src):
    src = re.sub(r"/-.*?-/", "", src, flags=re.S)
    return re.sub(r"--[^\n]*", "", src)


class LeanSide:
    def __init__(self):
        self.lockfile = open(LEAN / ".buildlock", "w")
        self.depth = 0

    def locked(self, shared=False):
        """re-entrant: the check holds the lock from regeneration to the end of the audit.
        Readers of the compiled modules (audit, model drivers) take it shared, so a long
        driver run does not hold up other drivers, only rebuilds."""
        if self.depth == 0:
            fcntl.flock(self.lockfile, fcntl.LOCK_SH if shared else fcntl.LOCK_EX)
        self.depth += 1

    def unlock(self):
        self.depth -= 1
        if self.depth == 0:
            fcntl.flock(self.lockfile, fcntl.LOCK_UN)

    def build(self, modules, timeout=1500):
        """lake build of the named modules; returns (ok, log)"""
        if not modules:
            return True, ""
        self.locked()
        try:
            p = subprocess.run(["lake", "build", *modules], cwd=LEAN,
                               capture_output=True, text=True, timeout=timeout)
        except subprocess.TimeoutExpired:
            raise Infra("lake build timed out")
        finally:
            self.unlock()
        return p.returncode == 0, (p.stdout + p.stderr)[-6000:]

    def closure(self, modules):
        """source files of the given modules and of everything under Ebv they import"""
        seen, todo = {}, list(modules)
        while todo:
            m = todo.pop()
            if m in seen or not m.startswith("Ebv"):
                continue
            f = LEAN / (m.replace(".", "/") + ".lean")
            if not f.exists():
                continue
            src = f.read_text()
            seen[m] = (f, src)
            todo.extend(re.findall(r"^import\s+(\S+)", src, re.M))
        return seen

    def grep_forbidden(self, modules, allow_bv=()):
        hits = []
        for m, (f, src) in sorted(self.closure(modules).items()):
            for mt in FORBIDDEN.finditer(strip_comments(src)):
                tok = mt.group(0).strip()
                if tok == "bv_decide" and f.stem in allow_bv:
                    continue
                hits.append(f"{f.relative_to(LEAN)}: {tok}")
        return hits

    def audit(self, pid, modules, theorems, allow_native=()):
        """#print axioms for every property theorem; returns (ok, {thm: [axioms]}, problems)"""
        d = LEAN / ".lake" / "audit"
        d.mkdir(parents=True, exist_ok=True)
        f = d / f"{pid}.lean"
        f.write_text("".join(f"import {m}\n" for m in modules)
                     + "".join(f"#print axioms {t}\n" for t in theorems))
        self.locked()           # no concurrent rebuild while the compiled modules are read
        try:
            p = subprocess.run(["lake", "env", "lean", str(f)], cwd=LEAN,
                               capture_output=True, text=True, timeout=600)
        except subprocess.TimeoutExpired:
            raise Infra("axiom audit timed out")
        finally:
            self.unlock()
        out = p.stdout + p.stderr
        res, problems = {}, []
        for m in re.finditer(r"'([^']+)' depends on axioms: \[([^\]]*)\]", out, re.S):
            res[m.group(1)] = [a.strip() for a in m.group(2).replace("\n", " ").split(",")]
        for m in re.finditer(r"'([^']+)' does not depend on any axioms", out):
            res[m.group(1)] = []
        for t in theorems:
            if t not in res:
                problems.append(f"theorem {t} not found or not checked")
                continue
            extra = [a for a in res[t] if a not in STD_AXIOMS
                     and not any(a.startswith(x) for x in allow_native)]
            if extra:
                problems.append(f"theorem {t} depends on {extra}")
        if p.returncode != 0 and not problems:
            problems.append("audit file failed: " + out[-400:])
        return not problems, res, problems

    def drive(self, driver, lines, timeout=1200):
        """run a model driver on JSON lines, return the list of output lines"""
        if not lines:
            return [], ""
        inp = "".join(canon(l) + "\n" for l in lines)
        self.locked(shared=True)
        try:
            p = subprocess.run(["lake", "env", "lean", "--run", driver], cwd=LEAN,
                               input=inp, capture_output=True, text=True, timeout=timeout)
        except subprocess.TimeoutExpired:
            raise Infra("model driver timed out")
        finally:
            self.unlock()
        out = p.stdout.split("\n")
        if out and out[-1] == "":
            out.pop()
        if p.returncode != 0 or len(out) != len(lines):
            return None, (p.stderr or p.stdout)[-2000:]
        return out, ""


class Ctx:
    def __init__(self, pid, tier, seed):
        self.pid, self.tier, self.seed = pid, tier, seed
        self.rng = random.Random(f"{pid}:{seed}")
        self.quick = tier == "quick"
        self.lean = LeanSide()
        self.stats = collections.Counter()
        self.samples = []
        self.evaluations = 0
        self.nontrivial = set()
        self.validated = 0            # model outputs compared with the implementation
        self.disagreements = []       # (what, case, impl, model)
        self.failures = []            # (class_or_None, what, case, observed)
        self.known_hits = collections.Counter()
        self.broken = []              # names of obligations / correspondences that no longer check
        self.model_ok = True
        self.notes = []
        self.extra = {}

    def n(self, quick, thorough):
        return quick if self.quick else thorough

    # ---- bookkeeping -------------------------------------------------------
    def case(self, case, nontrivial=True, kind=None):
        self.evaluations += 1
        if nontrivial:
            self.nontrivial.add(hashlib.sha1(canon(case).encode()).digest()[:8])
        if kind is not None:
            self.stats[kind] += 1
        if len(self.samples) < 3 or (len(self.samples) < 6 and self.rng.random() < 0.01):
            self.samples.append(case)

    def agree(self, what, case, impl, model):
        """correspondence: model output must equal implementation output"""
        self.validated += 1
        if impl != model:
            self.stats["disagreement"] += 1
            if len(self.disagreements) < 20:
                self.disagreements.append((what, case, impl, model))
            return False
        return True

    def require(self, cond, what, case, observed=None, cls=None):
        """property oracle on the implementation's own behaviour"""
        if cond:
            return True
        self.stats["oracle-fail" + (":" + cls if cls else "")] += 1
        if sum(1 for f in self.failures if f[0] == cls) < 12:     # per class, so no class crowds another out
            self.failures.append((cls, what, case, observed))
        return False

    def drive(self, driver, lines, what):
        """model side of a correspondence; None when the model cannot be run"""
        if not self.model_ok:
            return None
        out, err = self.lean.drive(driver, lines)
        if out is None:
            self.broken.append(f"driver {driver} failed: {err[-300:]}")
            self.model_ok = False
        return out


def load_known(pid):
    f = VERIF / "known_findings.json"
    if not f.exists():
        return []
    return [e for e in json.loads(f.read_text())["entries"]
            if e["property"] == pid and e["status"] == "known"]


def write_evidence(ctx, mod, t0, obligations, discharged, axioms, violations):
    ev = {
        "property_id": ctx.pid, "tier": ctx.tier, "seed": ctx.seed, "level": "proof",
        "coverage": {
            "obligations": obligations, "discharged": discharged,
            "checker_cmd": f"cd lean && lake build {' '.join(mod.LEAN_MODULES)} && lake env lean .lake/audit/{ctx.pid}.lean  (#print axioms)"
                           + ("" if ctx.quick else " && lake env leanchecker <modules>"),
            "trusted_base": ["Lean 4.33.0 kernel", "axioms: " + ", ".join(sorted({a for v in axioms.values() for a in v}) or ["none"])]
                            + list(getattr(mod, "TRUSTED", [])),
            "theorems": axioms,
            "evaluations": ctx.evaluations,
            "distinct_nontrivial": len(ctx.nontrivial),
            "rule": getattr(mod, "RULE", ""),
            "samples": ctx.samples[:6] or ["(no case generated)"],
            "traces_validated_against_impl": ctx.validated,
            "distribution": dict(sorted(ctx.stats.items())),
            "known_findings_hit": dict(ctx.known_hits),
            "broken": ctx.broken,
            **ctx.extra,
        },
        "assumptions": list(getattr(mod, "ASSUMPTIONS", [])) + ctx.notes,
        "wall_s": round(time.time() - t0, 2),
        "violations": violations,
    }
    # evidence describes runs against /repo itself; runs against a scratch copy (VERIF_REPO) go elsewhere
    d = VERIF / ("evidence" if str(REPO) == "/repo" else "evidence-scratch")
    d.mkdir(exist_ok=True)
    (d / f"{ctx.pid}.json").write_text(json.dumps(ev, indent=1, default=str) + "\n")


def write_replay(ctx, obj):
    d = VERIF / "replays"
    d.mkdir(exist_ok=True)
    h = hashlib.sha1(canon(obj).encode()).hexdigest()[:10]
    f = d / f"{ctx.pid}-{h}.json"
    f.write_text(json.dumps(obj, indent=1, default=str) + "\n")
    return f"replays/{f.name}"
