"""Surface programs with fixed-point typing on top of dsl.py (C02).

expr  = ["c", int] | ["d", n]                 Python int / Python float written as the decimal literal n/10^5
      | ["r"|"sr"|"w"|"sw", k] | ["x", k]     register views; `x` = long signed fixed
      | ["v", name]                           declared variable; format "x" = fixed point (8 bytes, signed)
      | [op, a, b]   op in + - * / // %
dest  = ["r"|"sr"|"w"|"sw"|"x", k] | ["v", name]
stmt  = ["set", dest, expr];  a comparison probe is {"cmp": [a, b]} next to owned/vars (scaling rule only)

The builder creates the REAL objects (real EBPF subclass, real operator overloads, real descriptors); the reference
evaluator works over fractions.Fraction and knows nothing about the generator."""
from fractions import Fraction
import math
import operator

from . import dsl

FB = 100000
VIEWS = dsl.VIEWS
FOPS = {"+": operator.add, "-": operator.sub, "*": operator.mul, "/": operator.truediv,
        "//": operator.floordiv, "%": operator.mod}
FSIZE = dict(dsl.FSIZE, x=8)


def dec_str(n):
    """the decimal literal a user writes for n/10^5"""
    return f"{'-' if n < 0 else ''}{abs(n) // FB}.{abs(n) % FB:05d}"


def dec_float(n):
    return float(dec_str(n))


# ----------------------------------------------------------------------------- real builder
class FBuilt(dsl.Built):
    def expr(self, j):
        k = j[0]
        if k == "c":
            return int(j[1])
        if k == "d":
            return dec_float(j[1])
        if k in VIEWS or k == "x":
            v = getattr(self.e, k)[j[1]]
            v._pview = k                           # the view as written (property-level typing, dsl.reg_view)
            return v
        if k == "v":
            return getattr(self.e, j[1])
        a, b = self.expr(j[1]), self.expr(j[2])
        return FOPS[k](a, b)

    def stmt(self, s):
        super().stmt(s)
        o = self.objs[-1]
        self.trees[-1] = f"d{s[2][1]}" if isinstance(o, float) and s[2][0] == "d" else ftree(self.E, o)

    def compare(self, a, b):
        """the two sides of `a < b` after `comparison` scaled them"""
        c = self.expr(a) < self.expr(b)
        return c.left, c.right


def emit_real(prog, want_built=False):
    b = FBuilt(prog)
    try:
        b.run()
        res = b.insns()
    except b.E.AssembleError:
        res = "asm-error"
    except Exception as ex:                     # noqa: BLE001 - canonicalised into the enum
        res = "other:" + type(ex).__name__
    return (res, b) if want_built else res


def _tree(E, v):
    if isinstance(v, E.Memory):
        return f"(mem {'q' if v.fmt == 'x' else v.fmt} {_tree(E, v.address)})"
    if isinstance(v, E.Sum):
        return f"(sum {_tree(E, v.left)} {_tree(E, v.right)} {'s' if v.signed else 'u'})"
    if isinstance(v, E.Binary) and not isinstance(v, E.AndExpression):
        return f"({v.operator.name.lower()} {_tree(E, v.left)} {_tree(E, v.right)} {'s' if v.signed else 'u'})"
    return dsl.tree(E, v)


def ftree(E, v, n=None):
    """canonical rendering with the `fixed` attribute of the root"""
    if isinstance(v, float):
        return "d?"                                # replaced by the caller, who knows the literal
    if isinstance(v, int) or v is None:
        return dsl.tree(E, v)
    return ("F:" if v.fixed else "I:") + _tree(E, v)


def plain_tree(E, v):
    return _tree(E, v)


# ----------------------------------------------------------------------------- reference semantics (Fraction)
def is_fixed(j, fm):
    k = j[0]
    if k in ("d", "x"):
        return True
    if k == "c" or k in VIEWS:
        return False
    if k == "v":
        return fm[j[1]] == "x"
    if k == "/":
        return True
    if k == "//":
        return False
    return is_fixed(j[1], fm) or is_fixed(j[2], fm)


def drops(q):
    """an exact rational dropped to an integer: rounding toward minus infinity or toward zero, both allowed"""
    f = math.floor(q)
    t = f if q >= 0 or q == f else f + 1
    return {f, t}


def eval_q(j, regs, vars_, fm):
    """set of acceptable exact values (Fraction) of a surface expression; fixed-typed nodes are multiples of 10^-5"""
    k = j[0]
    if k == "c":
        return {Fraction(int(j[1]))}
    if k == "d":
        return {Fraction(int(j[1]), FB)}
    if k in VIEWS:
        return {Fraction(dsl.view_value(k, regs[j[1]]))}
    if k == "x":
        return {Fraction(dsl.sx(regs[j[1]], 64), FB)}
    if k == "v":
        if fm[j[1]] == "x":
            return {Fraction(dsl.sx(vars_[j[1]], 64), FB)}
        return {Fraction(dsl.fmt_value(fm[j[1]], vars_[j[1]]))}
    A, Bs = eval_q(j[1], regs, vars_, fm), eval_q(j[2], regs, vars_, fm)
    fx = is_fixed(j, fm)
    out = set()
    for a in A:
        for b in Bs:
            if k == "+":
                out.add(a + b)
            elif k == "-":
                out.add(a - b)
            elif k == "*":
                out |= {Fraction(d, FB) for d in drops(a * b * FB)} if fx else {a * b}
            else:
                if b == 0:
                    raise dsl.Outside("division by zero")
                if k == "/":
                    out |= {Fraction(d, FB) for d in drops(a / b * FB)}
                elif k == "//":
                    out |= {Fraction(d) for d in drops(a / b)}
                else:
                    out |= {a - b * d for d in drops(a / b)}
    if len(out) > 64:
        raise dsl.Outside("too many acceptable values")
    return out


def dest_fixed(d, fm):
    return d[0] == "x" or (d[0] == "v" and fm[d[1]] == "x")


def dest_bits(d, fm):
    if d[0] == "v":
        return 8 * FSIZE[fm[d[1]]]
    return 64 if d[0] in ("r", "sr", "x") else 32


def expected_raw(stmt, regs, vars_, fm):
    """acceptable raw destination contents (unsigned, destination width)"""
    d, e = stmt[1], stmt[2]
    bits = dest_bits(d, fm)
    out = set()
    for q in eval_q(e, regs, vars_, fm):
        if dest_fixed(d, fm):
            s = q * FB
            assert s.denominator == 1 or not is_fixed(e, fm)
            cands = drops(s)
        else:
            cands = drops(q)
        out |= {c & ((1 << bits) - 1) for c in cands}
    return out


def leaves(j):
    if j[0] in ("c", "d", "x", "v") or j[0] in VIEWS:
        return [j]
    return leaves(j[1]) + leaves(j[2])


def width_W(prog, stmt):
    """32 if the destination or any leaf is at most 4 bytes wide, else 64"""
    return dsl.pwidth([stmt[2]], {n: f for n, f, _ in prog["vars"]}, dest=stmt[1])


# ----------------------------------------------------------------------------- generators
def below_decimals(count=80):
    """decimals n/10^5 whose double product lies just below n (truncation would lose one unit): 0.29, 0.57, 0.58, 1.13,
    1.15, ... -- the named ones first, then a scan with growing strides"""
    cand = [29000, 57000, 58000, 113000, 115000, 116000, 201000, 402000, 1001000, 1009000, 2**31 - 1]
    n = 1
    while n < 3 * 10**7:
        cand.append(n)
        n += 1 if n < 200 else (997 if n < 10**6 else 99991)
    out = []
    for n in cand:
        if int(dec_float(n) * FB) != n and n not in out:
            out.append(n)
    return out[:count]


BELOW = below_decimals()
DEC_CLASSES = {
    "below": BELOW, "unit": [0, 1, 2, 99999, FB, FB + 1, 250000, 350000, 50000],
    "neg": [-1, -29000, -250000, -FB, -115000], "big": [2**31, 2**31 - 1, 2**32 + 29, 12345678901234, 2**51 - 1, -(2**51 - 1)],
}
INT_CONSTS = [0, 1, 2, 3, 7, 10, 100, 1000, 21474, 21475, 2**31 - 1, -1, -3, -100]
LEAF_KINDS = ["x", "vx", "d", "c", "r", "sr", "w", "sw", "vi", "x", "vx", "d", "c"]
DEST_KINDS = ["x", "vx", "r", "sr", "w", "vQ", "vq", "vI", "vi", "vH", "x", "vx"]
INT_FMTS = "BHIQbhiq"


def fx_vars(kinds="l"):
    out = dsl.std_vars(kinds)
    for kd in kinds:
        out += [[f"{kd}x0", "x", kd], [f"{kd}x1", "x", kd]]
    return out


def base_prog(rng, kinds=None):
    p = dsl.base_prog(rng, 2, kinds=kinds or rng.choice(["l", "l", "g", "lg"]))
    p["vars"] = fx_vars("".join(sorted({v[2] for v in p["vars"]})) or "l")
    return p


def pick_leaf(rng, prog, kind, nonneg=False):
    if kind == "d":
        cls = rng.choice(["below", "below", "unit", "big"] if nonneg else list(DEC_CLASSES))
        n = rng.choice(DEC_CLASSES[cls])
        return ["d", abs(n) if nonneg else n]
    if kind == "c":
        c = rng.choice(INT_CONSTS)
        return ["c", abs(c) if nonneg else c]
    regs = [k for k in prog["owned"] if k < 10 and k != 7] or [1]
    if kind in VIEWS or kind == "x":
        return [kind, rng.choice(regs)]
    want = "x" if kind == "vx" else (rng.choice(INT_FMTS) if kind == "vi" else kind[1])
    ch = [["v", n] for n, f, _ in prog["vars"] if f == want]
    return rng.choice(ch)


def is_const(j):
    return j[0] in ("c", "d")


def rand_expr(rng, prog, d, nonneg=False, ops=None):
    ops = ops or list(FOPS)
    if d == 0 or rng.random() < 0.12:
        return pick_leaf(rng, prog, rng.choice(LEAF_KINDS), nonneg)
    op = rng.choice(ops)
    a = rand_expr(rng, prog, d - 1, nonneg, ops)
    b = rand_expr(rng, prog, rng.randrange(d), nonneg, ops)
    if rng.random() < 0.5:
        a, b = b, a
    if is_const(a) and is_const(b):                # number (op) number is CPython's own arithmetic: not ebpfcat's
        b = pick_leaf(rng, prog, rng.choice(["x", "vx", "r", "sr", "vi"]), nonneg)
    return [op, a, b]


def pick_dest(rng, prog, kind):
    if kind in VIEWS or kind == "x":
        return [kind, rng.choice([0, 2, 3, 4, 5, 6, 8, 9])]
    return rng.choice([["v", n] for n, f, _ in prog["vars"] if f == kind[1]])


def gen_random(rng, maxdepth=3, nonneg=False):
    prog = base_prog(rng)
    for _ in range(rng.choice([1, 1, 2])):
        e = rand_expr(rng, prog, rng.randrange(1, maxdepth + 1), nonneg)
        prog["stmts"].append(["set", pick_dest(rng, prog, rng.choice(DEST_KINDS)), e])
    return prog


def enum_depth1():
    """(op or None, leaf kind a, leaf kind b, destination kind): every operator overload branch with every typing"""
    lk = ["x", "vx", "d", "c", "r", "sr", "w", "vi"]
    dk = ["x", "vx", "sr", "w", "vq", "vI", "vh"]
    for op in FOPS:
        for a in lk:
            for b in lk:
                if a in "dc" and b in "dc":
                    continue
                for d in dk:
                    yield (op, a, b, d)
    for a in lk:
        for d in dk:
            yield (None, a, None, d)


def build_desc(rng, desc, nonneg=False):
    op, a, b, d = desc
    prog = base_prog(rng)
    la = pick_leaf(rng, prog, a, nonneg)
    e = la if op is None else [op, la, pick_leaf(rng, prog, b, nonneg)]
    prog["stmts"] = [["set", pick_dest(rng, prog, d), e]]
    return prog


def gen_special(rng, nonneg=False):
    """Sum objects meeting fixed point, Binary + Sum with a fixed Binary, depth-2 mixes of / // % *"""
    prog = base_prog(rng, "l")
    regs = [k for k in prog["owned"] if k < 10] or [1]
    r = lambda: [rng.choice(["r", "sr"]), rng.choice(regs)]
    fxl = lambda: pick_leaf(rng, prog, rng.choice(["x", "vx", "d"]), nonneg)
    summ = lambda: [rng.choice("+-"), r(), ["c", rng.choice([0, 3, 8])]]
    k = rng.randrange(6)
    if k == 0:
        e = [rng.choice(["+", "-", "*", "/", "//", "%"]), summ(), fxl()]
    elif k == 1:
        e = ["+", ["*", pick_leaf(rng, prog, "x"), fxl()], summ()]
    elif k == 2:
        e = [rng.choice(["/", "//", "%"]), fxl(), summ()]
    elif k == 3:
        e = [rng.choice(["*", "/"]), ["/", r(), fxl()], [rng.choice(["+", "*"]), pick_leaf(rng, prog, "x"), ["c", 3]]]
    elif k == 4:
        e = ["//", pick_leaf(rng, prog, rng.choice("dc"), nonneg), pick_leaf(rng, prog, rng.choice(["x", "r", "vx", "vi"]))]
    else:
        e = ["-", ["*", fxl(), r()], ["%", pick_leaf(rng, prog, "vx"), fxl()]]
    prog["stmts"] = [["set", pick_dest(rng, prog, rng.choice(DEST_KINDS)), e]]
    return prog
