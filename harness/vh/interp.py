"""Independent eBPF interpreter (written from the kernel's instruction-set
documentation, not from ebpfcat).  It executes the instruction tuples the real
generator emits, so that properties about *what generated programs compute* can
be observed on the implementation without a kernel; where bpf() is usable the
same programs are also run by the kernel (kern.py) to validate this file."""
M64 = (1 << 64) - 1
M32 = (1 << 32) - 1

STACK_TOP = 0x7000_0000
CTX_BASE = 0x1000_0000
PKT_BASE = 0x2000_0000
MAP_BASE = 0x3000_0000
MAPPTR = 0x5000_0000
POISON = 0xDEAD_BEEF_DEAD_BEEF


class Fault(Exception):
    pass


class TailCall(Exception):
    def __init__(self, index):
        self.index = index


def sx(v, bits):
    v &= (1 << bits) - 1
    return v - (1 << bits) if v >> (bits - 1) else v


def opval(op):
    return op.value if hasattr(op, "value") else int(op)


class Region:
    def __init__(self, base, data, name):
        self.base, self.data, self.name = base, data, name


class Machine:
    """one program invocation; memory = list of Regions (shared objects allowed)"""

    def __init__(self, insns, regions=(), helpers=None):
        self.insns = [(opval(i[0]), i[1], i[2], i[3], i[4]) for i in insns]
        self.regs = [POISON] * 11
        self.init = [False] * 11
        self.regions = list(regions)
        self.stack = Region(STACK_TOP - 512, bytearray(512), "stack")
        self.regions.append(self.stack)
        self.regs[10] = STACK_TOP
        self.init[10] = True
        self.helpers = helpers or {}
        self.steps = 0
        self.trace = []          # (pc) executed, for "which marker ran" style observations

    def region(self, addr, size):
        for r in self.regions:
            if r.base <= addr and addr + size <= r.base + len(r.data):
                return r
        raise Fault(f"access {addr:#x}+{size} outside every region")

    def load(self, addr, size):
        r = self.region(addr, size)
        o = addr - r.base
        return int.from_bytes(r.data[o:o + size], "little")

    def store(self, addr, size, val):
        r = self.region(addr, size)
        o = addr - r.base
        r.data[o:o + size] = (val & ((1 << (8 * size)) - 1)).to_bytes(size, "little")

    def rd(self, n):
        if not self.init[n]:
            raise Fault(f"read of uninitialised r{n}")
        return self.regs[n]

    def wr(self, n, v):
        if n == 10:
            raise Fault("write to r10")
        self.regs[n] = v & M64
        self.init[n] = True

    _EXIT = object()

    def run(self, max_steps=100000):
        self.pc = 0
        while True:
            r = self.step(max_steps)
            if r is not None:
                return r

    def step(self, max_steps=100000):
        """execute one instruction at self.pc; returns r0 on EXIT, else None"""
        pc = self.pc
        n = len(self.insns)
        if True:
            if not 0 <= pc < n:
                raise Fault(f"pc {pc} out of program")
            self.steps += 1
            if self.steps > max_steps:
                raise Fault("step limit")
            op, dst, src, off, imm = self.insns[pc]
            self.trace.append(pc)
            cls = op & 7
            imm32 = imm & M32
            simm = sx(imm32, 32)
            if cls in (4, 7):                      # ALU32 / ALU64
                is64 = cls == 7
                code = op >> 4
                if code == 0xd:                    # END
                    bits = imm
                    if bits not in (16, 32, 64):
                        raise Fault("bad endian width")
                    v = self.rd(dst) & ((1 << bits) - 1)
                    if op & 8:                     # to big endian on a little-endian host: swap
                        v = int.from_bytes(v.to_bytes(bits // 8, "little"), "big")
                    self.wr(dst, v)
                    self.pc = pc + 1
                    return None
                if code == 8:                      # NEG
                    v = -self.rd(dst)
                    self.wr(dst, v & (M64 if is64 else M32))
                    self.pc = pc + 1
                    return None
                b = self.rd(src) if op & 8 else simm
                if code == 0xb:                    # MOV
                    self.wr(dst, b & (M64 if is64 else M32))
                    self.pc = pc + 1
                    return None
                a = self.rd(dst)
                if is64:
                    a &= M64; b &= M64; w = 64; m = M64
                else:
                    a &= M32; b &= M32; w = 32; m = M32
                if code == 0: v = a + b
                elif code == 1: v = a - b
                elif code == 2: v = a * b
                elif code == 3: v = a // b if b else 0
                elif code == 4: v = a | b
                elif code == 5: v = a & b
                elif code == 6: v = a << (b & (w - 1))
                elif code == 7: v = a >> (b & (w - 1))
                elif code == 9: v = a % b if b else a
                elif code == 0xa: v = a ^ b
                elif code == 0xc: v = sx(a, w) >> (b & (w - 1))
                else: raise Fault(f"bad alu op {op:#x}")
                if not op & 8 and code in (6, 7, 0xc) and not 0 <= imm < w:
                    raise Fault(f"invalid shift {imm}")
                if not op & 8 and code in (3, 9) and imm == 0:
                    raise Fault("division by zero")
                self.wr(dst, v & m)
                self.pc = pc + 1
            elif cls in (5, 6):                    # JMP / JMP32
                code = op >> 4
                if cls == 5 and code == 8:         # CALL
                    h = self.helpers.get(imm)
                    if h is None:
                        raise Fault(f"unknown helper {imm}")
                    r0 = h(self)
                    for i in range(1, 6):
                        self.regs[i] = POISON; self.init[i] = False
                    self.wr(0, r0)
                    self.pc = pc + 1
                    return None
                if cls == 5 and code == 9:         # EXIT
                    self.pc = pc
                    return self.rd(0)
                if code == 0:
                    self.pc = pc + 1 + off
                    return None
                a = self.rd(dst)
                b = self.rd(src) if op & 8 else simm
                w = 64 if cls == 5 else 32
                m = (1 << w) - 1
                a &= m; b &= m
                sa, sb = sx(a, w), sx(b, w)
                t = {1: a == b, 2: a > b, 3: a >= b, 4: (a & b) != 0, 5: a != b, 6: sa > sb, 7: sa >= sb,
                     0xa: a < b, 0xb: a <= b, 0xc: sa < sb, 0xd: sa <= sb}.get(code)
                if t is None:
                    raise Fault(f"bad jmp op {op:#x}")
                self.pc = pc + 1 + (off if t else 0)
            elif cls == 0:                         # LD_IMM64
                if op != 0x18 or pc + 1 >= n:
                    raise Fault(f"bad ld op {op:#x}")
                op2, d2, s2, o2, imm2 = self.insns[pc + 1]
                if (op2, d2, s2, o2) != (0, 0, 0, 0):
                    raise Fault("malformed second slot of ld_imm64")
                if src == 1:
                    v = MAPPTR + imm32
                elif src == 0:
                    v = imm32 | ((imm2 & M32) << 32)
                else:
                    raise Fault("unsupported pseudo load")
                self.wr(dst, v)
                self.pc = pc + 2
            else:
                size = {0: 4, 8: 2, 0x10: 1, 0x18: 8}[op & 0x18]
                mode = op & 0xe0
                if cls == 1 and mode == 0x60:      # LDX
                    self.wr(dst, self.load((self.rd(src) + off) & M64, size))
                elif cls == 2 and mode == 0x60:    # ST imm
                    self.store((self.rd(dst) + off) & M64, size, simm)
                elif cls == 3 and mode == 0x60:    # STX
                    self.store((self.rd(dst) + off) & M64, size, self.rd(src))
                elif cls == 3 and mode == 0xc0 and size in (4, 8) and imm == 0:   # XADD, one atomic step
                    a = (self.rd(dst) + off) & M64
                    self.store(a, size, self.load(a, size) + self.rd(src))
                else:
                    raise Fault(f"bad memory op {op:#x}")
                self.pc = pc + 1
        return None


class ArrayMapModel:
    def __init__(self, fd, value_size, index=0):
        self.fd, self.value = fd, Region(MAP_BASE + index * 0x10000, bytearray(value_size), f"map{fd}")

    def lookup(self, m, keyaddr):
        key = m.load(keyaddr, 4)
        return self.value.base if key == 0 else 0


class HashMapModel:
    """hash map: key bytes -> Region holding the value"""
    def __init__(self, fd, key_size, value_size, index=1):
        self.fd, self.ks, self.vs = fd, key_size, value_size
        self.base = MAP_BASE + index * 0x10000
        self.entries = {}

    def region_of(self, key):
        return self.entries.get(bytes(key))


def std_helpers(maps, ktime=None, prandom=None, progs=None):
    """helpers for the subset of calls the generator emits; maps: fd -> model"""
    def mp(m):
        p = m.rd(1)
        if not MAPPTR <= p < MAPPTR + (1 << 32) or (p - MAPPTR) not in maps:
            raise Fault("r1 is not a map")
        return maps[p - MAPPTR]

    def lookup(m):
        return mp(m).lookup(m, m.rd(2))

    def kt(m):
        return next(ktime) if ktime is not None else 0

    def pr(m):
        return (next(prandom) if prandom is not None else 0) & M32

    def tail(m):
        mp_ = m.rd(2)
        idx = m.rd(3) & M32
        if progs is not None and idx in progs:
            raise TailCall(idx)
        return (-2) & M64
    return {1: lookup, 5: kt, 7: pr, 12: tail}


def xdp_regions(packet):
    """ctx + packet regions for an XDP invocation; returns (regions, pkt_region)"""
    pkt = Region(PKT_BASE, bytearray(packet), "packet")
    ctx = bytearray(24)
    ctx[0:4] = PKT_BASE.to_bytes(4, "little")
    ctx[4:8] = (PKT_BASE + len(packet)).to_bytes(4, "little")
    return [Region(CTX_BASE, ctx, "ctx"), pkt], pkt


def run_xdp(insns, packet, maps=(), helpers=None, extra_regions=()):
    regions, pkt = xdp_regions(packet)
    m = Machine(insns, regions + list(extra_regions), helpers)
    m.wr(1, CTX_BASE)
    r0 = m.run()
    return r0, bytes(pkt.data), m
