import Lean.Data.Json
/-! Line-protocol plumbing shared by all model drivers: one JSON object per
input line, one canonical output line per input line. -/
open Lean

namespace Ebv.Io

def hexDigit (n : Nat) : Char :=
  if n < 10 then Char.ofNat (48 + n) else Char.ofNat (87 + n)

def hexOfBytes (bs : List UInt8) : String :=
  String.ofList (bs.flatMap fun b => [hexDigit (b.toNat / 16), hexDigit (b.toNat % 16)])

def hexVal (c : Char) : Option Nat :=
  if '0' ≤ c ∧ c ≤ '9' then some (c.toNat - 48)
  else if 'a' ≤ c ∧ c ≤ 'f' then some (c.toNat - 87)
  else none

def bytesOfHexAux : List Char → Option (List UInt8)
  | [] => some []
  | [_] => none
  | a :: b :: rest => do
    let x ← hexVal a
    let y ← hexVal b
    let r ← bytesOfHexAux rest
    pure (UInt8.ofNat (x * 16 + y) :: r)

def bytesOfHex (s : String) : Option (List UInt8) := bytesOfHexAux s.toList

def field (j : Json) (k : String) : Option Json := (j.getObjVal? k).toOption
def fInt (j : Json) (k : String) : Option Int := do (← field j k).getInt?.toOption
def fNat (j : Json) (k : String) : Option Nat := do (← field j k).getNat?.toOption
def fStr (j : Json) (k : String) : Option String := do (← field j k).getStr?.toOption
def fBool (j : Json) (k : String) : Option Bool := do (← field j k).getBool?.toOption
def fArr (j : Json) (k : String) : Option (List Json) := do
  let a ← (← field j k).getArr?.toOption
  pure a.toList
def fBytes (j : Json) (k : String) : Option (List UInt8) := do bytesOfHex (← fStr j k)

def jInt (j : Json) : Option Int := j.getInt?.toOption
def jNat (j : Json) : Option Nat := j.getNat?.toOption
def jStr (j : Json) : Option String := j.getStr?.toOption
def jBool (j : Json) : Option Bool := j.getBool?.toOption
def jArr (j : Json) : Option (List Json) := do pure (← j.getArr?.toOption).toList
def jBytes (j : Json) : Option (List UInt8) := do bytesOfHex (← jStr j)

def joinSp (xs : List String) : String := " ".intercalate xs

partial def loop (h : IO.FS.Stream) (out : IO.FS.Stream) (step : Json → Option String) : IO Unit := do
  let line ← h.getLine
  if line.isEmpty then return ()
  let res := match Json.parse line with
    | .ok j => (step j).getD "bad-op"
    | .error _ => "bad-json"
  out.putStrLn res
  loop h out step

def driverMain (step : Json → Option String) : IO Unit := do
  let i ← IO.getStdin
  let o ← IO.getStdout
  loop i o step
  o.flush

end Ebv.Io
