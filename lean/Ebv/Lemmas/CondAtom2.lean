import Ebv.Lemmas.CondAtom
/-! `SimpleComparison.compare`, part 2: the right operand and the optional widening as generator lemmas. -/
namespace Ebv.Gen
open Ebv.Ebpf

theorem curLen_ok {g : GenState} {r : Nat × GenState} : curLen g = .ok r ↔ r = (g.code.length, g) := by
  unfold curLen; constructor
  · intro h; cases h; rfl
  · intro h; rw [h]

theorem setSlot_ok {i : Nat} {x : Insn} {g : GenState} {r : Unit × GenState} :
    setSlot i x g = .ok r ↔ r = ((), { g with code := g.code.set i x }) := by
  unfold setSlot; constructor
  · intro h; cases h; rfl
  · intro h; rw [h]

/-- `r_long` as `atomInfo` predicts it -/
theorem atomInfo_rLong (l r : Expr) : (atomInfo l r).rLong =
    (!r.asSmallConst.isSome && (match (if (l.signed || r.signed) && widthOf l then some true else none : Option Bool) with
      | some b => retLong b r | none => widthOf r)) := rfl

/-- the right operand: an immediate, or computed into some register that stays reserved until the jump -/
theorem cmpRight_correct (l r : Expr) (g1 g2 : GenState) (rr : Nat × Bool × List Nat × Int)
    (hr : r.asSmallConst = none → OperandOk r (rW l r) g1.owners)
    (h : cmpRight r (if (l.signed || r.signed) && widthOf l then some true else none) g1 = .ok (rr, g2)) :
    ∃ cr, g2.code = g1.code ++ cr ∧ (∀ i ∈ cr, straight i = true) ∧ g2.owners = rr.2.2.1 ++ g1.owners ∧
      (∀ x ∈ rr.2.2.1, x ∉ g1.owners) ∧ g2.stack = g1.stack ∧ rr.2.1 = (atomInfo l r).rLong ∧
      (r.asSmallConst = none → (rr.1 ∈ rr.2.2.1 ∨ r.contains rr.1 = true)) ∧
      ∀ σ1 : State, ∃ σ2, exec cr σ1 = some σ2 ∧ (∀ n ∈ g1.owners, σ2.regs n = σ1.regs n) ∧ σ2.mem = σ1.mem ∧
        (match r.asSmallConst with
          | some v => rr.2.2.2 = v
          | none => Agree (rW l r) (σ2.regs rr.1) (evalBV σ1 (rW l r) r)) := by
  unfold cmpRight at h
  cases hsc : r.asSmallConst with
  | some v =>
    rw [hsc] at h
    simp only [] at h
    rw [pure_ok] at h
    cases h
    refine ⟨[], by simp, by simp, by simp, by simp, rfl, ?_, fun hn => (by cases hn), ?_⟩
    · simp [atomInfo_rLong, hsc]
    · intro σ1
      exact ⟨_, exec_nil σ1, fun _ _ => rfl, rfl, rfl⟩
  | none =>
    rw [hsc] at h
    simp only [] at h
    rw [bind_ok] at h
    obtain ⟨rres, g3, hc, h⟩ := h
    rw [pure_ok] at h
    cases h
    have hp : Pre r none (rW l r) false g1 := (hr hsc).pre (fun n hn => hn)
    have post := calc_operand_r l r g1 g2 rres hp hc
    have hlong := calc_resLong r _ _ _ _ _ _ hc
    obtain ⟨cr, hcr, hst, hrun⟩ := post.run
    refine ⟨cr, hcr, hst, post.owners, post.fresh, post.stack, ?_, fun _ => calc_reg_in r _ _ _ _ _ hc, ?_⟩
    · rw [atomInfo_rLong, hsc]
      simp only [Option.isSome_none, Bool.not_false, Bool.true_and]
      exact hlong
    · intro σ1
      obtain ⟨σ2, he, hv, hfr, hm⟩ := hrun σ1
      exact ⟨σ2, he, fun n hn => hfr n hn (by simp), hm, hv⟩

/-- the optional widening of the left operand's register -/
theorem widenIf_correct (b : Bool) (dst : Nat) (g2 g3 : GenState) (hd : dst ∈ g2.owners)
    (h : widenIf b dst g2 = .ok ((), g3)) :
    ∃ cw, g3.code = g2.code ++ cw ∧ (∀ i ∈ cw, straight i = true) ∧ g3.owners = g2.owners ∧ g3.stack = g2.stack ∧
      ∀ σ2 : State, ∃ σ3, exec cw σ2 = some σ3 ∧
        σ3.regs dst = (if b then ((σ2.regs dst).truncate 32).signExtend 64 else σ2.regs dst) ∧
        (∀ n ∈ g2.owners, n ≠ dst → σ3.regs n = σ2.regs n) ∧ (b = false → ∀ n, σ3.regs n = σ2.regs n) ∧
        σ3.mem = σ2.mem := by
  unfold widenIf at h
  cases b with
  | true =>
    simp only [if_true] at h
    obtain ⟨⟨⟨cw, hcw, hst, hrun⟩, hstack⟩, ho⟩ := widen_correct dst g2 g3 hd h
    refine ⟨cw, hcw, hst, ho, hstack, ?_⟩
    intro σ2
    obtain ⟨σ3, he, hv, hfr, hm⟩ := hrun σ2
    exact ⟨σ3, he, by simpa using hv, hfr, fun hb => (by cases hb), hm⟩
  | false =>
    simp only [Bool.false_eq_true, if_false] at h
    rw [pure_ok] at h
    cases h
    refine ⟨[], by simp, by simp, rfl, rfl, ?_⟩
    intro σ2
    exact ⟨_, exec_nil σ2, rfl, fun _ _ _ => rfl, fun _ _ => rfl, rfl⟩

end Ebv.Gen
