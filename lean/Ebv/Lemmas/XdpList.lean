import Ebv.Model.Bytes
import Ebv.Model.FastGroup
/-! List facts shared by the fast-group translation validations (C26TV, C21TV): `setRange` of an encoded field vs
slices, `setRange` of one or two bytes as `List.set`, the working counter of `Ebv.FastGroup` as a little-endian slice. -/
namespace Ebv.Bytes

theorem length_setRange_enc (q : List UInt8) (k n v : Nat) (h : k + n ≤ q.length) :
    (setRange q k (encLE n v)).length = q.length := length_setRange _ _ _ (by simpa using h)

theorem slice_setRange_enc (q : List UInt8) (k n v c d : Nat) (h : k + n ≤ q.length) (hd : d ≤ k ∨ k + n ≤ c)
    (hcd : c ≤ d) : slice (setRange q k (encLE n v)) c d = slice q c d :=
  slice_setRange_disjoint q k (encLE n v) c d (by simpa using h) (by simpa using hd) hcd

theorem slice_setRange_enc_same (q : List UInt8) (k n v : Nat) (h : k + n ≤ q.length) :
    slice (setRange q k (encLE n v)) k (k + n) = encLE n v := by
  have := slice_setRange_same q k (encLE n v) (by simpa using h)
  simpa using this

theorem setRange_setRange_same (q : List UInt8) (k n v w : Nat) (h : k + n ≤ q.length) :
    setRange (setRange q k (encLE n v)) k (encLE n w) = setRange q k (encLE n w) := by
  have hl := length_setRange_enc q k n v h
  apply List.ext_getElem?
  intro i
  by_cases hi : k ≤ i ∧ i < k + n
  · have e1 := getElem?_setRange_inside (setRange q k (encLE n v)) k (encLE n w) (i - k) (by simp; omega) (by simp; omega)
    have e2 := getElem?_setRange_inside q k (encLE n w) (i - k) (by simp; omega) (by simp; omega)
    rw [show k + (i - k) = i by omega] at e1 e2
    rw [e1, e2]
  · rw [getElem?_setRange_outside _ k (encLE n w) i (by simp; omega) (by simp; omega),
      getElem?_setRange_outside _ k (encLE n v) i (by simp; omega) (by simp; omega),
      getElem?_setRange_outside _ k (encLE n w) i (by simp; omega) (by simp; omega)]

theorem setRange_one (l : List UInt8) (k : Nat) (x : UInt8) (h : k < l.length) : setRange l k [x] = l.set k x := by
  apply List.ext_getElem?
  intro i
  by_cases hi : i = k
  · subst hi
    have := getElem?_setRange_inside l i [x] 0 (by simp; omega) (by simp)
    simp at this; simp [this, h]
  · rw [getElem?_setRange_outside l k [x] i (by simp; omega) (by simp; omega), List.getElem?_set_ne (Ne.symm hi)]

theorem setRange_two (l : List UInt8) (k : Nat) (x y : UInt8) (h : k + 1 < l.length) :
    setRange l k [x, y] = (l.set k x).set (k + 1) y := by
  apply List.ext_getElem?
  intro i
  by_cases h0 : i = k
  · subst h0
    have := getElem?_setRange_inside l i [x, y] 0 (by simp; omega) (by simp)
    simp at this
    rw [this, List.getElem?_set_ne (by omega)]; simp [show i < l.length by omega]
  · by_cases h1 : i = k + 1
    · subst h1
      have := getElem?_setRange_inside l k [x, y] 1 (by simp; omega) (by simp)
      simp at this; simp [this, h]
    · rw [getElem?_setRange_outside l k [x, y] i (by simp; omega) (by simp; omega),
        List.getElem?_set_ne (by omega), List.getElem?_set_ne (by omega)]

theorem slice_cons (p : List UInt8) (k m : Nat) (h : k < p.length) (hm : k < m) :
    slice p k m = p[k] :: slice p (k + 1) m := by
  simp only [slice]
  rw [List.drop_eq_getElem_cons h, show m - k = (m - (k + 1)) + 1 by omega, List.take_succ_cons]

theorem slice_self (p : List UInt8) (k : Nat) : slice p k k = [] := by simp [slice]

theorem wkcAt_eq (p : List UInt8) (k : Nat) (h : k + 2 ≤ p.length) :
    Ebv.FastGroup.wkcAt p k = decLE (slice p k (k + 2)) := by
  rw [slice_cons p k (k + 2) (by omega) (by omega), slice_cons p (k + 1) (k + 2) (by omega) (by omega), slice_self]
  have h0 : k < p.length := by omega
  have h1 : k + 1 < p.length := by omega
  simp [Ebv.FastGroup.wkcAt, decLE, List.getD, h0, h1]

theorem decLE_slice_bound (q : List UInt8) (k n : Nat) (h : k + n ≤ q.length) : decLE (slice q k (k + n)) < 256 ^ n := by
  have := decLE_lt (slice q k (k + n))
  rwa [length_slice _ _ _ h, Nat.add_sub_cancel_left] at this

end Ebv.Bytes
