import Ebv.Lemmas.CondCompare3
import Ebv.Props.C01
/-! Statements with `with` / `Else` blocks after elaboration (`KStmt`), their structured big-step semantics
(`KStmt.sem`), static ownership tracking, and monotonicity lemmas. -/
namespace Ebv.Gen
open Ebv.Ebpf Ebv.C01

def Sub (a b : List Nat) : Prop := ∀ n, n ∈ a → n ∈ b

theorem Sub.refl (a : List Nat) : Sub a a := fun _ h => h
theorem Sub.trans {a b c : List Nat} (h1 : Sub a b) (h2 : Sub b c) : Sub a c := fun n h => h2 n (h1 n h)

/-- statements with their conditions and right-hand sides already built by the operator overloads -/
inductive KStmt where
  | skip
  | set (cs : CStmt)
  | seq (a b : KStmt)
  | ifThen (c : CObj) (body : KStmt)
  | ifElse (c : CObj) (body els : KStmt)

def emitK : KStmt → GenM Unit
  | .skip => pure ()
  | .set cs => cs.emit
  | .seq a b => do emitK a; emitK b
  | .ifThen c body => withThen c (emitK body)
  | .ifElse c body els => withElse c (emitK body) (emitK els)

/-- registers certainly owned afterwards (a register assigned only inside a branch is not counted) -/
def KStmt.own (o : List Nat) : KStmt → List Nat
  | .skip => o
  | .set cs => cs.owners o
  | .seq a b => b.own (a.own o)
  | .ifThen _ _ => o
  | .ifElse _ _ _ => o

def CObj.isBits : CObj → Bool
  | .bits _ _ => true
  | _ => false

/-- well-typed, inside the proved fragment, in none of the defect classes -/
def KStmt.ok : List Nat → KStmt → Prop
  | _, .skip => True
  | o, .set cs => cs.ok o = true
  | o, .seq a b => a.ok o ∧ b.ok (a.own o)
  | o, .ifThen c body => c.ok o ∧ body.ok o
  | o, .ifElse c body els => c.ok o ∧ body.ok o ∧ els.ok o

/-- **structured big-step semantics**: the body of a `with` block runs iff the condition's truth value (`tv`) holds
in the state in front of the block, the `Else` body iff it does not; evaluating the condition keeps the owned
registers and the memory; control continues behind the construct -/
def KStmt.sem (tv : CObj → State → Bool) : List Nat → KStmt → State → State → Prop
  | o, .skip, σ, σ' => Keep o σ σ'
  | o, .set cs, σ, σ' => cs.spec o σ σ'
  | o, .seq a b, σ, σ' => ∃ σ1, a.sem tv o σ σ1 ∧ b.sem tv (a.own o) σ1 σ'
  | o, .ifThen c body, σ, σ' => ∃ σ1, Keep o σ σ1 ∧ (if tv c σ then body.sem tv o σ1 σ' else Keep o σ1 σ')
  | o, .ifElse c body els, σ, σ' =>
    ∃ σ1, Keep o σ σ1 ∧ (if tv c σ then body.sem tv o σ1 σ' else els.sem tv o σ1 σ')

/-! ## monotonicity in the set of owned registers -/

theorem leavesOwnedB_mono {o o' : List Nat} (hs : Sub o o') : ∀ {e : Expr}, leavesOwnedB o e = true → leavesOwnedB o' e = true := by
  intro e
  induction e with
  | const v => intro _; rfl
  | reg no lg sg => intro h; simp only [leavesOwnedB, List.contains_iff_mem] at h ⊢; exact hs _ h
  | bin op l r sg k ihl ihr =>
    intro h; simp only [leavesOwnedB, Bool.and_eq_true] at h ⊢; exact ⟨ihl h.1, ihr h.2⟩
  | neg a ih => intro h; exact ih h
  | abs a ih => intro h; exact ih h
  | mem f a ih => intro h; exact ih h

theorem CStmt.ok_mono {o o' : List Nat} (hs : Sub o o') {cs : CStmt} (h : cs.ok o = true) : cs.ok o' = true := by
  cases cs with
  | reg no long e =>
    simp only [CStmt.ok, Bool.and_eq_true] at h ⊢
    obtain ⟨⟨⟨h1, h2⟩, h3⟩, h5⟩ := h
    exact ⟨⟨⟨leavesOwnedB_mono hs h1, h2⟩, h3⟩, h5⟩
  | mem fmt base off e =>
    simp only [CStmt.ok, Bool.and_eq_true] at h ⊢
    obtain ⟨⟨⟨⟨h0, h1⟩, h2⟩, h3⟩, h5⟩ := h
    refine ⟨⟨⟨⟨?_, leavesOwnedB_mono hs h1⟩, h2⟩, h3⟩, h5⟩
    simp only [List.contains_iff_mem] at h0 ⊢
    exact hs _ h0

theorem CStmt.spec_mono {o o' : List Nat} (hs : Sub o o') {cs : CStmt} {σ σ' : State} (h : cs.spec o' σ σ') :
    cs.spec o σ σ' := by
  cases cs with
  | reg no long e => exact ⟨h.1, fun n hn hne => h.2.1 n (hs n hn) hne, h.2.2⟩
  | mem fmt base off e => exact ⟨fun n hn => h.1 n (hs n hn), h.2⟩

theorem CStmt.owners_mono {o o' : List Nat} (hs : Sub o o') (cs : CStmt) : Sub (cs.owners o) (cs.owners o') := by
  cases cs with
  | reg no long e =>
    intro n hn
    simp only [CStmt.owners] at hn ⊢
    have hn' : n = no ∨ n ∈ o := by
      split at hn
      · exact Or.inr hn
      · simpa using hn
    split
    · rename_i hc
      rcases hn' with h1 | h1
      · subst h1; simpa using hc
      · exact hs n h1
    · rcases hn' with h1 | h1
      · subst h1; simp
      · exact List.mem_cons_of_mem _ (hs n h1)
  | mem fmt base off e => exact hs

theorem CStmt.owners_sup (o : List Nat) (cs : CStmt) : Sub o (cs.owners o) := by
  cases cs with
  | reg no long e =>
    intro n hn
    simp only [CStmt.owners]
    split
    · exact hn
    · exact List.mem_cons_of_mem _ hn
  | mem fmt base off e => exact Sub.refl o

theorem KStmt.own_sup : ∀ (s : KStmt) (o : List Nat), Sub o (s.own o) := by
  intro s
  induction s with
  | skip => intro o; exact Sub.refl o
  | set cs => intro o; exact CStmt.owners_sup o cs
  | seq a b iha ihb => intro o; exact (iha o).trans (ihb _)
  | ifThen c body _ => intro o; exact Sub.refl o
  | ifElse c body els _ _ => intro o; exact Sub.refl o

theorem OperandOk.mono {e : Expr} {b : Bool} {o o' : List Nat} (hs : Sub o o') (h : OperandOk e b o) : OperandOk e b o' :=
  ⟨leavesOwned_mono hs h.leaves, h.frag, h.narrow⟩

theorem AtomOk.mono {l r : Expr} {o o' : List Nat} (hs : Sub o o') (h : AtomOk o l r) : AtomOk o' l r :=
  ⟨h.left.mono hs, fun hn => (h.right hn).mono hs, h.noWidenInPlace, h.frag⟩

theorem CObj.ok_mono {o o' : List Nat} (hs : Sub o o') : ∀ {c : CObj}, c.ok o → c.ok o' := by
  intro c
  induction c with
  | simple op sg l r => intro h; exact AtomOk.mono hs h
  | bits l r => intro h; exact AtomOk.mono hs h
  | andor isAnd a b iha ihb => intro h; exact ⟨iha h.1, ihb h.2⟩
  | inv a ih => intro h; exact ih h

theorem ownAll_own {o : List Nat} {p : Pend} (h : p.OwnAll o) : p.own = o := by
  cases p <;> simp only [Pend.OwnAll] at h <;> simp [Pend.own, h]

/-- the `owners` attribute after `target()` still contains every register that was owned all along -/
theorem target_own_sub {o : List Nat} {p p' : Pend} {g g' : GenState} (h : target p false g = .ok (p', g'))
    (h1 : Sub o p.own) (h2 : Sub o g.owners) : Sub o p'.own := by
  cases p with
  | jump origin ins own =>
    simp only [target] at h
    obtain ⟨_, _, _, c4⟩ := targetJump_ok h
    simp only [Bool.false_eq_true, if_false] at c4
    rw [c4]; exact h2
  | andor both l r own =>
    simp only [target] at h
    rw [bind_ok] at h; obtain ⟨l', g1, _, h⟩ := h
    rw [bind_ok] at h; obtain ⟨r', g2, _, h⟩ := h
    rw [pure_ok] at h; cases h
    exact h1
  | inv v own =>
    simp only [target] at h
    rw [bind_ok] at h; obtain ⟨v', g1, _, h⟩ := h
    rw [pure_ok] at h; cases h
    exact h1

/-- jump over a block into the code behind it -/
theorem JumpRun.over {a b c : List Insn} {σ σ1 σ2 : State} (h1 : JumpRun a (a.length + b.length) σ σ1 true)
    (h2 : SegRun c σ1 σ2) : SegRun (a ++ b ++ c) σ σ2 := by
  intro pre post
  have r1 := h1 pre (b ++ c ++ post)
  have r2 := h2 (pre ++ a ++ b) post
  simp only [List.append_assoc, List.length_append, if_true] at r1 r2 ⊢
  have e : pre.length + (a.length + (b.length + c.length)) = pre.length + (a.length + b.length) + c.length := by omega
  rw [e]
  exact r1.trans r2

end Ebv.Gen
