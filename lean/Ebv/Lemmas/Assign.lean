import Ebv.Lemmas.Calc
/-! Statement level: `RegisterArray.__setitem__` (`setReg`) and `Memory._set` (`setMem`). -/
namespace Ebv.Gen
open Ebv.Ebpf

theorem storeN_mod (n : Nat) : ∀ (mem : W → BitVec 8) (a : W) (v : Nat),
    storeN mem a n (v % 2 ^ (8 * n)) = storeN mem a n v := by
  induction n with
  | zero => intro mem a v; rfl
  | succ k ih =>
    intro mem a v
    simp only [storeN]
    have e : 2 ^ (8 * (k + 1)) = 256 * 2 ^ (8 * k) := by
      rw [show 8 * (k + 1) = 8 + 8 * k by omega, Nat.pow_add]
    have h1 : BitVec.ofNat 8 (v % 2 ^ (8 * (k + 1))) = BitVec.ofNat 8 v := by
      apply BitVec.eq_of_toNat_eq
      simp only [BitVec.toNat_ofNat, e]
      rw [Nat.mod_mul_right_mod v 256 (2 ^ (8 * k))]
    have h2 : v % 2 ^ (8 * (k + 1)) / 256 = (v / 256) % 2 ^ (8 * k) := by
      rw [e, Nat.mod_mul_right_div_self]
    rw [h1, h2, ih]

theorem storeN_congr (n : Nat) (mem : W → BitVec 8) (a : W) (v v' : Nat) (h : v % 2 ^ (8 * n) = v' % 2 ^ (8 * n)) :
    storeN mem a n v = storeN mem a n v' := by
  rw [← storeN_mod n mem a v, h, storeN_mod]

/-- a store of at most 4 bytes only looks at the low 32 bits; of 8 bytes at all 64 -/
theorem storeN_agree (fmt : Fmt) (mem : W → BitVec 8) (a : W) (x y : W) (h : Agree fmt.isLong x y) :
    storeN mem a fmt.size x.toNat = storeN mem a fmt.size y.toNat := by
  cases hl : fmt.isLong
  · rw [hl] at h
    simp only [Agree] at h
    have h32 : x.toNat % 2 ^ 32 = y.toNat % 2 ^ 32 := by
      have := congrArg BitVec.toNat h
      simpa using this
    apply storeN_congr
    have hs : ∃ j, 2 ^ 32 = 2 ^ (8 * fmt.size) * j := by
      cases fmt <;> simp [Fmt.isLong] at hl
      · exact ⟨2 ^ 24, by decide⟩
      · exact ⟨2 ^ 16, by decide⟩
      · exact ⟨1, by decide⟩
      · exact ⟨2 ^ 24, by decide⟩
      · exact ⟨2 ^ 16, by decide⟩
      · exact ⟨1, by decide⟩
    obtain ⟨j, hj⟩ := hs
    have e1 := Nat.mod_mul_right_mod x.toNat (2 ^ (8 * fmt.size)) j
    have e2 := Nat.mod_mul_right_mod y.toNat (2 ^ (8 * fmt.size)) j
    rw [← hj] at e1 e2
    rw [← e1, ← e2, h32]
  · rw [hl] at h
    simp only [Agree] at h
    rw [h]

/-- what the code of one statement does: non-jump code `c` appended, and from every machine state it terminates -/
structure Emits (g g' : GenState) (P : State → State → Prop) : Prop where
  run : ∃ c, g'.code = g.code ++ c ∧ (∀ i ∈ c, straight i = true) ∧ ∀ σ : State, ∃ σ', exec c σ = some σ' ∧ P σ σ'
  stack : g'.stack = g.stack

/-- hypotheses for `dest_register = e` -/
structure PreReg (e : Expr) (no : Nat) (long : Bool) (g : GenState) : Prop where
  leaves : leavesOwned g.owners e
  frag : e.frag = true
  narrow : narrowIn64 e long true (.reg no) = false

theorem setReg_correct (e : Expr) (no : Nat) (long : Bool) (g g' : GenState) (hp : PreReg e no long g)
    (h : setReg no long (.ex e) g = .ok ((), g')) :
    Emits g g' (fun σ σ' => Agree long (σ'.regs no) (evalBV σ long e) ∧
      (∀ n ∈ g.owners, n ≠ no → σ'.regs n = σ.regs n) ∧ σ'.mem = σ.mem) ∧
    g'.owners = (if g.owners.contains no then g.owners else no :: g.owners) := by
  simp only [setReg, ensureExpr] at h
  rw [bind_ok] at h
  obtain ⟨u, g1, hadd, h⟩ := h
  rw [addOwner_ok] at hadd
  cases hadd
  rw [bind_ok] at h
  obtain ⟨res, g2, hcalc, h⟩ := h
  rw [release_ok] at h
  cases h
  generalize hg1 : ({ g with owners := if g.owners.contains no then g.owners else no :: g.owners } : GenState) = g1 at hcalc
  have ho1 : g1.owners = if g.owners.contains no then g.owners else no :: g.owners := by rw [← hg1]
  have hsub : ∀ n, n ∈ g.owners → n ∈ g1.owners := by
    intro n hn; rw [ho1]; split
    · exact hn
    · exact List.mem_cons_of_mem _ hn
  have hno : no ∈ g1.owners := by
    rw [ho1]; split
    · rename_i hc; simpa using hc
    · simp
  have hpre : Pre e (some no) long true g1 :=
    ⟨fun n hn => (by cases hn; exact hno), fun _ => (by simp), leavesOwned_mono hsub hp.leaves, hp.frag,
      hp.narrow⟩
  have post := calc_correct e (some no) long true g1 g2 res hpre hcalc
  obtain ⟨c, hc, hst, hrun⟩ := post.run
  have hreg : res.reg = no := by
    rcases post.place (Or.inl rfl) with h1 | ⟨h1, _⟩
    · cases h1; rfl
    · cases h1
  refine ⟨⟨⟨c, by rw [← hg1] at hc; simpa using hc, hst, ?_⟩, by rw [← hg1] at post; simpa using post.stack⟩, ?_⟩
  · intro σ
    obtain ⟨σ', he, hv, hfr, hm⟩ := hrun σ
    rw [hreg] at hv
    exact ⟨σ', he, hv, fun n hn hne => hfr n (hsub n hn) (by intro e; cases e; exact hne rfl), hm⟩
  · simp only [post.owners]
    rw [filter_release _ _ post.fresh, ho1]

/-- hypotheses for `variable = e` (variable at `base + off`) -/
structure PreMem (e : Expr) (fmt : Fmt) (base : Nat) (g : GenState) : Prop where
  base : base ∈ g.owners
  leaves : leavesOwned g.owners e
  frag : e.frag = true
  narrow : narrowIn64 e fmt.isLong false .any = false

theorem setMem_correct (e : Expr) (fmt : Fmt) (addr : Expr) (base : Nat) (off : Int) (g g' : GenState)
    (hs : addr.asSum = some (base, off)) (hp : PreMem e fmt base g)
    (h : setMem fmt addr (.ex e) g = .ok ((), g')) :
    Emits g g' (fun σ σ' => (∀ n ∈ g.owners, σ'.regs n = σ.regs n) ∧
      σ'.mem = storeN σ.mem (σ.regs base + BitVec.ofInt 64 off) fmt.size (evalBV σ fmt.isLong e).toNat) ∧
    g'.owners = g.owners := by
  simp only [setMem, ensureExpr, hs] at h
  rw [bind_ok] at h
  obtain ⟨⟨d, off', arel⟩, g1, hpure, h⟩ := h
  rw [pure_ok] at hpure
  cases hpure
  cases hv : e.asSmallConst with
  | some c =>
    rw [hv] at h
    simp only [] at h
    obtain ⟨hec, hsm⟩ := asSmallConst_some hv
    rw [bind_ok] at h
    obtain ⟨u, g2, hem, h⟩ := h
    rw [emit_ok] at hem
    rw [release_ok] at h
    cases hem; cases h
    refine ⟨⟨⟨[⟨Consts.op_ST + fmt.sizeOp, base, 0, off, c⟩], rfl, ?_, ?_⟩, rfl⟩, by simp⟩
    · intro i hi; simp at hi; subst hi; cases fmt <;> straight_tac
    · intro σ
      refine ⟨_, exec_st σ fmt base off c, fun _ _ => rfl, ?_⟩
      simp [hec, evalBV, simm_small c hsm]
  | none =>
    rw [hv] at h
    simp only [] at h
    rw [bind_ok] at h
    obtain ⟨vres, g2, hcalc, h⟩ := h
    rw [bind_ok] at h
    obtain ⟨u, g3, hem, h⟩ := h
    rw [bind_ok] at h
    obtain ⟨u2, g4, hr1, h⟩ := h
    rw [emit_ok] at hem
    rw [release_ok] at hr1 h
    cases hem; cases hr1; cases h
    have hpre : Pre e none fmt.isLong false g :=
      ⟨fun n hn => (by cases hn), fun hf => (by cases hf), hp.leaves, hp.frag, hp.narrow⟩
    have post := calc_correct e none fmt.isLong false g g2 vres hpre hcalc
    obtain ⟨c, hc, hst, hrun⟩ := post.run
    refine ⟨⟨⟨c ++ [⟨Consts.op_STX + fmt.sizeOp, base, vres.reg, off, 0⟩], by simp [hc], ?_, ?_⟩, by simpa using post.stack⟩, ?_⟩
    · intro i hi
      simp at hi
      rcases hi with hi | hi
      · exact hst i hi
      · subst hi; cases fmt <;> straight_tac
    · intro σ
      obtain ⟨σ1, he, hval, hfr, hm⟩ := hrun σ
      refine ⟨(σ1.setMem (storeN σ1.mem (σ1.regs base + BitVec.ofInt 64 off) fmt.size (σ1.regs vres.reg).toNat)).norm,
        ?_, ?_, ?_⟩
      · rw [exec_append he]; exact exec_stx σ1 fmt base vres.reg off
      · intro n hn; simp [hfr n hn (by simp)]
      · simp only [State.norm_mem, State.setMem_mem]
        rw [hm, hfr base hp.base (by simp)]
        exact storeN_agree fmt _ _ _ _ hval
    · simp only [List.contains_nil, Bool.not_false, post.owners]
      rw [filter_release _ _ post.fresh]
      simp

end Ebv.Gen
