import Ebv.Lemmas.CondWith
/-! The list surgery of `AndComparison.__exit__` (`spliceCode`) on the layout `with (a & b) as Else:` produces,
and the shape of the code `AndComparison.compare(True)` emits. -/
namespace Ebv.Gen
open Ebv.Ebpf Ebv.C01

/-- `A ++ [JSET +1, JMP b] ++ B ++ [JMP e] ++ E`  ↦  `A ++ [JSET +|E|+1] ++ E ++ [JMP b] ++ B` -/
theorem splice_shape (A : List Insn) (j1 jb je : Insn) (B E : List Insn) :
    spliceCode (A ++ [j1] ++ [jb] ++ B ++ [je] ++ E) (A.length + 1) (A.length + 1 + 1 + B.length)
      = A ++ [{ j1 with off := (E.length : Int) + 1 }] ++ E ++ [jb] ++ B := by
  have hX1 : A ++ [j1] ++ [jb] ++ B ++ [je] ++ E = (A ++ [j1]) ++ ([jb] ++ B ++ [je] ++ E) := by simp
  have hX2 : A ++ [j1] ++ [jb] ++ B ++ [je] ++ E = (A ++ [j1] ++ [jb] ++ B ++ [je]) ++ E := by simp
  have t1 : (A ++ [j1] ++ [jb] ++ B ++ [je] ++ E).take (A.length + 1) = A ++ [j1] := by
    rw [hX1]; exact List.take_left' (by simp)
  have d1 : (A ++ [j1] ++ [jb] ++ B ++ [je] ++ E).drop (A.length + 1) = [jb] ++ B ++ [je] ++ E := by
    rw [hX1]; exact List.drop_left' (by simp)
  have d2 : (A ++ [j1] ++ [jb] ++ B ++ [je] ++ E).drop (A.length + 1 + 1 + B.length + 1) = E := by
    rw [hX2]; exact List.drop_left' (by simp; omega)
  unfold spliceCode
  simp only [t1, d1, d2]
  have hc1 : ((A ++ [j1] ++ E ++ ([jb] ++ B ++ [je] ++ E)).take ((A ++ [j1] ++ [jb] ++ B ++ [je] ++ E).length - 1))
      = A ++ [j1] ++ E ++ [jb] ++ B := by
    have e : A ++ [j1] ++ E ++ ([jb] ++ B ++ [je] ++ E) = (A ++ [j1] ++ E ++ [jb] ++ B) ++ ([je] ++ E) := by simp
    rw [e]; exact List.take_left' (by simp; omega)
  rw [hc1]
  have hget : (A ++ [j1] ++ E ++ [jb] ++ B).getD (A.length + 1 - 1) hole = j1 := by
    simp [List.getD_eq_getElem?_getD]
  rw [hget]
  have hlen : ((A ++ [j1] ++ E ++ [jb] ++ B).length : Int) - ((A.length + 1 + 1 + B.length : Nat) : Int) + 1
      = (E.length : Int) + 1 := by
    simp only [List.length_append, List.length_cons, List.length_nil]; omega
  rw [hlen]
  have e3 : A ++ [j1] ++ E ++ [jb] ++ B = A ++ [j1] ++ (E ++ [jb] ++ B) := by simp
  rw [e3, Nat.add_sub_cancel, List.set_append_left _ _ (by simp), set_last]
  simp

/-- the code of `AndComparison.compare(True)`: operands, `JSET +1`, placeholder for the `JMP` -/
theorem compare_bits_true (l r : Expr) (g g1 : GenState) (p : Pend) (hok : AtomOk g.owners l r)
    (h : compare (.bits l r) true g = .ok (p, g1)) :
    ∃ (c0 : List Insn) (ins : Insn), g1.code = g.code ++ c0 ++ [{ ins with off := 1 }, hole] ∧
      p = .jump (g.code.length + c0.length + 1) ⟨Consts.op_JMP, 0, 0, 0, 0⟩ g.owners ∧ g1.owners = g.owners ∧
      g1.stack = g.stack ∧ (∀ i ∈ c0, straight i = true) ∧
      ∀ σ : State, ∃ σ3, exec c0 σ = some σ3 ∧ Keep g.owners σ σ3 ∧
        ∀ x : Int, isCondJump { ins with off := x } = true ∧
          jmpCond { ins with off := x } σ3 = some (CObj.mtruth (.bits l r) σ) := by
  simp only [compare] at h
  rw [bind_ok] at h; obtain ⟨oi, g0, hcore, h⟩ := h
  rw [bind_ok] at h; obtain ⟨os, g2, hos, h⟩ := h
  rw [getOwners_ok] at hos; cases hos
  obtain ⟨c0, hc, horg, ho, hs, hst, hop, hrun⟩ :=
    cmpCore_correct Consts.op_JSET l r g g0 oi.1 oi.2 hok.left hok.right hok.noWidenInPlace hcore
  obtain ⟨j5, j0, j8, j9⟩ := jset_mod
  have hlen1 : g0.code.length = g.code.length + c0.length + 1 := by rw [hc]; simp; omega
  unfold bitsNeg at h
  simp only [if_true] at h
  rw [bind_ok] at h; obtain ⟨o2, g3, hlen, h⟩ := h
  rw [bind_ok] at h; obtain ⟨u, g4, hem, h⟩ := h
  rw [bind_ok] at h; obtain ⟨p0, g5, htj, h⟩ := h
  rw [pure_ok] at h
  rw [curLen_ok] at hlen; rw [emit_ok] at hem
  cases hlen; cases hem
  obtain ⟨t1, t2, t3, t4⟩ := targetJump_ok htj
  simp only [Bool.false_eq_true, if_false] at t1 t2 t3 t4
  cases h
  have hoff : ((g0.code ++ [hole]).length : Int) - oi.1 - 1 = 1 := by simp [hlen1, horg]; omega
  rw [hoff] at t1
  refine ⟨c0, oi.2, ?_, ?_, by rw [t3, ho]; exact inter_self _, by rw [t2]; exact hs, hst, ?_⟩
  · rw [t1, hc, horg]
    have e : g.code ++ c0 ++ [hole] ++ [hole] = g.code ++ (c0 ++ [hole, hole]) ++ [] := by simp
    rw [e, set_mid g.code (c0 ++ [hole, hole]) [] c0.length _ (by simp), set_last2]; simp
  · rw [t4, hlen1]; simp [Pend.own, ho]
  · intro σ
    obtain ⟨σ3, he, hr⟩ := hrun σ
    refine ⟨σ3, he, ⟨hr.frame, hr.mem⟩, fun x => ⟨jcode_isCond Consts.op_JSET _ _ j5 j0 j8 j9 _ hop, ?_⟩⟩
    rw [jmpCond_off]
    have := atom_jump bitsBV Consts.op_JSET false l r oi.2 g.owners σ σ3 j5 cond_jset hop hr hok.frag
    simpa [CObj.mtruth] using this

end Ebv.Gen
