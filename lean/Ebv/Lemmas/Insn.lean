import Ebv.Lemmas.Exec
import Ebv.Model.Gen
/-! What each instruction shape emitted by `Gen` does, in terms of `exec` (semantics = `Ebpf.step`). -/
namespace Ebv.Ebpf
open Ebv.Gen

/-- a state with the program counter reset (results of `exec`) -/
def State.norm (s : State) : State := { s with pc := 0 }

@[simp] theorem State.norm_regs (s : State) : s.norm.regs = s.regs := rfl
@[simp] theorem State.norm_mem (s : State) : s.norm.mem = s.mem := rfl
@[simp] theorem State.setReg_mem (s : State) (r : Nat) (v : W) : (s.setReg r v).mem = s.mem := rfl
@[simp] theorem State.setReg_same (s : State) (r : Nat) (v : W) : (s.setReg r v).regs r = v := by
  simp [State.setReg]
theorem State.setReg_other (s : State) (r n : Nat) (v : W) (h : n ≠ r) : (s.setReg r v).regs n = s.regs n := by
  simp [State.setReg, h]

/-- store into memory, registers untouched -/
def State.setMem (s : State) (m : W → BitVec 8) : State := { s with mem := m }
@[simp] theorem State.setMem_regs (s : State) (m : W → BitVec 8) : (s.setMem m).regs = s.regs := rfl
@[simp] theorem State.setMem_mem (s : State) (m : W → BitVec 8) : (s.setMem m).mem = m := rfl

/-- zero-extension of the low 32 bits -/
def lo32 (x : W) : W := (x.truncate 32).zeroExtend 64

/-- one ALU operation on `w`-bit vectors (the kernel's semantics: division by zero gives 0, `x % 0 = x`,
shift amounts are taken modulo the width) -/
def aluOp (op : BinOp) (w : Nat) (x y : BitVec w) : BitVec w :=
  match op with
  | .add => x + y | .sub => x - y | .mul => x * y
  | .div => if y = 0 then 0 else x / y
  | .or => x ||| y | .and => x &&& y
  | .lsh => x <<< (y.toNat % w) | .rsh => x >>> (y.toNat % w)
  | .mod => if y = 0 then x else x % y
  | .xor => x ^^^ y
  | .arsh => x.sshiftRight (y.toNat % w)

/-- the ALU at the width the `LONG` flag selects -/
def aluSem (op : BinOp) (long : Bool) (a b : W) : W :=
  if long then aluOp op 64 a b else (aluOp op 32 (a.truncate 32) (b.truncate 32)).zeroExtend 64

def negSem (long : Bool) (a : W) : W :=
  if long then -a else (-(a.truncate 32) : BitVec 32).zeroExtend 64

theorem exec_mov_imm (s : State) (d : Nat) (v : Int) :
    exec [⟨Consts.op_MOV + Consts.op_LONG, d, 0, 0, v⟩] s = some (s.setReg d (simm v)).norm := by
  simp [exec, step1, step, fetch, Consts.op_MOV, Consts.op_LONG, alu, State.norm, State.setReg]

theorem exec_ld_imm64 (s : State) (d : Nat) (lo hi : Int) :
    exec [⟨Consts.op_DW, d, 0, 0, lo⟩, ⟨Consts.op_W, 0, 0, 0, hi⟩] s =
      some (s.setReg d ((imm32 lo).zeroExtend 64 ||| ((imm32 hi).zeroExtend 64 <<< 32))).norm := by
  simp [exec, step2, step, fetch, Consts.op_DW, Consts.op_W, State.norm, State.setReg]

theorem exec_mov_reg (s : State) (long : Bool) (d n : Nat) :
    exec [⟨Consts.op_MOV + Consts.op_REG + longBit long, d, n, 0, 0⟩] s =
      some (s.setReg d (if long then s.regs n else lo32 (s.regs n))).norm := by
  cases long <;>
    simp [exec, step1, step, fetch, Consts.op_MOV, Consts.op_REG, Consts.op_LONG, longBit, alu, State.norm,
      State.setReg, lo32]

theorem exec_alu_imm (s : State) (op : BinOp) (long : Bool) (d : Nat) (v : Int) :
    exec [⟨op.opcode + longBit long, d, 0, 0, v⟩] s = some (s.setReg d (aluSem op long (s.regs d) (simm v))).norm := by
  cases op <;> cases long <;>
    simp [exec, step1, step, fetch, BinOp.opcode, Consts.op_ADD, Consts.op_SUB, Consts.op_MUL, Consts.op_DIV,
      Consts.op_OR, Consts.op_AND, Consts.op_LSH, Consts.op_RSH, Consts.op_MOD, Consts.op_XOR, Consts.op_ARSH,
      Consts.op_LONG, longBit, alu, State.norm, State.setReg, aluSem, aluOp]

theorem exec_alu_reg (s : State) (op : BinOp) (long : Bool) (d n : Nat) :
    exec [⟨op.opcode + Consts.op_REG + longBit long, d, n, 0, 0⟩] s =
      some (s.setReg d (aluSem op long (s.regs d) (s.regs n))).norm := by
  cases op <;> cases long <;>
    simp [exec, step1, step, fetch, BinOp.opcode, Consts.op_ADD, Consts.op_SUB, Consts.op_MUL, Consts.op_DIV,
      Consts.op_OR, Consts.op_AND, Consts.op_LSH, Consts.op_RSH, Consts.op_MOD, Consts.op_XOR, Consts.op_ARSH,
      Consts.op_LONG, Consts.op_REG, longBit, alu, State.norm, State.setReg, aluSem, aluOp]

theorem exec_neg (s : State) (long : Bool) (d : Nat) :
    exec [⟨Consts.op_NEG + longBit long, d, 0, 0, 0⟩] s = some (s.setReg d (negSem long (s.regs d))).norm := by
  cases long <;>
    simp [exec, step1, step, fetch, Consts.op_NEG, Consts.op_LONG, longBit, State.norm, State.setReg, negSem]

theorem exec_ldx (s : State) (fmt : Fmt) (d n : Nat) (off : Int) :
    exec [⟨Consts.op_LD + fmt.sizeOp, d, n, off, 0⟩] s =
      some (s.setReg d (BitVec.ofNat 64 (loadN s.mem (s.regs n + BitVec.ofInt 64 off) fmt.size))).norm := by
  cases fmt <;>
    simp [exec, step1, step, fetch, Consts.op_LD, Fmt.sizeOp, Fmt.size, Consts.op_B, Consts.op_H, Consts.op_W,
      Consts.op_DW, Ebpf.sizeOf, State.norm, State.setReg]

theorem exec_st (s : State) (fmt : Fmt) (d : Nat) (off v : Int) :
    exec [⟨Consts.op_ST + fmt.sizeOp, d, 0, off, v⟩] s =
      some (s.setMem (storeN s.mem (s.regs d + BitVec.ofInt 64 off) fmt.size (simm v).toNat)).norm := by
  cases fmt <;>
    simp [exec, step1, step, fetch, Consts.op_ST, Fmt.sizeOp, Fmt.size, Consts.op_B, Consts.op_H, Consts.op_W,
      Consts.op_DW, Ebpf.sizeOf, State.norm, State.setMem]

theorem exec_stx (s : State) (fmt : Fmt) (d n : Nat) (off : Int) :
    exec [⟨Consts.op_STX + fmt.sizeOp, d, n, off, 0⟩] s =
      some (s.setMem (storeN s.mem (s.regs d + BitVec.ofInt 64 off) fmt.size (s.regs n).toNat)).norm := by
  cases fmt <;>
    simp [exec, step1, step, fetch, Consts.op_STX, Fmt.sizeOp, Fmt.size, Consts.op_B, Consts.op_H, Consts.op_W,
      Consts.op_DW, Ebpf.sizeOf, State.norm, State.setMem]

/-! straightness of the emitted shapes -/
theorem straight_alu (op : BinOp) (long reg : Bool) (d n : Nat) (o v : Int) :
    straight ⟨op.opcode + (if reg then Consts.op_REG else 0) + longBit long, d, n, o, v⟩ = true := by
  cases op <;> cases long <;> cases reg <;>
    simp [straight, BinOp.opcode, longBit, Consts.op_ADD, Consts.op_SUB, Consts.op_MUL, Consts.op_DIV,
      Consts.op_OR, Consts.op_AND, Consts.op_LSH, Consts.op_RSH, Consts.op_MOD, Consts.op_XOR, Consts.op_ARSH,
      Consts.op_LONG, Consts.op_REG]


/-- closes `straight ⟨concrete opcode expression, ..⟩ = true` goals (after case splits on flags/formats) -/
macro "straight_tac" : tactic => `(tactic|
  simp [straight, BinOp.opcode, longBit, Fmt.sizeOp, Consts.op_ADD, Consts.op_SUB, Consts.op_MUL, Consts.op_DIV,
    Consts.op_OR, Consts.op_AND, Consts.op_LSH, Consts.op_RSH, Consts.op_MOD, Consts.op_XOR, Consts.op_ARSH,
    Consts.op_LONG, Consts.op_REG, Consts.op_MOV, Consts.op_NEG, Consts.op_DW, Consts.op_W, Consts.op_H, Consts.op_B,
    Consts.op_LD, Consts.op_ST, Consts.op_STX])

end Ebv.Ebpf
