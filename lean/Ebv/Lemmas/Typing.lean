import Ebv.Lemmas.Surface
/-! # Property-level typing of surface expressions, and the proof that the operator overloads implement it

`SExpr.psigned` says what the signedness of an expression IS according to the property text (leaves by their declared
kind; a result signed as soon as one operand is; four rules that follow from the exact value of the result: `-a`
signed, `abs` unsigned, `a & b` signed iff both are, `a >> n` like `a`; a sub-expression of plain Python `int`s is one
constant).  It is the Lean mirror of `harness/vh/dsl.py: psigned`, which the oracles of C01–C03 use for their
preconditions and known-finding classes instead of the implementation's own `signed` attributes.

`elab_psigned`: the `signed` attribute of the object the operator overloads build (`Expr.signed`, compared node by
node with the real objects in the correspondence) equals `psigned` of the text, for every expression.  Before
`Sum.__init__`, the `Sum ± int` methods and `AndExpression.__init__` were repaired this was false
(`Ebv.C01.before_fix_sum_signed`, `before_fix_sum_merged`, `before_fix_and_signed`). -/
namespace Ebv.Gen
open Ebv.Ebpf

/-- the value of a surface expression that is a plain Python `int` (`int (op) int` is folded by Python itself) -/
def SExpr.intVal : SExpr → Option Int
  | .c v => some v
  | .bin op a b =>
    match a.intVal, b.intVal with
    | some x, some y => (match intOp op x y with | .ok (.int v) => some v | _ => none)
    | _, _ => none
  | .neg a => a.intVal.map fun v => -v
  | .abs a => a.intVal.map fun v => Int.ofNat v.natAbs
  | _ => none

/-- the rule for one operator: `&` both, `>>` the left operand, every other operator either -/
def SOp.sg : SOp → Bool → Bool → Bool
  | .and, a, b => a && b
  | .rsh, a, _ => a
  | _, a, b => a || b

/-- **signedness of an expression as the property defines it** -/
def SExpr.psigned (env : List VarLoc) : SExpr → Bool
  | .c v => decide (v < 0)
  | .reg view _ => view.signed
  | .var name => match lookupVar env name with | some l => l.fmt.signed | none => false
  | .m fmt _ => fmt.signed
  | .neg a => match a.intVal with | some v => decide (-v < 0) | none => true
  | .abs _ => false
  | .bin op a b =>
    match (SExpr.bin op a b).intVal with
    | some v => decide (v < 0)
    | none => op.sg (a.psigned env) (b.psigned env)

/-- the `signed` attribute a Python value has once it is an operand (`Constant(v).signed = v < 0`) -/
def PyVal.signed : PyVal → Bool
  | .int v => decide (v < 0)
  | .ex e => e.signed

def PyVal.asInt : PyVal → Option Int
  | .int v => some v
  | .ex _ => none

theorem ensureExpr_signed {value : PyVal} {v : Expr} (h : ensureExpr value = .ok v) : v.signed = value.signed := by
  cases value <;> simp only [ensureExpr, Except.ok.injEq] at h <;> subst h <;> rfl

theorem exprBinary_signed (bop : BinOp) (self : Expr) (value v : PyVal) (h : exprBinary bop self value = .ok v) :
    v.asInt = none ∧ v.signed = (self.signed || value.signed) := by
  unfold exprBinary at h
  cases value with
  | int c => simp only [ensureExpr, bind, Except.bind, pure, Except.pure, Except.ok.injEq] at h; subst h; exact ⟨rfl, rfl⟩
  | ex e => simp only [ensureExpr, bind, Except.bind, pure, Except.pure, Except.ok.injEq] at h; subst h; exact ⟨rfl, rfl⟩

theorem sumShift_signed (d : Int) (neg : Bool) (self : Expr) (v : PyVal) (h : sumShift d neg self = some v) :
    v.asInt = none ∧ v.signed = (self.signed || neg) := by
  unfold sumShift at h
  split at h
  · cases h; exact ⟨rfl, rfl⟩
  · cases h

theorem exprAdd_signed (self : Expr) (value v : PyVal) (h : exprAdd self value = .ok v) :
    v.asInt = none ∧ v.signed = (self.signed || value.signed) := by
  unfold exprAdd at h
  cases value with
  | int c =>
    simp only [] at h
    split at h
    · cases h; exact ⟨rfl, rfl⟩
    · split at h
      · rename_i s hs
        cases h
        exact sumShift_signed c _ self _ hs
      · exact exprBinary_signed .add self _ v h
  | ex e => exact exprBinary_signed .add self _ v h

/-- `r2 - 1` has the signedness of `r2` and of the number `1` as written, not of the `-1` kept in the `Sum` -/
theorem exprSub_signed (self : Expr) (value v : PyVal) (h : exprSub self value = .ok v) :
    v.asInt = none ∧ v.signed = (self.signed || value.signed) := by
  unfold exprSub at h
  cases value with
  | int c =>
    simp only [] at h
    split at h
    · cases h; exact ⟨rfl, rfl⟩
    · split at h
      · rename_i s hs
        cases h
        exact sumShift_signed (-c) _ self _ hs
      · exact exprBinary_signed .sub self _ v h
  | ex e => exact exprBinary_signed .sub self _ v h

theorem exprOp_signed (op : SOp) (self : Expr) (value v : PyVal) (h : exprOp op self value = .ok v) :
    v.asInt = none ∧ v.signed = op.sg self.signed value.signed := by
  cases op <;> simp only [exprOp] at h
  · exact exprAdd_signed self value v h
  · exact exprSub_signed self value v h
  · exact exprBinary_signed .mul self value v h
  · exact exprBinary_signed .div self value v h
  · exact exprBinary_signed .mod self value v h
  · cases hv : ensureExpr value with
    | error e => rw [hv] at h; cases h
    | ok x =>
      rw [hv] at h
      simp only [bind, Except.bind, pure, Except.pure, Except.ok.injEq] at h
      subst h
      exact ⟨rfl, by show (self.signed && x.signed) = _; rw [ensureExpr_signed hv]; rfl⟩
  · exact exprBinary_signed .or self value v h
  · exact exprBinary_signed .xor self value v h
  · exact exprBinary_signed .lsh self value v h
  · cases hv : ensureExpr value with
    | error e => rw [hv] at h; cases h
    | ok x =>
      rw [hv] at h
      simp only [bind, Except.bind, pure, Except.pure, Except.ok.injEq, mkBin] at h
      subst h
      exact ⟨rfl, rfl⟩

theorem exprROp_signed (op : SOp) (self : Expr) (c : Int) (v : PyVal) (h : exprROp op self c = .ok v) :
    v.asInt = none ∧ v.signed = op.sg (decide (c < 0)) self.signed := by
  cases op <;> simp only [exprROp] at h
  · obtain ⟨h1, h2⟩ := exprAdd_signed self _ v h; exact ⟨h1, by rw [h2]; exact Bool.or_comm _ _⟩
  · exact exprOp_signed .sub (.const c) _ v h
  · obtain ⟨h1, h2⟩ := exprBinary_signed .mul self _ v h; exact ⟨h1, by rw [h2]; exact Bool.or_comm _ _⟩
  · simp only [pure, Except.pure, Except.ok.injEq, mkBin] at h; subst h; exact ⟨rfl, Bool.or_comm _ _⟩
  · exact exprOp_signed .mod (.const c) _ v h
  · obtain ⟨h1, h2⟩ := exprOp_signed .and self _ v h; exact ⟨h1, by rw [h2]; exact Bool.and_comm _ _⟩
  · obtain ⟨h1, h2⟩ := exprBinary_signed .or self _ v h; exact ⟨h1, by rw [h2]; exact Bool.or_comm _ _⟩
  · obtain ⟨h1, h2⟩ := exprBinary_signed .xor self _ v h; exact ⟨h1, by rw [h2]; exact Bool.or_comm _ _⟩
  · exact exprOp_signed .lsh (.const c) _ v h
  · exact exprOp_signed .rsh (.const c) _ v h

theorem intOp_int (op : SOp) (a b : Int) (v : PyVal) (h : intOp op a b = .ok v) : ∃ z, v = .int z := by
  cases op <;> simp only [intOp] at h <;> (try split at h) <;> (try cases h) <;> (try exact ⟨_, rfl⟩)

/-- one node of the operator protocol: two plain `int`s are folded by Python (the result is an `int`); otherwise the
result is an `Expression` whose `signed` attribute is the operator's rule applied to the operands' -/
theorem pyOp_signed (op : SOp) (x y v : PyVal) (h : pyOp op x y = .ok v) :
    (∀ a b, x = .int a → y = .int b → intOp op a b = .ok v) ∧
    ((x.asInt = none ∨ y.asInt = none) → v.asInt = none ∧ v.signed = op.sg x.signed y.signed) := by
  cases x with
  | int a =>
    cases y with
    | int b =>
      refine ⟨fun a' b' ha hb => (by cases ha; cases hb; exact h), fun hn => ?_⟩
      rcases hn with hn | hn <;> cases hn
    | ex e =>
      refine ⟨fun _ _ _ hb => (by cases hb), fun _ => ?_⟩
      exact exprROp_signed op e a v h
  | ex l =>
    refine ⟨fun _ _ ha _ => (by cases ha), fun _ => ?_⟩
    cases y with
    | int b =>
      simp only [pyOp] at h
      exact exprOp_signed op l (.int b) v h
    | ex r =>
      simp only [pyOp] at h
      split at h
      · rename_i hc
        simp only [Bool.and_eq_true, beq_iff_eq] at hc
        obtain ⟨h1, h2⟩ := exprAdd_signed r _ v h
        refine ⟨h1, ?_⟩
        rw [h2, hc.1.1]
        exact Bool.or_comm _ _
      · exact exprOp_signed op l (.ex r) v h

theorem natAbs_not_neg (z : Int) : decide ((Int.ofNat z.natAbs) < 0) = false := by
  simp only [decide_eq_false_iff_not, Int.not_lt]
  exact Int.natCast_nonneg _

/-- **the operator overloads implement the property-level typing**: whatever Python value walking a surface
expression yields — a folded `int` (then `intVal` is that number) or an `Expression` tree — its `signed` attribute is
`psigned` of the expression as written.  All operators, reflected operators, `Register ± int → Sum`,
`Sum ± int → Sum`, `Binary + Sum`, `&`, `>>`, unary minus, `abs`, variables and computed addresses. -/
theorem elab_psigned (env : List VarLoc) : ∀ (s : SExpr) (v : PyVal),
    elabE env s = .ok v → s.intVal = v.asInt ∧ v.signed = s.psigned env := by
  intro s
  induction s with
  | c z => intro v h; simp only [elabE, pure, Except.pure, Except.ok.injEq] at h; subst h; exact ⟨rfl, rfl⟩
  | reg view no => intro v h; simp only [elabE, pure, Except.pure, Except.ok.injEq] at h; subst h; exact ⟨rfl, rfl⟩
  | var name =>
    intro v h
    simp only [elabE] at h
    split at h
    · rename_i l hl
      simp only [pure, Except.pure, Except.ok.injEq] at h; subst h
      refine ⟨rfl, ?_⟩
      simp only [SExpr.psigned, hl]
      rfl
    · cases h
  | bin op a b iha ihb =>
    intro v h
    simp only [elabE, bind, Except.bind] at h
    cases hx : elabE env a with
    | error e => rw [hx] at h; cases h
    | ok x =>
      rw [hx] at h
      simp only [] at h
      cases hy : elabE env b with
      | error e => rw [hy] at h; cases h
      | ok y =>
        rw [hy] at h
        simp only [] at h
        obtain ⟨hia, hsa⟩ := iha x hx
        obtain ⟨hib, hsb⟩ := ihb y hy
        obtain ⟨hint, hex⟩ := pyOp_signed op x y v h
        cases x with
        | int p =>
          cases y with
          | int q =>
            have hv := hint p q rfl rfl
            obtain ⟨z, hz⟩ := intOp_int op p q v hv
            subst hz
            have hiv : (SExpr.bin op a b).intVal = some z := by
              simp only [SExpr.intVal, hia, hib, PyVal.asInt, hv]
            exact ⟨hiv, by simp only [SExpr.psigned, hiv]; rfl⟩
          | ex e =>
            obtain ⟨h1, h2⟩ := hex (Or.inr rfl)
            have hiv : (SExpr.bin op a b).intVal = none := by
              simp only [SExpr.intVal, hia, hib, PyVal.asInt]
            exact ⟨by rw [hiv, h1], by simp only [SExpr.psigned, hiv, h2, hsa, hsb]⟩
        | ex e =>
          obtain ⟨h1, h2⟩ := hex (Or.inl rfl)
          have hiv : (SExpr.bin op a b).intVal = none := by
            simp only [SExpr.intVal, hia, PyVal.asInt]
          exact ⟨by rw [hiv, h1], by simp only [SExpr.psigned, hiv, h2, hsa, hsb]⟩
  | neg a ih =>
    intro v h
    simp only [elabE, bind, Except.bind] at h
    cases hx : elabE env a with
    | error e => rw [hx] at h; cases h
    | ok x =>
      rw [hx] at h
      obtain ⟨hia, _⟩ := ih x hx
      cases x with
      | int z =>
        simp only [pyNeg, pure, Except.pure, Except.ok.injEq] at h; subst h
        exact ⟨by simp only [SExpr.intVal, hia, PyVal.asInt, Option.map_some], by simp only [SExpr.psigned, hia, PyVal.asInt]; rfl⟩
      | ex e =>
        simp only [pyNeg, pure, Except.pure, Except.ok.injEq] at h; subst h
        exact ⟨by simp only [SExpr.intVal, hia, PyVal.asInt, Option.map_none], by simp only [SExpr.psigned, hia, PyVal.asInt]; rfl⟩
  | abs a ih =>
    intro v h
    simp only [elabE, bind, Except.bind] at h
    cases hx : elabE env a with
    | error e => rw [hx] at h; cases h
    | ok x =>
      rw [hx] at h
      obtain ⟨hia, _⟩ := ih x hx
      cases x with
      | int z =>
        simp only [pyAbs, pure, Except.pure, Except.ok.injEq] at h; subst h
        exact ⟨by simp only [SExpr.intVal, hia, PyVal.asInt, Option.map_some], natAbs_not_neg z⟩
      | ex e =>
        simp only [pyAbs, pure, Except.pure, Except.ok.injEq] at h; subst h
        exact ⟨by simp only [SExpr.intVal, hia, PyVal.asInt, Option.map_none], rfl⟩
  | m f a _ =>
    intro v h
    simp only [elabE, bind, Except.bind] at h
    cases hx : elabE env a with
    | error e => rw [hx] at h; cases h
    | ok x =>
      rw [hx] at h
      cases x with
      | int z => simp only [memItem] at h; cases h
      | ex e =>
        simp only [memItem] at h
        split at h
        · simp only [bind, Except.bind] at h
          split at h
          · cases h
          · rename_i a' ha
            split at h
            · simp only [pure, Except.pure, Except.ok.injEq] at h; subst h; exact ⟨rfl, rfl⟩
            · cases h
        · simp only [pure, Except.pure, Except.ok.injEq] at h; subst h; exact ⟨rfl, rfl⟩

end Ebv.Gen
