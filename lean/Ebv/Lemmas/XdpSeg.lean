import Ebv.Lemmas.XdpExec
/-! Composing symbolic executions of code segments: `Steps n s s'` = the run from `s` passes through `s'` after at
most `n` instructions; segments compose, and a segment followed by `EXIT` gives the outcome for every larger fuel. -/
namespace Ebv.XdpRun
open Ebv.Ebpf

def Steps (e : Env) (prog : List Insn) (n : Nat) (s s' : State) : Prop :=
  ∃ k, k ≤ n ∧ ∀ f, runXdp e prog (f + k) s = runXdp e prog f s'

theorem Steps.refl (e : Env) (prog : List Insn) (s : State) : Steps e prog 0 s s := ⟨0, Nat.le_refl _, fun _ => rfl⟩

theorem Steps.trans {e : Env} {prog : List Insn} {n1 n2 : Nat} {s s1 s2 : State}
    (h1 : Steps e prog n1 s s1) (h2 : Steps e prog n2 s1 s2) : Steps e prog (n1 + n2) s s2 := by
  obtain ⟨k1, hk1, e1⟩ := h1
  obtain ⟨k2, hk2, e2⟩ := h2
  refine ⟨k2 + k1, by omega, fun f => ?_⟩
  rw [← Nat.add_assoc, e1, e2]

theorem Steps.mono {e : Env} {prog : List Insn} {n m : Nat} {s s' : State} (h : Steps e prog n s s') (hm : n ≤ m) :
    Steps e prog m s s' := by
  obtain ⟨k, hk, e1⟩ := h; exact ⟨k, by omega, e1⟩

/-- more fuel does not change a run that ended -/
theorem runXdp_mono (e : Env) (prog : List Insn) : ∀ (f : Nat) (s : State),
    runXdp e prog f s ≠ .fuel → runXdp e prog (f + 1) s = runXdp e prog f s := by
  intro f
  induction f with
  | zero => intro s h; exact absurd rfl h
  | succ f ih =>
    intro s h
    rw [runXdp] at h ⊢
    rw [runXdp]
    cases hp : pseudo prog s.pc with
    | some x =>
      obtain ⟨d, fd⟩ := x
      simp only [hp] at h ⊢
      exact ih _ h
    | none =>
      simp only [hp] at h ⊢
      cases hs : step prog s with
      | next s' => simp only [hs, afterStep] at h ⊢; exact ih _ h
      | exit r => simp only [afterStep]
      | bad => simp only [afterStep]
      | call id s' =>
        simp only [hs, afterStep] at h ⊢
        cases hh : helper e id s' with
        | ret s'' => simp only [hh, afterHelper] at h ⊢; exact ih _ h
        | tail s'' => simp only [afterHelper]
        | unknown => simp only [afterHelper]

theorem runXdp_add (e : Env) (prog : List Insn) (f k : Nat) (s : State) (h : runXdp e prog f s ≠ .fuel) :
    runXdp e prog (f + k) s = runXdp e prog f s := by
  induction k with
  | zero => rfl
  | succ k ih => rw [← Nat.add_assoc, runXdp_mono e prog (f + k) s (by rw [ih]; exact h), ih]

/-- a run that reaches `s'` within `n` instructions, where one more instruction exits -/
theorem Steps.exit {e : Env} {prog : List Insn} {n : Nat} {s s' s'' : State} {r : W}
    (h : Steps e prog n s s') (hx : ∀ f, runXdp e prog (f + 1) s' = .exit r s'') (fuel : Nat) (hf : n + 1 ≤ fuel) :
    runXdp e prog fuel s = .exit r s'' := by
  obtain ⟨k, hk, e1⟩ := h
  have h1 : runXdp e prog (1 + k) s = .exit r s'' := by
    rw [e1]; have := hx 0; rwa [Nat.zero_add] at this
  obtain ⟨j, rfl⟩ : ∃ j, fuel = (1 + k) + j := ⟨fuel - (1 + k), by omega⟩
  rw [runXdp_add e prog (1 + k) j s (by rw [h1]; exact fun hc => by cases hc), h1]

end Ebv.XdpRun
