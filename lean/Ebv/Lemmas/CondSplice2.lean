import Ebv.Lemmas.CondSplice
/-! `with (a & b) as Else: body` / `with Else: els` — the spliced layout
`operands ++ [JSET +|els|+1] ++ els ++ [JMP +|body|] ++ body` runs the selected branch. -/
namespace Ebv.Gen
open Ebv.Ebpf Ebv.C01

theorem getD_mid (X : List Insn) (a : Insn) (Y : List Insn) (d : Insn) : (X ++ [a] ++ Y).getD X.length d = a := by
  simp [List.getD_eq_getElem?_getD]

theorem elseBits_jmp (l r : Expr) (origin : Nat) (ins : Insn) (own : List Nat) (g : GenState)
    (h : (g.code.getD origin hole).op = Consts.op_JMP) :
    elseEnter (.bits l r) (.jump origin ins own) g =
      .ok (⟨.jump origin ins own, g.code.length, some origin⟩, { g with code := g.code ++ [hole] }) := by
  unfold elseEnter elseBits
  simp only [h, beq_self_eq_true, if_true]

theorem withElse_bits_correct (o : List Nat) (l r : Expr) (body els : GenM Unit) (semb seme : State → State → Prop)
    (ownb owne : List Nat) (hB : BlockOk o body semb ownb) (hE : BlockOk o els seme owne)
    (hsupb : Sub o ownb) (hsupe : Sub o owne) (hc : AtomOk o l r) :
    BlockOk o (withElse (.bits l r) body els)
      (fun σ σ' => ∃ σ1, Keep o σ σ1 ∧ (if CObj.mtruth (.bits l r) σ then semb σ1 σ' else seme σ1 σ')) o := by
  intro g g' hsub h
  unfold withElse at h
  rw [bind_ok] at h; obtain ⟨p, g1, hcmp, h⟩ := h
  rw [bind_ok] at h; obtain ⟨u, g2, hbody, h⟩ := h
  rw [bind_ok] at h; obtain ⟨p1, g3, htg, h⟩ := h
  rw [bind_ok] at h; obtain ⟨e, g4, hent, h⟩ := h
  rw [bind_ok] at h; obtain ⟨u2, g5, hels, hexit⟩ := h
  obtain ⟨c0, ins, hcode1, hp, ho1, hs1, hst, hrun⟩ := compare_bits_true l r g g1 p (hc.mono hsub) hcmp
  subst hp
  obtain ⟨hob, hsb, segb, hcb, hrunb⟩ := hB g1 g2 (by rw [ho1]; exact hsub) hbody
  -- __exit__ of the first block: target()
  simp only [target] at htg
  obtain ⟨t1, t2, t3, t4⟩ := targetJump_ok htg
  simp only [Bool.false_eq_true, if_false] at t1 t2 t3 t4
  have hl2 : g2.code.length = g.code.length + c0.length + 2 + segb.length := by
    rw [hcb, hcode1]; simp; omega
  have hoff : ((g2.code.length : Int) - ((g.code.length + c0.length + 1 : Nat) : Int) - 1) = segb.length := by
    rw [hl2]; omega
  rw [hoff] at t1
  have hcode3 : g3.code = (g.code ++ c0) ++ [{ ins with off := 1 }] ++ [⟨Consts.op_JMP, 0, 0, (segb.length : Int), 0⟩] ++ segb := by
    rw [t1, hcb, hcode1]
    have e : g.code ++ c0 ++ [{ ins with off := 1 }, hole] ++ segb = g.code ++ (c0 ++ [{ ins with off := 1 }, hole]) ++ segb := by simp
    rw [e, Nat.add_assoc, set_mid g.code _ segb (c0.length + 1) _ (by simp), set_last2']
    simp
  have ho3 : Sub o g3.owners := by
    rw [t3]; intro n hn; exact mem_inter.mpr ⟨hob n (hsupb n hn), hsub n hn⟩
  -- Else() of an AndComparison: the JMP is remembered, nothing is retargeted
  have hget : g3.code.getD (g.code.length + c0.length + 1) hole = ⟨Consts.op_JMP, 0, 0, (segb.length : Int), 0⟩ := by
    have e : g.code.length + c0.length + 1 = (g.code ++ c0 ++ [{ ins with off := 1 }]).length := by
      simp only [List.length_append, List.length_cons, List.length_nil]
    rw [hcode3, e]; exact getD_mid _ _ _ _
  rw [t4] at hent
  have hent2 : e = ⟨.jump (g.code.length + c0.length + 1) ⟨Consts.op_JMP, 0, 0, 0, 0⟩ g2.owners, g3.code.length,
      some (g.code.length + c0.length + 1)⟩ ∧ g4 = { g3 with code := g3.code ++ [hole] } := by
    rw [elseBits_jmp l r _ _ _ g3 (by rw [hget])] at hent
    cases hent; exact ⟨rfl, rfl⟩
  obtain ⟨he1, he2⟩ := hent2
  subst he1; subst he2
  clear hent
  obtain ⟨hoe, hse, sege, hce, hrune⟩ := hE { g3 with code := g3.code ++ [hole] } g5 ho3 hels
  -- __exit__ with else_origin, then the splice
  unfold elseExit at hexit
  rw [bind_ok] at hexit; obtain ⟨n, g5a, hn, hexit⟩ := hexit
  rw [bind_ok] at hexit; obtain ⟨u4, g5b, hset, hexit⟩ := hexit
  rw [bind_ok] at hexit; obtain ⟨os, g5c, hos, hexit⟩ := hexit
  erw [bind_ok] at hexit; obtain ⟨u5, g5d, hown, hexit⟩ := hexit
  rw [curLen_ok] at hn; rw [setSlot_ok] at hset; rw [getOwners_ok] at hos
  cases hn; cases hset; cases hos
  cases hown
  simp only [spliceIf] at hexit
  cases hexit
  have hl3 : g3.code.length = g.code.length + c0.length + 2 + segb.length := by
    rw [hcode3]; simp; omega
  have hl5 : g5.code.length = g3.code.length + 1 + sege.length := by rw [hce]; simp; omega
  have hfinal : spliceCode (g5.code.set g3.code.length ⟨Consts.op_JMP, 0, 0, (g5.code.length : Int) - g3.code.length - 1, 0⟩)
      (g.code.length + c0.length + 1) g3.code.length
      = g.code ++ (c0 ++ [{ ins with off := (sege.length : Int) + 1 }] ++ sege ++
          [⟨Consts.op_JMP, 0, 0, (segb.length : Int), 0⟩] ++ segb) := by
    have e3 : ((g5.code.length : Int) - g3.code.length - 1) = sege.length := by rw [hl5]; omega
    rw [e3, hce]
    have e1 : g3.code ++ [hole] ++ sege = [] ++ (g3.code ++ [hole]) ++ sege := by simp
    rw [e1]
    have := set_mid [] (g3.code ++ [hole]) sege g3.code.length ⟨Consts.op_JMP, 0, 0, (sege.length : Int), 0⟩ (by simp)
    simp only [List.length_nil, Nat.zero_add] at this
    rw [this, set_last, hcode3]
    have e4 : g.code.length + c0.length + 1 = (g.code ++ c0).length + 1 := by simp
    have e5 : ((g.code ++ c0) ++ [{ ins with off := 1 }] ++ [(⟨Consts.op_JMP, 0, 0, (segb.length : Int), 0⟩ : Insn)] ++ segb).length
        = (g.code ++ c0).length + 1 + 1 + segb.length := by simp; omega
    rw [e4, e5]
    have e6 : [] ++ ((g.code ++ c0) ++ [{ ins with off := 1 }] ++ [(⟨Consts.op_JMP, 0, 0, (segb.length : Int), 0⟩ : Insn)] ++ segb
        ++ [(⟨Consts.op_JMP, 0, 0, (sege.length : Int), 0⟩ : Insn)]) ++ sege
        = (g.code ++ c0) ++ [{ ins with off := 1 }] ++ [(⟨Consts.op_JMP, 0, 0, (segb.length : Int), 0⟩ : Insn)] ++ segb
        ++ [(⟨Consts.op_JMP, 0, 0, (sege.length : Int), 0⟩ : Insn)] ++ sege := by simp
    rw [e6, splice_shape]
    simp
  refine ⟨?_, by simp [hse, t2, hsb, hs1], _, hfinal, ?_⟩
  · intro n hn
    simp only []
    refine mem_inter.mpr ⟨hoe n (hsupe n hn), ?_⟩
    simp only [Pend.own]
    exact hob n (hsupb n hn)
  · intro σ
    obtain ⟨σ3, he, hk, hjmp⟩ := hrun σ
    obtain ⟨hcj, hdec⟩ := hjmp ((sege.length : Int) + 1)
    have hk' : Keep o σ σ3 := hk.mono hsub
    have hs0 : SegRun c0 σ σ3 := segRun_of_exec hst he
    have hj1 : JumpRun [{ ins with off := (sege.length : Int) + 1 }]
        ([({ ins with off := (sege.length : Int) + 1 } : Insn)].length +
          (sege ++ [(⟨Consts.op_JMP, 0, 0, (segb.length : Int), 0⟩ : Insn)]).length) σ3 σ3
        (CObj.mtruth (.bits l r) σ) :=
      jumpRun_cond _ _ σ3 _ hcj hdec (by simp) (by simp; omega)
    cases hm : CObj.mtruth (.bits l r) σ with
    | true =>
      rw [hm] at hj1
      obtain ⟨σ2, hs2, hsem⟩ := hrunb σ3
      refine ⟨σ2, ?_, σ3, hk', by first | (simp only [hm]; simpa using hsem) | simpa using hsem⟩
      have := SegRun.append hs0 (JumpRun.over hj1 hs2)
      simpa [List.append_assoc] using this
    | false =>
      rw [hm] at hj1
      obtain ⟨σ4, hs4, hsem⟩ := hrune σ3
      refine ⟨σ4, ?_, σ3, hk', by first | (simp only [hm]; simpa using hsem) | simpa using hsem⟩
      have hja : JumpRun [(⟨Consts.op_JMP, 0, 0, (segb.length : Int), 0⟩ : Insn)]
          ([(⟨Consts.op_JMP, 0, 0, (segb.length : Int), 0⟩ : Insn)].length + segb.length) σ4 σ4 true :=
        jumpRun_ja _ _ σ4 rfl (by simp) (by simp only [List.length_cons, List.length_nil]; omega)
      have hskip : SegRun ([(⟨Consts.op_JMP, 0, 0, (segb.length : Int), 0⟩ : Insn)] ++ segb) σ4 σ4 :=
        JumpRun.join hja (fun h => by cases h) (fun _ => rfl)
      have := SegRun.append hs0 (SegRun.append (SegRun.append hj1.toSeg hs4) hskip)
      simpa [List.append_assoc] using this

end Ebv.Gen
