import Ebv.Lemmas.CondCalc2
import Ebv.Lemmas.Assign
import Ebv.Lemmas.CondJump
/-! `SimpleComparison.compare`, part 1: operands and the widening shift pair. -/
namespace Ebv.Gen
open Ebv.Ebpf

/-- the width at which an operand's register content is known after `calculate(None, None)` -/
def opW (e : Expr) : Bool := widthOf e || exactShort e

/-- width at which the right operand is analysed: 64 bits when the left operand asks for them -/
def rW (l r : Expr) : Bool := if (l.signed || r.signed) && widthOf l then true else opW r

/-- static hypotheses on a comparison operand computed at width `b` into any register -/
structure OperandOk (e : Expr) (b : Bool) (o : List Nat) : Prop where
  leaves : leavesOwned o e
  frag : e.frag = true
  narrow : narrowIn64 e b false .any = false

theorem OperandOk.pre {e : Expr} {b : Bool} {o : List Nat} (h : OperandOk e b o) {g : GenState}
    (hsub : ∀ n, n ∈ o → n ∈ g.owners) : Pre e none b false g :=
  ⟨fun n hn => (by cases hn), fun hf => (by cases hf), leavesOwned_mono hsub h.leaves, h.frag,
    by simpa [dctx] using h.narrow⟩

/-- left operand: `calculate(None, None)` -/
theorem calc_operand (e : Expr) (g g' : GenState) (res : CalcRes) (hp : Pre e none (opW e) false g)
    (h : calculate e none none false g = .ok (res, g')) : Post e none (opW e) false g res g' := by
  by_cases hx : exactShort e = true
  · have hw : opW e = true := by simp [opW, hx]
    rw [calc_exact e hx] at h
    rw [hw] at hp ⊢
    exact calc_correct e none true false g g' res hp h
  · have hw : opW e = widthOf e := by simp [opW, hx]
    rw [hw] at hp ⊢
    exact calc_correct e none (widthOf e) false g g' res hp (calc_none e none false g g' res h)

/-- right operand: `calculate(None, (left.signed or right.signed) and l_long or None)` -/
theorem calc_operand_r (l r : Expr) (g g' : GenState) (res : CalcRes) (hp : Pre r none (rW l r) false g)
    (h : calculate r none (if (l.signed || r.signed) && widthOf l then some true else none) false g = .ok (res, g')) :
    Post r none (rW l r) false g res g' := by
  by_cases hc : ((l.signed || r.signed) && widthOf l) = true
  · simp only [rW, hc, if_true] at h hp ⊢
    exact calc_correct r none true false g g' res hp h
  · simp only [rW, hc] at h hp ⊢
    exact calc_operand r g g' res hp h

theorem shl32_trunc (x : W) : ((x.truncate 32).setWidth 64) <<< 32 = x <<< 32 := by
  apply BitVec.eq_of_getLsbD_eq
  intro i hi
  simp only [BitVec.getLsbD_shiftLeft, BitVec.getLsbD_setWidth, BitVec.truncate_eq_setWidth]
  by_cases h : i < 32
  · simp [h]
  · have : i - 32 < 32 := by omega
    simp [h, this, hi]
    intro _; omega

/-- `x <<= 32; x s>>= 32` sign-extends the low half -/
theorem widen_val (x : W) :
    aluSem .arsh true (aluSem .lsh true x (BitVec.ofInt 64 32)) (BitVec.ofInt 64 32) = (x.truncate 32).signExtend 64 := by
  have e32 : (BitVec.ofInt 64 32).toNat % 64 = 32 := by decide
  simp only [aluSem, aluOp, if_true, e32]
  rw [← shl32_trunc]
  exact shl_sshr_signExtend 32 64 (x.truncate 32) (by omega) (by omega)

def lshE (dst : Nat) : Expr := .bin .lsh (.reg dst true false) (.const 32) false .plain
def arshE (dst : Nat) : Expr := .bin .arsh (.reg dst true true) (.const 32) true .plain

/-- the widening pair as the generator emits it through `RegisterArray.__setitem__` -/
theorem widen_correct (dst : Nat) (g g' : GenState) (hd : dst ∈ g.owners) (h : widen dst g = .ok ((), g')) :
    Emits g g' (fun σ σ' => σ'.regs dst = ((σ.regs dst).truncate 32).signExtend 64 ∧
      (∀ n ∈ g.owners, n ≠ dst → σ'.regs n = σ.regs n) ∧ σ'.mem = σ.mem) ∧ g'.owners = g.owners := by
  simp only [widen] at h
  rw [bind_ok] at h
  obtain ⟨u, g1, h1, h2⟩ := h
  have hc : g.owners.contains dst = true := by simpa using hd
  have p1 : PreReg (lshE dst) dst true g := ⟨⟨hd, trivial⟩, rfl, by simp [lshE, narrowIn64]⟩
  obtain ⟨⟨⟨c1, hc1, hs1, hr1⟩, hst1⟩, ho1⟩ := setReg_correct (lshE dst) dst true g g1 p1 h1
  rw [hc] at ho1; simp only [if_true] at ho1
  have hd1 : dst ∈ g1.owners := by rw [ho1]; exact hd
  have hc' : g1.owners.contains dst = true := by simpa using hd1
  have p2 : PreReg (arshE dst) dst true g1 := ⟨⟨hd1, trivial⟩, rfl, by simp [arshE, narrowIn64]⟩
  obtain ⟨⟨⟨c2, hc2, hs2, hr2⟩, hst2⟩, ho2⟩ := setReg_correct (arshE dst) dst true g1 g' p2 h2
  rw [hc'] at ho2; simp only [if_true] at ho2
  refine ⟨⟨⟨c1 ++ c2, by rw [hc2, hc1, List.append_assoc], ?_, ?_⟩, by rw [hst2, hst1]⟩, by rw [ho2, ho1]⟩
  · intro i hi
    rcases List.mem_append.mp hi with hi | hi
    · exact hs1 i hi
    · exact hs2 i hi
  · intro σ
    obtain ⟨σ1, he1, hv1, hf1, hm1⟩ := hr1 σ
    obtain ⟨σ2, he2, hv2, hf2, hm2⟩ := hr2 σ1
    refine ⟨σ2, by rw [exec_append he1]; exact he2, ?_, ?_, by rw [hm2, hm1]⟩
    · simp only [Agree, if_true, lshE, arshE, evalBV] at hv1 hv2
      rw [hv2, hv1]
      exact widen_val _
    · intro n hn hne
      rw [hf2 n (by rw [ho1]; exact hn) hne, hf1 n hn hne]

end Ebv.Gen
