import Ebv.Lemmas.Sem
namespace Ebv.Gen
open Ebv.Ebpf

/-! Python's integer semantics and the homomorphism ℤ → bit vectors -/

theorem zBits_fits (a : Int) (n : Nat) (h : zBits a ≤ n) : a.bmod (2 ^ n) = a := by
  have h1 : a.natAbs < 2 ^ (a.natAbs.log2 + 1) := Nat.lt_log2_self
  unfold zBits at h
  have h2 : 2 ^ (a.natAbs.log2 + 1) * 2 ≤ 2 ^ n := by
    rw [← Nat.pow_succ]; exact Nat.pow_le_pow_right (by omega) h
  apply Int.bmod_eq_of_le
  · have : ((2 ^ n : Nat) : Int) / 2 ≥ (2 ^ (a.natAbs.log2 + 1) : Nat) := by omega
    omega
  · have : (((2 ^ n : Nat) : Int) + 1) / 2 ≥ (2 ^ (a.natAbs.log2 + 1) : Nat) := by omega
    omega

theorem ofInt_setWidth {n w : Nat} (a : Int) (h : w ≤ n) : (BitVec.ofInt n a).setWidth w = BitVec.ofInt w a := by
  apply BitVec.eq_of_toNat_eq
  simp only [BitVec.toNat_setWidth, BitVec.toNat_ofInt]
  have pn : (0 : Int) < ((2 ^ n : Nat) : Int) := by exact_mod_cast Nat.two_pow_pos n
  have pw : (0 : Int) < ((2 ^ w : Nat) : Int) := by exact_mod_cast Nat.two_pow_pos w
  have h1 : 0 ≤ a % ((2 ^ n : Nat) : Int) := Int.emod_nonneg _ (by omega)
  have h2 : 0 ≤ a % ((2 ^ w : Nat) : Int) := Int.emod_nonneg _ (by omega)
  have hdvd : ((2 ^ w : Nat) : Int) ∣ ((2 ^ n : Nat) : Int) := by
    obtain ⟨k, rfl⟩ : ∃ k, n = w + k := ⟨n - w, by omega⟩
    exact ⟨((2 ^ k : Nat) : Int), by rw [Nat.pow_add]; push_cast; rfl⟩
  apply Int.ofNat_inj.mp
  rw [Int.natCast_emod, Int.toNat_of_nonneg h1, Int.toNat_of_nonneg h2, Int.emod_emod_of_dvd _ hdvd]

theorem ofInt_toInt_setWidth {n w : Nat} (v : BitVec n) (h : w ≤ n) : BitVec.ofInt w v.toInt = v.setWidth w := by
  have := ofInt_setWidth (n := n) (w := w) v.toInt h
  rw [BitVec.ofInt_toInt] at this
  exact this.symm

theorem signExtend_ofInt_fits {n w : Nat} (a : Int) (h : zBits a ≤ n) :
    (BitVec.ofInt n a).signExtend w = BitVec.ofInt w a := by
  unfold BitVec.signExtend
  rw [BitVec.toInt_ofInt, zBits_fits a n h]

/-- the bit-vector image of Python's bitwise operators, for any operation that commutes with truncation and
sign extension -/
theorem zBitop_hom (f : (n : Nat) → BitVec n → BitVec n → BitVec n)
    (hsw : ∀ n k (x y : BitVec n), (f n x y).setWidth k = f k (x.setWidth k) (y.setWidth k))
    (hse : ∀ n k (x y : BitVec n), (f n x y).signExtend k = f k (x.signExtend k) (y.signExtend k))
    (a b : Int) (w : Nat) : BitVec.ofInt w (zBitop f a b) = f w (BitVec.ofInt w a) (BitVec.ofInt w b) := by
  unfold zBitop
  simp only []
  generalize hn : max (zBits a) (zBits b) = n
  have ha : zBits a ≤ n := by omega
  have hb : zBits b ≤ n := by omega
  by_cases hw : w ≤ n
  · rw [ofInt_toInt_setWidth _ hw, hsw, ofInt_setWidth a hw, ofInt_setWidth b hw]
  · have : BitVec.ofInt w (f n (BitVec.ofInt n a) (BitVec.ofInt n b)).toInt
        = (f n (BitVec.ofInt n a) (BitVec.ofInt n b)).signExtend w := rfl
    rw [this, hse, signExtend_ofInt_fits a ha, signExtend_ofInt_fits b hb]

theorem ofInt_zOr (w : Nat) (a b : Int) : BitVec.ofInt w (zOr a b) = BitVec.ofInt w a ||| BitVec.ofInt w b :=
  zBitop_hom _ (fun _ _ _ _ => BitVec.setWidth_or) (fun _ _ _ _ => BitVec.signExtend_or) a b w
theorem ofInt_zAnd (w : Nat) (a b : Int) : BitVec.ofInt w (zAnd a b) = BitVec.ofInt w a &&& BitVec.ofInt w b :=
  zBitop_hom _ (fun _ _ _ _ => BitVec.setWidth_and) (fun _ _ _ _ => BitVec.signExtend_and) a b w
theorem ofInt_zXor (w : Nat) (a b : Int) : BitVec.ofInt w (zXor a b) = BitVec.ofInt w a ^^^ BitVec.ofInt w b :=
  zBitop_hom _ (fun _ _ _ _ => BitVec.setWidth_xor) (fun _ _ _ _ => BitVec.signExtend_xor) a b w

example : zOr (-6) 3 = -5 ∧ zAnd (-6) 3 = 2 ∧ zXor (-6) 3 = -7 ∧ zAnd 12 10 = 8 := by decide

end Ebv.Gen
