import Ebv.Lemmas.Calc
import Ebv.Model.MiniVerifier
/-! C05, link to the generator model `Ebv.Gen` (the C01 fragment): every register an emitted instruction reads is in the
set `W` of registers that had a value before the segment, or is written earlier in the same segment.

`covered W c` scans a straight-line segment: the reads of each instruction must be in `W`, then its `defs` are added.
(The only jump `Gen` emits inside a segment is `abs`'s `JSGE +1` over a `NEG dst`, which re-defines a register that is in the
set already, so the linear scan is also right for it.) -/
namespace Ebv.C05
open Ebv.Ebpf Ebv.Gen Ebv.MiniV

/-- every read is of a register in `W` or written earlier in the segment -/
def covered : List Nat → List Insn → Prop
  | _, [] => True
  | W, i :: c => (∀ r ∈ reads i, r ∈ W) ∧ covered (defs i ++ W) c

/-- the registers with a value after the segment -/
def after (W : List Nat) (c : List Insn) : List Nat := c.foldl (fun W i => defs i ++ W) W

theorem after_append (W : List Nat) (c1 c2 : List Insn) : after W (c1 ++ c2) = after (after W c1) c2 := by
  simp [after, List.foldl_append]

theorem covered_append : ∀ (c1 c2 : List Insn) (W : List Nat),
    covered W (c1 ++ c2) ↔ covered W c1 ∧ covered (after W c1) c2
  | [], c2, W => by simp [covered, after]
  | i :: c1, c2, W => by
    simp only [List.cons_append, covered, after, List.foldl_cons]
    rw [covered_append c1 c2]
    simp only [after, and_assoc]

theorem mem_after_of_mem : ∀ (c : List Insn) {W : List Nat} {r : Nat}, r ∈ W → r ∈ after W c
  | [], _, _, h => h
  | i :: c, W, r, h => by
    simp only [after, List.foldl_cons]
    exact mem_after_of_mem c (List.mem_append_right _ h)

theorem after_mono : ∀ (c : List Insn) {W W' : List Nat}, (∀ r, r ∈ W → r ∈ W') → ∀ r, r ∈ after W c → r ∈ after W' c
  | [], _, _, h, r, hr => h r hr
  | i :: c, W, W', h, r, hr => by
    simp only [after, List.foldl_cons] at hr ⊢
    refine after_mono c ?_ r hr
    intro x hx
    rcases List.mem_append.mp hx with hx | hx
    · exact List.mem_append_left _ hx
    · exact List.mem_append_right _ (h x hx)

theorem covered_mono : ∀ (c : List Insn) {W W' : List Nat}, (∀ r, r ∈ W → r ∈ W') → covered W c → covered W' c
  | [], _, _, _, _ => trivial
  | i :: c, W, W', h, hc => by
    refine ⟨fun r hr => h r (hc.1 r hr), covered_mono c ?_ hc.2⟩
    intro x hx
    rcases List.mem_append.mp hx with hx | hx
    · exact List.mem_append_left _ hx
    · exact List.mem_append_right _ (h x hx)

theorem covered_one {W : List Nat} {i : Insn} (h : ∀ r ∈ reads i, r ∈ W) : covered W [i] := ⟨h, trivial⟩

theorem after_one (W : List Nat) (i : Insn) : after W [i] = defs i ++ W := rfl

/-- appending one instruction to a covered segment -/
theorem covered_snoc {W : List Nat} {c : List Insn} {i : Insn} (hc : covered W c) (h : ∀ r ∈ reads i, r ∈ after W c) :
    covered W (c ++ [i]) :=
  (covered_append c [i] W).mpr ⟨hc, covered_one h⟩

theorem mem_after_snoc {W : List Nat} {c : List Insn} {i : Insn} {r : Nat} (h : r ∈ defs i ∨ r ∈ after W c) :
    r ∈ after W (c ++ [i]) := by
  rw [after_append, after_one]
  rcases h with h | h
  · exact List.mem_append_left _ h
  · exact List.mem_append_right _ h

/-! ## reads and writes of the instruction shapes `Gen` emits -/

theorem rd_mov_imm (d : Nat) (v : Int) :
    reads ⟨Consts.op_MOV + Consts.op_LONG, d, 0, 0, v⟩ = [] ∧ defs ⟨Consts.op_MOV + Consts.op_LONG, d, 0, 0, v⟩ = [d] := by
  simp [reads, defs, isAlu, cls, code, useReg, Consts.op_MOV, Consts.op_LONG]

theorem rd_ld_imm64 (d : Nat) (lo hi : Int) :
    reads ⟨Consts.op_DW, d, 0, 0, lo⟩ = [] ∧ defs ⟨Consts.op_DW, d, 0, 0, lo⟩ = [d] ∧
    reads ⟨Consts.op_W, 0, 0, 0, hi⟩ = [] ∧ defs ⟨Consts.op_W, 0, 0, 0, hi⟩ = [] := by
  simp [reads, defs, isAlu, isJmpCls, isCall, isLdImm64, isLdx, isSt, cls, code, Consts.op_DW, Consts.op_W]

theorem rd_mov_reg (long : Bool) (d n : Nat) :
    reads ⟨Consts.op_MOV + Consts.op_REG + longBit long, d, n, 0, 0⟩ = [n] ∧
    defs ⟨Consts.op_MOV + Consts.op_REG + longBit long, d, n, 0, 0⟩ = [d] := by
  cases long <;> simp [reads, defs, isAlu, cls, code, useReg, Consts.op_MOV, Consts.op_REG, Consts.op_LONG, longBit]

theorem rd_alu_imm (op : BinOp) (long : Bool) (d : Nat) (v : Int) :
    reads ⟨op.opcode + longBit long, d, 0, 0, v⟩ = [d] ∧ defs ⟨op.opcode + longBit long, d, 0, 0, v⟩ = [d] := by
  cases op <;> cases long <;>
    simp [reads, defs, isAlu, cls, code, useReg, BinOp.opcode, Consts.op_ADD, Consts.op_SUB, Consts.op_MUL, Consts.op_DIV,
      Consts.op_OR, Consts.op_AND, Consts.op_LSH, Consts.op_RSH, Consts.op_MOD, Consts.op_XOR, Consts.op_ARSH, Consts.op_LONG, longBit]

theorem rd_alu_reg (op : BinOp) (long : Bool) (d s : Nat) :
    reads ⟨op.opcode + Consts.op_REG + longBit long, d, s, 0, 0⟩ = [d, s] ∧
    defs ⟨op.opcode + Consts.op_REG + longBit long, d, s, 0, 0⟩ = [d] := by
  cases op <;> cases long <;>
    simp [reads, defs, isAlu, cls, code, useReg, BinOp.opcode, Consts.op_ADD, Consts.op_SUB, Consts.op_MUL, Consts.op_DIV,
      Consts.op_OR, Consts.op_AND, Consts.op_LSH, Consts.op_RSH, Consts.op_MOD, Consts.op_XOR, Consts.op_ARSH, Consts.op_LONG,
      Consts.op_REG, longBit]

theorem rd_neg (long : Bool) (d : Nat) :
    reads ⟨Consts.op_NEG + longBit long, d, 0, 0, 0⟩ = [d] ∧ defs ⟨Consts.op_NEG + longBit long, d, 0, 0, 0⟩ = [d] := by
  cases long <;> simp [reads, defs, isAlu, cls, code, useReg, Consts.op_NEG, Consts.op_LONG, longBit]

theorem rd_neg_long (d : Nat) :
    reads ⟨Consts.op_NEG + Consts.op_LONG, d, 0, 0, 0⟩ = [d] ∧ defs ⟨Consts.op_NEG + Consts.op_LONG, d, 0, 0, 0⟩ = [d] := by
  simp [reads, defs, isAlu, cls, code, useReg, Consts.op_NEG, Consts.op_LONG]

theorem rd_jsge (d : Nat) :
    reads ⟨Consts.op_JSGE, d, 0, 1, 0⟩ = [d] ∧ defs ⟨Consts.op_JSGE, d, 0, 1, 0⟩ = [] := by
  simp [reads, defs, isAlu, isJmpCls, isCall, isExit, cls, code, useReg, Consts.op_JSGE]

theorem rd_shift (opc : Nat) (h : opc = Consts.op_LSH ∨ opc = Consts.op_ARSH) (lg : Bool) (d : Nat) (v : Int) :
    reads ⟨opc + longBit lg, d, 0, 0, v⟩ = [d] ∧ defs ⟨opc + longBit lg, d, 0, 0, v⟩ = [d] := by
  rcases h with h | h <;> subst h <;> cases lg <;>
    simp [reads, defs, isAlu, cls, code, useReg, Consts.op_LSH, Consts.op_ARSH, Consts.op_LONG, longBit]

theorem rd_ld (fmt : Fmt) (d s : Nat) (off : Int) :
    reads ⟨Consts.op_LD + fmt.sizeOp, d, s, off, 0⟩ = [s] ∧ defs ⟨Consts.op_LD + fmt.sizeOp, d, s, off, 0⟩ = [d] := by
  cases fmt <;>
    simp [reads, defs, isAlu, isJmpCls, isCall, isLdImm64, isLdx, cls, code, Fmt.sizeOp, Consts.op_LD, Consts.op_B, Consts.op_H,
      Consts.op_W, Consts.op_DW]

theorem rd_st (fmt : Fmt) (d : Nat) (off c : Int) :
    reads ⟨Consts.op_ST + fmt.sizeOp, d, 0, off, c⟩ = [d] ∧ defs ⟨Consts.op_ST + fmt.sizeOp, d, 0, off, c⟩ = [] := by
  cases fmt <;>
    simp [reads, defs, isAlu, isJmpCls, isCall, isLdImm64, isLdx, isSt, cls, code, Fmt.sizeOp, Consts.op_ST, Consts.op_B, Consts.op_H,
      Consts.op_W, Consts.op_DW]

theorem rd_stx (fmt : Fmt) (d s : Nat) (off : Int) :
    reads ⟨Consts.op_STX + fmt.sizeOp, d, s, off, 0⟩ = [d, s] ∧ defs ⟨Consts.op_STX + fmt.sizeOp, d, s, off, 0⟩ = [] := by
  cases fmt <;>
    simp [reads, defs, isAlu, isJmpCls, isCall, isLdImm64, isLdx, isSt, cls, code, Fmt.sizeOp, Consts.op_STX, Consts.op_B, Consts.op_H,
      Consts.op_W, Consts.op_DW]

/-! ## `calculate` -/

/-- what a successful `calculate` guarantees about register reads, for a set `W` that contains every leaf register -/
def CalcCov (e : Expr) : Prop :=
  ∀ (dst : Option Nat) (long : Option Bool) (force : Bool) (g g' : GenState) (res : CalcRes) (W : List Nat),
    calculate e dst long force g = .ok (res, g') → leavesOwned W e →
    ∃ c, g'.code = g.code ++ c ∧ covered W c ∧ res.reg ∈ after W c ∧ (force = true → ∀ d, dst = some d → res.reg = d)

theorem getFree_dst {dst : Option Nat} {g g1 : GenState} {d : Nat} {rel : List Nat}
    (h : getFree dst g = .ok ((d, rel), g1)) : g1.code = g.code ∧ ∀ d', dst = some d' → d = d' := by
  obtain ⟨hc, _, _, hcase⟩ := getFree_ok h
  refine ⟨hc, ?_⟩
  intro d' hd
  rcases hcase with ⟨h1, _⟩ | ⟨h1, _⟩
  · rw [hd] at h1; cases h1; rfl
  · rw [hd] at h1; cases h1

theorem cov_const (v : Int) : CalcCov (.const v) := by
  intro dst long force g g' res W h _
  simp only [calculate] at h
  rw [bind_ok] at h
  obtain ⟨⟨d, rel⟩, g1, hfree, h⟩ := h
  obtain ⟨hc1, hd⟩ := getFree_dst hfree
  split at h
  · rw [bind_ok] at h
    obtain ⟨u, g2, hemit, h⟩ := h
    rw [pure_ok] at h
    rw [emit_ok] at hemit
    cases h; cases hemit
    refine ⟨_, by rw [hc1], covered_one ?_, ?_, fun _ d' h' => hd d' h'⟩
    · rw [(rd_mov_imm d v).1]; intro r hr; cases hr
    · rw [after_one, (rd_mov_imm d v).2]; simp
  · rw [bind_ok] at h
    obtain ⟨u1, g3, he1, h⟩ := h
    rw [bind_ok] at h
    obtain ⟨u2, g4, he2, h⟩ := h
    rw [pure_ok] at h
    rw [emit_ok] at he1 he2
    cases h; cases he2; cases he1
    obtain ⟨r1, d1, r2, d2⟩ := rd_ld_imm64 d (v % 4294967296) (v / 4294967296)
    refine ⟨[_, _], by simp only [hc1, List.append_assoc]; rfl, ⟨?_, ?_, trivial⟩, ?_, fun _ d' h' => hd d' h'⟩
    · rw [r1]; intro r hr; cases hr
    · rw [r2]; intro r hr; cases hr
    · simp only [after, List.foldl_cons, List.foldl_nil, d1, d2]; simp

theorem cov_reg (no : Nat) (lg sg : Bool) : CalcCov (.reg no lg sg) := by
  intro dst long force g g' res W h hl
  simp only [calculate] at h
  rw [bind_ok] at h
  obtain ⟨os, g1, hos, h⟩ := h
  rw [getOwners_ok] at hos
  cases hos
  have hno : no ∈ W := hl
  split at h
  · rw [fail_ok] at h; exact h.elim
  · split at h
    · cases dst with
      | none => simp only [] at h; rw [fail_ok] at h; exact h.elim
      | some d =>
        simp only [] at h
        rw [bind_ok] at h
        obtain ⟨u, g2, hemit, h⟩ := h
        rw [pure_ok] at h
        rw [emit_ok] at hemit
        cases h; cases hemit
        refine ⟨_, rfl, covered_one ?_, ?_, ?_⟩
        · rw [(rd_mov_reg lg d no).1]; intro r hr; simp at hr; subst hr; exact hno
        · rw [after_one, (rd_mov_reg lg d no).2]; simp
        · intro _ d' h'; cases h'; rfl
    · rename_i hmv
      rw [pure_ok] at h
      cases h
      refine ⟨[], by simp, trivial, hno, ?_⟩
      intro hf d' hd
      subst hd hf
      have : d' = no := by simpa using hmv
      exact this.symm

theorem cov_neg (a : Expr) (ih : CalcCov a) : CalcCov (.neg a) := by
  intro dst long force g g' res W h hl
  simp only [calculate] at h
  rw [bind_ok] at h
  obtain ⟨ra, g1, hcalc, h⟩ := h
  rw [bind_ok] at h
  obtain ⟨u, g2, hemit, h⟩ := h
  rw [pure_ok] at h
  rw [emit_ok] at hemit
  cases h; cases hemit
  obtain ⟨c, hc, hcov, hres, hpl⟩ := ih dst long force g g1 res W hcalc hl
  refine ⟨c ++ [⟨Consts.op_NEG + longBit res.long, res.reg, 0, 0, 0⟩], by simp [hc], covered_snoc hcov ?_,
    mem_after_snoc (Or.inr hres), hpl⟩
  rw [(rd_neg res.long res.reg).1]; intro r hr; simp at hr; subst hr; exact hres

theorem cov_abs (a : Expr) (ih : CalcCov a) : CalcCov (.abs a) := by
  intro dst long force g g' res W h hl
  simp only [calculate] at h
  rw [bind_ok] at h
  obtain ⟨ra, g1, hcalc, h⟩ := h
  rw [bind_ok] at h
  obtain ⟨os, g2, hos, h⟩ := h
  rw [getOwners_ok] at hos
  cases hos
  split at h
  · rw [bind_ok] at h
    obtain ⟨_, _, hf, _⟩ := h
    rw [fail_ok] at hf; exact hf.elim
  · rw [bind_ok] at h
    obtain ⟨u1, g4, he1, h⟩ := h
    rw [bind_ok] at h
    obtain ⟨u2, g5, hadd, h⟩ := h
    rw [bind_ok] at h
    obtain ⟨u3, g6, he2, h⟩ := h
    rw [pure_ok] at h
    rw [emit_ok] at he1 he2
    rw [addOwner_ok] at hadd
    cases h; cases he2; cases hadd; cases he1
    obtain ⟨c, hc, hcov, hres, hpl⟩ := ih dst long force g g1 res W hcalc hl
    refine ⟨(c ++ [⟨Consts.op_JSGE, res.reg, 0, 1, 0⟩]) ++ [⟨Consts.op_NEG + Consts.op_LONG, res.reg, 0, 0, 0⟩], by simp [hc],
      covered_snoc (covered_snoc hcov ?_) ?_, mem_after_snoc (Or.inr (mem_after_snoc (Or.inr hres))), hpl⟩
    · rw [(rd_jsge res.reg).1]; intro r hr; simp at hr; subst hr; exact hres
    · rw [(rd_neg_long res.reg).1]; intro r hr; simp at hr; subst hr; exact mem_after_snoc (Or.inr hres)

theorem load_cov {d src : Nat} {off : Int} {fmt : Fmt} {long : Option Bool} {g g' : GenState}
    (h : load d src off fmt long g = .ok ((), g')) :
    ∃ c, g'.code = g.code ++ c ∧ ∀ W : List Nat, src ∈ W → covered W c ∧ d ∈ after W c := by
  simp only [load] at h
  rw [bind_ok] at h
  obtain ⟨u, g1, he, h⟩ := h
  rw [emit_ok] at he
  cases he
  obtain ⟨rl, dl⟩ := rd_ld fmt d src off
  split at h
  · rw [bind_ok] at h
    obtain ⟨u1, g2, h1, h⟩ := h
    rw [bind_ok] at h
    obtain ⟨u2, g3, h2, h⟩ := h
    rw [addOwner_ok] at h1
    rw [emit_ok] at h2 h
    cases h1; cases h2; cases h
    refine ⟨[⟨Consts.op_LD + fmt.sizeOp, d, src, off, 0⟩,
      ⟨Consts.op_LSH + longBit (long == some true), d, 0, 0, (if (long == some true) = true then 64 else 32) - ↑fmt.size * 8⟩,
      ⟨Consts.op_ARSH + longBit (long == some true), d, 0, 0, (if (long == some true) = true then 64 else 32) - ↑fmt.size * 8⟩],
      by simp, ?_⟩
    intro W hs
    have r1 := fun v => (rd_shift Consts.op_LSH (Or.inl rfl) (long == some true) d v)
    have r2 := fun v => (rd_shift Consts.op_ARSH (Or.inr rfl) (long == some true) d v)
    refine ⟨⟨?_, ?_, ?_, trivial⟩, ?_⟩
    · rw [rl]; intro r hr; simp at hr; subst hr; exact hs
    · rw [(r1 _).1, dl]; intro r hr; simp at hr; subst hr; simp
    · rw [(r2 _).1, (r1 _).2, dl]; intro r hr; simp at hr; subst hr; simp
    · simp only [after, List.foldl_cons, List.foldl_nil, dl, (r1 _).2, (r2 _).2]; simp
  · rw [pure_ok] at h
    cases h
    refine ⟨[⟨Consts.op_LD + fmt.sizeOp, d, src, off, 0⟩], rfl, ?_⟩
    intro W hs
    refine ⟨covered_one ?_, ?_⟩
    · rw [rl]; intro r hr; simp at hr; subst hr; exact hs
    · rw [after_one, dl]; simp

theorem cov_mem (fmt : Fmt) (addr : Expr) (ih : CalcCov addr) : CalcCov (.mem fmt addr) := by
  intro dst long force g g' res W h hl
  cases hsum : addr.asSum with
  | some p =>
    obtain ⟨base, off⟩ := p
    simp only [calculate, hsum] at h
    obtain ⟨op', lg, sg', s', hshape⟩ := asSum_shape hsum
    have hbase : base ∈ W := by
      subst hshape
      exact hl.1
    rw [bind_ok] at h
    obtain ⟨⟨d, rel⟩, g1, hfree, h⟩ := h
    obtain ⟨hc1, hd⟩ := getFree_dst hfree
    simp only [] at h
    rw [bind_ok] at h
    obtain ⟨u, g2, hload, h⟩ := h
    rw [pure_ok] at h
    cases h
    obtain ⟨c, hc, hcov⟩ := load_cov hload
    exact ⟨c, by rw [hc, hc1], (hcov W hbase).1, (hcov W hbase).2, fun _ d' h' => hd d' h'⟩
  | none =>
    simp only [calculate, hsum] at h
    rw [bind_ok] at h
    obtain ⟨⟨d, rel⟩, g1, hfree, h⟩ := h
    obtain ⟨hc1, hd⟩ := getFree_dst hfree
    simp only [] at h
    rw [bind_ok] at h
    obtain ⟨ares, g2, hca, h⟩ := h
    rw [bind_ok] at h
    obtain ⟨u, g3, hload, h⟩ := h
    rw [pure_ok] at h
    cases h
    obtain ⟨ca, hca', hcova, hresa, _⟩ := ih (some d) (some true) false g1 g2 ares W hca hl
    obtain ⟨c, hc, hcov⟩ := load_cov hload
    refine ⟨ca ++ c, by rw [hc, hca', hc1, List.append_assoc], (covered_append ca c W).mpr ⟨hcova, (hcov _ hresa).1⟩, ?_,
      fun _ d' h' => hd d' h'⟩
    rw [after_append]
    exact (hcov _ hresa).2

end Ebv.C05
