import Ebv.Lemmas.Calc
import Ebv.Model.MiniVerifier
/-! C05, link to the generator model `Ebv.Gen` (the C01 fragment): every register an emitted instruction reads is in the
set `W` of registers that had a value before the segment, or is written earlier in the same segment.

`covered W c` scans a straight-line segment: the reads of each instruction must be in `W`, then its `defs` are added.
(The only jump `Gen` emits inside a segment is `abs`'s `JSGE +1` over a `NEG dst`, which re-defines a register that is in the
set already, so the linear scan is also right for it.) -/
namespace Ebv.C05
open Ebv.Ebpf Ebv.Gen Ebv.MiniV

/-- every read is of a register in `W` or written earlier in the segment -/
def covered : List Nat → List Insn → Prop
  | _, [] => True
  | W, i :: c => (∀ r ∈ reads i, r ∈ W) ∧ covered (defs i ++ W) c

/-- the registers with a value after the segment -/
def after (W : List Nat) (c : List Insn) : List Nat := c.foldl (fun W i => defs i ++ W) W

theorem after_append (W : List Nat) (c1 c2 : List Insn) : after W (c1 ++ c2) = after (after W c1) c2 := by
  simp [after, List.foldl_append]

theorem covered_append : ∀ (c1 c2 : List Insn) (W : List Nat),
    covered W (c1 ++ c2) ↔ covered W c1 ∧ covered (after W c1) c2
  | [], c2, W => by simp [covered, after]
  | i :: c1, c2, W => by
    simp only [List.cons_append, covered, after, List.foldl_cons]
    rw [covered_append c1 c2]
    simp only [after, and_assoc]

theorem mem_after_of_mem : ∀ (c : List Insn) {W : List Nat} {r : Nat}, r ∈ W → r ∈ after W c
  | [], _, _, h => h
  | i :: c, W, r, h => by
    simp only [after, List.foldl_cons]
    exact mem_after_of_mem c (List.mem_append_right _ h)

theorem after_mono : ∀ (c : List Insn) {W W' : List Nat}, (∀ r, r ∈ W → r ∈ W') → ∀ r, r ∈ after W c → r ∈ after W' c
  | [], _, _, h, r, hr => h r hr
  | i :: c, W, W', h, r, hr => by
    simp only [after, List.foldl_cons] at hr ⊢
    refine after_mono c ?_ r hr
    intro x hx
    rcases List.mem_append.mp hx with hx | hx
    · exact List.mem_append_left _ hx
    · exact List.mem_append_right _ (h x hx)

theorem covered_mono : ∀ (c : List Insn) {W W' : List Nat}, (∀ r, r ∈ W → r ∈ W') → covered W c → covered W' c
  | [], _, _, _, _ => trivial
  | i :: c, W, W', h, hc => by
    refine ⟨fun r hr => h r (hc.1 r hr), covered_mono c ?_ hc.2⟩
    intro x hx
    rcases List.mem_append.mp hx with hx | hx
    · exact List.mem_append_left _ hx
    · exact List.mem_append_right _ (h x hx)

theorem covered_one {W : List Nat} {i : Insn} (h : ∀ r ∈ reads i, r ∈ W) : covered W [i] := ⟨h, trivial⟩

theorem after_one (W : List Nat) (i : Insn) : after W [i] = defs i ++ W := rfl

/-- appending one instruction to a covered segment -/
theorem covered_snoc {W : List Nat} {c : List Insn} {i : Insn} (hc : covered W c) (h : ∀ r ∈ reads i, r ∈ after W c) :
    covered W (c ++ [i]) :=
  (covered_append c [i] W).mpr ⟨hc, covered_one h⟩

theorem mem_after_snoc {W : List Nat} {c : List Insn} {i : Insn} {r : Nat} (h : r ∈ defs i ∨ r ∈ after W c) :
    r ∈ after W (c ++ [i]) := by
  rw [after_append, after_one]
  rcases h with h | h
  · exact List.mem_append_left _ h
  · exact List.mem_append_right _ h

/-! ## reads and writes of the instruction shapes `Gen` emits -/

theorem rd_mov_imm (d : Nat) (v : Int) :
    reads ⟨Consts.op_MOV + Consts.op_LONG, d, 0, 0, v⟩ = [] ∧ defs ⟨Consts.op_MOV + Consts.op_LONG, d, 0, 0, v⟩ = [d] := by
  simp [reads, defs, isAlu, cls, code, useReg, Consts.op_MOV, Consts.op_LONG]

theorem rd_ld_imm64 (d : Nat) (lo hi : Int) :
    reads ⟨Consts.op_DW, d, 0, 0, lo⟩ = [] ∧ defs ⟨Consts.op_DW, d, 0, 0, lo⟩ = [d] ∧
    reads ⟨Consts.op_W, 0, 0, 0, hi⟩ = [] ∧ defs ⟨Consts.op_W, 0, 0, 0, hi⟩ = [] := by
  simp [reads, defs, isAlu, isJmpCls, isCall, isLdImm64, isLdx, isSt, cls, code, Consts.op_DW, Consts.op_W]

theorem rd_mov_reg (long : Bool) (d n : Nat) :
    reads ⟨Consts.op_MOV + Consts.op_REG + longBit long, d, n, 0, 0⟩ = [n] ∧
    defs ⟨Consts.op_MOV + Consts.op_REG + longBit long, d, n, 0, 0⟩ = [d] := by
  cases long <;> simp [reads, defs, isAlu, cls, code, useReg, Consts.op_MOV, Consts.op_REG, Consts.op_LONG, longBit]

theorem rd_alu_imm (op : BinOp) (long : Bool) (d : Nat) (v : Int) :
    reads ⟨op.opcode + longBit long, d, 0, 0, v⟩ = [d] ∧ defs ⟨op.opcode + longBit long, d, 0, 0, v⟩ = [d] := by
  cases op <;> cases long <;>
    simp [reads, defs, isAlu, cls, code, useReg, BinOp.opcode, Consts.op_ADD, Consts.op_SUB, Consts.op_MUL, Consts.op_DIV,
      Consts.op_OR, Consts.op_AND, Consts.op_LSH, Consts.op_RSH, Consts.op_MOD, Consts.op_XOR, Consts.op_ARSH, Consts.op_LONG, longBit]

theorem rd_alu_reg (op : BinOp) (long : Bool) (d s : Nat) :
    reads ⟨op.opcode + Consts.op_REG + longBit long, d, s, 0, 0⟩ = [d, s] ∧
    defs ⟨op.opcode + Consts.op_REG + longBit long, d, s, 0, 0⟩ = [d] := by
  cases op <;> cases long <;>
    simp [reads, defs, isAlu, cls, code, useReg, BinOp.opcode, Consts.op_ADD, Consts.op_SUB, Consts.op_MUL, Consts.op_DIV,
      Consts.op_OR, Consts.op_AND, Consts.op_LSH, Consts.op_RSH, Consts.op_MOD, Consts.op_XOR, Consts.op_ARSH, Consts.op_LONG,
      Consts.op_REG, longBit]

theorem rd_neg (long : Bool) (d : Nat) :
    reads ⟨Consts.op_NEG + longBit long, d, 0, 0, 0⟩ = [d] ∧ defs ⟨Consts.op_NEG + longBit long, d, 0, 0, 0⟩ = [d] := by
  cases long <;> simp [reads, defs, isAlu, cls, code, useReg, Consts.op_NEG, Consts.op_LONG, longBit]

theorem rd_neg_long (d : Nat) :
    reads ⟨Consts.op_NEG + Consts.op_LONG, d, 0, 0, 0⟩ = [d] ∧ defs ⟨Consts.op_NEG + Consts.op_LONG, d, 0, 0, 0⟩ = [d] := by
  simp [reads, defs, isAlu, cls, code, useReg, Consts.op_NEG, Consts.op_LONG]

theorem rd_jsge (d : Nat) :
    reads ⟨Consts.op_JSGE, d, 0, 1, 0⟩ = [d] ∧ defs ⟨Consts.op_JSGE, d, 0, 1, 0⟩ = [] := by
  simp [reads, defs, isAlu, isJmpCls, isCall, isExit, cls, code, useReg, Consts.op_JSGE]

/-- the sign test of `abs` at the width of the computation: `JSGE` (JMP class) or `JSGE + SHORT` (JMP32 class) -/
theorem rd_jsge_w (lg : Bool) (d : Nat) :
    reads ⟨absTest lg, d, 0, 1, 0⟩ = [d] ∧ defs ⟨absTest lg, d, 0, 1, 0⟩ = [] := by
  cases lg <;> simp [absTest, reads, defs, isAlu, isJmpCls, isCall, isExit, cls, code, useReg, Consts.op_JSGE, Consts.op_SHORT]

theorem rd_shift (opc : Nat) (h : opc = Consts.op_LSH ∨ opc = Consts.op_ARSH) (lg : Bool) (d : Nat) (v : Int) :
    reads ⟨opc + longBit lg, d, 0, 0, v⟩ = [d] ∧ defs ⟨opc + longBit lg, d, 0, 0, v⟩ = [d] := by
  rcases h with h | h <;> subst h <;> cases lg <;>
    simp [reads, defs, isAlu, cls, code, useReg, Consts.op_LSH, Consts.op_ARSH, Consts.op_LONG, longBit]

theorem rd_ld (fmt : Fmt) (d s : Nat) (off : Int) :
    reads ⟨Consts.op_LD + fmt.sizeOp, d, s, off, 0⟩ = [s] ∧ defs ⟨Consts.op_LD + fmt.sizeOp, d, s, off, 0⟩ = [d] := by
  cases fmt <;>
    simp [reads, defs, isAlu, isJmpCls, isCall, isLdImm64, isLdx, cls, code, Fmt.sizeOp, Consts.op_LD, Consts.op_B, Consts.op_H,
      Consts.op_W, Consts.op_DW]

theorem rd_st (fmt : Fmt) (d : Nat) (off c : Int) :
    reads ⟨Consts.op_ST + fmt.sizeOp, d, 0, off, c⟩ = [d] ∧ defs ⟨Consts.op_ST + fmt.sizeOp, d, 0, off, c⟩ = [] := by
  cases fmt <;>
    simp [reads, defs, isAlu, isJmpCls, isCall, isLdImm64, isLdx, isSt, cls, code, Fmt.sizeOp, Consts.op_ST, Consts.op_B, Consts.op_H,
      Consts.op_W, Consts.op_DW]

theorem rd_stx (fmt : Fmt) (d s : Nat) (off : Int) :
    reads ⟨Consts.op_STX + fmt.sizeOp, d, s, off, 0⟩ = [d, s] ∧ defs ⟨Consts.op_STX + fmt.sizeOp, d, s, off, 0⟩ = [] := by
  cases fmt <;>
    simp [reads, defs, isAlu, isJmpCls, isCall, isLdImm64, isLdx, isSt, cls, code, Fmt.sizeOp, Consts.op_STX, Consts.op_B, Consts.op_H,
      Consts.op_W, Consts.op_DW]

/-! ## `calculate` -/

/-- what a successful `calculate` guarantees about register reads, for a set `W` that contains every leaf register -/
def CalcCov (e : Expr) : Prop :=
  ∀ (dst : Option Nat) (long : Option Bool) (force : Bool) (g g' : GenState) (res : CalcRes) (W : List Nat),
    calculate e dst long force g = .ok (res, g') → leavesOwned W e →
    ∃ c, g'.code = g.code ++ c ∧ covered W c ∧ res.reg ∈ after W c ∧ (force = true → ∀ d, dst = some d → res.reg = d)

theorem getFree_dst {dst : Option Nat} {g g1 : GenState} {d : Nat} {rel : List Nat}
    (h : getFree dst g = .ok ((d, rel), g1)) : g1.code = g.code ∧ ∀ d', dst = some d' → d = d' := by
  obtain ⟨hc, _, _, hcase⟩ := getFree_ok h
  refine ⟨hc, ?_⟩
  intro d' hd
  rcases hcase with ⟨h1, _⟩ | ⟨h1, _⟩
  · rw [hd] at h1; cases h1; rfl
  · rw [hd] at h1; cases h1

theorem cov_const (v : Int) : CalcCov (.const v) := by
  intro dst long force g g' res W h _
  simp only [calculate] at h
  rw [bind_ok] at h
  obtain ⟨⟨d, rel⟩, g1, hfree, h⟩ := h
  obtain ⟨hc1, hd⟩ := getFree_dst hfree
  split at h
  · rw [bind_ok] at h
    obtain ⟨u, g2, hemit, h⟩ := h
    rw [pure_ok] at h
    rw [emit_ok] at hemit
    cases h; cases hemit
    refine ⟨_, by rw [hc1], covered_one ?_, ?_, fun _ d' h' => hd d' h'⟩
    · rw [(rd_mov_imm d v).1]; intro r hr; cases hr
    · rw [after_one, (rd_mov_imm d v).2]; simp
  · rw [bind_ok] at h
    obtain ⟨u1, g3, he1, h⟩ := h
    rw [bind_ok] at h
    obtain ⟨u2, g4, he2, h⟩ := h
    rw [pure_ok] at h
    rw [emit_ok] at he1 he2
    cases h; cases he2; cases he1
    obtain ⟨r1, d1, r2, d2⟩ := rd_ld_imm64 d (v % 4294967296) (v / 4294967296)
    refine ⟨[_, _], by simp only [hc1, List.append_assoc]; rfl, ⟨?_, ?_, trivial⟩, ?_, fun _ d' h' => hd d' h'⟩
    · rw [r1]; intro r hr; cases hr
    · rw [r2]; intro r hr; cases hr
    · simp only [after, List.foldl_cons, List.foldl_nil, d1, d2]; simp

theorem cov_reg (no : Nat) (lg sg : Bool) : CalcCov (.reg no lg sg) := by
  intro dst long force g g' res W h hl
  simp only [calculate] at h
  rw [bind_ok] at h
  obtain ⟨os, g1, hos, h⟩ := h
  rw [getOwners_ok] at hos
  cases hos
  have hno : no ∈ W := hl
  split at h
  · rw [fail_ok] at h; exact h.elim
  · split at h
    · cases dst with
      | none => simp only [] at h; rw [fail_ok] at h; exact h.elim
      | some d =>
        simp only [] at h
        rw [bind_ok] at h
        obtain ⟨u, g2, hemit, h⟩ := h
        rw [pure_ok] at h
        rw [emit_ok] at hemit
        cases h; cases hemit
        refine ⟨_, rfl, covered_one ?_, ?_, ?_⟩
        · rw [(rd_mov_reg lg d no).1]; intro r hr; simp at hr; subst hr; exact hno
        · rw [after_one, (rd_mov_reg lg d no).2]; simp
        · intro _ d' h'; cases h'; rfl
    · rename_i hmv
      rw [pure_ok] at h
      cases h
      refine ⟨[], by simp, trivial, hno, ?_⟩
      intro hf d' hd
      subst hd hf
      have : d' = no := by simpa using hmv
      exact this.symm

theorem cov_neg (a : Expr) (ih : CalcCov a) : CalcCov (.neg a) := by
  intro dst long force g g' res W h hl
  simp only [calculate] at h
  rw [bind_ok] at h
  obtain ⟨⟨d, rel⟩, g1, hfree, h⟩ := h
  obtain ⟨hc1, hd⟩ := getFree_dst hfree
  simp only [] at h
  rw [bind_ok] at h
  obtain ⟨ra, g2, hcalc, h⟩ := h
  rw [bind_ok] at h
  obtain ⟨u, g3, hemit, h⟩ := h
  rw [pure_ok] at h
  rw [emit_ok] at hemit
  cases h; cases hemit
  obtain ⟨c, hc, hcov, hres, hpl⟩ := ih (some d) long true g1 g2 ra W hcalc hl
  have hreg : ra.reg = d := hpl rfl d rfl
  refine ⟨c ++ [⟨Consts.op_NEG + longBit (unaryLong long ra.long), ra.reg, 0, 0, 0⟩], by simp [hc, hc1], covered_snoc hcov ?_,
    mem_after_snoc (Or.inr hres), fun _ d' h' => by rw [hreg]; exact hd d' h'⟩
  rw [(rd_neg _ ra.reg).1]; intro r hr; simp at hr; subst hr; exact hres

theorem cov_abs (a : Expr) (ih : CalcCov a) : CalcCov (.abs a) := by
  intro dst long force g g' res W h hl
  simp only [calculate] at h
  rw [bind_ok] at h
  obtain ⟨⟨d, rel⟩, g1, hfree, h⟩ := h
  obtain ⟨hc1, hd⟩ := getFree_dst hfree
  simp only [] at h
  rw [bind_ok] at h
  obtain ⟨ra, g2, hcalc, h⟩ := h
  rw [bind_ok] at h
  obtain ⟨u, g3, htail, h⟩ := h
  rw [pure_ok] at h
  obtain ⟨_, ht⟩ := absTail_ok htail
  cases h; cases ht
  obtain ⟨c, hc, hcov, hres, hpl⟩ := ih (some d) long true g1 g2 ra W hcalc hl
  have hreg : ra.reg = d := hpl rfl d rfl
  refine ⟨(c ++ [⟨absTest (unaryLong long ra.long), ra.reg, 0, 1, 0⟩]) ++
      [⟨Consts.op_NEG + longBit (unaryLong long ra.long), ra.reg, 0, 0, 0⟩], by simp [hc, hc1],
    covered_snoc (covered_snoc hcov ?_) ?_, mem_after_snoc (Or.inr (mem_after_snoc (Or.inr hres))),
    fun _ d' h' => by rw [hreg]; exact hd d' h'⟩
  · rw [(rd_jsge_w _ ra.reg).1]; intro r hr; simp at hr; subst hr; exact hres
  · rw [(rd_neg _ ra.reg).1]; intro r hr; simp at hr; subst hr; exact mem_after_snoc (Or.inr hres)

theorem load_cov {d src : Nat} {off : Int} {fmt : Fmt} {long : Option Bool} {g g' : GenState}
    (h : load d src off fmt long g = .ok ((), g')) :
    ∃ c, g'.code = g.code ++ c ∧ ∀ W : List Nat, src ∈ W → covered W c ∧ d ∈ after W c := by
  simp only [load] at h
  rw [bind_ok] at h
  obtain ⟨u, g1, he, h⟩ := h
  rw [emit_ok] at he
  cases he
  obtain ⟨rl, dl⟩ := rd_ld fmt d src off
  split at h
  · rw [bind_ok] at h
    obtain ⟨u1, g2, h1, h⟩ := h
    rw [bind_ok] at h
    obtain ⟨u2, g3, h2, h⟩ := h
    rw [addOwner_ok] at h1
    rw [emit_ok] at h2 h
    cases h1; cases h2; cases h
    refine ⟨[⟨Consts.op_LD + fmt.sizeOp, d, src, off, 0⟩,
      ⟨Consts.op_LSH + longBit (long == some true), d, 0, 0, (if (long == some true) = true then 64 else 32) - ↑fmt.size * 8⟩,
      ⟨Consts.op_ARSH + longBit (long == some true), d, 0, 0, (if (long == some true) = true then 64 else 32) - ↑fmt.size * 8⟩],
      by simp, ?_⟩
    intro W hs
    have r1 := fun v => (rd_shift Consts.op_LSH (Or.inl rfl) (long == some true) d v)
    have r2 := fun v => (rd_shift Consts.op_ARSH (Or.inr rfl) (long == some true) d v)
    refine ⟨⟨?_, ?_, ?_, trivial⟩, ?_⟩
    · rw [rl]; intro r hr; simp at hr; subst hr; exact hs
    · rw [(r1 _).1, dl]; intro r hr; simp at hr; subst hr; simp
    · rw [(r2 _).1, (r1 _).2, dl]; intro r hr; simp at hr; subst hr; simp
    · simp only [after, List.foldl_cons, List.foldl_nil, dl, (r1 _).2, (r2 _).2]; simp
  · rw [pure_ok] at h
    cases h
    refine ⟨[⟨Consts.op_LD + fmt.sizeOp, d, src, off, 0⟩], rfl, ?_⟩
    intro W hs
    refine ⟨covered_one ?_, ?_⟩
    · rw [rl]; intro r hr; simp at hr; subst hr; exact hs
    · rw [after_one, dl]; simp

theorem cov_mem (fmt : Fmt) (addr : Expr) (ih : CalcCov addr) : CalcCov (.mem fmt addr) := by
  intro dst long force g g' res W h hl
  cases hsum : addr.asSum with
  | some p =>
    obtain ⟨base, off⟩ := p
    simp only [calculate, hsum] at h
    obtain ⟨op', lg, sg', s', hshape⟩ := asSum_shape hsum
    have hbase : base ∈ W := by
      subst hshape
      exact hl.1
    rw [bind_ok] at h
    obtain ⟨⟨d, rel⟩, g1, hfree, h⟩ := h
    obtain ⟨hc1, hd⟩ := getFree_dst hfree
    simp only [] at h
    rw [bind_ok] at h
    obtain ⟨u, g2, hload, h⟩ := h
    rw [pure_ok] at h
    cases h
    obtain ⟨c, hc, hcov⟩ := load_cov hload
    exact ⟨c, by rw [hc, hc1], (hcov W hbase).1, (hcov W hbase).2, fun _ d' h' => hd d' h'⟩
  | none =>
    simp only [calculate, hsum] at h
    rw [bind_ok] at h
    obtain ⟨⟨d, rel⟩, g1, hfree, h⟩ := h
    obtain ⟨hc1, hd⟩ := getFree_dst hfree
    simp only [] at h
    rw [bind_ok] at h
    obtain ⟨ares, g2, hca, h⟩ := h
    rw [bind_ok] at h
    obtain ⟨u, g3, hload, h⟩ := h
    rw [pure_ok] at h
    cases h
    obtain ⟨ca, hca', hcova, hresa, _⟩ := ih (some d) (some true) false g1 g2 ares W hca hl
    obtain ⟨c, hc, hcov⟩ := load_cov hload
    refine ⟨ca ++ c, by rw [hc, hca', hc1, List.append_assoc], (covered_append ca c W).mpr ⟨hcova, (hcov _ hresa).1⟩, ?_,
      fun _ d' h' => hd d' h'⟩
    rw [after_append]
    exact (hcov _ hresa).2

theorem cov_bin (op : BinOp) (l r : Expr) (sg : Bool) (k : Gen.Kind) (ihl : CalcCov l) (ihr : CalcCov r) :
    CalcCov (.bin op l r sg k) := by
  intro dst long force g g' res W h hl
  simp only [calculate] at h
  rw [bind_ok] at h
  obtain ⟨⟨d0, rel⟩, g1, hfree, h⟩ := h
  simp only [] at h
  rw [bind_ok] at h
  obtain ⟨lres, g2, hcl, h⟩ := h
  rw [bind_ok] at h
  obtain ⟨u1, g3, hrel1, h⟩ := h
  rw [bind_ok] at h
  obtain ⟨u2, g4, hright, hfin⟩ := h
  rw [release_ok] at hrel1
  cases hrel1
  obtain ⟨hc1, _⟩ := getFree_dst hfree
  obtain ⟨cl, hcl', hcovl, hresl, _⟩ := ihl (some d0) long true g1 g2 lres W hcl hl.1
  -- the right operand and the operation
  have hR : ∃ cr, g4.code = g2.code ++ cr ∧ covered (after W cl) cr ∧ lres.reg ∈ after (after W cl) cr := by
    cases hs : r.asSmallConst with
    | some v =>
      simp only [binRight, hs] at hright
      split at hright
      · rw [fail_ok] at hright; exact hright.elim
      rw [emit_ok] at hright
      cases hright
      obtain ⟨ra, da⟩ := rd_alu_imm op (long.getD lres.long) lres.reg v
      refine ⟨[⟨op.opcode + longBit (long.getD lres.long), lres.reg, 0, 0, v⟩], rfl, covered_one ?_, ?_⟩
      · rw [ra]; intro x hx; simp at hx; subst hx; exact hresl
      · rw [after_one, da]; simp
    | none =>
      simp only [binRight, hs] at hright
      rw [bind_ok] at hright
      obtain ⟨rres, g5, hcr, hright⟩ := hright
      rw [bind_ok] at hright
      obtain ⟨u3, g6, hem, hright⟩ := hright
      rw [emit_ok] at hem
      rw [release_ok] at hright
      cases hem; cases hright
      have hlr : leavesOwned (after W cl) r := leavesOwned_mono (fun n hn => mem_after_of_mem cl hn) hl.2
      obtain ⟨cr, hcr', hcovr, hresr, _⟩ := ihr none (some (long.getD lres.long)) false _ g5 rres (after W cl) hcr hlr
      obtain ⟨ra, da⟩ := rd_alu_reg op (long.getD lres.long) lres.reg rres.reg
      refine ⟨cr ++ [⟨op.opcode + Consts.op_REG + longBit (long.getD lres.long), lres.reg, rres.reg, 0, 0⟩],
        by simp [hcr'], covered_snoc hcovr ?_, mem_after_snoc (Or.inl (by rw [da]; simp))⟩
      rw [ra]
      intro x hx
      simp at hx
      rcases hx with hx | hx
      · subst hx; exact mem_after_of_mem cr hresl
      · subst hx; exact hresr
  obtain ⟨cr, hcr', hcovr, hresr⟩ := hR
  have hcode : g4.code = g.code ++ (cl ++ cr) := by rw [hcr', hcl', hc1, List.append_assoc]
  have hcov : covered W (cl ++ cr) := (covered_append cl cr W).mpr ⟨hcovl, hcovr⟩
  have hres : lres.reg ∈ after W (cl ++ cr) := by rw [after_append]; exact hresr
  -- the end
  unfold binFinish at hfin
  split at hfin
  · rename_i hcond
    rw [pure_ok] at hfin
    cases hfin
    refine ⟨cl ++ cr, hcode, hcov, hres, ?_⟩
    intro _ d hd
    subst hd
    have : d = lres.reg := by simpa using hcond
    exact this.symm
  · rw [bind_ok] at hfin
    obtain ⟨u4, g7, hrel2, hfin⟩ := hfin
    rw [bind_ok] at hfin
    obtain ⟨u5, g8, hem, hfin⟩ := hfin
    rw [release_ok] at hrel2
    rw [emit_ok] at hem
    rw [pure_ok] at hfin
    cases hrel2; cases hem; cases hfin
    obtain ⟨rm, dm⟩ := rd_mov_reg (long.getD lres.long) (dst.getD 0) lres.reg
    refine ⟨(cl ++ cr) ++ [⟨Consts.op_MOV + Consts.op_REG + longBit (long.getD lres.long), dst.getD 0, lres.reg, 0, 0⟩],
      by simp [hcode], covered_snoc hcov ?_, mem_after_snoc (Or.inl (by rw [dm]; simp)), ?_⟩
    · rw [rm]; intro x hx; simp at hx; subst hx; exact hres
    · intro _ d hd; subst hd; rfl

/-- **owners_sound, expression level**: whenever `calculate` succeeds on an expression whose leaf registers all have a value
(`W`), every register an emitted instruction reads has a value or is written earlier in the emitted segment; the result
register has a value afterwards; a forced destination is respected. -/
theorem calc_covered (e : Expr) : CalcCov e := by
  induction e with
  | const v => exact cov_const v
  | reg no lg sg => exact cov_reg no lg sg
  | bin op l r sg k ihl ihr => exact cov_bin op l r sg k ihl ihr
  | neg a ih => exact cov_neg a ih
  | abs a ih => exact cov_abs a ih
  | mem f a ih => exact cov_mem f a ih

/-! ## assignments -/

theorem setReg_covered {no : Nat} {long : Bool} {value : PyVal} {g g' : GenState} {W : List Nat}
    (h : setReg no long value g = .ok ((), g')) (hl : ∀ e, ensureExpr value = .ok e → leavesOwned W e) :
    ∃ c, g'.code = g.code ++ c ∧ covered W c ∧ no ∈ after W c := by
  simp only [setReg] at h
  rw [bind_ok] at h
  obtain ⟨u, g1, hadd, h⟩ := h
  rw [addOwner_ok] at hadd
  cases hadd
  cases hv : ensureExpr value with
  | error er => simp only [hv] at h; rw [fail_ok] at h; exact h.elim
  | ok e =>
    simp only [hv] at h
    rw [bind_ok] at h
    obtain ⟨res, g2, hcalc, h⟩ := h
    rw [release_ok] at h
    cases h
    obtain ⟨c, hc, hcov, hres, hpl⟩ := calc_covered e (some no) (some long) true _ g2 res W hcalc (hl e hv)
    refine ⟨c, hc, hcov, ?_⟩
    rw [← hpl rfl no rfl]
    exact hres

theorem setMem_covered {fmt : Fmt} {addr : Expr} {value : PyVal} {g g' : GenState} {W : List Nat}
    (h : setMem fmt addr value g = .ok ((), g')) (ha : leavesOwned W addr)
    (hl : ∀ e, ensureExpr value = .ok e → leavesOwned W e) :
    ∃ c, g'.code = g.code ++ c ∧ covered W c := by
  simp only [setMem] at h
  cases hv : ensureExpr value with
  | error er => simp only [hv] at h; rw [fail_ok] at h; exact h.elim
  | ok v =>
    simp only [hv] at h
    rw [bind_ok] at h
    obtain ⟨⟨d, off, arel⟩, g1, haddr, h⟩ := h
    simp only [] at h
    -- the address: a base register with a value, possibly computed
    have hA : ∃ ca, g1.code = g.code ++ ca ∧ covered W ca ∧ d ∈ after W ca := by
      cases hsum : addr.asSum with
      | some p =>
        obtain ⟨base, off'⟩ := p
        simp only [hsum] at haddr
        rw [pure_ok] at haddr
        cases haddr
        obtain ⟨op', lg, sg', s', hshape⟩ := asSum_shape hsum
        subst hshape
        exact ⟨[], by simp, trivial, ha.1⟩
      | none =>
        simp only [hsum] at haddr
        rw [bind_ok] at haddr
        obtain ⟨ares, g2, hca, haddr⟩ := haddr
        rw [pure_ok] at haddr
        cases haddr
        obtain ⟨ca, hca', hcova, hresa, _⟩ := calc_covered addr none (some true) false g g1 ares W hca ha
        exact ⟨ca, hca', hcova, hresa⟩
    obtain ⟨ca, hca, hcova, hd⟩ := hA
    cases hsm : v.asSmallConst with
    | some cst =>
      simp only [hsm] at h
      rw [bind_ok] at h
      obtain ⟨u, g3, hem, h⟩ := h
      rw [emit_ok] at hem
      rw [release_ok] at h
      cases hem; cases h
      refine ⟨ca ++ [⟨Consts.op_ST + fmt.sizeOp, d, 0, off, cst⟩], by simp [hca], covered_snoc hcova ?_⟩
      rw [(rd_st fmt d off cst).1]; intro x hx; simp at hx; subst hx; exact hd
    | none =>
      simp only [hsm] at h
      rw [bind_ok] at h
      obtain ⟨vres, g3, hcv, h⟩ := h
      rw [bind_ok] at h
      obtain ⟨u, g4, hem, h⟩ := h
      rw [bind_ok] at h
      obtain ⟨u2, g5, hr1, h⟩ := h
      rw [emit_ok] at hem
      rw [release_ok] at hr1 h
      cases hem; cases hr1; cases h
      have hlv : leavesOwned (after W ca) v := leavesOwned_mono (fun n hn => mem_after_of_mem ca hn) (hl v hv)
      obtain ⟨cv, hcv', hcovv, hresv, _⟩ := calc_covered v none (some fmt.isLong) false g1 g3 vres (after W ca) hcv hlv
      refine ⟨(ca ++ cv) ++ [⟨Consts.op_STX + fmt.sizeOp, d, vres.reg, off, 0⟩], by simp [hcv', hca],
        covered_snoc ((covered_append ca cv W).mpr ⟨hcova, hcovv⟩) ?_⟩
      rw [(rd_stx fmt d vres.reg off).1, after_append]
      intro x hx
      simp at hx
      rcases hx with hx | hx
      · subst hx; exact mem_after_of_mem cv hd
      · subst hx; exact hresv

/-- the registers a statement gives a value -/
def destRegs : Stmt → List Nat
  | .set (.reg _ no) _ => [no]
  | .set (.var _) _ => []

/-- the hypothesis of `owners_sound` for one statement: every register the elaborated expression reads, and the base
register of a destination variable, has a value (C01's precondition `leavesOwned`, for the set `W`) -/
def stmtLeaves (env : List VarLoc) (W : List Nat) : Stmt → Prop
  | .set d e => (∀ v ex, elabE env e = .ok v → ensureExpr v = .ok ex → leavesOwned W ex) ∧
      (∀ name l, d = .var name → lookupVar env name = some l → l.base ∈ W)

theorem stmt_covered {env : List VarLoc} {s : Stmt} {g g' : GenState} {W : List Nat}
    (h : emitStmt env s g = .ok ((), g')) (hl : stmtLeaves env W s) :
    ∃ c, g'.code = g.code ++ c ∧ covered W c ∧ ∀ n ∈ destRegs s, n ∈ after W c := by
  cases s with
  | set d e =>
    simp only [emitStmt] at h
    cases hv : elabE env e with
    | error er => simp only [hv] at h; cases h
    | ok v =>
      simp only [hv] at h
      cases d with
      | reg view no =>
        simp only [] at h
        obtain ⟨c, hc, hcov, hno⟩ := setReg_covered (W := W) h (fun ex hex => hl.1 v ex hv hex)
        refine ⟨c, hc, hcov, ?_⟩
        intro n hn
        simp [destRegs] at hn
        subst hn
        exact hno
      | var name =>
        simp only [] at h
        cases hlk : lookupVar env name with
        | none => simp only [hlk] at h; cases h
        | some l =>
          simp only [hlk, varExpr] at h
          have hbase := hl.2 name l rfl hlk
          obtain ⟨c, hc, hcov⟩ := setMem_covered (W := W) h (by exact ⟨hbase, trivial⟩) (fun ex hex => hl.1 v ex hv hex)
          exact ⟨c, hc, hcov, by intro n hn; simp [destRegs] at hn⟩

/-! ## statement lists and programs -/

def stmtsLeaves (env : List VarLoc) : List Nat → List Stmt → Prop
  | _, [] => True
  | W, s :: ss => stmtLeaves env W s ∧ stmtsLeaves env (destRegs s ++ W) ss

theorem stmtLeaves_mono {env : List VarLoc} {W W' : List Nat} (hw : ∀ r, r ∈ W → r ∈ W') {s : Stmt}
    (h : stmtLeaves env W s) : stmtLeaves env W' s := by
  cases s with
  | set d e => exact ⟨fun v ex h1 h2 => leavesOwned_mono hw (h.1 v ex h1 h2), fun name l h1 h2 => hw _ (h.2 name l h1 h2)⟩

theorem stmtsLeaves_mono {env : List VarLoc} : ∀ (ss : List Stmt) {W W' : List Nat}, (∀ r, r ∈ W → r ∈ W') →
    stmtsLeaves env W ss → stmtsLeaves env W' ss
  | [], _, _, _, _ => trivial
  | s :: ss, W, W', hw, h => by
    refine ⟨stmtLeaves_mono hw h.1, stmtsLeaves_mono ss ?_ h.2⟩
    intro r hr
    rcases List.mem_append.mp hr with hr | hr
    · exact List.mem_append_left _ hr
    · exact List.mem_append_right _ (hw r hr)

theorem stmts_covered {env : List VarLoc} : ∀ (ss : List Stmt) {g g' : GenState} {W : List Nat},
    emitStmts env ss g = .ok ((), g') → stmtsLeaves env W ss → ∃ c, g'.code = g.code ++ c ∧ covered W c
  | [], g, g', W, h, _ => by
    simp only [emitStmts] at h
    rw [pure_ok] at h
    cases h
    exact ⟨[], by simp, trivial⟩
  | s :: ss, g, g', W, h, hl => by
    simp only [emitStmts] at h
    rw [bind_ok] at h
    obtain ⟨u, g1, hs, h⟩ := h
    obtain ⟨c1, hc1, hcov1, hdest⟩ := stmt_covered hs hl.1
    have hl2 : stmtsLeaves env (after W c1) ss := by
      refine stmtsLeaves_mono ss ?_ hl.2
      intro r hr
      rcases List.mem_append.mp hr with hr | hr
      · exact hdest r hr
      · exact mem_after_of_mem c1 hr
    obtain ⟨c2, hc2, hcov2⟩ := stmts_covered ss h hl2
    exact ⟨c1 ++ c2, by rw [hc2, hc1, List.append_assoc], (covered_append c1 c2 W).mpr ⟨hcov1, hcov2⟩⟩

/-- **owners_sound** (C01 fragment of `Gen`: assignments of integer expressions to registers, locals and array-map
variables): if every register that a statement's expression reads is owned before the program or is the destination of an
earlier statement (C01's `leavesOwned`), then in the emitted code every register an instruction reads is in the initial
`owners` or written earlier in the code. -/
theorem owners_sound (p : Prog) (code : List Insn) (h : emitProg p = .ok code)
    (hl : stmtsLeaves (layout p.vars) p.owned p.stmts) : covered p.owned code := by
  unfold emitProg at h
  split at h
  · rename_i u g hg
    cases h
    obtain ⟨c, hc, hcov⟩ := stmts_covered p.stmts hg hl
    simp only [Gen.initState, List.nil_append] at hc
    rw [hc]
    exact hcov
  · cases h

/-- the hypothesis `leavesOwned` cannot be replaced by the generator's own check (`Register.calculate` raising
AssembleError for a register outside `owners`): a live temporary or a destination that `__setitem__` made an owner before
the expression is evaluated passes that check without having a value.  Witness: `r2 = r2 + 1` with only r1, r10 owned. -/
def selfRead : Prog := ⟨[1, 10], [], [.set (.reg .r 2) (.bin .add (.reg .r 2) (.c 1))]⟩

theorem owners_check_insufficient :
    ∃ code, emitProg selfRead = .ok code ∧ ¬ covered selfRead.owned code := by
  refine ⟨[⟨Consts.op_ADD + Consts.op_LONG, 2, 0, 0, 1⟩], by rfl, ?_⟩
  intro h
  have h2 := h.1 2 (by simp [reads, isAlu, cls, code, useReg, Consts.op_ADD, Consts.op_LONG])
  simp [selfRead] at h2

end Ebv.C05
