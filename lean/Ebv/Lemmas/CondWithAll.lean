import Ebv.Lemmas.CondSplice2
/-! **with_correct**: by induction on statements, the emitted code is a closed segment that realises the
structured big-step semantics (`KStmt.sem` with the machine-level truth of conditions). -/
namespace Ebv.Gen
open Ebv.Ebpf Ebv.C01

theorem with_correct (s : KStmt) : ∀ o : List Nat, s.ok o → BlockOk o (emitK s) (s.sem CObj.mtruth o) (s.own o) := by
  induction s with
  | skip =>
    intro o _ g g' hsub h
    simp only [emitK] at h
    rw [pure_ok] at h; cases h
    exact ⟨hsub, rfl, [], by simp, fun σ => ⟨σ, SegRun.nil σ, Keep.refl o σ⟩⟩
  | set cs =>
    intro o hok g g' hsub h
    simp only [emitK] at h
    simp only [KStmt.ok] at hok
    obtain ⟨⟨⟨c, hc, hst, hrun⟩, hstack⟩, ho⟩ := stmt_correct cs g g' (CStmt.ok_mono hsub hok) h
    refine ⟨by rw [ho]; exact CStmt.owners_mono hsub cs, hstack, c, hc, ?_⟩
    intro σ
    obtain ⟨σ', he, hsp⟩ := hrun σ
    exact ⟨σ', segRun_of_exec hst he, CStmt.spec_mono hsub hsp⟩
  | seq a b iha ihb =>
    intro o hok g g' hsub h
    simp only [emitK] at h
    rw [bind_ok] at h; obtain ⟨u, g1, h1, h2⟩ := h
    obtain ⟨ha1, ha2, sa, hca, hra⟩ := iha o hok.1 g g1 hsub h1
    obtain ⟨hb1, hb2, sb, hcb, hrb⟩ := ihb (a.own o) hok.2 g1 g' ha1 h2
    refine ⟨hb1, by rw [hb2, ha2], sa ++ sb, by rw [hcb, hca, List.append_assoc], ?_⟩
    intro σ
    obtain ⟨σ1, hs1, hm1⟩ := hra σ
    obtain ⟨σ2, hs2, hm2⟩ := hrb σ1
    exact ⟨σ2, SegRun.append hs1 hs2, σ1, hm1, hm2⟩
  | ifThen c body ihb =>
    intro o hok
    exact withThen_correct o c (emitK body) _ _ (ihb o hok.2) (KStmt.own_sup body o) hok.1
  | ifElse c body els ihb ihe =>
    intro o hok
    cases c with
    | bits l r =>
      exact withElse_bits_correct o l r (emitK body) (emitK els) _ _ _ _ (ihb o hok.2.1) (ihe o hok.2.2)
        (KStmt.own_sup body o) (KStmt.own_sup els o) hok.1
    | simple op sg l r =>
      exact withElse_correct o _ (emitK body) (emitK els) _ _ _ _ (ihb o hok.2.1) (ihe o hok.2.2)
        (KStmt.own_sup body o) (KStmt.own_sup els o) hok.1 rfl
    | andor isAnd a b =>
      exact withElse_correct o _ (emitK body) (emitK els) _ _ _ _ (ihb o hok.2.1) (ihe o hok.2.2)
        (KStmt.own_sup body o) (KStmt.own_sup els o) hok.1 rfl
    | inv a =>
      exact withElse_correct o _ (emitK body) (emitK els) _ _ _ _ (ihb o hok.2.1) (ihe o hok.2.2)
        (KStmt.own_sup body o) (KStmt.own_sup els o) hok.1 rfl

end Ebv.Gen
