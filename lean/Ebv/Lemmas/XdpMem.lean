import Ebv.Model.XdpRun
import Ebv.Model.Bytes
/-! Flat-memory facts for the translation validation of the XDP dispatcher (C22TV): closed form of `storeN` on
addresses given as naturals below 2^64, loads over stores (disjoint / same address), loads as little-endian
digits and as `Bytes.decLE` of a byte list. -/
namespace Ebv.XdpRun
open Ebv.Ebpf Ebv.Bytes



theorem ofNat_inj64 {a b : Nat} (ha : a < 2 ^ 64) (hb : b < 2 ^ 64) : (BitVec.ofNat 64 a = BitVec.ofNat 64 b) ↔ a = b := by
  constructor
  · intro h
    have := congrArg BitVec.toNat h
    simp only [BitVec.toNat_ofNat] at this
    rw [Nat.mod_eq_of_lt (by exact ha), Nat.mod_eq_of_lt (by exact hb)] at this
    exact this
  · intro h; rw [h]

theorem ofNat_add64 (a b : Nat) : BitVec.ofNat 64 a + BitVec.ofNat 64 b = BitVec.ofNat 64 (a + b) := by
  apply BitVec.eq_of_toNat_eq; simp

/-- closed form of a store, on addresses given as naturals -/
theorem storeN_at (n : Nat) : ∀ (M : W → BitVec 8) (a v b : Nat), a + n ≤ 2 ^ 64 → b < 2 ^ 64 →
    storeN M (BitVec.ofNat 64 a) n v (BitVec.ofNat 64 b) =
      if a ≤ b ∧ b < a + n then BitVec.ofNat 8 (v / 256 ^ (b - a)) else M (BitVec.ofNat 64 b) := by
  induction n with
  | zero =>
    intro M a v b _ _
    have : ¬ (a ≤ b ∧ b < a + 0) := by omega
    simp only [storeN, this, if_false]
  | succ n ih =>
    intro M a v b ha hb
    have h1 : BitVec.ofNat 64 a + 1 = BitVec.ofNat 64 (a + 1) := ofNat_add64 a 1
    simp only [storeN, h1]
    rw [ih _ (a + 1) (v / 256) b (by omega) hb]
    by_cases hab : b = a
    · subst hab
      have h3 : ¬ (b + 1 ≤ b ∧ b < b + 1 + n) := by omega
      have h4 : b ≤ b ∧ b < b + (n + 1) := by omega
      simp only [h3, h4, and_self, if_true, if_false, Nat.sub_self, Nat.pow_zero, Nat.div_one]
    · have hne : ¬ BitVec.ofNat 64 b = BitVec.ofNat 64 a := by
        rw [ofNat_inj64 hb (by omega)]; exact hab
      simp only [hne, if_false]
      by_cases hin : a + 1 ≤ b ∧ b < a + 1 + n
      · have h2 : a ≤ b ∧ b < a + (n + 1) := by omega
        simp only [hin, h2, and_self, if_true]
        have : b - a = (b - (a + 1)) + 1 := by omega
        rw [this, Nat.pow_succ, Nat.div_div_eq_div_mul, Nat.mul_comm]
      · have h2 : ¬ (a ≤ b ∧ b < a + (n + 1)) := by omega
        simp only [hin, h2, if_false]

theorem loadN_congr (n : Nat) : ∀ (M M' : W → BitVec 8) (a : Nat),
    (∀ i, i < n → M (BitVec.ofNat 64 (a + i)) = M' (BitVec.ofNat 64 (a + i))) →
    loadN M (BitVec.ofNat 64 a) n = loadN M' (BitVec.ofNat 64 a) n := by
  induction n with
  | zero => intros; rfl
  | succ n ih =>
    intro M M' a h
    have h1 : BitVec.ofNat 64 a + 1 = BitVec.ofNat 64 (a + 1) := ofNat_add64 a 1
    simp only [loadN, h1]
    rw [ih M M' (a + 1) (fun i hi => by have := h (i + 1) (by omega); rwa [Nat.add_assoc, Nat.add_comm 1 i]), 
      show M (BitVec.ofNat 64 a) = M' (BitVec.ofNat 64 a) from by simpa using h 0 (by omega)]

/-- a load whose bytes are the little-endian digits of `v` -/
theorem loadN_digits (n : Nat) : ∀ (M : W → BitVec 8) (a v : Nat),
    (∀ i, i < n → M (BitVec.ofNat 64 (a + i)) = BitVec.ofNat 8 (v / 256 ^ i)) →
    loadN M (BitVec.ofNat 64 a) n = v % 256 ^ n := by
  induction n with
  | zero => intros; simp [loadN, Nat.mod_one]
  | succ n ih =>
    intro M a v h
    have h1 : BitVec.ofNat 64 a + 1 = BitVec.ofNat 64 (a + 1) := ofNat_add64 a 1
    simp only [loadN, h1]
    rw [ih M (a + 1) (v / 256) (fun i hi => by
      have := h (i + 1) (by omega)
      rw [Nat.add_assoc, Nat.add_comm 1 i, this, Nat.pow_succ, Nat.div_div_eq_div_mul, Nat.mul_comm])]
    have h0 := h 0 (by omega)
    simp only [Nat.add_zero, Nat.pow_zero, Nat.div_one] at h0
    rw [h0, Nat.pow_succ, Nat.mul_comm (256 ^ n) 256, Nat.mod_mul]
    simp

theorem loadN_storeN_disj (M : W → BitVec 8) (a n v b m : Nat) (ha : a + n ≤ 2 ^ 64) (hb : b + m ≤ 2 ^ 64)
    (hd : b + m ≤ a ∨ a + n ≤ b) :
    loadN (storeN M (BitVec.ofNat 64 a) n v) (BitVec.ofNat 64 b) m = loadN M (BitVec.ofNat 64 b) m := by
  apply loadN_congr
  intro i hi
  rw [storeN_at n M a v (b + i) ha (by omega)]
  have : ¬ (a ≤ b + i ∧ b + i < a + n) := by omega
  simp only [this, if_false]

theorem loadN_storeN_same (M : W → BitVec 8) (a n v m : Nat) (ha : a + n ≤ 2 ^ 64) (hm : m ≤ n) :
    loadN (storeN M (BitVec.ofNat 64 a) n v) (BitVec.ofNat 64 a) m = v % 256 ^ m := by
  apply loadN_digits
  intro i hi
  rw [storeN_at n M a v (a + i) ha (by omega)]
  have : a ≤ a + i ∧ a + i < a + n := by omega
  simp only [this, and_self, if_true, Nat.add_sub_cancel_left]

/-- a narrower load at the same address is the wider one modulo its width -/
theorem loadN_mod (M : W → BitVec 8) (m : Nat) : ∀ (n : Nat) (x : W), m ≤ n →
    loadN M x m = loadN M x n % 256 ^ m := by
  induction m with
  | zero => intros; simp [loadN, Nat.mod_one]
  | succ m ih =>
    intro n x h
    obtain ⟨n', rfl⟩ : ∃ n', n = n' + 1 := ⟨n - 1, by omega⟩
    simp only [loadN]
    rw [ih n' (x + 1) (by omega), Nat.pow_succ, Nat.mul_comm (256 ^ m) 256, Nat.mod_mul]
    have hb : (M x).toNat < 256 := (M x).isLt
    have h1 : ((M x).toNat + 256 * loadN M (x + 1) n') % 256 = (M x).toNat := by omega
    have h2 : ((M x).toNat + 256 * loadN M (x + 1) n') / 256 = loadN M (x + 1) n' := by omega
    rw [h1, h2]

theorem byte_toNat (b : UInt8) : (byte b).toNat = b.toNat := by
  have : b.toNat < 256 := b.toNat_lt
  simp [byte]

/-- memory holding the bytes of `l` at `a` loads as `decLE l` -/
theorem loadN_bytes (l : List UInt8) : ∀ (M : W → BitVec 8) (a : Nat),
    (∀ i (h : i < l.length), M (BitVec.ofNat 64 (a + i)) = byte l[i]) →
    loadN M (BitVec.ofNat 64 a) l.length = decLE l := by
  induction l with
  | nil => intros; rfl
  | cons b bs ih =>
    intro M a h
    have h1 : BitVec.ofNat 64 a + 1 = BitVec.ofNat 64 (a + 1) := ofNat_add64 a 1
    simp only [List.length_cons, loadN, decLE, h1]
    rw [ih M (a + 1) (fun i hi => by
      have := h (i + 1) (by simp; omega)
      rw [Nat.add_assoc, Nat.add_comm 1 i, this]; simp)]
    have h0 := h 0 (by simp)
    simp only [Nat.add_zero, List.getElem_cons_zero] at h0
    rw [h0, byte_toNat]

theorem loadN_lt' (M : W → BitVec 8) : ∀ (n : Nat) (x : W), loadN M x n < 256 ^ n := by
  intro n
  induction n with
  | zero => intro x; simp [loadN]
  | succ n ih =>
    intro x
    have := ih (x + 1)
    have hb : (M x).toNat < 256 := (M x).isLt
    simp only [loadN, Nat.pow_succ]
    omega

end Ebv.XdpRun
