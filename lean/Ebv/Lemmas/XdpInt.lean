import Ebv.Lemmas.Sem
import Ebv.Model.Motor
import Ebv.Model.Bytes
/-! Bridge between 64-bit register arithmetic and the `Int` arithmetic with explicit `wrapS` of the Motor model:
`toInt` of sums, differences and products, of zero-extended loads, and of the shift pairs that sign-extend a 32-bit
(`<<< 32`, `sshiftRight 32`) or 16-bit (`48` on 64 bits, `16` on 32 bits) field. -/
namespace Ebv.XdpRun
open Ebv.Ebpf Ebv.Motor Ebv.Bytes

theorem bmod64 (z : Int) : z.bmod (2 ^ 64) = wrapS 64 z := by
  rw [Int.bmod_def]
  simp only [wrapS]
  have e1 : ((2 ^ 64 : Nat) : Int) = 18446744073709551616 := by decide
  have e2 : (2 : Int) ^ 64 = 18446744073709551616 := by decide
  have e3 : (2 : Int) ^ (64 - 1) = 9223372036854775808 := by decide
  rw [e1, e2, e3]
  split <;> split <;> omega

theorem tI_add (x y : W) : (x + y).toInt = wrapS 64 (x.toInt + y.toInt) := by rw [BitVec.toInt_add, bmod64]
theorem tI_sub (x y : W) : (x - y).toInt = wrapS 64 (x.toInt - y.toInt) := by rw [BitVec.toInt_sub, bmod64]
theorem tI_mul (x y : W) : (x * y).toInt = wrapS 64 (x.toInt * y.toInt) := by rw [BitVec.toInt_mul, bmod64]

theorem tI_ofNat (n : Nat) (h : n < 2 ^ 63) : (BitVec.ofNat 64 n).toInt = n := by
  rw [BitVec.toInt_eq_toNat_bmod, BitVec.toNat_ofNat, Int.bmod_def]
  have e1 : ((2 ^ 64 : Nat) : Int) = 18446744073709551616 := by decide
  rw [e1]
  have : n % 2 ^ 64 = n := Nat.mod_eq_of_lt (by omega)
  rw [this]
  split <;> omega

/-- two's complement reading of a zero-extended `k`-bit field as `toInt` of the `k`-bit vector -/
theorem toInt_ofNat_signed (bytes : Nat) (hb : bytes = 2 ∨ bytes = 4) (n : Nat) (h : n < 2 ^ (8 * bytes)) :
    (BitVec.ofNat (8 * bytes) n).toInt = toSigned bytes n := by
  rw [BitVec.toInt_eq_toNat_bmod, BitVec.toNat_ofNat, Nat.mod_eq_of_lt h, Int.bmod_def]
  simp only [toSigned]
  rcases hb with rfl | rfl
  · have e1 : ((2 ^ (8 * 2) : Nat) : Int) = 65536 := by decide
    have e2 : (2 : Int) ^ (8 * 2) = 65536 := by decide
    have e3 : (2 : Nat) ^ (8 * 2 - 1) = 32768 := by decide
    have h' : n < 65536 := h
    rw [e1, e2, e3]; split <;> split <;> omega
  · have e1 : ((2 ^ (8 * 4) : Nat) : Int) = 4294967296 := by decide
    have e2 : (2 : Int) ^ (8 * 4) = 4294967296 := by decide
    have e3 : (2 : Nat) ^ (8 * 4 - 1) = 2147483648 := by decide
    have h' : n < 4294967296 := h
    rw [e1, e2, e3]; split <;> split <;> omega

/-- `LSH 32; ARSH 32` on a zero-extended 32-bit load -/
theorem sext32_toInt (n : Nat) (h : n < 4294967296) :
    ((BitVec.ofNat 64 n <<< 32).sshiftRight 32).toInt = toSigned 4 n := by
  have := Ebv.Gen.shl_sshr_signExtend 32 64 (BitVec.ofNat 32 n) (by omega) (by omega)
  rw [BitVec.setWidth_ofNat_of_le_of_lt (by omega) (by omega)] at this
  rw [show (64 - 32 : Nat) = 32 from rfl] at this
  rw [this, BitVec.toInt_signExtend_of_le (by omega)]
  exact toInt_ofNat_signed 4 (Or.inr rfl) n h

/-- `LSH 48; ARSH 48` on a zero-extended 16-bit load -/
theorem sext16_toInt (n : Nat) (h : n < 65536) :
    ((BitVec.ofNat 64 n <<< 48).sshiftRight 48).toInt = toSigned 2 n := by
  have := Ebv.Gen.shl_sshr_signExtend 16 64 (BitVec.ofNat 16 n) (by omega) (by omega)
  rw [BitVec.setWidth_ofNat_of_le_of_lt (by omega) (by omega)] at this
  rw [show (64 - 16 : Nat) = 48 from rfl] at this
  rw [this, BitVec.toInt_signExtend_of_le (by omega)]
  exact toInt_ofNat_signed 2 (Or.inl rfl) n h

end Ebv.XdpRun
