import Ebv.Lemmas.CondCompare2
/-! `compare` for `AndOrComparison` and `InvertComparison`; **cond_correct** by induction on the condition tree. -/
namespace Ebv.Gen
open Ebv.Ebpf

theorem atomVal_congr (f : (w : Nat) → BitVec w → BitVec w → Bool) (o : List Nat) (l r : Expr) (σ σ' : State)
    (hk : Keep o σ σ') (hok : AtomOk o l r) : atomVal f l r σ' = atomVal f l r σ := by
  have hl : ∀ b, evalBV σ' b l = evalBV σ b l := fun b =>
    evalBV_congr σ' σ b hk.2 l (fun n hn => hk.1 n (contains_of_leaves hok.left.leaves hn))
  unfold atomVal
  simp only [hl]
  cases hsc : r.asSmallConst with
  | some v => rfl
  | none =>
    have hr : ∀ b, evalBV σ' b r = evalBV σ b r := fun b =>
      evalBV_congr σ' σ b hk.2 r (fun n hn => hk.1 n (contains_of_leaves (hok.right hsc).leaves hn))
    simp only [hr]

theorem mtruth_congr (o : List Nat) (σ σ' : State) (hk : Keep o σ σ') : ∀ (c : CObj), c.ok o → c.mtruth σ' = c.mtruth σ := by
  intro c
  induction c with
  | simple op sg l r => intro h; exact atomVal_congr _ o l r σ σ' hk h
  | bits l r => intro h; exact atomVal_congr _ o l r σ σ' hk h
  | andor isAnd a b iha ihb => intro h; simp only [CObj.mtruth, iha h.1, ihb h.2]
  | inv a ih => intro h; simp only [CObj.mtruth, ih h]

theorem andor_both_taken (isAnd ma mb : Bool) (h : xor ma isAnd = true) :
    xor (if isAnd then ma && mb else ma || mb) isAnd = true := by
  revert h; cases isAnd <;> cases ma <;> cases mb <;> decide
theorem andor_both_fall (isAnd ma mb : Bool) (h : xor ma isAnd = false) :
    xor (if isAnd then ma && mb else ma || mb) isAnd = xor mb isAnd := by
  revert h; cases isAnd <;> cases ma <;> cases mb <;> decide
theorem andor_end_taken (isAnd ma mb : Bool) (h : xor ma isAnd = true) :
    xor (if isAnd then ma && mb else ma || mb) (!isAnd) = false := by
  revert h; cases isAnd <;> cases ma <;> cases mb <;> decide
theorem andor_end_fall (isAnd ma mb : Bool) (h : xor ma isAnd = false) :
    xor (if isAnd then ma && mb else ma || mb) (!isAnd) = xor mb (!isAnd) := by
  revert h; cases isAnd <;> cases ma <;> cases mb <;> decide

/-- the induction hypothesis for a sub-condition -/
def CondIH (c : CObj) : Prop := ∀ (neg : Bool) (g g' : GenState) (p : Pend),
  c.ok g.owners → compare c neg g = .ok (p, g') → CondSeg c neg g g' p

theorem compare_inv (a : CObj) (ih : CondIH a) : CondIH (.inv a) := by
  intro neg g g' p hok h
  simp only [compare] at h
  rw [bind_ok] at h; obtain ⟨pa, g1, hc, h⟩ := h
  rw [pure_ok] at h; cases h
  have A := ih (!neg) g g' pa hok hc
  obtain ⟨segf, hcode, hlen, hpatch, hrun⟩ := A.code
  have hown : pa.own = g.owners := by
    have := A.ownAll
    cases pa <;> simp only [Pend.OwnAll] at this <;> simp [Pend.own, this]
  refine ⟨A.owners, A.stack, ⟨hown, A.ownAll⟩, segf, hcode, hlen,
    fun m L pre rest hpre => by simpa [Pend.patch] using hpatch m L pre rest hpre, ?_⟩
  intro L hL σ
  obtain ⟨σ', hj, hk⟩ := hrun L hL σ
  refine ⟨σ', ?_, hk⟩
  have e : xor (CObj.mtruth (.inv a) σ) neg = xor (a.mtruth σ) (!neg) := by
    simp only [CObj.mtruth]; cases a.mtruth σ <;> cases neg <;> rfl
  rw [e]; exact hj

theorem compare_andor (isAnd : Bool) (a b : CObj) (iha : CondIH a) (ihb : CondIH b) : CondIH (.andor isAnd a b) := by
  intro neg g g' p hok h
  simp only [compare] at h
  rw [bind_ok] at h; obtain ⟨pa, g1, hca, h⟩ := h
  rw [bind_ok] at h; obtain ⟨pb, g2, hcb, h⟩ := h
  rw [bind_ok] at h; obtain ⟨pa', g3, htg, h⟩ := h
  rw [bind_ok] at h; obtain ⟨os, g4, hos, h⟩ := h
  rw [getOwners_ok] at hos; cases hos
  rw [pure_ok] at h; cases h
  have A := iha isAnd g g1 pa hok.1 hca
  have B := ihb neg g1 g2 pb (by rw [A.owners]; exact hok.2) hcb
  obtain ⟨sfa, hcodea, hlena, hpa, hruna⟩ := A.code
  obtain ⟨sfb, hcodeb, hlenb, hpb, hrunb⟩ := B.code
  have ho2 : g2.owners = g.owners := by rw [B.owners, A.owners]
  have hl1 : g1.code.length = g.code.length + (sfa none).length := by rw [hcodea]; simp
  have hl2 : g2.code.length = g1.code.length + (sfb none).length := by rw [hcodeb]; simp
  have hBown : pb.OwnAll g.owners := by have := B.ownAll; rwa [A.owners] at this
  -- the machine-level truth of the right operand does not depend on what the left operand's code clobbered
  have hmb : ∀ σ σ1 : State, Keep g.owners σ σ1 → b.mtruth σ1 = b.mtruth σ :=
    fun σ σ1 hk => mtruth_congr g.owners σ σ1 hk b hok.2
  by_cases hboth : isAnd = neg
  · -- both pending jumps leave for the final target
    have hne : (isAnd != neg) = false := by simp [hboth]
    rw [hne] at htg
    simp only [Bool.false_eq_true, if_false] at htg
    rw [pure_ok] at htg; cases htg
    have hbe : (isAnd == neg) = true := by simp [hboth]
    refine ⟨ho2, by rw [B.stack, A.stack], ⟨ho2, A.ownAll, hBown⟩, fun m => sfa m ++ sfb m,
      by rw [hcodeb, hcodea, List.append_assoc], fun m => by simp [hlena m, hlenb m], ?_, ?_⟩
    · intro m L pre rest hpre
      simp only [Pend.patch, hbe, if_true]
      have e1 : pre ++ (sfa m ++ sfb m) ++ rest = pre ++ sfa m ++ (sfb m ++ rest) := by simp
      rw [e1, hpa m L pre _ hpre]
      have e2 : pre ++ sfa (some L) ++ (sfb m ++ rest) = (pre ++ sfa (some L)) ++ sfb m ++ rest := by simp
      rw [e2, hpb m L (pre ++ sfa (some L)) rest (by simp [hpre, hlena, hl1])]
      simp
    · intro L hL σ
      obtain ⟨σ1, hja, hka⟩ := hruna L (by omega) σ
      obtain ⟨σ2, hjb, hkb⟩ := hrunb L hL σ1
      rw [A.owners] at hkb
      rw [hmb σ σ1 hka] at hjb
      cases hta : xor (a.mtruth σ) isAnd with
      | true =>
        rw [hta] at hja
        refine ⟨σ1, ?_, hka⟩
        have e : xor (CObj.mtruth (.andor isAnd a b) σ) neg = true := by
          simp only [CObj.mtruth]; subst hboth
          exact andor_both_taken _ _ _ hta
        rw [e]; exact JumpRun.taken_append hja
      | false =>
        rw [hta] at hja
        refine ⟨σ2, ?_, hka.trans hkb⟩
        have e : xor (CObj.mtruth (.andor isAnd a b) σ) neg = xor (b.mtruth σ) neg := by
          simp only [CObj.mtruth]; subst hboth
          exact andor_both_fall _ _ _ hta
        rw [e]
        have := JumpRun.fall_append hja hjb
        have e2 : (sfa (some L)).length + (L - g1.code.length) = L - g.code.length := by
          rw [hlena]; omega
        rw [e2] at this; exact this
  · -- the left operand's jumps are targeted at the end of the whole comparison code
    have hne : (isAnd != neg) = true := by simp [hboth]
    rw [hne] at htg
    simp only [if_true] at htg
    have hbe : (isAnd == neg) = false := by simp [hboth]
    obtain ⟨t1, t2, t3, _, _⟩ := target_ok pa false g2 pa' g' htg
    simp only [Bool.false_eq_true, if_false] at t3
    have hcode3 : g'.code = g.code ++ (sfa (some g2.code.length) ++ sfb none) := by
      rw [t1]
      have := hpa none g2.code.length g.code (sfb none) rfl
      rw [hcodeb, hcodea] at this ⊢
      rw [this]; simp
    have ho3 : g'.owners = g.owners := by rw [t3, ho2]; exact interAll_self _ pa A.ownAll
    -- the stored owners of the re-built left object are irrelevant: it is not patched again
    refine ⟨ho3, by rw [t2, B.stack, A.stack], ?_, fun m => sfa (some g2.code.length) ++ sfb m, hcode3,
      fun m => by simp [hlenb m], ?_, ?_⟩
    · refine ⟨ho3, ?_, hBown⟩
      -- `OwnAll` of the returned left object
      have : ∀ (q : Pend) (gg gg' : GenState) (q' : Pend), q.OwnAll g.owners → gg.owners = g.owners →
          target q false gg = .ok (q', gg') → q'.OwnAll g.owners ∧ gg'.owners = g.owners := by
        intro q
        induction q with
        | jump origin ins own =>
          intro gg gg' q' hq hgg hh
          simp only [target] at hh
          obtain ⟨_, _, c3, c4⟩ := targetJump_ok hh
          simp only [Bool.false_eq_true, if_false] at c3 c4
          simp only [Pend.OwnAll] at hq
          rw [c4]; simp only [Pend.OwnAll]
          exact ⟨hgg, by rw [c3, hq, hgg]; exact inter_self _⟩
        | andor both l r own ihl ihr =>
          intro gg gg' q' hq hgg hh
          simp only [target] at hh
          rw [bind_ok] at hh; obtain ⟨l', gg1, hl, hh⟩ := hh
          rw [bind_ok] at hh; obtain ⟨r', gg2, hr, hh⟩ := hh
          rw [pure_ok] at hh; cases hh
          simp only [Pend.OwnAll] at hq ⊢
          cases both with
          | false =>
            simp only [Bool.false_eq_true, if_false] at hl
            rw [pure_ok] at hl; cases hl
            obtain ⟨r1, r2⟩ := ihr gg gg' r' hq.2.2 hgg hr
            exact ⟨⟨hq.1, hq.2.1, r1⟩, r2⟩
          | true =>
            simp only [if_true] at hl
            obtain ⟨l1, l2⟩ := ihl gg gg1 l' hq.2.1 hgg hl
            obtain ⟨r1, r2⟩ := ihr gg1 gg' r' hq.2.2 l2 hr
            exact ⟨⟨hq.1, l1, r1⟩, r2⟩
        | inv v own ih =>
          intro gg gg' q' hq hgg hh
          simp only [target] at hh
          rw [bind_ok] at hh; obtain ⟨v', gg1, hv, hh⟩ := hh
          rw [pure_ok] at hh; cases hh
          simp only [Pend.OwnAll] at hq ⊢
          obtain ⟨v1, v2⟩ := ih gg gg' v' hq.2 hgg hv
          exact ⟨⟨hq.1, v1⟩, v2⟩
      exact (this pa g2 g' pa' A.ownAll ho2 htg).1
    · intro m L pre rest hpre
      simp only [Pend.patch, hbe, Bool.false_eq_true, if_false]
      have e2 : pre ++ (sfa (some g2.code.length) ++ sfb m) ++ rest
          = (pre ++ sfa (some g2.code.length)) ++ sfb m ++ rest := by simp
      rw [e2, hpb m L (pre ++ sfa (some g2.code.length)) rest (by simp [hpre, hlena, hl1])]
      simp
    · intro L hL σ
      have hl3 : g'.code.length = g2.code.length := by rw [t1, patch_length]
      obtain ⟨σ1, hja, hka⟩ := hruna g2.code.length (by omega) σ
      obtain ⟨σ2, hjb, hkb⟩ := hrunb L (by omega) σ1
      rw [A.owners] at hkb
      rw [hmb σ σ1 hka] at hjb
      have eend : g2.code.length - g.code.length = (sfa (some g2.code.length)).length + (sfb (some L)).length := by
        rw [hlena, hlenb]; omega
      rw [eend] at hja
      have hnn : neg = !isAnd := by
        revert hboth; cases isAnd <;> cases neg <;> simp
      cases hta : xor (a.mtruth σ) isAnd with
      | true =>
        rw [hta] at hja
        refine ⟨σ1, ?_, hka⟩
        have e : xor (CObj.mtruth (.andor isAnd a b) σ) neg = false := by
          simp only [CObj.mtruth]; rw [hnn]
          exact andor_end_taken _ _ _ hta
        rw [e]
        have h1 : JumpRun (sfa (some g2.code.length) ++ sfb (some L))
            (sfa (some g2.code.length) ++ sfb (some L)).length σ σ1 true := by
          simpa using JumpRun.taken_append (b := sfb (some L)) hja
        exact h1.to_end
      | false =>
        rw [hta] at hja
        refine ⟨σ2, ?_, hka.trans hkb⟩
        have e : xor (CObj.mtruth (.andor isAnd a b) σ) neg = xor (b.mtruth σ) neg := by
          simp only [CObj.mtruth]; rw [hnn]
          exact andor_end_fall _ _ _ hta
        rw [e]
        have := JumpRun.fall_append hja hjb
        have e2 : (sfa (some g2.code.length)).length + (L - g1.code.length) = L - g.code.length := by
          rw [hlena]; omega
        rw [e2] at this; exact this

/-- **cond_correct** (machine level): for every comparison object whose atoms satisfy `AtomOk`, every sense and
every generator state, the code `compare` appends — with its placeholders patched by `target` for any position
`L` behind it — is a closed segment that, from every machine state, either falls out at its end or reaches exactly
`L`; it jumps iff the condition's truth value differs from what the sense lets fall through
(`taken = mtruth xor negative`), and changes no owned register and no memory. -/
theorem cond_correct (c : CObj) : CondIH c := by
  induction c with
  | simple op sg l r => intro neg g g' p hok h; exact compare_simple op sg l r neg g g' p hok h
  | bits l r => intro neg g g' p hok h; exact compare_bits l r neg g g' p hok h
  | andor isAnd a b iha ihb => exact compare_andor isAnd a b iha ihb
  | inv a ih => exact compare_inv a ih

end Ebv.Gen
