import Ebv.Lemmas.CondAtom2
/-! `SimpleComparison.compare`, part 3: `cmpCore_correct` — the code in front of the placeholder computes both
operands (and widens the left one), changes no owned register and no memory, restores `owners`. -/
namespace Ebv.Gen
open Ebv.Ebpf

/-- what the code in front of the jump leaves behind -/
structure AtomRun (l r : Expr) (ins : Insn) (o : List Nat) (σ σ3 : State) : Prop where
  frame : ∀ n ∈ o, σ3.regs n = σ.regs n
  mem : σ3.mem = σ.mem
  left : if (atomInfo l r).widen then σ3.regs ins.dst = ((evalBV σ (opW l) l).truncate 32).signExtend 64
    else Agree (opW l) (σ3.regs ins.dst) (evalBV σ (opW l) l)
  right : match r.asSmallConst with
    | some v => ins.imm = v
    | none => Agree (rW l r) (σ3.regs ins.src) (evalBV σ (rW l r) r)

theorem atomInfo_widen (l r : Expr) : (atomInfo l r).widen =
    ((l.signed || r.signed) && !widthOf l && (atomInfo l r).rLong) := rfl
theorem atomInfo_short (l r : Expr) : (atomInfo l r).short =
    ((l.signed || r.signed) && !widthOf l && !(atomInfo l r).rLong) := rfl
theorem atomInfo_rImm (l r : Expr) : (atomInfo l r).rImm = r.asSmallConst.isSome := rfl

theorem cmpCore_correct (jop : Nat) (l r : Expr) (g g' : GenState) (origin : Nat) (ins : Insn)
    (hl : OperandOk l (opW l) g.owners) (hr : r.asSmallConst = none → OperandOk r (rW l r) g.owners)
    (hw : widenInPlace l r = false) (h : cmpCore jop l r g = .ok ((origin, ins), g')) :
    ∃ c0, g'.code = g.code ++ c0 ++ [hole] ∧ origin = g.code.length + c0.length ∧ g'.owners = g.owners ∧
      g'.stack = g.stack ∧ (∀ i ∈ c0, straight i = true) ∧
      ins.op = jcode jop (atomInfo l r).short (!(atomInfo l r).rImm) ∧
      ∀ σ : State, ∃ σ3, exec c0 σ = some σ3 ∧ AtomRun l r ins g.owners σ σ3 := by
  simp only [cmpCore] at h
  rw [bind_ok] at h; obtain ⟨lres, g1, hcl, h⟩ := h
  have hll : lres.long = widthOf l := calc_resLong l _ _ _ _ _ _ hcl
  rw [hll] at h
  rw [bind_ok] at h; obtain ⟨rr, g2, hcr, h⟩ := h
  rw [bind_ok] at h; obtain ⟨u1, g3, hwd, h⟩ := h
  rw [bind_ok] at h; obtain ⟨org, g4, hlen, h⟩ := h
  rw [bind_ok] at h; obtain ⟨u2, g5, hem, h⟩ := h
  rw [bind_ok] at h; obtain ⟨u3, g6, hrl1, h⟩ := h
  rw [bind_ok] at h; obtain ⟨u4, g7, hrl2, h⟩ := h
  rw [pure_ok] at h
  rw [curLen_ok] at hlen; rw [emit_ok] at hem; rw [release_ok] at hrl1 hrl2
  cases hlen; cases hem; cases hrl1; cases hrl2
  -- left operand
  have postl := calc_operand l g g1 lres (hl.pre (fun n hn => hn)) hcl
  obtain ⟨cl, hcl2, hstl, hrunl⟩ := postl.run
  have hlin : lres.reg ∈ g1.owners := by
    rw [postl.owners]
    rcases calc_reg_in l _ _ _ _ _ hcl with h1 | h1
    · exact List.mem_append_left _ h1
    · exact List.mem_append_right _ (contains_of_leaves hl.leaves h1)
  have hsub1 : ∀ n, n ∈ g.owners → n ∈ g1.owners := fun n hn => by
    rw [postl.owners]; exact List.mem_append_right _ hn
  -- right operand
  obtain ⟨cr, hcr2, hstr, ho2, hfr2, hs2, hrl, hrin, hrunr⟩ := cmpRight_correct l r g1 g2 rr
    (fun hn => ⟨leavesOwned_mono hsub1 (hr hn).leaves, (hr hn).frag, (hr hn).narrow⟩) hcr
  have hsub2 : ∀ n, n ∈ g1.owners → n ∈ g2.owners := fun n hn => by
    rw [ho2]; exact List.mem_append_right _ hn
  -- widening
  rw [hrl] at hwd h
  have hwb : ((l.signed || r.signed) && !widthOf l && (atomInfo l r).rLong) = (atomInfo l r).widen := rfl
  rw [hwb] at hwd
  obtain ⟨cw, hcw, hstw, ho3, hs3, hrunw⟩ := widenIf_correct _ lres.reg g2 g3 (hsub2 _ hlin) hwd
  -- when the left operand is widened it sits in a fresh register
  have hfreshL : (atomInfo l r).widen = true → lres.reg ∉ g.owners := by
    intro hwt
    have : regChain l = false := by
      simp only [widenInPlace, hwt, Bool.true_and] at hw; exact hw
    rcases postl.place (Or.inr this) with h1 | ⟨_, h2⟩
    · cases h1
    · exact h2
  cases h
  refine ⟨cl ++ cr ++ cw, ?_, ?_, ?_, ?_, ?_, ?_, ?_⟩
  · simp [hcw, hcr2, hcl2]
  · simp [hcw, hcr2, hcl2]
  · simp only [ho3, ho2]
    rw [filter_release _ _ hfr2, postl.owners, filter_release _ _ postl.fresh]
  · simp [hs3, hs2, postl.stack]
  · intro i hi
    simp only [List.mem_append] at hi
    rcases hi with (hi | hi) | hi
    · exact hstl i hi
    · exact hstr i hi
    · exact hstw i hi
  · simp only [jcode, atomInfo_short, atomInfo_rImm]
    by_cases hx : r.asSmallConst.isSome = true <;> simp [hx]
  · intro σ
    obtain ⟨σ1, he1, hv1, hf1, hm1⟩ := hrunl σ
    obtain ⟨σ2, he2, hf2, hm2, hv2⟩ := hrunr σ1
    obtain ⟨σ3, he3, hv3, hf3, hall3, hm3⟩ := hrunw σ2
    have hfr1 : ∀ n ∈ g.owners, σ1.regs n = σ.regs n := fun n hn => hf1 n hn (by simp)
    refine ⟨σ3, by rw [exec_append (exec_append he1 ▸ he2 : exec (cl ++ cr) σ = some σ2)]; exact he3, ?_, ?_, ?_, ?_⟩
    · intro n hn
      have hne : (atomInfo l r).widen = true → n ≠ lres.reg := fun hwt e => hfreshL hwt (e ▸ hn)
      cases hwt : (atomInfo l r).widen with
      | true => rw [hf3 n (hsub2 n (hsub1 n hn)) (hne hwt), hf2 n (hsub1 n hn), hfr1 n hn]
      | false => rw [hall3 hwt n, hf2 n (hsub1 n hn), hfr1 n hn]
    · rw [hm3, hm2, hm1]
    · simp only []
      rw [hv3, hf2 _ hlin]
      cases hwt : (atomInfo l r).widen with
      | true => simp only [if_true]; rw [hv1.trunc]
      | false => simpa using hv1
    · simp only []
      cases hsc : r.asSmallConst with
      | some v => rw [hsc] at hv2; simpa using hv2
      | none =>
        rw [hsc] at hv2
        simp only [] at hv2 ⊢
        have hcong : evalBV σ1 (rW l r) r = evalBV σ (rW l r) r :=
          evalBV_congr σ1 σ _ hm1 r (fun n hn => hfr1 n (contains_of_leaves (hr hsc).leaves hn))
        rw [← hcong]
        have hreg : σ3.regs rr.1 = σ2.regs rr.1 := by
          cases hwt : (atomInfo l r).widen with
          | false => exact hall3 hwt _
          | true =>
            have hin2 : rr.1 ∈ g2.owners := by
              rw [ho2]
              rcases hrin hsc with h1 | h1
              · exact List.mem_append_left _ h1
              · exact List.mem_append_right _ (hsub1 _ (contains_of_leaves (hr hsc).leaves h1))
            have hne : rr.1 ≠ lres.reg := by
              rcases hrin hsc with h1 | h1
              · intro e; exact hfr2 _ h1 (e ▸ hlin)
              · intro e; exact hfreshL hwt (e ▸ contains_of_leaves (hr hsc).leaves h1)
            exact hf3 _ hin2 hne
        rw [hreg]; exact hv2

end Ebv.Gen
