import Ebv.Lemmas.FixedNode
/-! Delegation of integer-only nodes to `Gen` (`fOp_rep`) and the induction over surface expressions
(`elabF_rep`, the typing theorem). -/
namespace Ebv.GenFixed
open Ebv.Ebpf Ebv.Gen

variable {σ : State}

theorem toPy_rep {x : FVal} {px : PyVal} {q : Rat} {f : Bool} (h : RepV σ x q f) (hp : toPy x = some px) :
    f = false ∧ (px.evalZ σ : Rat) = q := by
  cases x with
  | int c =>
    simp only [toPy, Option.some.injEq] at hp; subst hp
    exact ⟨h.2, h.1.symm⟩
  | dec n => simp [toPy] at hp
  | ex e fe =>
    cases fe
    · simp only [toPy, Option.some.injEq] at hp; subst hp
      obtain ⟨h1, h2, _⟩ := h
      refine ⟨h1.symm, ?_⟩
      simp only [Rep, scale, Bool.false_eq_true, if_false] at h2
      simp only [PyVal.evalZ, h2]; grind
    · simp [toPy] at hp

theorem tyOp_toS {op : FOp} {sop : SOp} (h : op.toS = some sop) : tyOp op false false = false := by
  cases op <;> simp [FOp.toS] at h <;> rfl

/-- **one node**: integer-only nodes are `Gen`'s (C01's `pyOp_evalZ`), every other node is `fNode_rep` -/
theorem fOp_rep (op : FOp) (x y v : FVal) (qa qb : Rat) (fa fb : Bool)
    (hx : RepV σ x qa fa) (hy : RepV σ y qb fb) (h : fOp op x y = .ok v) (hrf : rfdNode op x y = false) :
    RepV σ v (opQ op fa fb qa qb) (tyOp op fa fb) := by
  unfold fOp at h
  split at h
  · rename_i sop px py h1 h2 h3
    obtain ⟨hfa, hqa⟩ := toPy_rep hx h2
    obtain ⟨hfb, hqb⟩ := toPy_rep hy h3
    subst hfa; subst hfb
    cases hr : pyOp sop px py with
    | error e => rw [hr] at h; cases h
    | ok r =>
      rw [hr] at h
      simp only [bind, Except.bind, pure, Except.pure, Except.ok.injEq] at h
      subst h
      have hz := pyOp_evalZ σ sop px py r hr
      have hq : (r.evalZ σ : Rat) = opQ op false false qa qb := by
        rw [hz, opQ_int op sop h1, hqa, hqb]
      rw [tyOp_toS h1]
      cases r with
      | int c => exact ⟨hq.symm, rfl⟩
      | ex e =>
        refine ⟨rfl, ?_, fun hh => by cases hh⟩
        simp only [Rep, scale, Bool.false_eq_true, if_false]
        rw [show evalZ σ e = (PyVal.ex e).evalZ σ from rfl, hq]; grind
  · exact fNode_rep op x y v qa qb fa fb hx hy h hrf

/-- the node is `float // non-fixed` -/
def nodeBad (env : FEnv) (op : FOp) (a b : FExpr) : Bool :=
  match elabF env a, elabF env b with
  | .ok x, .ok y => rfdNode op x y
  | _, _ => false

/-- surface side conditions (decidable): decimal literals `n / 10^5` with `|n| < 2^51`; no `float // non-fixed
expression` node.  (`Sum - x` nodes, formerly class *sum-minus*, are inside since `Sum.__sub__` was repaired.) -/
def FExpr.ok (env : FEnv) : FExpr → Bool
  | .dec n => decide (n.natAbs < 2 ^ 51)
  | .bin op a b => a.ok env && b.ok env && !nodeBad env op a b
  | _ => true

theorem isSumObj_varExpr (l : VarLoc) : isSumObj (varExpr l) = false := rfl

/-- **fx_typing** (the typing theorem, over ℤ/ℚ, all signs): walking a surface expression with the real operator
protocol yields a value whose `fixed` attribute is the static type of the expression, and whose integer semantics
(`evalZ`, C01) is the exact rational value `semQ` — scaled by `FIXED_BASE` exactly when the type is fixed.  The
elaboration therefore inserts exactly the scale factors needed, one per mixed node, `FIXED_BASE²` for int / fixed. -/
theorem elabF_rep (env : FEnv) (σ : State) : ∀ (s : FExpr) (v : FVal), s.ok env = true → elabF env s = .ok v →
    RepV σ v (s.semQ env σ) (s.isFixed env) := by
  intro s
  induction s with
  | int c => intro v _ h; simp only [elabF, pure, Except.pure, Except.ok.injEq] at h; subst h; exact ⟨rfl, rfl⟩
  | dec n =>
    intro v hok h
    simp only [elabF, pure, Except.pure, Except.ok.injEq] at h; subst h
    exact ⟨rfl, rfl, by simpa [FExpr.ok] using hok⟩
  | reg view no =>
    intro v _ h
    simp only [elabF, pure, Except.pure, Except.ok.injEq] at h; subst h
    refine ⟨rfl, ?_, fun hh => by cases hh⟩
    simp only [Rep, scale, evalZ, FExpr.semQ, Bool.false_eq_true, if_false]; grind
  | xreg no =>
    intro v _ h
    simp only [elabF, pure, Except.pure, Except.ok.injEq] at h; subst h
    refine ⟨rfl, ?_, fun _ => rfl⟩
    simp only [Rep, scale, evalZ, viewZ, FExpr.semQ, if_true, SQ_eq]; grind
  | var name =>
    intro v _ h
    simp only [elabF] at h
    cases hl : lookupVar env.locs name with
    | none => rw [hl] at h; cases h
    | some l =>
      rw [hl] at h
      simp only [pure, Except.pure, Except.ok.injEq] at h; subst h
      refine ⟨rfl, ?_, fun _ => isSumObj_varExpr l⟩
      have hz : evalZ σ (varExpr l) = fmtZ l.fmt (loadN σ.mem (σ.regs l.base + BitVec.ofInt 64 l.off) l.fmt.size) := by
        simp [varExpr, evalZ, Expr.asSum]
      simp only [Rep, scale, FExpr.semQ, hl, hz]
      cases env.fx.contains name <;> simp only [Bool.false_eq_true, if_false, if_true, SQ_eq] <;> grind
  | bin op a b iha ihb =>
    intro v hok h
    simp only [FExpr.ok, Bool.and_eq_true, Bool.not_eq_true'] at hok
    simp only [elabF, bind, Except.bind] at h
    cases hx : elabF env a with
    | error e => rw [hx] at h; cases h
    | ok x =>
      rw [hx] at h
      simp only [] at h
      cases hy : elabF env b with
      | error e => rw [hy] at h; cases h
      | ok y =>
        rw [hy] at h
        simp only [] at h
        have hb := hok.2
        simp only [nodeBad, hx, hy] at hb
        exact fOp_rep op x y v _ _ _ _ (iha x hok.1.1 hx) (ihb y hok.1.2 hy) h hb

end Ebv.GenFixed
