import Ebv.Lemmas.EvalZ
import Ebv.Lemmas.Calc
/-! Reference semantics `evalZ` (Python integers) and `evalBV_eq_evalZ` on the ring fragment. -/
namespace Ebv.Gen
open Ebv.Ebpf

/-- Python's integer semantics of the operators (`//` and `%` floor, shifts by non-negative counts) -/
def BinOp.evalZ : BinOp → Int → Int → Int
  | .add, a, b => a + b
  | .sub, a, b => a - b
  | .mul, a, b => a * b
  | .div, a, b => Int.fdiv a b
  | .or, a, b => zOr a b
  | .and, a, b => zAnd a b
  | .lsh, a, b => a * 2 ^ b.toNat
  | .rsh, a, b => a / 2 ^ b.toNat
  | .mod, a, b => Int.fmod a b
  | .xor, a, b => zXor a b
  | .arsh, a, b => a / 2 ^ b.toNat

/-- the integer a leaf register shows through its view -/
def viewZ (lg sg : Bool) (raw : W) : Int :=
  if lg then (if sg then raw.toInt else raw.toNat)
  else (if sg then (raw.truncate 32).toInt else ((raw.truncate 32).toNat : Int))

/-- the integer `size` loaded bytes mean in a format -/
def fmtZ (fmt : Fmt) (raw : Nat) : Int :=
  if fmt.signed then (BitVec.ofNat (8 * fmt.size) raw).toInt else raw

/-- **reference semantics**: the mathematical (Python `int`) value of an expression in a machine state, each
leaf contributing the value its own view/format defines -/
def evalZ (σ : State) : Expr → Int
  | .const v => v
  | .reg no lg sg => viewZ lg sg (σ.regs no)
  | .bin op l r _ _ => op.evalZ (evalZ σ l) (evalZ σ r)
  | .neg a => -(evalZ σ a)
  | .abs a => ((evalZ σ a).natAbs : Int)
  | .mem fmt a =>
    match a.asSum with
    | some (base, off) => fmtZ fmt (loadN σ.mem (σ.regs base + BitVec.ofInt 64 off) fmt.size)
    | none => fmtZ fmt (loadN σ.mem (BitVec.ofInt 64 (evalZ σ a)) fmt.size)

/-- agreement of a register content with an integer at the width of a computation -/
def AgreeZ (b : Bool) (x : W) (z : Int) : Prop :=
  if b then x = BitVec.ofInt 64 z else x.truncate 32 = BitVec.ofInt 32 z

theorem agreeZ_iff (b : Bool) (x : W) (z : Int) : AgreeZ b x z ↔ Agree b x (BitVec.ofInt 64 z) := by
  cases b
  · simp only [AgreeZ, Agree, Bool.false_eq_true, if_false]
    rw [BitVec.truncate_eq_setWidth, BitVec.truncate_eq_setWidth, ofInt_setWidth z (by omega)]
  · simp [AgreeZ, Agree]

theorem trunc_toInt64 (x : W) : BitVec.ofInt 32 x.toInt = x.truncate 32 := ofInt_toInt_setWidth x (by omega)

theorem ofInt_toNat_width {n : Nat} (m : Nat) (x : BitVec n) : BitVec.ofInt m (x.toNat : Int) = x.setWidth m := by
  rw [BitVec.ofInt_natCast, BitVec.ofNat_toNat]

theorem reg_agreeZ (σ : State) (b lg sg : Bool) (no : Nat) :
    AgreeZ b (evalBV σ b (.reg no lg sg)) (viewZ lg sg (σ.regs no)) := by
  cases b <;> cases lg <;> cases sg <;> simp only [AgreeZ, evalBV, viewZ, Bool.false_eq_true, if_false, if_true]
  · rw [trunc_lo32, ofInt_toNat_width]; simp
  · rw [trunc_sext32, BitVec.ofInt_toInt]
  · rw [ofInt_toNat_width]
  · rw [trunc_toInt64]
  · rw [ofInt_toNat_width]; rfl
  · rfl
  · rw [ofInt_toNat_width]; simp
  · rw [BitVec.ofInt_toInt]

theorem mem_agreeZ (b : Bool) (fmt : Fmt) (raw : Nat) : AgreeZ b (extend fmt raw) (fmtZ fmt raw) := by
  cases b <;> cases fmt <;> simp only [AgreeZ, extend, fmtZ, Fmt.signed, Fmt.size, Bool.false_eq_true, if_false, if_true]
  all_goals first
    | rfl
    | (rw [BitVec.ofInt_natCast]; done)
    | (rw [BitVec.ofInt_natCast, trunc_ofNat64]; done)
    | (rw [BitVec.truncate_eq_setWidth, setWidth_signExtend _ 32 64 _ (by omega) (by omega)]; rfl)
    | (simp only [BitVec.signExtend_eq]; rw [trunc_toInt64]; done)
    | skip

/-- the operators whose result modulo 2^w only depends on the operands modulo 2^w -/
def BinOp.ring : BinOp → Bool
  | .add | .sub | .mul | .or | .and | .xor => true
  | _ => false

theorem aluOp_ofInt (op : BinOp) (h : op.ring = true) (w : Nat) (X Y : Int) :
    aluOp op w (BitVec.ofInt w X) (BitVec.ofInt w Y) = BitVec.ofInt w (op.evalZ X Y) := by
  cases op <;> simp [BinOp.ring] at h <;> simp only [aluOp, BinOp.evalZ]
  · rw [BitVec.ofInt_add]
  · rw [Int.sub_eq_add_neg, BitVec.ofInt_add, BitVec.ofInt_neg, BitVec.sub_eq_add_neg]
  · rw [BitVec.ofInt_mul]
  · rw [ofInt_zOr]
  · rw [ofInt_zAnd]
  · rw [ofInt_zXor]

theorem aluOp_lsh_ofInt (w : Nat) (X Y : Int) (h0 : 0 ≤ Y) (h1 : Y < w) :
    aluOp .lsh w (BitVec.ofInt w X) (BitVec.ofInt w Y) = BitVec.ofInt w (BinOp.lsh.evalZ X Y) := by
  simp only [aluOp, BinOp.evalZ]
  obtain ⟨n, rfl⟩ : ∃ n : Nat, Y = n := ⟨Y.toNat, by omega⟩
  have hn : n < w := by omega
  have hw : w < 2 ^ w := Nat.lt_two_pow_self
  have e1 : (BitVec.ofInt w (n : Int)).toNat % w = n := by
    rw [BitVec.ofInt_natCast, BitVec.toNat_ofNat, Nat.mod_eq_of_lt (Nat.lt_trans hn hw), Nat.mod_eq_of_lt hn]
  rw [e1, BitVec.shiftLeft_eq_mul_twoPow, BitVec.ofInt_mul]
  congr 1
  apply BitVec.eq_of_toNat_eq
  rw [BitVec.toNat_twoPow, Int.toNat_natCast]
  have : ((2 : Int) ^ n) = ((2 ^ n : Nat) : Int) := by push_cast; rfl
  rw [this, BitVec.ofInt_natCast, BitVec.toNat_ofNat]

/-- the operators for which the integer semantics is proved -/
def BinOp.zProved (op : BinOp) : Bool := op.ring || op == .lsh

/-- the part of the expression language for which `evalBV = evalZ` is proved: ring and bitwise operators, `<<`,
unary minus over all leaves with `register + constant` addressing -/
def Expr.ringOnly : Expr → Bool
  | .const _ => true
  | .reg _ _ _ => true
  | .bin op l r _ _ => op.zProved && l.ringOnly && r.ringOnly
  | .neg a => a.ringOnly
  | .abs _ => false
  | .mem _ a => a.asSum.isSome

/-- precondition of the property for `<<`: shift amounts are in `[0, width)` -/
def shiftsOk (σ : State) (b : Bool) : Expr → Prop
  | .bin op l r _ _ =>
    shiftsOk σ b l ∧ shiftsOk σ b r ∧ (op = .lsh → 0 ≤ evalZ σ r ∧ evalZ σ r < (if b then 64 else 32))
  | .neg a => shiftsOk σ b a
  | .abs a => shiftsOk σ b a
  | _ => True

theorem aluSem_agreeZ (op : BinOp) (b : Bool) (x y : W) (X Y : Int) (hx : AgreeZ b x X) (hy : AgreeZ b y Y)
    (hop : op.ring = true ∨ (op = .lsh ∧ 0 ≤ Y ∧ Y < (if b then 64 else 32))) :
    AgreeZ b (aluSem op b x y) (op.evalZ X Y) := by
  cases b
  · simp only [AgreeZ, Bool.false_eq_true, if_false] at hx hy hop ⊢
    simp only [aluSem, Bool.false_eq_true, if_false]
    have e : ((aluOp op 32 (x.truncate 32) (y.truncate 32)).zeroExtend 64).truncate 32
        = aluOp op 32 (x.truncate 32) (y.truncate 32) := by simp
    rw [e, hx, hy]
    rcases hop with h | ⟨h, h0, h1⟩
    · exact aluOp_ofInt op h 32 X Y
    · subst h; exact aluOp_lsh_ofInt 32 X Y h0 (by exact_mod_cast h1)
  · simp only [AgreeZ, if_true] at hx hy hop ⊢
    simp only [aluSem, if_true]
    rw [hx, hy]
    rcases hop with h | ⟨h, h0, h1⟩
    · exact aluOp_ofInt op h 64 X Y
    · subst h; exact aluOp_lsh_ofInt 64 X Y h0 (by exact_mod_cast h1)

theorem negSem_agreeZ (b : Bool) (x : W) (X : Int) (hx : AgreeZ b x X) : AgreeZ b (negSem b x) (-X) := by
  cases b
  · simp only [AgreeZ, Bool.false_eq_true, if_false] at hx ⊢
    simp only [negSem, Bool.false_eq_true, if_false]
    have e : ((-(x.truncate 32)).zeroExtend 64).truncate 32 = -(x.truncate 32) := by simp
    rw [e, hx, BitVec.ofInt_neg]
  · simp only [AgreeZ, if_true] at hx ⊢
    simp only [negSem, if_true]
    rw [hx, BitVec.ofInt_neg]

/-- **evalBV_eq_evalZ**: on the ring fragment the bit-vector value of an expression is the image of its
mathematical value (ℤ → BitVec 64 / BitVec 32 is a ring homomorphism that also respects `& | ^`), by induction
on the tree; `<<` uses the shift-range precondition -/
theorem evalBV_eq_evalZ (σ : State) (b : Bool) (e : Expr) (hr : e.ringOnly = true) (hs : shiftsOk σ b e) :
    AgreeZ b (evalBV σ b e) (evalZ σ e) := by
  induction e with
  | const v => cases b <;> simp [AgreeZ, evalBV, evalZ, ofInt_setWidth]
  | reg no lg sg => exact reg_agreeZ σ b lg sg no
  | bin op l r sg k ihl ihr =>
    simp only [Expr.ringOnly, Bool.and_eq_true] at hr
    obtain ⟨hl, hr2, hop⟩ := hs
    simp only [evalBV, evalZ]
    apply aluSem_agreeZ op b _ _ _ _ (ihl hr.1.2 hl) (ihr hr.2 hr2)
    have := hr.1.1
    simp only [BinOp.zProved, Bool.or_eq_true, beq_iff_eq] at this
    rcases this with h | h
    · exact Or.inl h
    · exact Or.inr ⟨h, hop h⟩
  | neg a ih =>
    simp only [evalBV, evalZ]
    exact negSem_agreeZ b _ _ (ih hr hs)
  | abs a _ => simp [Expr.ringOnly] at hr
  | mem f a _ =>
    simp only [Expr.ringOnly, Option.isSome_iff_exists] at hr
    obtain ⟨⟨base, off⟩, hsum⟩ := hr
    simp only [evalBV, evalZ, hsum]
    exact mem_agreeZ b f _

end Ebv.Gen
