import Ebv.Model.Float64
/-! Facts about the binary64 model: rounding error and monotonicity of `rne`, the exponent found by `flPos`. -/
namespace Ebv.F64

theorem rne_cases (a b : Nat) : rne a b = a / b ∨ (rne a b = a / b + 1 ∧ b ≤ 2 * (a % b)) := by
  unfold rne
  simp only []
  split
  · exact Or.inl rfl
  · split
    · exact Or.inr ⟨rfl, by omega⟩
    · split
      · exact Or.inl rfl
      · exact Or.inr ⟨rfl, by omega⟩

theorem rne_low (a b : Nat) (h : 2 * (a % b) < b) : rne a b = a / b := by
  unfold rne; simp [h]

theorem rne_high (a b : Nat) (h : b < 2 * (a % b)) : rne a b = a / b + 1 := by
  unfold rne
  have : ¬ 2 * (a % b) < b := by omega
  simp [h, this]

/-- the result of rounding is within half a unit: `|rne(a/b)·b − a| ≤ b/2` -/
theorem rne_err (a b : Nat) (hb : 0 < b) :
    2 * (rne a b * b) ≤ 2 * a + b ∧ 2 * a ≤ 2 * (rne a b * b) + b := by
  have h1 := Nat.div_add_mod a b
  have h2 := Nat.mod_lt a hb
  have e1 : a / b * b = b * (a / b) := Nat.mul_comm _ _
  have e2 : (a / b + 1) * b = b * (a / b) + b := by rw [Nat.add_mul, Nat.one_mul, Nat.mul_comm]
  by_cases c1 : 2 * (a % b) < b
  · rw [rne_low a b c1, e1]; omega
  · by_cases c2 : b < 2 * (a % b)
    · rw [rne_high a b c2, e2]; omega
    · rcases rne_cases a b with h | ⟨h, _⟩
      · rw [h, e1]; omega
      · rw [h, e2]; omega

/-- rounding is monotone and fixes integers: a quotient between two integers rounds to between them -/
theorem rne_sandwich (a b lo hi : Nat) (hb : 0 < b) (h1 : lo * b ≤ a) (h2 : a ≤ hi * b) :
    lo ≤ rne a b ∧ rne a b ≤ hi := by
  have hq : lo ≤ a / b := (Nat.le_div_iff_mul_le hb).mpr h1
  have hd := Nat.div_add_mod a b
  have hqb : a / b * b ≤ a := Nat.div_mul_le_self a b
  have hle : a / b ≤ hi := by
    apply Nat.le_of_mul_le_mul_right _ hb
    exact Nat.le_trans hqb h2
  rcases rne_cases a b with h | ⟨h, hr⟩
  · rw [h]; exact ⟨hq, hle⟩
  · rw [h]
    refine ⟨by omega, ?_⟩
    have hpos : 0 < a % b := by omega
    have hlt : a / b * b < hi * b := by
      have : a / b * b = b * (a / b) := Nat.mul_comm _ _
      omega
    exact Nat.lt_of_mul_lt_mul_right hlt

/-- a quotient within a quarter of an integer rounds to that integer -/
theorem rne_near (m N Q : Nat) (hQ : 0 < Q) (hN : 0 < N) (h1 : 4 * (N * Q) ≤ m + Q) (h2 : m ≤ 4 * (N * Q) + Q) :
    rne m (4 * Q) = N := by
  have hd := Nat.div_add_mod m (4 * Q)
  by_cases c : 4 * (N * Q) ≤ m
  · have hq : m / (4 * Q) = N := by
      apply Nat.div_eq_of_lt_le
      · have : N * (4 * Q) = 4 * (N * Q) := Nat.mul_left_comm _ _ _
        omega
      · have : (N + 1) * (4 * Q) = 4 * (N * Q) + 4 * Q := by
          rw [Nat.add_mul, Nat.one_mul, Nat.mul_left_comm]
        omega
    rw [hq] at hd
    have e : 4 * Q * N = 4 * (N * Q) := by rw [Nat.mul_assoc, Nat.mul_comm Q N]
    rw [rne_low _ _ (by omega), hq]
  · obtain ⟨k, rfl⟩ : ∃ k, N = k + 1 := ⟨N - 1, by omega⟩
    have e0 : (k + 1) * Q = k * Q + Q := by rw [Nat.add_mul, Nat.one_mul]
    have hq : m / (4 * Q) = k := by
      apply Nat.div_eq_of_lt_le
      · have : k * (4 * Q) = 4 * (k * Q) := Nat.mul_left_comm _ _ _
        omega
      · have : (k + 1) * (4 * Q) = 4 * ((k + 1) * Q) := Nat.mul_left_comm _ _ _
        omega
    rw [hq] at hd
    have e : 4 * Q * k = 4 * (k * Q) := by rw [Nat.mul_assoc, Nat.mul_comm Q k]
    rw [rne_high _ _ (by omega), hq]

/-- **the exponent `flPos` finds** (first branch, quotients below `2^53`): the scaled quotient lies in
`[2^52, 2^53)`, so the rounded mantissa has 53 bits -/
theorem flPos_spec (a b : Nat) (ha : 0 < a) (hb : 0 < b) (hl : a.log2 ≤ 52 + b.log2) :
    ∃ s : Nat, flPos a b = (rne (a * 2 ^ s) b, -(s : Int)) ∧ 2 ^ 52 * b ≤ a * 2 ^ s ∧ a * 2 ^ s < 2 ^ 53 * b := by
  have ha1 : 2 ^ a.log2 ≤ a := Nat.log2_self_le (by omega)
  have ha2 : a < 2 ^ (a.log2 + 1) := Nat.lt_log2_self
  have hb1 : 2 ^ b.log2 ≤ b := Nat.log2_self_le (by omega)
  have hb2 : b < 2 ^ (b.log2 + 1) := Nat.lt_log2_self
  rw [Nat.pow_succ] at ha2 hb2
  have hS : 2 ^ a.log2 * 2 ^ (52 + b.log2 - a.log2) = 2 ^ 52 * 2 ^ b.log2 := by
    rw [← Nat.pow_add, ← Nat.pow_add]; congr 1; omega
  generalize 2 ^ a.log2 = A at *
  generalize 2 ^ b.log2 = Bq at *
  have hSpos : 0 < 2 ^ (52 + b.log2 - a.log2) := Nat.two_pow_pos _
  have l1 : A * 2 ^ (52 + b.log2 - a.log2) ≤ a * 2 ^ (52 + b.log2 - a.log2) := Nat.mul_le_mul_right _ ha1
  have l2 : a * 2 ^ (52 + b.log2 - a.log2) < A * 2 * 2 ^ (52 + b.log2 - a.log2) :=
    Nat.mul_lt_mul_of_pos_right ha2 hSpos
  have l3 : A * 2 * 2 ^ (52 + b.log2 - a.log2) = 2 * (A * 2 ^ (52 + b.log2 - a.log2)) := by
    rw [Nat.mul_comm A 2, Nat.mul_assoc]
  unfold flPos
  simp only [hl, if_true]
  by_cases c : a * 2 ^ (52 + b.log2 - a.log2) < 2 ^ 52 * b
  · refine ⟨52 + b.log2 - a.log2 + 1, by simp [c], ?_, ?_⟩ <;>
      (rw [show 2 ^ (52 + b.log2 - a.log2 + 1) = 2 ^ (52 + b.log2 - a.log2) * 2 from Nat.pow_succ .., ← Nat.mul_assoc]; generalize 2 ^ (52 + b.log2 - a.log2) = S at *; omega)
  · refine ⟨52 + b.log2 - a.log2, by simp [c], ?_, ?_⟩ <;>
      (generalize 2 ^ (52 + b.log2 - a.log2) = S at *; omega)

theorem dyFrac_neg (m s : Nat) (hs : 0 < s) : dyFrac m (-(s : Int)) = (m, 2 ^ s) := by
  unfold dyFrac
  have h : (-(s : Int)) < 0 := by omega
  rw [if_pos h, Int.neg_neg, Int.toNat_natCast]

/-- **error bound for the two roundings**: for `0 < N < 2^51` the double nearest to `N/10^5`, multiplied by `10^5`
and rounded to a double again, lies within `1/4` of `N`; `round` gives `N` -/
theorem decConstAbs_eq (N : Nat) (h0 : 0 < N) (h1 : N < 2 ^ 51) : decConstAbs N = N := by
  unfold decConstAbs
  simp only [show N ≠ 0 by omega, if_false]
  have hB : B = 100000 := rfl
  have hl1 : N.log2 ≤ 52 + B.log2 := by
    have : N.log2 < 51 := (Nat.log2_lt (by omega)).mpr h1
    omega
  obtain ⟨s1, e1, lo1, _⟩ := flPos_spec N B h0 (by rw [hB]; omega) hl1
  rw [e1]
  simp only []
  have hP1 : 0 < 2 ^ s1 := Nat.two_pow_pos _
  have hNP : N * 2 ^ s1 + 2 ^ s1 ≤ 2 ^ 51 * 2 ^ s1 := by
    have := Nat.mul_le_mul_right (2 ^ s1) (show N + 1 ≤ 2 ^ 51 by omega)
    rwa [Nat.add_mul, Nat.one_mul] at this
  have hbig : 200000 < 2 ^ s1 := by rw [hB] at lo1; omega
  have hs1 : 0 < s1 := by
    rcases Nat.eq_zero_or_pos s1 with h | h
    · rw [h] at hbig; omega
    · exact h
  rw [dyFrac_neg _ _ hs1]
  simp only []
  obtain ⟨er1, er2⟩ := rne_err (N * 2 ^ s1) B (by rw [hB]; omega)
  generalize hY : rne (N * 2 ^ s1) B * B = Y at *
  rw [hB] at er1 er2
  have hYpos : 0 < Y := by omega
  have hYlt : Y < 2 ^ (51 + s1) := by rw [Nat.pow_add]; omega
  have hl2 : Y.log2 ≤ 52 + (2 ^ s1).log2 := by
    have : Y.log2 < 51 + s1 := (Nat.log2_lt (by omega)).mpr hYlt
    rw [Nat.log2_two_pow]; omega
  obtain ⟨s2, e2, lo2, _⟩ := flPos_spec Y (2 ^ s1) hYpos hP1 hl2
  rw [e2]
  simp only []
  rw [Nat.pow_add] at hYlt
  have hs2 : 2 ≤ s2 := by
    rcases Nat.lt_or_ge s2 2 with h | h
    · have : s2 = 0 ∨ s2 = 1 := by omega
      rcases this with h | h <;> (rw [h] at lo2; omega)
    · exact h
  obtain ⟨k, rfl⟩ : ∃ k, s2 = k + 2 := ⟨s2 - 2, by omega⟩
  rw [dyFrac_neg _ _ (by omega)]
  simp only []
  have hQ : 0 < 2 ^ k := Nat.two_pow_pos _
  have e4 : 2 ^ (k + 2) = 4 * 2 ^ k := by rw [Nat.pow_add]; omega
  rw [e4]
  generalize 2 ^ k = Q at *
  generalize 2 ^ s1 = P at *
  have m1 : 4 * (N * P) * Q ≤ (4 * Y + P) * Q := Nat.mul_le_mul_right Q (by omega)
  have m2 : 4 * Y * Q ≤ (4 * (N * P) + P) * Q := Nat.mul_le_mul_right Q (by omega)
  have hNQ : Q ≤ 4 * (N * Q) := by
    have := Nat.mul_le_mul_right Q (show 1 ≤ N by omega)
    omega
  obtain ⟨b1, b2⟩ := rne_sandwich (Y * (4 * Q)) P (4 * (N * Q) - Q) (4 * (N * Q) + Q) hP1
    (by rw [Nat.sub_mul]; apply Nat.sub_le_of_le_add; grind) (by grind)
  exact rne_near _ N Q hQ h0 (by omega) b2

/-- every decimal `n / 10^5` with `|n| < 2^51` is stored as exactly `n` -/
theorem decConst_eq (n : Int) (h : n.natAbs < 2 ^ 51) : decConst n = n := by
  unfold decConst sgn
  rcases Nat.eq_zero_or_pos n.natAbs with h0 | h0
  · have : n = 0 := by omega
    subst this; decide
  · rw [decConstAbs_eq _ h0 h]
    split <;> omega

end Ebv.F64
