import Ebv.Lemmas.Homo
/-! `evalBV = evalZ` extended to the unsigned `DIV`/`MOD` for non-negative operands that fit the width
(`evalBV_eq_evalZ_fx`): what C02 needs beyond C01's ring fragment. -/
namespace Ebv.Gen
open Ebv.Ebpf

/-- the operators fixed-point arithmetic elaborates into -/
def BinOp.fx : BinOp → Bool
  | .add | .sub | .mul | .div | .mod => true
  | _ => false

/-- trees of the fixed-point fragment: constants, registers, `register + constant` addressed memory, `+ - * DIV MOD` -/
def Expr.fxOnly : Expr → Bool
  | .const _ => true
  | .reg _ _ _ => true
  | .bin op l r _ _ => op.fx && l.fxOnly && r.fxOnly
  | .neg _ => false
  | .abs _ => false
  | .mem _ a => a.asSum.isSome

def wbits (b : Bool) : Nat := if b then 64 else 32

/-- **fit precondition at the divisions**: both operands of every `DIV`/`MOD` node are non-negative and fit the
width of the computation (the kernel's `DIV`/`MOD` are unsigned) -/
def divOk (σ : State) (b : Bool) : Expr → Prop
  | .bin op l r _ _ =>
    divOk σ b l ∧ divOk σ b r ∧
      ((op = .div ∨ op = .mod) →
        0 ≤ evalZ σ l ∧ evalZ σ l < 2 ^ wbits b ∧ 0 ≤ evalZ σ r ∧ evalZ σ r < 2 ^ wbits b)
  | _ => True

theorem fdiv_natCast (x y : Nat) : Int.fdiv (x : Int) (y : Int) = ((x / y : Nat) : Int) := by
  rw [Int.fdiv_eq_ediv_of_nonneg _ (by omega)]; rfl

theorem fmod_natCast (x y : Nat) : Int.fmod (x : Int) (y : Int) = ((x % y : Nat) : Int) := by
  rw [Int.fmod_eq_emod_of_nonneg _ (by omega)]; rfl

theorem aluOp_div_ofNat (w x y : Nat) (hx : x < 2 ^ w) (hy : y < 2 ^ w) :
    aluOp .div w (BitVec.ofNat w x) (BitVec.ofNat w y) = BitVec.ofNat w (x / y) := by
  simp only [aluOp]
  apply BitVec.eq_of_toNat_eq
  by_cases h0 : y = 0
  · subst h0; simp
  · have hne : ¬ BitVec.ofNat w y = (0 : BitVec w) := by
      intro h
      have := congrArg BitVec.toNat h
      simp [Nat.mod_eq_of_lt hy] at this
      exact h0 this
    rw [if_neg hne, BitVec.toNat_udiv, BitVec.toNat_ofNat, BitVec.toNat_ofNat, BitVec.toNat_ofNat, Nat.mod_eq_of_lt hx,
      Nat.mod_eq_of_lt hy, Nat.mod_eq_of_lt (Nat.lt_of_le_of_lt (Nat.div_le_self x y) hx)]

theorem aluOp_mod_ofNat (w x y : Nat) (hx : x < 2 ^ w) (hy : y < 2 ^ w) :
    aluOp .mod w (BitVec.ofNat w x) (BitVec.ofNat w y) = BitVec.ofNat w (x % y) := by
  simp only [aluOp]
  apply BitVec.eq_of_toNat_eq
  by_cases h0 : y = 0
  · subst h0; simp
  · have hne : ¬ BitVec.ofNat w y = (0 : BitVec w) := by
      intro h
      have := congrArg BitVec.toNat h
      simp [Nat.mod_eq_of_lt hy] at this
      exact h0 this
    rw [if_neg hne, BitVec.toNat_umod, BitVec.toNat_ofNat, BitVec.toNat_ofNat, BitVec.toNat_ofNat, Nat.mod_eq_of_lt hx,
      Nat.mod_eq_of_lt hy, Nat.mod_eq_of_lt (Nat.lt_of_le_of_lt (Nat.mod_le x y) hx)]

/-- the unsigned `DIV`/`MOD` on the images of non-negative integers that fit is the image of Python's `//`, `%` -/
theorem aluOp_divmod_ofInt (op : BinOp) (hop : op = .div ∨ op = .mod) (w : Nat) (X Y : Int)
    (hX0 : 0 ≤ X) (hX : X < 2 ^ w) (hY0 : 0 ≤ Y) (hY : Y < 2 ^ w) :
    aluOp op w (BitVec.ofInt w X) (BitVec.ofInt w Y) = BitVec.ofInt w (op.evalZ X Y) := by
  obtain ⟨x, rfl⟩ : ∃ x : Nat, X = x := ⟨X.toNat, by omega⟩
  obtain ⟨y, rfl⟩ : ∃ y : Nat, Y = y := ⟨Y.toNat, by omega⟩
  have hx : x < 2 ^ w := by exact_mod_cast hX
  have hy : y < 2 ^ w := by exact_mod_cast hY
  rcases hop with h | h <;> subst h <;> simp only [BinOp.evalZ, BitVec.ofInt_natCast]
  · rw [fdiv_natCast, BitVec.ofInt_natCast]; exact aluOp_div_ofNat w x y hx hy
  · rw [fmod_natCast, BitVec.ofInt_natCast]; exact aluOp_mod_ofNat w x y hx hy

theorem aluSem_agreeZ_divmod (op : BinOp) (hop : op = .div ∨ op = .mod) (b : Bool) (x y : W) (X Y : Int)
    (hx : AgreeZ b x X) (hy : AgreeZ b y Y)
    (hX0 : 0 ≤ X) (hX : X < 2 ^ wbits b) (hY0 : 0 ≤ Y) (hY : Y < 2 ^ wbits b) :
    AgreeZ b (aluSem op b x y) (op.evalZ X Y) := by
  cases b
  · simp only [AgreeZ, Bool.false_eq_true, if_false] at hx hy ⊢
    simp only [aluSem, Bool.false_eq_true, if_false]
    have e : ((aluOp op 32 (x.truncate 32) (y.truncate 32)).zeroExtend 64).truncate 32
        = aluOp op 32 (x.truncate 32) (y.truncate 32) := by simp
    rw [e, hx, hy]
    exact aluOp_divmod_ofInt op hop 32 X Y hX0 hX hY0 hY
  · simp only [AgreeZ, if_true] at hx hy ⊢
    simp only [aluSem, if_true]
    rw [hx, hy]
    exact aluOp_divmod_ofInt op hop 64 X Y hX0 hX hY0 hY

/-- **evalBV_eq_evalZ_fx**: on the fixed-point fragment the bit-vector value the emitted code computes is the image of
the integer value, provided every `DIV`/`MOD` node has non-negative operands that fit the width -/
theorem evalBV_eq_evalZ_fx (σ : State) (b : Bool) (e : Expr) (hf : e.fxOnly = true) (hd : divOk σ b e) :
    AgreeZ b (evalBV σ b e) (evalZ σ e) := by
  induction e with
  | const v => cases b <;> simp [AgreeZ, evalBV, evalZ, ofInt_setWidth]
  | reg no lg sg => exact reg_agreeZ σ b lg sg no
  | bin op l r sg k ihl ihr =>
    simp only [Expr.fxOnly, Bool.and_eq_true] at hf
    obtain ⟨hl, hr, hop⟩ := hd
    simp only [evalBV, evalZ]
    have il := ihl hf.1.2 hl
    have ir := ihr hf.2 hr
    have hfx := hf.1.1
    cases op <;> simp [BinOp.fx] at hfx
    · exact aluSem_agreeZ .add b _ _ _ _ il ir (Or.inl rfl)
    · exact aluSem_agreeZ .sub b _ _ _ _ il ir (Or.inl rfl)
    · exact aluSem_agreeZ .mul b _ _ _ _ il ir (Or.inl rfl)
    · obtain ⟨a1, a2, a3, a4⟩ := hop (Or.inl rfl)
      exact aluSem_agreeZ_divmod .div (Or.inl rfl) b _ _ _ _ il ir a1 a2 a3 a4
    · obtain ⟨a1, a2, a3, a4⟩ := hop (Or.inr rfl)
      exact aluSem_agreeZ_divmod .mod (Or.inr rfl) b _ _ _ _ il ir a1 a2 a3 a4
  | neg a _ => simp [Expr.fxOnly] at hf
  | abs a _ => simp [Expr.fxOnly] at hf
  | mem f a _ =>
    simp only [Expr.fxOnly, Option.isSome_iff_exists] at hf
    obtain ⟨⟨base, off⟩, hsum⟩ := hf
    simp only [evalBV, evalZ, hsum]
    exact mem_agreeZ b f _

end Ebv.Gen
