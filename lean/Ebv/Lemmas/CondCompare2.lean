import Ebv.Lemmas.CondCompare
/-! `compare` for `AndComparison` (JSET; for the negative sense JSET +1 / JMP). -/
namespace Ebv.Gen
open Ebv.Ebpf

theorem set_last2 (c0 : List Insn) (a b x : Insn) : (c0 ++ [a, b]).set c0.length x = c0 ++ [x, b] := by
  rw [List.set_append_right _ _ (Nat.le_refl _)]; simp

theorem set_last2' (c0 : List Insn) (a b x : Insn) : (c0 ++ [a, b]).set (c0.length + 1) x = c0 ++ [a, x] := by
  rw [List.set_append_right _ _ (by omega)]; simp

theorem jset_mod : Consts.op_JSET % 16 = 5 ∧ Consts.op_JSET / 16 ≠ 0 ∧ Consts.op_JSET / 16 ≠ 8 ∧
    Consts.op_JSET / 16 ≠ 9 := by decide

theorem compare_bits (l r : Expr) (neg : Bool) (g g' : GenState) (p : Pend)
    (hok : AtomOk g.owners l r) (h : compare (.bits l r) neg g = .ok (p, g')) :
    CondSeg (.bits l r) neg g g' p := by
  simp only [compare] at h
  rw [bind_ok] at h; obtain ⟨oi, g1, hcore, h⟩ := h
  rw [bind_ok] at h; obtain ⟨os, g2, hos, h⟩ := h
  rw [getOwners_ok] at hos; cases hos
  obtain ⟨c0, hc, horg, ho, hs, hst, hop, hrun⟩ :=
    cmpCore_correct Consts.op_JSET l r g g1 oi.1 oi.2 hok.left hok.right hok.noWidenInPlace hcore
  obtain ⟨j5, j0, j8, j9⟩ := jset_mod
  have hlen1 : g1.code.length = g.code.length + c0.length + 1 := by rw [hc]; simp; omega
  unfold bitsNeg at h
  cases neg with
  | false =>
    simp only [Bool.false_eq_true, if_false] at h
    rw [pure_ok] at h; cases h
    refine ⟨ho, hs, by simp [Pend.OwnAll, ho],
      fun m => c0 ++ [match m with | none => hole | some L => { oi.2 with off := (L : Int) - oi.1 - 1 }],
      by rw [hc, List.append_assoc], fun m => by simp, ?_, ?_⟩
    · intro m L pre rest hpre
      simp only [Pend.patch]
      rw [horg, ← hpre, set_mid pre (c0 ++ [_]) rest c0.length _ (by simp), set_last]
    · intro L hL σ
      have ht : 1 ≤ L - oi.1 := by omega
      obtain ⟨σ', hj, hk⟩ := atom_segment bitsBV Consts.op_JSET false l r oi.2 g.owners c0 (L - oi.1) j5 j0 j8 j9
        cond_jset hop hok.frag hst hrun ht σ
      refine ⟨σ', ?_, hk⟩
      have e1 : ((L - oi.1 : Nat) : Int) - 1 = (L : Int) - oi.1 - 1 := by omega
      have e2 : c0.length + (L - oi.1) = L - g.code.length := by omega
      rw [e1, e2] at hj
      exact hj
  | true =>
    simp only [if_true] at h
    rw [bind_ok] at h; obtain ⟨o2, g3, hlen, h⟩ := h
    rw [bind_ok] at h; obtain ⟨u, g4, hem, h⟩ := h
    rw [bind_ok] at h; obtain ⟨p0, g5, htj, h⟩ := h
    rw [pure_ok] at h
    rw [curLen_ok] at hlen; rw [emit_ok] at hem
    cases hlen; cases hem
    obtain ⟨t1, t2, t3, t4⟩ := targetJump_ok htj
    simp only [Bool.false_eq_true, if_false] at t1 t2 t3 t4
    cases h
    have hoff : ((g1.code ++ [hole]).length : Int) - oi.1 - 1 = ((2 : Nat) : Int) - 1 := by
      simp [hlen1, horg]; omega
    rw [hoff] at t1
    have hcode' : g'.code = g.code ++ (c0 ++ [{ oi.2 with off := ((2 : Nat) : Int) - 1 }, hole]) := by
      rw [t1, hc, horg]
      have e : g.code ++ c0 ++ [hole] ++ [hole] = g.code ++ (c0 ++ [hole, hole]) ++ [] := by simp
      rw [e, set_mid g.code (c0 ++ [hole, hole]) [] c0.length _ (by simp), set_last2]; simp
    have hown : g'.owners = g.owners := by rw [t3, ho]; exact inter_self _
    refine ⟨hown, by rw [t2]; exact hs, ?_,
      fun m => c0 ++ [{ oi.2 with off := ((2 : Nat) : Int) - 1 },
        match m with | none => hole | some L => ⟨Consts.op_JMP, 0, 0, (L : Int) - g1.code.length - 1, 0⟩],
      hcode', fun m => by simp, ?_, ?_⟩
    · rw [t4]; simp [Pend.OwnAll, Pend.own, ho]
    · intro m L pre rest hpre
      simp only [Pend.patch]
      rw [hlen1, ← hpre, Nat.add_assoc, set_mid pre _ rest (c0.length + 1) _ (by simp), set_last2']
    · intro L hL
      have hlen' : g'.code.length = g.code.length + c0.length + 2 := by rw [hcode']; simp; omega
      · intro σ
        obtain ⟨σ3, he, hr⟩ := hrun σ
        refine ⟨σ3, ?_, ⟨hr.frame, hr.mem⟩⟩
        have hj1 : JumpRun [{ oi.2 with off := ((2 : Nat) : Int) - 1 }] 2 σ3 σ3 (xor (atomVal bitsBV l r σ) false) :=
          jumpRun_cond _ 2 σ3 _ (jcode_isCond Consts.op_JSET _ _ j5 j0 j8 j9 _ hop)
            (by rw [jmpCond_off]; exact atom_jump bitsBV Consts.op_JSET false l r oi.2 g.owners σ σ3 j5 cond_jset hop hr hok.frag)
            (by omega) rfl
        have ht : 1 ≤ L - g1.code.length := by omega
        have hj2 : JumpRun [(⟨Consts.op_JMP, 0, 0, (L : Int) - g1.code.length - 1, 0⟩ : Insn)] (L - g1.code.length) σ3 σ3 true :=
          jumpRun_ja _ _ σ3 rfl ht (by simp only []; omega)
        have hcomb : JumpRun ([{ oi.2 with off := ((2 : Nat) : Int) - 1 }] ++
            [(⟨Consts.op_JMP, 0, 0, (L : Int) - g1.code.length - 1, 0⟩ : Insn)]) (L - g.code.length - c0.length) σ3 σ3
            (xor (atomVal bitsBV l r σ) true) := by
          cases hb : atomVal bitsBV l r σ with
          | true =>
            rw [hb] at hj1
            exact (JumpRun.taken_append (b := [_]) hj1).to_end
          | false =>
            rw [hb] at hj1
            have := JumpRun.fall_append hj1 hj2
            have e : [({ oi.2 with off := ((2 : Nat) : Int) - 1 } : Insn)].length + (L - g1.code.length)
                = L - g.code.length - c0.length := by simp; omega
            rw [e] at this
            exact this
        have := JumpRun.prepend (segRun_of_exec hst he) hcomb
        have e : c0.length + (L - g.code.length - c0.length) = L - g.code.length := by omega
        rw [e] at this
        simpa [CObj.mtruth] using this

end Ebv.Gen
