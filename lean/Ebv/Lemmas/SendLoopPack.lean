import Ebv.Lemmas.SendLoop
/-! One pass of `sendloop` (`drain`) split into what it does to the futures and the frames it
produces (`pack`, a function of the queue alone). -/
namespace Ebv.SendLoop
open Ebv.Consts Ebv.Bytes

/-- the frames one pass of `sendloop` produces; `n` is the number of frames sent before -/
def pack : List (Rid × Nat) → List Dg → Nat → Nat → List Frame
  | [], dgs, _, n => if dgs.isEmpty then [] else [⟨n, dgs⟩]
  | (r, len) :: rest, dgs, size, n =>
    if fits size dgs.length len then pack rest (dgs ++ [mkDg size r len]) (size + dgLen len) n
    else if dgs.isEmpty then pack rest [] size n
    else ⟨n, dgs⟩ ::
      (if fits PACKET_HEADER 0 len then pack rest [mkDg PACKET_HEADER r len] (PACKET_HEADER + dgLen len) (n + 1)
       else pack rest [] PACKET_HEADER (n + 1))

@[simp] theorem flush_futs (dgs : List Dg) (s : St) : (flush dgs s).futs = s.futs := rfl
@[simp] theorem flush_queue (dgs : List Dg) (s : St) : (flush dgs s).queue = s.queue := rfl
@[simp] theorem flush_subs (dgs : List Dg) (s : St) : (flush dgs s).subs = s.subs := rfl
@[simp] theorem flush_arrived (dgs : List Dg) (s : St) : (flush dgs s).arrived = s.arrived := rfl
@[simp] theorem flush_sent (dgs : List Dg) (s : St) : (flush dgs s).sent = s.sent ++ [⟨s.sent.length, dgs⟩] := rfl
@[simp] theorem flush_waiting (dgs : List Dg) (s : St) :
    (flush dgs s).waiting = s.waiting ++ [⟨s.sent.length, dgs⟩] := rfl
@[simp] theorem failOversize_futs (r : Rid) (s : St) : (failOversize r s).futs = settle s.futs r .overflow := rfl
@[simp] theorem failOversize_queue (r : Rid) (s : St) : (failOversize r s).queue = s.queue := rfl
@[simp] theorem failOversize_subs (r : Rid) (s : St) : (failOversize r s).subs = s.subs := rfl
@[simp] theorem failOversize_arrived (r : Rid) (s : St) : (failOversize r s).arrived = s.arrived := rfl
@[simp] theorem failOversize_sent (r : Rid) (s : St) : (failOversize r s).sent = s.sent := rfl
@[simp] theorem failOversize_waiting (r : Rid) (s : St) : (failOversize r s).waiting = s.waiting := rfl

/-- `drain` leaves queue, log of submissions and arrived responses alone, and appends `pack` to the
wire log and to the waiting frames -/
theorem drain_fields (q : List (Rid × Nat)) (dgs : List Dg) (size : Nat) (s : St) :
    (drain q dgs size s).queue = s.queue ∧ (drain q dgs size s).subs = s.subs ∧
    (drain q dgs size s).arrived = s.arrived ∧
    (drain q dgs size s).sent = s.sent ++ pack q dgs size s.sent.length ∧
    (drain q dgs size s).waiting = s.waiting ++ pack q dgs size s.sent.length := by
  induction q generalizing dgs size s with
  | nil =>
    unfold drain pack
    by_cases h : dgs.isEmpty = true <;> simp [h]
  | cons p rest ih =>
    obtain ⟨r, len⟩ := p
    unfold drain pack
    by_cases hf : fits size dgs.length len = true
    · simp only [hf, ↓reduceIte]; exact ih _ _ _
    · simp only [hf, Bool.false_eq_true, ↓reduceIte]
      by_cases he : dgs.isEmpty = true
      · simp only [he, ↓reduceIte]
        simpa using ih [] size (failOversize r s)
      · simp only [he, Bool.false_eq_true, ↓reduceIte]
        by_cases hf2 : fits PACKET_HEADER 0 len = true
        · simp only [hf2, ↓reduceIte]
          simpa [List.append_assoc] using ih [mkDg PACKET_HEADER r len] (PACKET_HEADER + dgLen len) (flush dgs s)
        · simp only [hf2, Bool.false_eq_true, ↓reduceIte]
          simpa [List.append_assoc] using ih [] PACKET_HEADER (failOversize r (flush dgs s))

theorem ext_drain (q : List (Rid × Nat)) (dgs : List Dg) (size : Nat) (s : St) :
    Ext s.futs (drain q dgs size s).futs := by
  induction q generalizing dgs size s with
  | nil => unfold drain; split <;> exact Ext.refl _
  | cons p rest ih =>
    obtain ⟨r, len⟩ := p
    unfold drain
    split
    · exact ih _ _ _
    · split
      · exact (ext_settle s.futs r .overflow).trans (ih [] size (failOversize r s))
      · simp only []
        split
        · exact ih _ _ (flush dgs s)
        · exact (ext_settle s.futs r .overflow).trans (ih [] PACKET_HEADER (failOversize r (flush dgs s)))

/-- what `sendloop` knows about its open packet: it is at least the header, and exactly the header
when no datagram is in it -/
def DInv (dgs : List Dg) (size : Nat) : Prop := PACKET_HEADER ≤ size ∧ (dgs = [] → size = PACKET_HEADER)

theorem dinv_nil : DInv [] PACKET_HEADER := ⟨Nat.le_refl _, fun _ => rfl⟩

theorem max_datagrams_pos : 0 < MAX_DATAGRAMS := by decide

theorem sendable_of_fits {size count len : Nat} (hs : PACKET_HEADER ≤ size) (h : fits size count len = true) :
    sendable len = true := by
  simp only [fits, sendable, Bool.and_eq_true, decide_eq_true_eq] at *
  exact ⟨by omega, max_datagrams_pos⟩

theorem not_sendable_of_not_fits {len : Nat} (h : ¬ fits PACKET_HEADER 0 len = true) : sendable len = false := by
  simpa [sendable] using h

/-- request `x` is in the queue with a datagram that does not fit an empty packet -/
def oversizeIn (q : List (Rid × Nat)) (x : Rid) : Bool := q.any fun p => p.1 == x && !sendable p.2

theorem oversizeIn_cons (r len : Nat) (rest : List (Rid × Nat)) (x : Rid) :
    oversizeIn ((r, len) :: rest) x = ((r == x && !sendable len) || oversizeIn rest x) := by
  simp [oversizeIn]

theorem oversizeIn_iff {q : List (Rid × Nat)} {x : Rid} :
    oversizeIn q x = true ↔ ∃ len, (x, len) ∈ q ∧ sendable len = false := by
  simp only [oversizeIn, List.any_eq_true, Bool.and_eq_true, beq_iff_eq, Bool.not_eq_true']
  constructor
  · rintro ⟨⟨a, b⟩, hm, rfl, hs⟩; exact ⟨b, hm, hs⟩
  · rintro ⟨len, hm, hs⟩; exact ⟨(x, len), hm, rfl, hs⟩

/-- which futures one pass of `sendloop` touches: exactly the pending requests in the queue whose
datagram does not fit an empty packet get the `OverflowError` -/
theorem drain_futs_get (q : List (Rid × Nat)) (dgs : List Dg) (size : Nat) (s : St) (hi : DInv dgs size) (x : Rid) :
    (drain q dgs size s).futs.get x =
      if s.futs.get x = some .pending ∧ oversizeIn q x = true then some .overflow else s.futs.get x := by
  induction q generalizing dgs size s with
  | nil => unfold drain; split <;> simp [oversizeIn]
  | cons p rest ih =>
    obtain ⟨r, len⟩ := p
    have key : ∀ (s' : St) (dgs' : List Dg) (size' : Nat), DInv dgs' size' → s'.futs = s.futs → sendable len = true →
        (drain rest dgs' size' s').futs.get x =
          if s.futs.get x = some .pending ∧ oversizeIn ((r, len) :: rest) x = true then some .overflow
          else s.futs.get x := by
      intro s' dgs' size' hi' hfs hsend
      rw [ih _ _ _ hi', hfs, oversizeIn_cons, hsend]
      simp
    have key2 : ∀ (s' : St) (dgs' : List Dg) (size' : Nat), DInv dgs' size' → s'.futs = s.futs → sendable len = false →
        (drain rest dgs' size' (failOversize r s')).futs.get x =
          if s.futs.get x = some .pending ∧ oversizeIn ((r, len) :: rest) x = true then some .overflow
          else s.futs.get x := by
      intro s' dgs' size' hi' hfs hsend
      rw [ih _ _ _ hi', failOversize_futs, hfs, settle_get, oversizeIn_cons, hsend]
      by_cases hx : x = r
      · subst hx
        by_cases hp : s.futs.get x = some .pending
        · simp [hp]
        · simp [hp]
      · have hx' : ¬ r = x := fun e => hx e.symm
        by_cases hp : s.futs.get x = some .pending
        · simp [hp, hx, hx']
        · simp [hp, hx]
    unfold drain
    by_cases hf : fits size dgs.length len = true
    · simp only [hf, ↓reduceIte]
      refine key s _ _ ⟨?_, by simp⟩ rfl (sendable_of_fits hi.1 hf)
      have := hi.1; omega
    · simp only [hf, Bool.false_eq_true, ↓reduceIte]
      by_cases he : dgs.isEmpty = true
      · simp only [he, ↓reduceIte]
        have hd : dgs = [] := by simpa using he
        have hsz := hi.2 hd
        subst hd
        rw [hsz] at hf ⊢
        exact key2 s [] PACKET_HEADER dinv_nil rfl (not_sendable_of_not_fits (by simpa using hf))
      · simp only [he, Bool.false_eq_true, ↓reduceIte]
        by_cases hf2 : fits PACKET_HEADER 0 len = true
        · simp only [hf2, ↓reduceIte]
          exact key (flush dgs s) _ _ ⟨by omega, by simp⟩ rfl hf2
        · simp only [hf2, Bool.false_eq_true, ↓reduceIte]
          exact key2 (flush dgs s) [] PACKET_HEADER dinv_nil rfl (not_sendable_of_not_fits hf2)

/-! ### the frames `pack` produces -/

/-- request names of a list of frames, in wire order -/
def ridsOf (frs : List Frame) : List Rid := frs.flatMap fun fr => fr.dgs.map (·.rid)

@[simp] theorem ridsOf_nil : ridsOf [] = [] := rfl
@[simp] theorem ridsOf_cons (fr : Frame) (frs : List Frame) : ridsOf (fr :: frs) = fr.dgs.map (·.rid) ++ ridsOf frs := by
  simp [ridsOf]
@[simp] theorem ridsOf_append (a b : List Frame) : ridsOf (a ++ b) = ridsOf a ++ ridsOf b := by
  simp [ridsOf]

theorem sentRids_eq (s : St) : sentRids s = ridsOf s.sent := rfl

/-- the sendable part of a queue, as request names -/
def sendableRids (q : List (Rid × Nat)) : List Rid := (q.filter fun p => sendable p.2).map (·.1)

theorem sendableRids_cons (r len : Nat) (rest : List (Rid × Nat)) :
    sendableRids ((r, len) :: rest) = (if sendable len then [r] else []) ++ sendableRids rest := by
  unfold sendableRids
  by_cases h : sendable len = true <;> simp [h]

/-- one pass puts exactly the sendable requests of the queue on the wire, in queue order, after what
was in the open packet -/
theorem pack_rids (q : List (Rid × Nat)) (dgs : List Dg) (size n : Nat) (hi : DInv dgs size) :
    ridsOf (pack q dgs size n) = dgs.map (·.rid) ++ sendableRids q := by
  induction q generalizing dgs size n with
  | nil =>
    unfold pack
    by_cases h : dgs.isEmpty = true
    · have : dgs = [] := by simpa using h
      simp [this, sendableRids]
    · simp [h, sendableRids]
  | cons p rest ih =>
    obtain ⟨r, len⟩ := p
    unfold pack
    rw [sendableRids_cons]
    by_cases hf : fits size dgs.length len = true
    · simp only [hf, ↓reduceIte]
      rw [ih _ _ _ ⟨by have := hi.1; omega, by simp⟩, sendable_of_fits hi.1 hf]
      simp [mkDg]
    · simp only [hf, Bool.false_eq_true, ↓reduceIte]
      by_cases he : dgs.isEmpty = true
      · simp only [he, ↓reduceIte]
        have hd : dgs = [] := by simpa using he
        have hsz := hi.2 hd
        subst hd
        rw [hsz] at hf ⊢
        rw [ih _ _ _ dinv_nil, not_sendable_of_not_fits (by simpa using hf)]
        simp
      · simp only [he, Bool.false_eq_true, ↓reduceIte]
        by_cases hf2 : fits PACKET_HEADER 0 len = true
        · simp only [hf2, ↓reduceIte, ridsOf_cons]
          rw [ih _ _ _ ⟨by omega, by simp⟩]
          have : sendable len = true := hf2
          simp [this, mkDg]
        · simp only [hf2, Bool.false_eq_true, ↓reduceIte, ridsOf_cons]
          rw [ih _ _ _ dinv_nil, not_sendable_of_not_fits hf2]
          simp

/-- datagrams lie one after the other: header, payload `[start, stop)`, working counter -/
def Chain : Nat → List Dg → Nat → Prop
  | p, [], e => p = e
  | p, g :: rest, e => g.start = p + DATAGRAM_HEADER ∧ g.start ≤ g.stop ∧ Chain (g.stop + DATAGRAM_TAIL) rest e

theorem chain_append {p m e : Nat} {a b : List Dg} (h1 : Chain p a m) (h2 : Chain m b e) : Chain p (a ++ b) e := by
  induction a generalizing p with
  | nil => simp only [Chain] at h1; subst h1; exact h2
  | cons g rest ih => exact ⟨h1.1, h1.2.1, ih h1.2.2⟩

theorem chain_mkDg (size r len : Nat) : Chain size [mkDg size r len] (size + dgLen len) := by
  refine ⟨rfl, ?_, ?_⟩
  · show size + DATAGRAM_HEADER ≤ size + dgLen len - DATAGRAM_TAIL
    unfold dgLen; omega
  · show size + dgLen len - DATAGRAM_TAIL + DATAGRAM_TAIL = size + dgLen len
    unfold dgLen; omega

theorem chain_mono {p e : Nat} {dgs : List Dg} (h : Chain p dgs e) : (∀ g ∈ dgs, p ≤ g.stop) ∧ Mono dgs := by
  induction dgs generalizing p with
  | nil => exact ⟨by simp, List.Pairwise.nil⟩
  | cons g rest ih =>
    obtain ⟨h1, h2, h3⟩ := h
    obtain ⟨ih1, ih2⟩ := ih h3
    refine ⟨?_, List.pairwise_cons.mpr ⟨fun b hb => by have := ih1 b hb; omega, ih2⟩⟩
    intro b hb
    rcases List.mem_cons.mp hb with rfl | hb
    · omega
    · have := ih1 b hb; omega

/-- a frame on the wire: 1 to `MAX_DATAGRAMS` datagrams laid out from the packet header on, within `MAXSIZE` -/
def FrameOK (fr : Frame) : Prop :=
  fr.dgs ≠ [] ∧ fr.dgs.length ≤ MAX_DATAGRAMS ∧ ∃ e, Chain PACKET_HEADER fr.dgs e ∧ e ≤ MAXSIZE

theorem FrameOK.mono {fr : Frame} (h : FrameOK fr) : Mono fr.dgs := by
  obtain ⟨_, _, e, hc, _⟩ := h
  exact (chain_mono hc).2

def OInv (dgs : List Dg) (size : Nat) : Prop :=
  Chain PACKET_HEADER dgs size ∧ size ≤ MAXSIZE ∧ dgs.length ≤ MAX_DATAGRAMS

theorem oinv_nil : OInv [] PACKET_HEADER := ⟨rfl, by decide, by decide⟩

theorem pack_ok (q : List (Rid × Nat)) (dgs : List Dg) (size n : Nat) (hi : OInv dgs size) :
    ∀ fr ∈ pack q dgs size n, FrameOK fr := by
  induction q generalizing dgs size n with
  | nil =>
    unfold pack
    by_cases h : dgs.isEmpty = true
    · simp [h]
    · simp only [h, Bool.false_eq_true, ↓reduceIte, List.mem_singleton]
      rintro fr rfl
      exact ⟨by simpa using h, hi.2.2, size, hi.1, hi.2.1⟩
  | cons p rest ih =>
    obtain ⟨r, len⟩ := p
    unfold pack
    by_cases hf : fits size dgs.length len = true
    · simp only [hf, ↓reduceIte]
      have hf' := hf
      simp only [fits, Bool.and_eq_true, decide_eq_true_eq] at hf'
      exact ih _ _ _ ⟨chain_append hi.1 (chain_mkDg size r len), hf'.1, by simp; omega⟩
    · simp only [hf, Bool.false_eq_true, ↓reduceIte]
      by_cases he : dgs.isEmpty = true
      · simp only [he, ↓reduceIte]
        have hd : dgs = [] := by simpa using he
        subst hd
        exact ih _ _ _ hi
      · simp only [he, Bool.false_eq_true, ↓reduceIte, List.mem_cons]
        have hfr : FrameOK ⟨n, dgs⟩ := ⟨by simpa using he, hi.2.2, size, hi.1, hi.2.1⟩
        by_cases hf2 : fits PACKET_HEADER 0 len = true
        · simp only [hf2, ↓reduceIte]
          have hf' := hf2
          simp only [fits, Bool.and_eq_true, decide_eq_true_eq] at hf'
          rintro fr (rfl | hfr')
          · exact hfr
          · exact ih _ _ _ ⟨chain_mkDg _ r len, hf'.1, by simp; exact hf'.2⟩ fr hfr'
        · simp only [hf2, Bool.false_eq_true, ↓reduceIte]
          rintro fr (rfl | hfr')
          · exact hfr
          · exact ih _ _ _ oinv_nil fr hfr'

/-- frames are numbered consecutively from the number of frames sent before -/
theorem pack_ids (q : List (Rid × Nat)) (dgs : List Dg) (size n : Nat) :
    (pack q dgs size n).map (·.id) = List.range' n (pack q dgs size n).length := by
  induction q generalizing dgs size n with
  | nil => unfold pack; split <;> simp
  | cons p rest ih =>
    obtain ⟨r, len⟩ := p
    unfold pack
    split
    · exact ih _ _ _
    · split
      · exact ih _ _ _
      · split
        · simp [List.range'_succ, ih]
        · simp [List.range'_succ, ih]

theorem pack_id_bounds {q : List (Rid × Nat)} {dgs : List Dg} {size n : Nat} {fr : Frame}
    (h : fr ∈ pack q dgs size n) : n ≤ fr.id ∧ fr.id < n + (pack q dgs size n).length := by
  have hm : fr.id ∈ (pack q dgs size n).map (·.id) := List.mem_map.mpr ⟨fr, h, rfl⟩
  rw [pack_ids] at hm
  have := List.mem_range'_1.mp hm
  omega

theorem pack_ids_nodup (q : List (Rid × Nat)) (dgs : List Dg) (size n : Nat) :
    ((pack q dgs size n).map (·.id)).Nodup := by
  rw [pack_ids]; exact List.nodup_range'

end Ebv.SendLoop
