import Ebv.Lemmas.XdpOps3
import Ebv.Lemmas.Sem
import Ebv.Model.Bytes
/-! Value lemmas for the translation validation of the packet-variable programs (C07TV): the byte swap of the `BE`
instruction as `decBE ∘ encLE`, the sign-extending shift pairs (64- and 32-bit) on registers in the normal form
`BitVec.ofNat 64 (natural number)`, and what a store into memory showing a packet does to the packet. -/
namespace Ebv.XdpRun
open Ebv.Ebpf Ebv.Bytes

/-! ### byte swap -/

theorem foldl_swap_acc (w : Nat) (l : List Nat) (a : Nat) :
    l.foldl (fun acc i => acc * 256 + w / 256 ^ i % 256) a =
      a * 256 ^ l.length + l.foldl (fun acc i => acc * 256 + w / 256 ^ i % 256) 0 := by
  induction l generalizing a with
  | nil => simp
  | cons x xs ih =>
    simp only [List.foldl_cons, List.length_cons]
    rw [ih (a * 256 + w / 256 ^ x % 256), ih (0 * 256 + w / 256 ^ x % 256), Nat.pow_succ]
    simp only [Nat.zero_mul, Nat.zero_add, Nat.add_mul, Nat.mul_assoc, Nat.mul_comm 256 (256 ^ xs.length), Nat.add_assoc]

theorem byteSwap_succ (n v : Nat) : byteSwap (n + 1) v = v % 256 * 256 ^ n + byteSwap n (v / 256) := by
  unfold byteSwap
  rw [List.range_succ_eq_map, List.foldl_cons, List.foldl_map]
  have : (fun (acc : Nat) (i : Nat) => acc * 256 + v / 256 ^ (i + 1) % 256) =
      (fun acc i => acc * 256 + v / 256 / 256 ^ i % 256) := by
    funext acc i
    rw [Nat.div_div_eq_div_mul, Nat.pow_succ, Nat.mul_comm (256 ^ i) 256]
  rw [this, foldl_swap_acc]
  simp

theorem decLE_append (l m : List UInt8) : decLE (l ++ m) = decLE l + 256 ^ l.length * decLE m := by
  induction l with
  | nil => simp [decLE]
  | cons b bs ih =>
    simp only [List.cons_append, decLE, ih, List.length_cons, Nat.pow_succ]
    rw [Nat.mul_add, ← Nat.mul_assoc, Nat.mul_comm 256 (256 ^ bs.length), Nat.add_assoc]

/-- the `BE` instruction's swap of an `n`-byte value is `struct`'s big-endian reading of its little-endian bytes -/
theorem byteSwap_eq (n : Nat) : ∀ v, byteSwap n v = decBE (encLE n v) := by
  induction n with
  | zero => intro v; rfl
  | succ n ih =>
    intro v
    rw [byteSwap_succ, ih]
    simp only [decBE, encLE, List.reverse_cons, decLE_append, List.length_reverse, length_encLE, decLE]
    have : (UInt8.ofNat (v % 256)).toNat = v % 256 := by simp
    rw [this]; simp [Nat.mul_comm, Nat.add_comm]

theorem swap2_eq (x : Nat) : x % 256 * 256 + x / 256 % 256 = decBE (encLE 2 x) := by
  rw [← byteSwap_eq]; simp [byteSwap, List.range, List.range.loop]

theorem swap4_eq (x : Nat) :
    ((x % 256 * 256 + x / 256 % 256) * 256 + x / 65536 % 256) * 256 + x / 16777216 % 256 = decBE (encLE 4 x) := by
  rw [← byteSwap_eq]; simp [byteSwap, List.range, List.range.loop]

theorem encLE_mod' (n v : Nat) : encLE n (v % 256 ^ n) = encLE n v := by
  induction n generalizing v with
  | zero => rfl
  | succ n ih =>
    simp only [encLE, Nat.pow_succ]
    have h1 : v % (256 ^ n * 256) % 256 = v % 256 := by
      rw [Nat.mul_comm]; exact Nat.mod_mul_right_mod v 256 (256 ^ n)
    have h2 : v % (256 ^ n * 256) / 256 = (v / 256) % 256 ^ n := by
      rw [Nat.mul_comm, Nat.mod_mul_right_div_self]
    rw [h1, h2, ih]

/-- two values with the same low `n` bytes are stored as the same bytes -/
theorem encLE_congr (n x y : Nat) (h : x % 256 ^ n = y % 256 ^ n) : encLE n x = encLE n y := by
  rw [← encLE_mod' n x, ← encLE_mod' n y, h]

theorem byteSwap4 (x : Nat) : byteSwap 4 (x % 4294967296) =
    ((x % 256 * 256 + x / 256 % 256) * 256 + x / 65536 % 256) * 256 + x / 16777216 % 256 := by
  rw [swap4_eq, byteSwap_eq, show (4294967296 : Nat) = 256 ^ 4 by decide, encLE_mod']

theorem swap8_eq (x : Nat) : byteSwap 8 (x % 18446744073709551616) = decBE (encLE 8 x) := by
  rw [byteSwap_eq, show (18446744073709551616 : Nat) = 256 ^ 8 by decide, encLE_mod']

/-! ### registers -/

theorem toNat_ofNat64_mod (x : Nat) : (BitVec.ofNat 64 x).toNat = x % 18446744073709551616 := by
  simp [BitVec.toNat_ofNat]

/-- sign extension of the low `k` bits to `w` bits, on naturals -/
def sx (k w x : Nat) : Nat := if 2 ^ (k - 1) ≤ x then x + 2 ^ w - 2 ^ k else x

theorem signExtend_ofNat (k w x : Nat) (_hk : 0 < k) (hw : k ≤ w) (hx : x < 2 ^ k) :
    ((BitVec.ofNat k x).signExtend w).toNat = sx k w x := by
  rw [BitVec.toNat_signExtend, BitVec.msb_eq_decide]
  have hkw : 2 ^ k ≤ 2 ^ w := Nat.pow_le_pow_right (by omega) hw
  simp only [BitVec.toNat_setWidth, BitVec.toNat_ofNat, Nat.mod_eq_of_lt hx, Nat.mod_eq_of_lt (Nat.lt_of_lt_of_le hx hkw), sx]
  by_cases h : 2 ^ (k - 1) ≤ x <;> simp [h] <;> omega

theorem sext64 (k x : Nat) (hk : 0 < k) (hk' : k ≤ 64) (hx : x < 2 ^ k) :
    (BitVec.ofNat 64 x <<< (64 - k)).sshiftRight (64 - k) = BitVec.ofNat 64 (sx k 64 x) := by
  rw [Ebv.Gen.shiftpair64 k x hk hk' hx]
  apply BitVec.eq_of_toNat_eq
  have : 2 ^ k ≤ 2 ^ 64 := Nat.pow_le_pow_right (by omega) hk'
  have hs : sx k 64 x < 2 ^ 64 := by unfold sx; split <;> omega
  rw [signExtend_ofNat k 64 x hk hk' hx, BitVec.toNat_ofNat, Nat.mod_eq_of_lt hs]

theorem sext32 (k x : Nat) (hk : 0 < k) (hk' : k ≤ 32) (hx : x < 2 ^ k) :
    BitVec.setWidth 64 ((BitVec.setWidth 32 (BitVec.setWidth 64 (BitVec.setWidth 32 (BitVec.ofNat 64 x) <<< (32 - k)))).sshiftRight
      (32 - k)) = BitVec.ofNat 64 (sx k 32 x) := by
  have h1 : BitVec.setWidth 32 (BitVec.ofNat 64 x) = BitVec.ofNat 32 x := Ebv.Gen.trunc_ofNat64 x
  have h2 : ∀ y : BitVec 32, BitVec.setWidth 32 (BitVec.setWidth 64 y) = y := by
    intro y; apply BitVec.eq_of_toNat_eq; simp
  rw [h1, h2, Ebv.Gen.shiftpair32 k x hk hk' hx]
  apply BitVec.eq_of_toNat_eq
  have : 2 ^ k ≤ 2 ^ 32 := Nat.pow_le_pow_right (by omega) hk'
  have hs : sx k 32 x < 2 ^ 32 := by unfold sx; split <;> omega
  rw [BitVec.toNat_setWidth, signExtend_ofNat k 32 x hk hk' hx, BitVec.toNat_ofNat,
    Nat.mod_eq_of_lt (by omega : sx k 32 x < 2 ^ 64)]

theorem sext64_8 (x : Nat) (h : x < 256) :
    (BitVec.ofNat 64 x <<< 56).sshiftRight 56 = BitVec.ofNat 64 (sx 8 64 x) := sext64 8 x (by omega) (by omega) h
theorem sext64_16 (x : Nat) (h : x < 65536) :
    (BitVec.ofNat 64 x <<< 48).sshiftRight 48 = BitVec.ofNat 64 (sx 16 64 x) := sext64 16 x (by omega) (by omega) h
theorem sext64_32 (x : Nat) (h : x < 4294967296) :
    (BitVec.ofNat 64 x <<< 32).sshiftRight 32 = BitVec.ofNat 64 (sx 32 64 x) := sext64 32 x (by omega) (by omega) h
theorem sext32_8 (x : Nat) (h : x < 256) :
    BitVec.setWidth 64 ((BitVec.setWidth 32 (BitVec.setWidth 64 (BitVec.setWidth 32 (BitVec.ofNat 64 x) <<< 24))).sshiftRight 24) =
      BitVec.ofNat 64 (sx 8 32 x) := sext32 8 x (by omega) (by omega) h
theorem sext32_16 (x : Nat) (h : x < 65536) :
    BitVec.setWidth 64 ((BitVec.setWidth 32 (BitVec.setWidth 64 (BitVec.setWidth 32 (BitVec.ofNat 64 x) <<< 16))).sshiftRight 16) =
      BitVec.ofNat 64 (sx 16 32 x) := sext32 16 x (by omega) (by omega) h

/-! ### stored bytes: truncations that do not matter, swaps as `decBE ∘ encLE` -/

theorem encLE_mod_dvd (n m v : Nat) (h : 256 ^ n ∣ m) : encLE n (v % m) = encLE n v := by
  apply encLE_congr; exact Nat.mod_mod_of_dvd v h
theorem encLE1_mod (v : Nat) : encLE 1 (v % 256) = encLE 1 v := encLE_mod' 1 v
theorem encLE2_mod (v : Nat) : encLE 2 (v % 65536) = encLE 2 v := encLE_mod' 2 v
theorem encLE4_mod (v : Nat) : encLE 4 (v % 4294967296) = encLE 4 v := encLE_mod' 4 v
theorem encLE8_mod (v : Nat) : encLE 8 (v % 18446744073709551616) = encLE 8 v := encLE_mod' 8 v
theorem encLE1_m64 (v : Nat) : encLE 1 (v % 18446744073709551616) = encLE 1 v := encLE_mod_dvd 1 _ v (by decide)
theorem encLE2_m64 (v : Nat) : encLE 2 (v % 18446744073709551616) = encLE 2 v := encLE_mod_dvd 2 _ v (by decide)
theorem encLE4_m64 (v : Nat) : encLE 4 (v % 18446744073709551616) = encLE 4 v := encLE_mod_dvd 4 _ v (by decide)

theorem decBE_encLE1 (v : Nat) : decBE (encLE 1 v) = v % 256 := by simp [decBE, encLE, decLE]
theorem decBE_encLE2 (x : Nat) : decBE (encLE 2 x) = x % 256 * 256 + x / 256 % 256 := (swap2_eq x).symm
theorem decBE_encLE4 (x : Nat) : decBE (encLE 4 x) =
    ((x % 256 * 256 + x / 256 % 256) * 256 + x / 65536 % 256) * 256 + x / 16777216 % 256 := (swap4_eq x).symm
theorem decBE_encLE8 (x : Nat) : decBE (encLE 8 x) = byteSwap 8 (x % 18446744073709551616) := (swap8_eq x).symm

theorem decBE_lt' (bs : List UInt8) : decBE bs < 256 ^ bs.length := by
  have := decLE_lt bs.reverse
  simpa [decBE] using this
theorem byteSwap_lt (n v : Nat) : byteSwap n v < 256 ^ n := by
  rw [byteSwap_eq]; simpa using decBE_lt' (encLE n v)
theorem byteSwap2m (x : Nat) : byteSwap 2 (x % 65536) = decBE (encLE 2 x) := by rw [byteSwap_eq, encLE2_mod]
theorem byteSwap4m (x : Nat) : byteSwap 4 (x % 4294967296) = decBE (encLE 4 x) := by rw [byteSwap_eq, encLE4_mod]
/-- two values with the same low `n` bytes are stored as the same bytes by a big-endian store too -/
theorem be_congr (n x y : Nat) (h : x % 256 ^ n = y % 256 ^ n) :
    encLE n (decBE (encLE n x)) = encLE n (decBE (encLE n y)) := by rw [encLE_congr n x y h]

end Ebv.XdpRun
