import Ebv.Model.XdpRun
/-! One-instruction lemmas for symbolic execution of a concrete program under `runXdp`: `step` factored through
the fetched instruction (`stepO`), then one rewrite rule per opcode the dispatcher uses, on states written
`⟨R, M, pc⟩` with register updates kept folded (`upd`). -/
namespace Ebv.XdpRun
open Ebv.Ebpf

/-- the same statement, but not tagged as a `rfl` lemma: `simp` then records every use as an explicit rewrite
step instead of leaving the kernel to re-check a definitional unfolding of the whole run (which it does by
evaluating `runXdp` call-by-name: exponential) -/
theorem nonrfl {α : Sort u} {a b : α} (h : a = b) : a = b := h

/-- register file update (kept folded during symbolic execution) -/
def upd (R : Nat → W) (r : Nat) (v : W) : Nat → W := fun k => if k = r then v else R k
theorem upd_apply (R : Nat → W) (r k : Nat) (v : W) : upd R r v k = if k = r then v else R k := nonrfl rfl

/-- register file after a returning helper -/
def callR (e : Env) (id : Int) (s : State) (r0 : W) : Nat → W :=
  fun k => if k = 0 then r0 else if k ≤ 5 then e.clob id s k else s.regs k
theorem callR_apply (e : Env) (id : Int) (s : State) (r0 : W) (k : Nat) :
    callR e id s r0 k = if k = 0 then r0 else if k ≤ 5 then e.clob id s k else s.regs k := nonrfl rfl
theorem afterCall_mk (e : Env) (id : Int) (R M pc) (r0 : W) :
    afterCall e id ⟨R, M, pc⟩ r0 = ⟨callR e id ⟨R, M, pc⟩ r0, M, pc⟩ := nonrfl rfl

/-- `Ebpf.step` after the fetch -/
def stepI (prog : List Insn) (s : State) (i : Insn) : Res :=
    let cls := i.op % 8
    let code := i.op / 16
    let useReg := (i.op / 8) % 2 = 1
    if cls = 7 ∨ cls = 4 then
      if code = 13 then
        let bits := i.imm.toNat
        if bits = 16 ∨ bits = 32 ∨ bits = 64 then
          let v := (s.regs i.dst).toNat % 2 ^ bits
          let v := if useReg then byteSwap (bits / 8) v else v
          .next { (s.setReg i.dst (BitVec.ofNat 64 v)) with pc := s.pc + 1 }
        else .bad
      else if code = 8 then
        let v := if cls = 7 then -(s.regs i.dst) else (-(s.regs i.dst).truncate 32 : BitVec 32).zeroExtend 64
        .next { (s.setReg i.dst v) with pc := s.pc + 1 }
      else
        let b : W := if useReg then s.regs i.src else simm i.imm
        let a := s.regs i.dst
        let r : Option W :=
          if cls = 7 then alu 64 code a b
          else (alu 32 code (a.truncate 32) (b.truncate 32)).map (·.zeroExtend 64)
        match r with
        | some v => .next { (s.setReg i.dst v) with pc := s.pc + 1 }
        | none => .bad
    else if cls = 5 ∨ cls = 6 then
      if cls = 5 ∧ code = 8 then .call i.imm { s with pc := s.pc + 1 }
      else if cls = 5 ∧ code = 9 then .exit (s.regs 0)
      else if code = 0 then
        let t := (s.pc : Int) + 1 + i.off
        if t < 0 then .bad else .next { s with pc := t.toNat }
      else
        let b : W := if useReg then s.regs i.src else simm i.imm
        let a := s.regs i.dst
        let c := if cls = 5 then cond 64 code a b else cond 32 code (a.truncate 32) (b.truncate 32)
        match c with
        | some true =>
          let t := (s.pc : Int) + 1 + i.off
          if t < 0 then .bad else .next { s with pc := t.toNat }
        | some false => .next { s with pc := s.pc + 1 }
        | none => .bad
    else if cls = 0 then
      if i.op = 0x18 then
        match fetch prog (s.pc + 1) with
        | some j =>
          if j.op = 0 ∧ j.dst = 0 ∧ j.src = 0 ∧ j.off = 0 ∧ i.src = 0 then
            let v : W := (imm32 i.imm).zeroExtend 64 ||| ((imm32 j.imm).zeroExtend 64 <<< 32)
            .next { (s.setReg i.dst v) with pc := s.pc + 2 }
          else .bad
        | none => .bad
      else .bad
    else
      let n := Ebpf.sizeOf i.op
      let mode := i.op / 32
      if cls = 1 ∧ mode = 3 then
        let a := s.regs i.src + BitVec.ofInt 64 i.off
        .next { (s.setReg i.dst (BitVec.ofNat 64 (loadN s.mem a n))) with pc := s.pc + 1 }
      else if cls = 2 ∧ mode = 3 then
        let a := s.regs i.dst + BitVec.ofInt 64 i.off
        .next { s with mem := storeN s.mem a n (simm i.imm).toNat, pc := s.pc + 1 }
      else if cls = 3 ∧ mode = 3 then
        let a := s.regs i.dst + BitVec.ofInt 64 i.off
        .next { s with mem := storeN s.mem a n (s.regs i.src).toNat, pc := s.pc + 1 }
      else if cls = 3 ∧ mode = 6 ∧ (n = 4 ∨ n = 8) ∧ i.imm = 0 then
        let a := s.regs i.dst + BitVec.ofInt 64 i.off
        .next { s with mem := storeN s.mem a n (loadN s.mem a n + (s.regs i.src).toNat), pc := s.pc + 1 }
      else .bad

def stepO (prog : List Insn) (s : State) : Option Insn → Res
  | none => .bad
  | some i => stepI prog s i

theorem step_eq (prog : List Insn) (s : State) : step prog s = stepO prog s (fetch prog s.pc) := by
  unfold step
  cases fetch prog s.pc <;> rfl

end Ebv.XdpRun
