import Ebv.Lemmas.CondZ
import Ebv.Lemmas.Surface
/-! Surface level of conditions: the comparison object the operator overloads build (`elabC`: reflected operators,
the right operand asked first for `Binary < Sum`, `==` as `~(!=)`, `(a & b) != 0` as a bit test, an expression
used as a condition) has the truth value of the surface text over Python integers. -/
namespace Ebv.Gen
open Ebv.Ebpf

def SCmp.evalZ : SCmp → Int → Int → Bool
  | .lt, a, b => decide (a < b) | .le, a, b => decide (a ≤ b) | .gt, a, b => decide (b < a)
  | .ge, a, b => decide (b ≤ a) | .eq, a, b => a == b | .ne, a, b => a != b

/-- **truth value of a surface condition** (Python integer semantics) -/
def SCond.truthZ (env : List VarLoc) (σ : State) : SCond → Bool
  | .cmp op a b => op.evalZ (a.evalZ env σ) (b.evalZ env σ)
  | .truth e => e.evalZ env σ != 0
  | .not c => !c.truthZ env σ
  | .and a b => a.truthZ env σ && b.truthZ env σ
  | .or a b => a.truthZ env σ || b.truthZ env σ

/-- an object of class `AndExpression` carries the operator `AND` (true of everything `elabE` builds; checked per
program instead of proved as an invariant) -/
def Expr.andTop : Expr → Bool
  | .bin op _ _ _ k => k != .and || op == .and
  | _ => true

def PyVal.andTop : PyVal → Bool
  | .ex e => e.andTop
  | _ => true

theorem swap_evalZ (op : SCmp) (a b : Int) : op.swap.evalZ b a = op.evalZ a b := by
  cases op <;> simp only [SCmp.swap, SCmp.evalZ]
  · rw [Bool.eq_iff_iff]; simp only [beq_iff_eq]; exact eq_comm
  · rw [Bool.eq_iff_iff]; simp only [bne_iff_ne]; exact ne_comm

theorem ensureExpr_evalZ (σ : State) {value : PyVal} {v : Expr} (h : ensureExpr value = .ok v) :
    evalZ σ v = value.evalZ σ := by
  cases value <;> simp [ensureExpr] at h <;> subst h <;> rfl

theorem exprCmp_truth (σ : State) (op : CmpOp) (self : Expr) (value : PyVal) (c : CObj)
    (h : exprCmp op self value = .ok c) : c.truth σ = cmpZ op (evalZ σ self) (value.evalZ σ) := by
  simp only [exprCmp, bind, Except.bind] at h
  cases hv : ensureExpr value with
  | error e => rw [hv] at h; cases h
  | ok v =>
    rw [hv] at h
    simp only [pure, Except.pure, Except.ok.injEq] at h
    subst h
    simp only [CObj.truth, ensureExpr_evalZ σ hv]

theorem isAndObj_some {e l r : Expr} (h : isAndObj e = some (l, r)) : ∃ op sg, e = .bin op l r sg .and := by
  unfold isAndObj at h
  split at h
  · rename_i op l' r' sg
    simp only [Option.some.injEq, Prod.mk.injEq] at h
    obtain ⟨rfl, rfl⟩ := h
    exact ⟨op, sg, rfl⟩
  · cases h

theorem exprNe_truth (σ : State) (self : Expr) (value : PyVal) (c : CObj) (hs : self.andTop = true)
    (h : exprNe self value = .ok c) : c.truth σ = (evalZ σ self != value.evalZ σ) := by
  unfold exprNe at h
  cases ha : isAndObj self with
  | none =>
    rw [ha] at h
    simp only [] at h
    rw [exprCmp_truth σ .ne self value c h]; rfl
  | some lr =>
    obtain ⟨l, r⟩ := lr
    rw [ha] at h
    simp only [] at h
    split at h
    · rename_i hz
      simp only [pure, Except.pure, Except.ok.injEq] at h
      subst h
      obtain ⟨op, sg, rfl⟩ := isAndObj_some ha
      simp only [Expr.andTop, bne_self_eq_false, Bool.false_or, beq_iff_eq] at hs
      subst hs
      cases value <;> simp [isIntZero] at hz
      subst hz
      simp only [CObj.truth, evalZ, BinOp.evalZ, PyVal.evalZ]
    · rw [exprCmp_truth σ .ne self value c h]; rfl

theorem bne_comm_int (a b : Int) : (a != b) = (b != a) := by
  rw [Bool.eq_iff_iff]; simp only [bne_iff_ne]; exact ne_comm

theorem pyNe_truth (σ : State) (x y : PyVal) (c : CObj) (hx : x.andTop = true) (hy : y.andTop = true)
    (h : pyNe x y = .ok c) : c.truth σ = (x.evalZ σ != y.evalZ σ) := by
  unfold pyNe at h
  split at h
  · rename_i l r
    split at h
    · rw [exprNe_truth σ r (.ex l) c hy h, bne_comm_int]; rfl
    · exact exprNe_truth σ l (.ex r) c hx h
  · rename_i l v
    exact exprNe_truth σ l (.int v) c hx h
  · rename_i v r
    rw [exprNe_truth σ r (.int v) c hy h, bne_comm_int]; rfl
  · simp [typeError] at h

theorem exprCmpS_truth (σ : State) (op : SCmp) (self : Expr) (value : PyVal) (c : CObj) (hs : self.andTop = true)
    (hv : value.andTop = true) (h : exprCmpS op self value = .ok c) :
    c.truth σ = op.evalZ (evalZ σ self) (value.evalZ σ) := by
  cases op <;> simp only [exprCmpS] at h
  · rw [exprCmp_truth σ .lt self value c h]; rfl
  · rw [exprCmp_truth σ .le self value c h]; rfl
  · rw [exprCmp_truth σ .gt self value c h]; rfl
  · rw [exprCmp_truth σ .ge self value c h]; rfl
  · simp only [bind, Except.bind] at h
    cases hn : pyNe (.ex self) value with
    | error e => rw [hn] at h; cases h
    | ok c' =>
      rw [hn] at h
      simp only [pure, Except.pure, Except.ok.injEq] at h
      subst h
      simp only [CObj.truth, pyNe_truth σ (.ex self) value c' hs hv hn, SCmp.evalZ, PyVal.evalZ]
      rw [Bool.eq_iff_iff]; simp [bne_iff_ne]
  · rw [exprNe_truth σ self value c hs h]; rfl

theorem pyCmp_truth (σ : State) (op : SCmp) (x y : PyVal) (c : CObj) (hx : x.andTop = true) (hy : y.andTop = true)
    (h : pyCmp op x y = .ok c) : c.truth σ = op.evalZ (x.evalZ σ) (y.evalZ σ) := by
  unfold pyCmp at h
  split at h
  · rename_i l r
    split at h
    · rw [exprCmpS_truth σ op.swap r (.ex l) c hy hx h, swap_evalZ]; rfl
    · exact exprCmpS_truth σ op l (.ex r) c hx hy h
  · rename_i l v
    exact exprCmpS_truth σ op l (.int v) c hx (by rfl) h
  · rename_i v r
    rw [exprCmpS_truth σ op.swap r (.int v) c hy (by rfl) h, swap_evalZ]; rfl
  · simp [typeError] at h

/-- the surface side conditions of a condition (decidable): no computed addresses, every built operand of class
`AndExpression` carries `AND`.  (`Sum - expression` operands, formerly class *sum-minus*, are inside since
`Sum.__sub__` was repaired.) -/
def SCond.surfOk (env : List VarLoc) : SCond → Bool
  | .cmp _ a b => a.noM && b.noM &&
      (match elabE env a, elabE env b with | .ok x, .ok y => x.andTop && y.andTop | _, _ => true)
  | .truth e => e.noM && (match elabE env e with | .ok x => x.andTop | _ => true)
  | .not c => c.surfOk env
  | .and a b => a.surfOk env && b.surfOk env
  | .or a b => a.surfOk env && b.surfOk env

/-- **elabC_truth**: the comparison object built for a surface condition has the truth value of the surface text -/
theorem elabC_truth (env : List VarLoc) (σ : State) : ∀ (c : SCond) (co : CObj), c.surfOk env = true →
    elabC env c = .ok co → co.truth σ = c.truthZ env σ := by
  intro c
  induction c with
  | cmp op a b =>
    intro co hok h
    simp only [SCond.surfOk, Bool.and_eq_true] at hok
    obtain ⟨⟨h1, h2⟩, h5⟩ := hok
    simp only [elabC, bind, Except.bind] at h
    cases hx : elabE env a with
    | error e => rw [hx] at h; cases h
    | ok x =>
      rw [hx] at h
      simp only [] at h
      cases hy : elabE env b with
      | error e => rw [hy] at h; cases h
      | ok y =>
        rw [hy] at h
        simp only [] at h
        rw [hx, hy] at h5
        simp only [Bool.and_eq_true] at h5
        rw [pyCmp_truth σ op x y co h5.1 h5.2 h, elab_evalZ env σ a x h1 hx, elab_evalZ env σ b y h2 hy]; rfl
  | truth e =>
    intro co hok h
    simp only [SCond.surfOk, Bool.and_eq_true] at hok
    obtain ⟨h1, h3⟩ := hok
    simp only [elabC, bind, Except.bind] at h
    cases hx : elabE env e with
    | error er => rw [hx] at h; cases h
    | ok x =>
      rw [hx] at h h3
      cases x with
      | ex l =>
        simp only [] at h
        have hz := elab_evalZ env σ e (.ex l) h1 hx
        simp only [PyVal.evalZ] at hz
        rw [exprNe_truth σ l (.int 0) co h3 h]
        simp only [SCond.truthZ, PyVal.evalZ, hz]
      | int v => simp [typeError] at h
  | not c ih =>
    intro co hok h
    simp only [elabC, bind, Except.bind] at h
    cases hc : elabC env c with
    | error e => rw [hc] at h; cases h
    | ok c' =>
      rw [hc] at h
      simp only [pure, Except.pure, Except.ok.injEq] at h
      subst h
      simp only [CObj.truth, SCond.truthZ, ih c' hok hc]
  | and a b iha ihb =>
    intro co hok h
    simp only [SCond.surfOk, Bool.and_eq_true] at hok
    simp only [elabC, bind, Except.bind] at h
    cases ha : elabC env a with
    | error e => rw [ha] at h; cases h
    | ok x =>
      rw [ha] at h
      simp only [] at h
      cases hb : elabC env b with
      | error e => rw [hb] at h; cases h
      | ok y =>
        rw [hb] at h
        simp only [pure, Except.pure, Except.ok.injEq] at h
        subst h
        simp only [CObj.truth, SCond.truthZ, iha x hok.1 ha, ihb y hok.2 hb, if_true]
  | or a b iha ihb =>
    intro co hok h
    simp only [SCond.surfOk, Bool.and_eq_true] at hok
    simp only [elabC, bind, Except.bind] at h
    cases ha : elabC env a with
    | error e => rw [ha] at h; cases h
    | ok x =>
      rw [ha] at h
      simp only [] at h
      cases hb : elabC env b with
      | error e => rw [hb] at h; cases h
      | ok y =>
        rw [hb] at h
        simp only [pure, Except.pure, Except.ok.injEq] at h
        subst h
        simp only [CObj.truth, SCond.truthZ, iha x hok.1 ha, ihb y hok.2 hb, Bool.false_eq_true, if_false]

end Ebv.Gen
