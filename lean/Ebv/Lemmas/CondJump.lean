import Ebv.Lemmas.CondReach
import Ebv.Model.GenCond
/-! What the jump instructions emitted by `SimpleComparison.target` do (in terms of `Ebpf.step`), as closed
one-instruction segments, and how jump segments compose. -/
namespace Ebv.Ebpf
open Ebv.Gen

/-- the decision of a conditional jump instruction -/
def jmpCond (i : Insn) (s : State) : Option Bool :=
  let b : W := if (i.op / 8) % 2 = 1 then s.regs i.src else simm i.imm
  if i.op % 8 = 5 then cond 64 (i.op / 16) (s.regs i.dst) b
  else cond 32 (i.op / 16) ((s.regs i.dst).truncate 32) (b.truncate 32)

/-- conditional jump of class JMP or JMP32 (not JA, CALL, EXIT) -/
def isCondJump (i : Insn) : Bool :=
  (i.op % 8 == 5 || i.op % 8 == 6) && i.op / 16 != 0 && i.op / 16 != 8 && i.op / 16 != 9

theorem step_condjump (prog : List Insn) (s : State) (i : Insn) (c : Bool) (hf : fetch prog s.pc = some i)
    (hj : isCondJump i = true) (hc : jmpCond i s = some c) (hoff : 0 ≤ i.off) :
    step prog s = .next { s with pc := if c then s.pc + 1 + i.off.toNat else s.pc + 1 } := by
  simp only [isCondJump, Bool.and_eq_true, Bool.or_eq_true, beq_iff_eq, bne_iff_ne, ne_eq] at hj
  obtain ⟨⟨⟨hcls, h0⟩, h8⟩, h9⟩ := hj
  have h74 : ¬ (i.op % 8 = 7 ∨ i.op % 8 = 4) := by omega
  have hcall : ¬ (i.op % 8 = 5 ∧ i.op / 16 = 8) := fun h => h8 h.2
  have hexit : ¬ (i.op % 8 = 5 ∧ i.op / 16 = 9) := fun h => h9 h.2
  have ht : ¬ ((s.pc : Int) + 1 + i.off < 0) := by omega
  have hn : ((s.pc : Int) + 1 + i.off).toNat = s.pc + 1 + i.off.toNat := by omega
  unfold jmpCond at hc
  unfold step
  simp only [hf, h74, if_false, hcls, if_true, hcall, hexit, h0]
  simp only [] at hc
  rw [hc]
  cases c <;> simp [ht, hn]

theorem step_ja (prog : List Insn) (s : State) (i : Insn) (hf : fetch prog s.pc = some i)
    (hop : i.op = 5) (hoff : 0 ≤ i.off) :
    step prog s = .next { s with pc := s.pc + 1 + i.off.toNat } := by
  have ht : ¬ ((s.pc : Int) + 1 + i.off < 0) := by omega
  have hn : ((s.pc : Int) + 1 + i.off).toNat = s.pc + 1 + i.off.toNat := by omega
  unfold step
  simp [hf, hop, ht, hn]

/-- one conditional jump whose offset reaches the relative position `t ≥ 1` -/
theorem jumpRun_cond (i : Insn) (t : Nat) (σ : State) (c : Bool) (hj : isCondJump i = true)
    (hc : jmpCond i σ = some c) (ht : 1 ≤ t) (hoff : i.off = (t : Int) - 1) : JumpRun [i] t σ σ c := by
  intro pre post
  have hc' : jmpCond i { σ with pc := pre.length } = some c := hc
  have hs := step_condjump (pre ++ [i] ++ post) { σ with pc := pre.length } i c (fetch_mid pre i [] post) hj hc'
    (by omega)
  apply reach_one
  · rw [hs]
    have e : i.off.toNat = t - 1 := by omega
    cases c <;> simp [e] <;> omega
  · cases c <;> simp <;> omega

/-- the unconditional `JMP` -/
theorem jumpRun_ja (i : Insn) (t : Nat) (σ : State) (hop : i.op = 5) (ht : 1 ≤ t) (hoff : i.off = (t : Int) - 1) :
    JumpRun [i] t σ σ true := by
  intro pre post
  have hs := step_ja (pre ++ [i] ++ post) { σ with pc := pre.length } i (fetch_mid pre i [] post) hop (by omega)
  apply reach_one
  · rw [hs]
    have e : i.off.toNat = t - 1 := by omega
    simp [e]; omega
  · simp; omega

/-- straight code in front of a jump segment -/
theorem JumpRun.prepend {a b : List Insn} {t : Nat} {σ σ1 σ2 : State} {tk : Bool}
    (h1 : SegRun a σ σ1) (h2 : JumpRun b t σ1 σ2 tk) : JumpRun (a ++ b) (a.length + t) σ σ2 tk := by
  intro pre post
  have r1 := h1 pre (b ++ post)
  have r2 := h2 (pre ++ a) post
  simp only [List.append_assoc, List.length_append] at r1 r2 ⊢
  have e : pre.length + (if tk = true then a.length + t else a.length + b.length)
      = pre.length + a.length + (if tk = true then t else b.length) := by cases tk <;> simp <;> omega
  rw [e]
  exact r1.trans r2

/-- a taken jump leaves the segment: whatever follows inside a larger segment is skipped -/
theorem JumpRun.taken_append {a b : List Insn} {t : Nat} {σ σ1 : State} (h : JumpRun a t σ σ1 true) :
    JumpRun (a ++ b) t σ σ1 true := by
  intro pre post
  have r := h pre (b ++ post)
  simpa [List.append_assoc] using r

/-- fall through the first jump segment into the second -/
theorem JumpRun.fall_append {a b : List Insn} {ta tb : Nat} {σ σ1 σ2 : State} {tk : Bool}
    (h1 : JumpRun a ta σ σ1 false) (h2 : JumpRun b tb σ1 σ2 tk) : JumpRun (a ++ b) (a.length + tb) σ σ2 tk :=
  JumpRun.prepend h1.toSeg h2

/-- a jump to the end of the segment is a fall-through -/
theorem JumpRun.to_end {a : List Insn} {σ σ1 : State} {tk : Bool} (h : JumpRun a a.length σ σ1 tk) {t : Nat} :
    JumpRun a t σ σ1 false := by
  intro pre post
  have r := h pre post
  cases tk <;> simpa using r

/-- a jump segment followed by a block the jump skips: both ways end behind the block when `t` is that position -/
theorem JumpRun.join {a b : List Insn} {σ σ1 σ2 : State} {tk : Bool} (h1 : JumpRun a (a.length + b.length) σ σ1 tk)
    (h2 : tk = false → SegRun b σ1 σ2) (h3 : tk = true → σ2 = σ1) : SegRun (a ++ b) σ σ2 := by
  cases tk with
  | false => exact SegRun.append h1.toSeg (h2 rfl)
  | true =>
    rw [h3 rfl]
    intro pre post
    have r := h1 pre (b ++ post)
    simpa [List.append_assoc] using r

/-! ## opcode arithmetic of the emitted jumps -/

theorem jop_mod (op : CmpOp) (sg neg : Bool) : op.jop sg neg % 16 = 5 ∧ op.jop sg neg / 16 ≠ 0 ∧
    op.jop sg neg / 16 ≠ 8 ∧ op.jop sg neg / 16 ≠ 9 ∧ op.jop sg neg < 256 := by
  cases op <;> cases sg <;> cases neg <;>
    simp [CmpOp.jop, Consts.op_JGT, Consts.op_JLE, Consts.op_JSGT, Consts.op_JSLE, Consts.op_JGE, Consts.op_JLT,
      Consts.op_JSGE, Consts.op_JSLT, Consts.op_JNE, Consts.op_JEQ]

/-- `opcode (+ SHORT) (+ REG)` -/
def jcode (j : Nat) (short reg : Bool) : Nat :=
  j + (if short then Consts.op_SHORT else 0) + (if reg then Consts.op_REG else 0)

theorem jcode_fields (j : Nat) (short reg : Bool) (h : j % 16 = 5) :
    jcode j short reg % 8 = (if short then 6 else 5) ∧ jcode j short reg / 16 = j / 16 ∧
      (jcode j short reg / 8) % 2 = (if reg then 1 else 0) := by
  cases short <;> cases reg <;> simp [jcode, Consts.op_SHORT, Consts.op_REG] <;> omega

end Ebv.Ebpf
