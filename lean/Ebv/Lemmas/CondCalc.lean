import Ebv.Lemmas.Calc
import Ebv.Model.CondClass
/-! `calculate` with requested width `None` (how comparisons ask for their operands): it is `calculate` at the width
the expression reports itself (`widthOf`), so `calc_correct` applies.  Plus two facts about the result register
that `Post` does not export. -/
namespace Ebv.Gen
open Ebv.Ebpf

/-- a forced `calculate` puts the result where it was told to -/
theorem calc_forced_reg (e : Expr) : ∀ (d : Nat) (long : Option Bool) (g g' : GenState) (res : CalcRes),
    calculate e (some d) long true g = .ok (res, g') → res.reg = d := by
  induction e with
  | const v =>
    intro d long g g' res h
    simp only [calculate, getFree] at h
    rw [bind_ok] at h
    obtain ⟨⟨d1, rel⟩, g1, hfree, h⟩ := h
    rw [pure_ok] at hfree; cases hfree
    split at h
    · rw [bind_ok] at h; obtain ⟨u, g2, _, h⟩ := h; rw [pure_ok] at h; cases h; rfl
    · rw [bind_ok] at h; obtain ⟨u, g2, _, h⟩ := h
      rw [bind_ok] at h; obtain ⟨u, g3, _, h⟩ := h; rw [pure_ok] at h; cases h; rfl
  | reg no lg sg =>
    intro d long g g' res h
    simp only [calculate] at h
    rw [bind_ok] at h
    obtain ⟨os, g1, hos, h⟩ := h
    split at h
    · rw [fail_ok] at h; exact h.elim
    · split at h
      · rw [bind_ok] at h; obtain ⟨u, g2, _, h⟩ := h; rw [pure_ok] at h; cases h; rfl
      · rename_i hc
        rw [pure_ok] at h; cases h
        simp at hc
        exact hc.symm
  | bin op l r sg k _ _ =>
    intro d long g g' res h
    simp only [calculate] at h
    rw [bind_ok] at h; obtain ⟨⟨d0, rel⟩, g1, _, h⟩ := h
    simp only [] at h
    rw [bind_ok] at h; obtain ⟨lres, g2, _, h⟩ := h
    rw [bind_ok] at h; obtain ⟨u1, g3, _, h⟩ := h
    rw [bind_ok] at h; obtain ⟨u2, g4, _, h⟩ := h
    unfold binFinish at h
    split at h
    · rename_i hc
      rw [pure_ok] at h; cases h
      simp at hc
      exact hc.symm
    · rw [bind_ok] at h; obtain ⟨u5, g5, _, h⟩ := h
      rw [bind_ok] at h; obtain ⟨u6, g6, _, h⟩ := h
      rw [pure_ok] at h; cases h; rfl
  | neg a ih =>
    intro d long g g' res h
    simp only [calculate, getFree] at h
    rw [bind_ok] at h; obtain ⟨⟨d1, rel⟩, g1, hfree, h⟩ := h
    rw [pure_ok] at hfree; cases hfree
    simp only [] at h
    rw [bind_ok] at h; obtain ⟨ra, g2, hc, h⟩ := h
    rw [bind_ok] at h; obtain ⟨u, g3, _, h⟩ := h
    rw [pure_ok] at h; cases h
    exact ih d long _ _ ra hc
  | abs a ih =>
    intro d long g g' res h
    simp only [calculate, getFree] at h
    rw [bind_ok] at h; obtain ⟨⟨d1, rel⟩, g1, hfree, h⟩ := h
    rw [pure_ok] at hfree; cases hfree
    simp only [] at h
    rw [bind_ok] at h; obtain ⟨ra, g2, hc, h⟩ := h
    rw [bind_ok] at h; obtain ⟨u, g3, _, h⟩ := h
    rw [pure_ok] at h; cases h
    exact ih d long _ _ ra hc
  | mem f a _ =>
    intro d long g g' res h
    cases hs : a.asSum with
    | some bo =>
      simp only [calculate, hs] at h
      rw [bind_ok] at h; obtain ⟨⟨d1, rel⟩, g1, hfree, h⟩ := h
      simp only [getFree] at hfree; rw [pure_ok] at hfree; cases hfree
      simp only [] at h
      rw [bind_ok] at h; obtain ⟨u, g2, _, h⟩ := h
      rw [pure_ok] at h; cases h; rfl
    | none =>
      simp only [calculate, hs] at h
      rw [bind_ok] at h; obtain ⟨⟨d1, rel⟩, g1, hfree, h⟩ := h
      simp only [getFree] at hfree; rw [pure_ok] at hfree; cases hfree
      simp only [] at h
      rw [bind_ok] at h; obtain ⟨ares, g2, _, h⟩ := h
      rw [bind_ok] at h; obtain ⟨u, g3, _, h⟩ := h
      rw [pure_ok] at h; cases h; rfl

/-- the width flag a successful `calculate` yields -/
theorem calc_resLong (e : Expr) : ∀ (dst : Option Nat) (long : Option Bool) (force : Bool) (g g' : GenState)
    (res : CalcRes), calculate e dst long force g = .ok (res, g') →
    res.long = (match long with | some b => retLong b e | none => widthOf e) := by
  induction e with
  | const v =>
    intro dst long force g g' res h
    simp only [calculate] at h
    rw [bind_ok] at h
    obtain ⟨⟨d1, rel⟩, g1, _, h⟩ := h
    simp only [] at h
    split at h
    · rw [bind_ok] at h; obtain ⟨u, g2, _, h⟩ := h; rw [pure_ok] at h; cases h
      cases long <;> rfl
    · rw [bind_ok] at h; obtain ⟨u, g2, _, h⟩ := h
      rw [bind_ok] at h; obtain ⟨u, g3, _, h⟩ := h; rw [pure_ok] at h; cases h
      cases long <;> rfl
  | reg no lg sg =>
    intro dst long force g g' res h
    simp only [calculate] at h
    rw [bind_ok] at h
    obtain ⟨os, g1, hos, h⟩ := h
    split at h
    · rw [fail_ok] at h; exact h.elim
    · split at h
      · cases dst with
        | none => simp only [] at h; rw [fail_ok] at h; exact h.elim
        | some d =>
          simp only [] at h
          rw [bind_ok] at h; obtain ⟨u, g2, _, h⟩ := h; rw [pure_ok] at h; cases h
          cases long <;> rfl
      · rw [pure_ok] at h; cases h
        cases long <;> rfl
  | bin op l r sg k ihl _ =>
    intro dst long force g g' res h
    simp only [calculate] at h
    rw [bind_ok] at h; obtain ⟨⟨d0, rel⟩, g1, _, h⟩ := h
    simp only [] at h
    rw [bind_ok] at h; obtain ⟨lres, g2, hl, h⟩ := h
    rw [bind_ok] at h; obtain ⟨u1, g3, _, h⟩ := h
    rw [bind_ok] at h; obtain ⟨u2, g4, _, h⟩ := h
    have hll := ihl _ _ _ _ _ _ hl
    have hres : res.long = long.getD lres.long := by
      unfold binFinish at h
      split at h
      · rw [pure_ok] at h; cases h; rfl
      · rw [bind_ok] at h; obtain ⟨u5, g5, _, h⟩ := h
        rw [bind_ok] at h; obtain ⟨u6, g6, _, h⟩ := h
        rw [pure_ok] at h; cases h; rfl
    rw [hres]
    cases long with
    | none => simp only [Option.getD_none, widthOf]; exact hll
    | some b => simp [retLong]
  | neg a ih =>
    intro dst long force g g' res h
    simp only [calculate] at h
    rw [bind_ok] at h; obtain ⟨⟨d1, rel⟩, g1, _, h⟩ := h
    simp only [] at h
    rw [bind_ok] at h; obtain ⟨ra, g2, hc, h⟩ := h
    rw [bind_ok] at h; obtain ⟨u, g3, _, h⟩ := h
    rw [pure_ok] at h; cases h
    have := ih _ _ _ _ _ _ hc
    cases long with
    | none => simpa [retLong, widthOf, unaryLong] using this
    | some b => cases b <;> simpa [retLong, widthOf, unaryLong] using this
  | abs a ih =>
    intro dst long force g g' res h
    simp only [calculate] at h
    rw [bind_ok] at h; obtain ⟨⟨d1, rel⟩, g1, _, h⟩ := h
    simp only [] at h
    rw [bind_ok] at h; obtain ⟨ra, g2, hc, h⟩ := h
    rw [bind_ok] at h; obtain ⟨u, g3, _, h⟩ := h
    rw [pure_ok] at h; cases h
    have := ih _ _ _ _ _ _ hc
    cases long with
    | none => simpa [retLong, widthOf, unaryLong] using this
    | some b => cases b <;> simpa [retLong, widthOf, unaryLong] using this
  | mem f a _ =>
    intro dst long force g g' res h
    cases hs : a.asSum with
    | some bo =>
      simp only [calculate, hs] at h
      rw [bind_ok] at h; obtain ⟨⟨d1, rel⟩, g1, _, h⟩ := h
      simp only [] at h
      rw [bind_ok] at h; obtain ⟨u, g2, _, h⟩ := h
      rw [pure_ok] at h; cases h
      cases long <;> rfl
    | none =>
      simp only [calculate, hs] at h
      rw [bind_ok] at h; obtain ⟨⟨d1, rel⟩, g1, _, h⟩ := h
      simp only [] at h
      rw [bind_ok] at h; obtain ⟨ares, g2, _, h⟩ := h
      rw [bind_ok] at h; obtain ⟨u, g3, _, h⟩ := h
      rw [pure_ok] at h; cases h
      cases long <;> rfl

end Ebv.Gen
