import Ebv.Lemmas.Homo
/-! Reference semantics of *surface* expressions (what the user writes, Python integer semantics) and the
proof that the operator overloads preserve it (`elab_evalZ`) for every operator, `Sum - expression` included
(that node computed the sum before `Sum.__sub__` was repaired; the exclusion class *sum-minus* is gone). -/
namespace Ebv.Gen
open Ebv.Ebpf

def SOp.evalZ : SOp → Int → Int → Int
  | .add, a, b => a + b
  | .sub, a, b => a - b
  | .mul, a, b => a * b
  | .floordiv, a, b => Int.fdiv a b
  | .mod, a, b => Int.fmod a b
  | .and, a, b => zAnd a b
  | .or, a, b => zOr a b
  | .xor, a, b => zXor a b
  | .lsh, a, b => a * 2 ^ b.toNat
  | .rsh, a, b => a / 2 ^ b.toNat

/-- **the mathematical value of a surface expression** in a machine state: Python's integer semantics of the
operators, each leaf contributing the value its own view/format defines -/
def SExpr.evalZ (env : List VarLoc) (σ : State) : SExpr → Int
  | .c v => v
  | .reg view no => viewZ view.long view.signed (σ.regs no)
  | .var name =>
    match lookupVar env name with
    | some l => fmtZ l.fmt (loadN σ.mem (σ.regs l.base + BitVec.ofInt 64 l.off) l.fmt.size)
    | none => 0
  | .bin op a b => op.evalZ (a.evalZ env σ) (b.evalZ env σ)
  | .neg a => -(a.evalZ env σ)
  | .abs a => ((a.evalZ env σ).natAbs : Int)
  | .m fmt a => fmtZ fmt (loadN σ.mem (BitVec.ofInt 64 (a.evalZ env σ)) fmt.size)

def PyVal.evalZ (σ : State) : PyVal → Int
  | .int v => v
  | .ex e => Gen.evalZ σ e

/-- no computed-address operands (`mB[...]`): those are under correspondence only -/
def SExpr.noM : SExpr → Bool
  | .c _ => true
  | .reg _ _ => true
  | .var _ => true
  | .bin _ a b => a.noM && b.noM
  | .neg a => a.noM
  | .abs a => a.noM
  | .m _ _ => false

theorem zBitop_comm (f : (n : Nat) → BitVec n → BitVec n → BitVec n) (hf : ∀ n x y, f n x y = f n y x) (a b : Int) :
    zBitop f a b = zBitop f b a := by
  unfold zBitop
  simp only []
  rw [Nat.max_comm (zBits b) (zBits a), hf]

theorem zOr_comm (a b : Int) : zOr a b = zOr b a := zBitop_comm _ (fun _ _ _ => BitVec.or_comm _ _) a b
theorem zAnd_comm (a b : Int) : zAnd a b = zAnd b a := zBitop_comm _ (fun _ _ _ => BitVec.and_comm _ _) a b
theorem zXor_comm (a b : Int) : zXor a b = zXor b a := zBitop_comm _ (fun _ _ _ => BitVec.xor_comm _ _) a b

/-- the `Opcode` a surface operator becomes (`>>`: ARSH or RSH, same integer meaning) -/
def SOp.toBin (signed : Bool) : SOp → BinOp
  | .add => .add | .sub => .sub | .mul => .mul | .floordiv => .div | .mod => .mod
  | .and => .and | .or => .or | .xor => .xor | .lsh => .lsh
  | .rsh => if signed then .arsh else .rsh

theorem toBin_evalZ (op : SOp) (sg : Bool) (a b : Int) : (op.toBin sg).evalZ a b = op.evalZ a b := by
  cases op <;> cases sg <;> rfl

theorem exprBinary_evalZ (σ : State) (bop : BinOp) (self : Expr) (value v : PyVal) (hv : exprBinary bop self value = .ok v) :
    v.evalZ σ = bop.evalZ (evalZ σ self) (value.evalZ σ) := by
  unfold exprBinary at hv
  cases value with
  | int c =>
    simp only [ensureExpr] at hv
    cases hv
    rfl
  | ex e =>
    simp only [ensureExpr] at hv
    cases hv
    rfl

/-- `Sum ± int` builds a new `Sum` whose value is that of the old one plus the integer -/
theorem sumShift_evalZ (σ : State) (c : Int) (neg : Bool) (self : Expr) (v : PyVal) (h : sumShift c neg self = some v) :
    v.evalZ σ = evalZ σ self + c := by
  unfold sumShift at h
  split at h
  · rename_i l c0 sg
    cases h
    show evalZ σ l + (c0 + c) = evalZ σ l + c0 + c
    omega
  · cases h

theorem exprAdd_evalZ (σ : State) (self : Expr) (value v : PyVal) (h : exprAdd self value = .ok v) :
    v.evalZ σ = evalZ σ self + value.evalZ σ := by
  unfold exprAdd at h
  cases value with
  | int c =>
    simp only [] at h
    split at h
    · cases h; rfl
    · split at h
      · rename_i s hs
        cases h
        exact sumShift_evalZ σ c _ self _ hs
      · exact exprBinary_evalZ σ .add self _ v h
  | ex e => exact exprBinary_evalZ σ .add self _ v h

/-- also for `Sum - expression` (before the fix of `Sum.__sub__` this node computed the sum) -/
theorem exprSub_evalZ (σ : State) (self : Expr) (value v : PyVal) (h : exprSub self value = .ok v) :
    v.evalZ σ = evalZ σ self - value.evalZ σ := by
  unfold exprSub at h
  cases value with
  | int c =>
    simp only [] at h
    split at h
    · cases h
      show evalZ σ self + -c = evalZ σ self - c
      omega
    · split at h
      · rename_i s hs
        cases h
        rw [sumShift_evalZ σ (-c) _ self _ hs]
        show evalZ σ self + -c = evalZ σ self - c
        omega
      · exact exprBinary_evalZ σ .sub self _ v h
  | ex e => exact exprBinary_evalZ σ .sub self _ v h

theorem exprOp_evalZ (σ : State) (op : SOp) (self : Expr) (value v : PyVal) (h : exprOp op self value = .ok v) :
    v.evalZ σ = op.evalZ (evalZ σ self) (value.evalZ σ) := by
  cases op <;> simp only [exprOp] at h
  · exact exprAdd_evalZ σ self value v h
  · exact exprSub_evalZ σ self value v h
  · exact exprBinary_evalZ σ .mul self value v h
  · exact exprBinary_evalZ σ .div self value v h
  · exact exprBinary_evalZ σ .mod self value v h
  · cases value with
    | int c => simp [ensureExpr, bind, Except.bind, pure, Except.pure] at h; subst h; rfl
    | ex e => simp [ensureExpr, bind, Except.bind, pure, Except.pure] at h; subst h; rfl
  · exact exprBinary_evalZ σ .or self value v h
  · exact exprBinary_evalZ σ .xor self value v h
  · exact exprBinary_evalZ σ .lsh self value v h
  · cases value with
    | int c =>
      simp [ensureExpr, bind, Except.bind, pure, Except.pure, mkBin] at h; subst h
      cases self.signed <;> rfl
    | ex e =>
      simp [ensureExpr, bind, Except.bind, pure, Except.pure, mkBin] at h; subst h
      cases self.signed <;> rfl

theorem exprROp_evalZ (σ : State) (op : SOp) (self : Expr) (c : Int) (v : PyVal) (h : exprROp op self c = .ok v) :
    v.evalZ σ = op.evalZ c (evalZ σ self) := by
  cases op <;> simp only [exprROp] at h
  · rw [exprAdd_evalZ σ self _ v h]; exact Int.add_comm _ _
  · exact exprOp_evalZ σ .sub (.const c) _ v h
  · rw [exprBinary_evalZ σ .mul self _ v h]; exact Int.mul_comm _ _
  · simp [pure, Except.pure, mkBin] at h; subst h; rfl
  · exact exprOp_evalZ σ .mod (.const c) _ v h
  · rw [exprOp_evalZ σ .and self _ v h]; exact zAnd_comm _ _
  · rw [exprBinary_evalZ σ .or self _ v h]; exact zOr_comm _ _
  · rw [exprBinary_evalZ σ .xor self _ v h]; exact zXor_comm _ _
  · exact exprOp_evalZ σ .lsh (.const c) _ v h
  · exact exprOp_evalZ σ .rsh (.const c) _ v h

theorem intOp_evalZ (σ : State) (op : SOp) (a b : Int) (v : PyVal) (h : intOp op a b = .ok v) :
    v.evalZ σ = op.evalZ a b := by
  cases op <;> simp only [intOp] at h
  · cases h; rfl
  · cases h; rfl
  · cases h; rfl
  · split at h
    · cases h
    · cases h; rfl
  · split at h
    · cases h
    · cases h; rfl
  · cases h; rfl
  · cases h; rfl
  · cases h; rfl
  · split at h
    · cases h
    · cases h; rfl
  · split at h
    · cases h
    · cases h; rfl

/-- every node of the operator protocol, **`Sum - expression` included**, has the value Python's integers give it -/
theorem pyOp_evalZ (σ : State) (op : SOp) (x y v : PyVal) (h : pyOp op x y = .ok v) :
    v.evalZ σ = op.evalZ (x.evalZ σ) (y.evalZ σ) := by
  cases x with
  | int a =>
    cases y with
    | int b => exact intOp_evalZ σ op a b v h
    | ex e => exact exprROp_evalZ σ op e a v h
  | ex l =>
    cases y with
    | int b =>
      simp only [pyOp] at h
      exact exprOp_evalZ σ op l (.int b) v h
    | ex r =>
      simp only [pyOp] at h
      split at h
      · rename_i hc
        simp only [Bool.and_eq_true, beq_iff_eq] at hc
        rw [hc.1.1, exprAdd_evalZ σ r _ v h]
        exact Int.add_comm _ _
      · exact exprOp_evalZ σ op l (.ex r) v h

/-- **the operator overloads preserve the mathematical value**: if walking a surface expression (without computed
addresses) yields a value — a folded Python `int` or an `Expression` tree — that value has the mathematical value of
the surface expression.  No operator is excluded: `Sum - expression`, `Sum ± int`, `int ± Sum` are covered. -/
theorem elab_evalZ (env : List VarLoc) (σ : State) : ∀ (s : SExpr) (v : PyVal), s.noM = true →
    elabE env s = .ok v → v.evalZ σ = s.evalZ env σ := by
  intro s
  induction s with
  | c z => intro v _ h; simp [elabE, pure, Except.pure] at h; subst h; rfl
  | reg view no => intro v _ h; simp [elabE, pure, Except.pure] at h; subst h; rfl
  | var name =>
    intro v _ h
    simp only [elabE] at h
    simp only [SExpr.evalZ]
    split at h
    · rename_i l hl
      simp [pure, Except.pure] at h; subst h
      rw [hl]; rfl
    · cases h
  | bin op a b iha ihb =>
    intro v hm h
    simp only [SExpr.noM, Bool.and_eq_true] at hm
    simp only [elabE, bind, Except.bind] at h
    cases hx : elabE env a with
    | error e => rw [hx] at h; cases h
    | ok x =>
      rw [hx] at h
      simp only [] at h
      cases hy : elabE env b with
      | error e => rw [hy] at h; cases h
      | ok y =>
        rw [hy] at h
        simp only [] at h
        rw [pyOp_evalZ σ op x y v h, iha x hm.1 hx, ihb y hm.2 hy]
        rfl
  | neg a ih =>
    intro v hm h
    simp only [elabE, bind, Except.bind] at h
    cases hx : elabE env a with
    | error e => rw [hx] at h; cases h
    | ok x =>
      rw [hx] at h
      cases x with
      | int z => simp [pyNeg, pure, Except.pure] at h; subst h; simp only [SExpr.evalZ, ← ih _ hm hx]; rfl
      | ex e => simp [pyNeg, pure, Except.pure] at h; subst h; simp only [SExpr.evalZ, ← ih _ hm hx]; rfl
  | abs a ih =>
    intro v hm h
    simp only [elabE, bind, Except.bind] at h
    cases hx : elabE env a with
    | error e => rw [hx] at h; cases h
    | ok x =>
      rw [hx] at h
      cases x with
      | int z => simp [pyAbs, pure, Except.pure] at h; subst h; simp only [SExpr.evalZ, ← ih _ hm hx]; rfl
      | ex e => simp [pyAbs, pure, Except.pure] at h; subst h; simp only [SExpr.evalZ, ← ih _ hm hx]; rfl
  | m f a _ => intro v hm; simp [SExpr.noM] at hm

end Ebv.Gen
