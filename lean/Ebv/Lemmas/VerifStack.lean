import Ebv.Lemmas.VerifRegs
/-! C05, rule (2), bounds: soundness of the frame-pointer tracking of `MiniV` against `Ebv.Ebpf.step`.

Invariant: a register whose table entry is `fp o` holds `FP + o`, where `FP` is the value of r10 at entry.  With the
`stackAccessOk` guard of `checkAt` this gives: every load or store whose base register the verifier classifies as a frame
pointer accesses `[FP - 512, FP)`. -/
namespace Ebv.C05
open Ebv.Ebpf Ebv.MiniV

theorem simm_eq (imm : Int) : simm imm = BitVec.ofInt 64 (simmZ imm) := rfl

theorem step_mov64 {prog : List Insn} {σ σ' : State} {i : Insn} (hi : prog[σ.pc]? = some i) (hop : i.op = 0xbf)
    (h : step prog σ = .next σ') : σ'.regs i.dst = σ.regs i.src := by
  unfold step at h
  simp only [fetch, hi, hop] at h
  simp [alu] at h
  cases h
  simp [State.setReg]

theorem step_add64 {prog : List Insn} {σ σ' : State} {i : Insn} (hi : prog[σ.pc]? = some i) (hop : i.op = 0x07)
    (h : step prog σ = .next σ') : σ'.regs i.dst = σ.regs i.dst + simm i.imm := by
  unfold step at h
  simp only [fetch, hi, hop] at h
  simp [alu] at h
  cases h
  simp [State.setReg]

theorem step_sub64 {prog : List Insn} {σ σ' : State} {i : Insn} (hi : prog[σ.pc]? = some i) (hop : i.op = 0x17)
    (h : step prog σ = .next σ') : σ'.regs i.dst = σ.regs i.dst - simm i.imm := by
  unfold step at h
  simp only [fetch, hi, hop] at h
  simp [alu] at h
  cases h
  simp [State.setReg]

theorem step_call_shape {prog : List Insn} {σ σ1 : State} {id : Int} {i : Insn} (hi : prog[σ.pc]? = some i)
    (h : step prog σ = .call id σ1) : isCall i = true ∧ σ1.regs = σ.regs := by
  unfold step at h
  simp only [fetch, hi] at h
  unfold isCall cls code
  repeat' split at h
  all_goals first | (cases h) | skip
  all_goals simp_all

/-- what one instrumented step does to the registers -/
theorem istep_regs {prog : List Insn} {c c' : Conf} {i : Insn} (hi : prog[c.σ.pc]? = some i) (h : IStep prog c c') :
    (∀ r, r ∉ defs i → r ∉ kills i → (isCall i = false ∨ 6 ≤ r) → c'.σ.regs r = c.σ.regs r) ∧
    (i.op = 0xbf → c'.σ.regs i.dst = c.σ.regs i.src) ∧
    (i.op = 0x07 → c'.σ.regs i.dst = c.σ.regs i.dst + simm i.imm) ∧
    (i.op = 0x17 → c'.σ.regs i.dst = c.σ.regs i.dst - simm i.imm) := by
  cases h with
  | next hi' hs =>
    rw [hi] at hi'; cases hi'
    exact ⟨fun r hr _ _ => step_frame hi hs r hr, fun hop => step_mov64 hi hop hs, fun hop => step_add64 hi hop hs,
      fun hop => step_sub64 hi hop hs⟩
  | call hi' hs hpc hsave =>
    rw [hi] at hi'; cases hi'
    obtain ⟨hcall, hregs⟩ := step_call_shape hi hs
    have hcls : i.op % 8 = 5 := by
      unfold isCall cls at hcall; simp only [Bool.and_eq_true, beq_iff_eq] at hcall; exact hcall.1
    refine ⟨?_, ?_, ?_, ?_⟩
    · intro r _ _ h6
      rcases h6 with h6 | h6
      · rw [hcall] at h6; cases h6
      · show _ = c.σ.regs r
        rw [hsave r h6, hregs]
    · intro hop; rw [hop] at hcls; cases hcls
    · intro hop; rw [hop] at hcls; cases hcls
    · intro hop; rw [hop] at hcls; cases hcls
  | ldfd hi' hop _ _ =>
    rw [hi] at hi'; cases hi'
    refine ⟨?_, ?_, ?_, ?_⟩
    · intro r hr _ _
      have : r ≠ i.dst := by
        intro e
        apply hr
        simp [defs, isAlu, isCall, isJmpCls, isLdImm64, cls, code, hop, e]
      simp [State.setReg, this]
    · intro h2; rw [hop] at h2; cases h2
    · intro h2; rw [hop] at h2; cases h2
    · intro h2; rw [hop] at h2; cases h2

theorem kind_leq_fp {b a : Kind} {o : Int} (h : b.leq a = true) (hb : b = .fp o) : a = .fp o := by
  subst hb
  cases a <;> simp_all [Kind.leq]

theorem state_leq_fp {b a : AbsState} (h : b.leq a = true) {r : Nat} (hr : r < 11) {o : Int} (hb : b.reg r = .fp o) :
    a.reg r = .fp o := by
  unfold AbsState.leq at h
  simp only [Bool.and_eq_true, List.all_eq_true, List.mem_range] at h
  exact kind_leq_fp (h.1.2 r hr) hb

theorem init_fp : ∀ r, r < 11 → ∀ o, initState.reg r = .fp o → r = 10 ∧ o = 0 := by
  intro r hr o h
  have : r = 0 ∨ r = 1 ∨ r = 2 ∨ r = 3 ∨ r = 4 ∨ r = 5 ∨ r = 6 ∨ r = 7 ∨ r = 8 ∨ r = 9 ∨ r = 10 := by omega
  rcases this with h' | h' | h' | h' | h' | h' | h' | h' | h' | h' | h' <;> subst h' <;>
    simp [initState, AbsState.reg] at h
  exact ⟨rfl, h.symm⟩

/-- the invariant: registers the table calls `fp o` hold `FP + o` -/
def InvFp (FP : W) (t : Table) (c : Conf) : Prop :=
  ∃ a, t[c.σ.pc]? = some (some a) ∧ ∀ r, r < 11 → ∀ o, a.reg r = .fp o → c.σ.regs r = FP + BitVec.ofInt 64 o

theorem invFp_step {cfg : Config} {geo : MapGeometry} {prog : List Insn} {t : Table} (ht : TableOk cfg geo prog t)
    {FP : W} {c c' : Conf} (hinv : InvFp FP t c) (hs : IStep prog c c') : InvFp FP t c' := by
  obtain ⟨a, hta, hfp⟩ := hinv
  obtain ⟨i, hi⟩ := istep_fetch hs
  have hlt : c.σ.pc < prog.length := by
    rcases Nat.lt_or_ge c.σ.pc prog.length with h | h
    · exact h
    · rw [List.getElem?_eq_none_iff.mpr h] at hi; cases hi
  obtain ⟨hreads, _, outs, _, hcov, houts⟩ := checkAt_spec (ht.at_pc _ hlt) hi hta
  obtain ⟨hpc, _⟩ := istep_succ hi hs
  obtain ⟨o, ho, hoq⟩ := hcov _ hpc
  obtain ⟨_, hedge, b, htb, hleq⟩ := houts o ho
  obtain ⟨hkeep, hmov, hadd, hsub⟩ := istep_regs hi hs
  refine ⟨b, by rw [← hoq]; exact htb, ?_⟩
  intro r hr o' hb
  have ho2 := state_leq_fp hleq hr hb
  unfold fpEdgeOk at hedge
  simp only [List.all_eq_true, List.mem_range] at hedge
  have he := hedge r hr
  rw [ho2] at he
  simp only [Bool.or_eq_true, Bool.and_eq_true, Bool.not_eq_true', beq_iff_eq, decide_eq_true_eq] at he
  rcases he with ((h1 | h2) | h3) | h4
  · obtain ⟨⟨⟨hd, hk⟩, hc6⟩, har⟩ := h1
    have hd' : r ∉ defs i := by
      intro hm
      have := List.contains_iff_mem.mpr hm
      rw [hd] at this; cases this
    have hk' : r ∉ kills i := by
      intro hm
      have := List.contains_iff_mem.mpr hm
      rw [hk] at this; cases this
    rw [hkeep r hd' hk' hc6]
    exact hfp r hr o' har
  · obtain ⟨⟨hop, hrd⟩, hsrc⟩ := h2
    subst hrd
    rw [hmov hop]
    have hsl : i.src < 11 := by
      have hm : i.src ∈ reads i := by simp [reads, isAlu, cls, code, useReg, hop]
      unfold readsOk at hreads
      simp only [List.all_eq_true, Bool.and_eq_true, decide_eq_true_eq] at hreads
      exact (hreads _ hm).1
    exact hfp i.src hsl o' hsrc
  · obtain ⟨⟨hop, hrd⟩, hm⟩ := h3
    subst hrd
    split at hm
    · rename_i o0 har
      simp only [beq_iff_eq] at hm
      rw [hadd hop, hfp i.dst hr o0 har, simm_eq, hm, BitVec.add_assoc, ← BitVec.ofInt_add]
    · cases hm
  · obtain ⟨⟨hop, hrd⟩, hm⟩ := h4
    subst hrd
    split at hm
    · rename_i o0 har
      simp only [beq_iff_eq] at hm
      rw [hsub hop, hfp i.dst hr o0 har, simm_eq, hm, BitVec.sub_eq_add_neg, BitVec.add_assoc, Int.sub_eq_add_neg,
        BitVec.ofInt_add, BitVec.ofInt_neg]
    · cases hm

theorem invFp_reach {cfg : Config} {geo : MapGeometry} {prog : List Insn} {t : Table} (ht : TableOk cfg geo prog t)
    {FP : W} {c0 c : Conf} (h0 : InvFp FP t c0) (hr : Reach prog c0 c) : InvFp FP t c := by
  induction hr with
  | refl => exact h0
  | tail _ hs ih => exact invFp_step ht ih hs

theorem invFp_start {cfg : Config} {geo : MapGeometry} {prog : List Insn} {t : Table} (ht : TableOk cfg geo prog t)
    {c0 : Conf} (hpc : c0.σ.pc = 0) : InvFp (c0.σ.regs 10) t c0 := by
  obtain ⟨a0, ha0, hleq⟩ := ht.start
  refine ⟨a0, by rw [hpc]; exact ha0, ?_⟩
  intro r hr o h
  obtain ⟨h10, h0⟩ := init_fp r hr o (state_leq_fp hleq hr h)
  subst h10 h0
  simp

/-- the base register of a load (`LDX`) or store (`ST`, `STX`, `XADD`) -/
def memBase (i : Insn) : Option Nat :=
  if isLdx i then some i.src else if isSt i || isStx i then some i.dst else none

theorem memBase_reads {i : Insn} {b : Nat} (h : memBase i = some b) : b ∈ reads i := by
  unfold memBase at h
  unfold reads isAlu isJmpCls
  unfold isLdx isSt isStx at *
  split at h
  · rename_i h1
    cases h
    simp only [beq_iff_eq] at h1
    simp [h1]
  · split at h
    · rename_i h1 h2
      cases h
      simp only [Bool.or_eq_true, beq_iff_eq] at h2
      rcases h2 with h2 | h2 <;> simp [h2]
    · cases h

/-- **rule (2), bounds, is sound**: in every execution of an accepted program, whenever a load or store goes through a
register that the verifier's table classifies as a frame pointer `fp o` (the table classifies every base register as some
pointer kind with a value), the register holds `FP + o` (`FP` = r10 at entry) and the accessed bytes
`[FP + o + off, FP + o + off + size)` lie inside the 512-byte frame below `FP`. -/
theorem stack_bounds_sound {cfg : Config} {prog : List Insn} {geo : MapGeometry} (h : acceptsWith cfg prog geo = true)
    {c0 c : Conf} (hpc : c0.σ.pc = 0) (hr : Reach prog c0 c) {i : Insn} (hi : prog[c.σ.pc]? = some i)
    {b : Nat} (hb : memBase i = some b) :
    ∃ a : AbsState, (a.reg b).isInit = true ∧ ∀ o, a.reg b = .fp o →
      c.σ.regs b + BitVec.ofInt 64 i.off = c0.σ.regs 10 + BitVec.ofInt 64 (o + i.off) ∧
      -512 ≤ o + i.off ∧ o + i.off + (Ebpf.sizeOf i.op : Int) ≤ 0 := by
  obtain ⟨_, t, ht⟩ := accepts_table h
  obtain ⟨a, hta, hfp⟩ := invFp_reach ht (invFp_start ht hpc) hr
  have hlt : c.σ.pc < prog.length := by
    rcases Nat.lt_or_ge c.σ.pc prog.length with h | h
    · exact h
    · rw [List.getElem?_eq_none_iff.mpr h] at hi; cases hi
  obtain ⟨hreads, hstack, _⟩ := checkAt_spec (ht.at_pc _ hlt) hi hta
  unfold readsOk at hreads
  simp only [List.all_eq_true, Bool.and_eq_true, decide_eq_true_eq] at hreads
  obtain ⟨hb11, hbinit⟩ := hreads b (memBase_reads hb)
  refine ⟨a, hbinit, ?_⟩
  intro o hao
  have hval := hfp b hb11 o hao
  have hin : inFrame (o + i.off) (Ebpf.sizeOf i.op) = true := by
    unfold stackAccessOk at hstack
    unfold memBase at hb
    split at hb
    · rename_i h1
      cases hb
      simp only [h1, if_true, hao] at hstack
      exact hstack
    · split at hb
      · rename_i h1 h2
        cases hb
        simp only [h1, h2, if_true, hao] at hstack
        exact hstack
      · cases hb
  unfold inFrame at hin
  simp only [Bool.and_eq_true, decide_eq_true_eq] at hin
  refine ⟨?_, hin.1, hin.2⟩
  rw [hval, BitVec.add_assoc, ← BitVec.ofInt_add]

end Ebv.C05
