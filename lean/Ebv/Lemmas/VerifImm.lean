import Ebv.Lemmas.VerifGen
import Ebv.Lemmas.VerifStruct
/-! C05, rule (7) for the generator model: since `Binary.calculate` refuses (AssembleError) a constant shift count that
does not fit the width of the operation and a constant zero divisor (`Gen.badImm`), **no** program the generator model
accepts contains such an instruction (`emitProg_imm_ok`), and the generator refuses exactly the immediates the verifier
rule refuses — no more (`badImm_exact`).  These were the known findings C05-const-shift-ge-width and C05-const-div-zero;
for the unrepaired generator (which emitted the immediate as it was) the statement is false, see the witnesses at the
end.

Technique: `Keeps m` = the action `m` keeps "every instruction emitted so far has a legal immediate"; it composes
through `>>=`, so each generator function is one walk through its `do` block. -/
namespace Ebv.C05
open Ebv.Ebpf Ebv.Gen Ebv.MiniV

/-- every instruction emitted so far satisfies the immediate part of rule (7) -/
def CodeOk (g : GenState) : Prop := ∀ i ∈ g.code, immOk i = true

/-- a generator action keeps `CodeOk` -/
def Keeps {α} (m : GenM α) : Prop := ∀ g a g', m g = .ok (a, g') → CodeOk g → CodeOk g'

theorem keeps_pure {α} (a : α) : Keeps (pure a : GenM α) := by
  intro g b g' h hg; rw [pure_ok] at h; cases h; exact hg

theorem keeps_bind {α β} {x : GenM α} {f : α → GenM β} (hx : Keeps x) (hf : ∀ a, Keeps (f a)) : Keeps (x >>= f) := by
  intro g b g' h hg
  rw [bind_ok] at h
  obtain ⟨a, g1, h1, h2⟩ := h
  exact hf a g1 b g' h2 (hx g a g1 h1 hg)

theorem keeps_fail {α} (e : AsmError) : Keeps (fail e : GenM α) := by
  intro g a g' h _; rw [fail_ok] at h; exact h.elim

theorem keeps_emit {i : Insn} (hi : immOk i = true) : Keeps (emit i) := by
  intro g a g' h hg
  rw [emit_ok] at h; cases h
  intro j hj
  rcases List.mem_append.mp hj with hj | hj
  · exact hg j hj
  · simp at hj; subst hj; exact hi

theorem keeps_getOwners : Keeps getOwners := by
  intro g a g' h hg; rw [getOwners_ok] at h; cases h; exact hg

theorem keeps_addOwner (n : Nat) : Keeps (addOwner n) := by
  intro g a g' h hg; rw [addOwner_ok] at h; cases h; exact hg

theorem keeps_release (rel : List Nat) : Keeps (release rel) := by
  intro g a g' h hg; rw [release_ok] at h; cases h; exact hg

theorem keeps_getFree (dst : Option Nat) : Keeps (getFree dst) := by
  intro g a g' h hg
  obtain ⟨d, rel⟩ := a
  obtain ⟨hc, _⟩ := getFree_ok h
  intro i hi; rw [hc] at hi; exact hg i hi

/-! ## the instruction shapes `Gen` emits -/

/-- **the generator's own check is the verifier's rule, exactly**: `Binary.calculate` refuses a constant operand iff the
instruction it would emit violates the immediate part of rule (7) -/
theorem badImm_exact (op : BinOp) (v : Int) (lg : Bool) (d : Nat) :
    badImm op v lg = !immOk ⟨op.opcode + longBit lg, d, 0, 0, v⟩ := by
  cases op <;> cases lg <;>
    simp [badImm, immOk, isAlu, cls, code, useReg, aluWidth, BinOp.opcode, Consts.op_ADD, Consts.op_SUB, Consts.op_MUL,
      Consts.op_DIV, Consts.op_OR, Consts.op_AND, Consts.op_LSH, Consts.op_RSH, Consts.op_MOD, Consts.op_XOR,
      Consts.op_ARSH, Consts.op_LONG, longBit] <;> simp [bne]

theorem ok_alu_imm {op : BinOp} {v : Int} {lg : Bool} (h : badImm op v lg = false) (d : Nat) :
    immOk ⟨op.opcode + longBit lg, d, 0, 0, v⟩ = true := by
  have := badImm_exact op v lg d
  rw [h] at this
  simpa using this.symm

theorem ok_alu_reg (op : BinOp) (lg : Bool) (d s : Nat) : immOk ⟨op.opcode + Consts.op_REG + longBit lg, d, s, 0, 0⟩ = true := by
  cases op <;> cases lg <;>
    simp [immOk, isAlu, cls, code, useReg, BinOp.opcode, Consts.op_ADD, Consts.op_SUB, Consts.op_MUL,
      Consts.op_DIV, Consts.op_OR, Consts.op_AND, Consts.op_LSH, Consts.op_RSH, Consts.op_MOD, Consts.op_XOR,
      Consts.op_ARSH, Consts.op_LONG, Consts.op_REG, longBit]

theorem ok_mov_imm (d : Nat) (v : Int) : immOk ⟨Consts.op_MOV + Consts.op_LONG, d, 0, 0, v⟩ = true := by
  simp [immOk, isAlu, cls, code, useReg, Consts.op_MOV, Consts.op_LONG]

theorem ok_mov_reg (lg : Bool) (d s : Nat) : immOk ⟨Consts.op_MOV + Consts.op_REG + longBit lg, d, s, 0, 0⟩ = true := by
  cases lg <;> simp [immOk, isAlu, cls, code, useReg, Consts.op_MOV, Consts.op_REG, Consts.op_LONG, longBit]

theorem ok_neg (lg : Bool) (d : Nat) : immOk ⟨Consts.op_NEG + longBit lg, d, 0, 0, 0⟩ = true := by
  cases lg <;> simp [immOk, isAlu, cls, code, useReg, Consts.op_NEG, Consts.op_LONG, longBit]

theorem ok_neg_long (d : Nat) : immOk ⟨Consts.op_NEG + Consts.op_LONG, d, 0, 0, 0⟩ = true := by
  simp [immOk, isAlu, cls, code, useReg, Consts.op_NEG, Consts.op_LONG]

/-- anything outside the two ALU classes -/
theorem ok_not_alu {i : Insn} (h : isAlu i = false) : immOk i = true := by simp [immOk, h]

theorem ok_ld_imm64 (d : Nat) (lo : Int) : immOk ⟨Consts.op_DW, d, 0, 0, lo⟩ = true := by
  apply ok_not_alu; simp [isAlu, cls, Consts.op_DW]

theorem ok_ld_second (hi : Int) : immOk ⟨Consts.op_W, 0, 0, 0, hi⟩ = true := by
  apply ok_not_alu; simp [isAlu, cls, Consts.op_W]

theorem ok_jsge (d : Nat) : immOk ⟨Consts.op_JSGE, d, 0, 1, 0⟩ = true := by
  apply ok_not_alu; simp [isAlu, cls, Consts.op_JSGE]

theorem ok_jsge_w (lg : Bool) (d : Nat) : immOk ⟨absTest lg, d, 0, 1, 0⟩ = true := by
  apply ok_not_alu; cases lg <;> simp [absTest, isAlu, cls, Consts.op_JSGE, Consts.op_SHORT]

theorem ok_mem (base : Nat) (h : base = Consts.op_LD ∨ base = Consts.op_ST ∨ base = Consts.op_STX) (fmt : Fmt) (d s : Nat)
    (off c : Int) : immOk ⟨base + fmt.sizeOp, d, s, off, c⟩ = true := by
  apply ok_not_alu
  rcases h with h | h | h <;> subst h <;> cases fmt <;>
    simp [isAlu, cls, Fmt.sizeOp, Consts.op_LD, Consts.op_ST, Consts.op_STX, Consts.op_B, Consts.op_H, Consts.op_W, Consts.op_DW]

/-- the sign extension of `load`: 32 or 64 minus the 8, 16 or 32 bits of the format is a legal shift count -/
theorem ok_load_shift (opc : Nat) (h : opc = Consts.op_LSH ∨ opc = Consts.op_ARSH) (fmt : Fmt) (lg : Bool) (d : Nat)
    (hf : (fmt == .h || fmt == .b || (lg && fmt == .i)) = true) :
    immOk ⟨opc + longBit lg, d, 0, 0, (if lg then 64 else 32) - fmt.size * 8⟩ = true := by
  rcases h with h | h <;> subst h <;> cases fmt <;> cases lg <;>
    simp_all [immOk, isAlu, cls, code, useReg, aluWidth, Fmt.size, Consts.op_LSH, Consts.op_ARSH, Consts.op_LONG, longBit]

/-! ## the generator functions -/

theorem absTail_keeps (reg : Nat) (long : Bool) : Keeps (absTail reg long) := by
  intro g a g' h hg
  obtain ⟨_, ht⟩ := absTail_ok h
  cases ht
  intro j hj
  rcases List.mem_append.mp hj with hj | hj
  · exact hg j hj
  · simp at hj
    rcases hj with hj | hj <;> subst hj
    · exact ok_jsge_w _ _
    · exact ok_neg _ _

theorem load_keeps (d src : Nat) (off : Int) (fmt : Fmt) (long : Option Bool) : Keeps (load d src off fmt long) := by
  unfold load
  refine keeps_bind (keeps_emit (ok_mem _ (Or.inl rfl) fmt d src off 0)) fun _ => ?_
  simp only []
  split
  · rename_i hf
    refine keeps_bind (keeps_addOwner d) fun _ => keeps_bind (keeps_emit ?_) fun _ => keeps_emit ?_
    · exact ok_load_shift _ (Or.inl rfl) fmt _ d hf
    · exact ok_load_shift _ (Or.inr rfl) fmt _ d hf
  · exact keeps_pure ()

theorem binRight_keeps (op : BinOp) (small : Option Int) {calcR : GenM CalcRes} (hR : Keeps calcR) (d : Nat) (lg : Bool) :
    Keeps (binRight op small calcR d lg) := by
  unfold binRight
  cases small with
  | some v =>
    simp only []
    split
    · exact keeps_fail _
    · rename_i hb
      exact keeps_emit (ok_alu_imm (by simpa using hb) d)
  | none =>
    simp only []
    exact keeps_bind hR fun rres => keeps_bind (keeps_emit (ok_alu_reg op lg d rres.reg)) fun _ => keeps_release _

theorem binFinish_keeps (dst : Option Nat) (d : Nat) (lg : Bool) (rel : List Nat) : Keeps (binFinish dst d lg rel) := by
  unfold binFinish
  split
  · exact keeps_pure _
  · exact keeps_bind (keeps_release rel) fun _ => keeps_bind (keeps_emit (ok_mov_reg lg _ d)) fun _ => keeps_pure _

/-- **rule (7), expression level**: whatever `calculate` emits has legal shift counts and divisors -/
theorem calc_keeps (e : Expr) : ∀ (dst : Option Nat) (long : Option Bool) (force : Bool), Keeps (calculate e dst long force) := by
  induction e with
  | const v =>
    intro dst long force
    simp only [calculate]
    refine keeps_bind (keeps_getFree dst) fun ⟨d, rel⟩ => ?_
    simp only []
    split
    · exact keeps_bind (keeps_emit (ok_mov_imm d v)) fun _ => keeps_pure _
    · exact keeps_bind (keeps_emit (ok_ld_imm64 d _)) fun _ =>
        keeps_bind (keeps_emit (ok_ld_second _)) fun _ => keeps_pure _
  | reg no lg sg =>
    intro dst long force
    simp only [calculate]
    refine keeps_bind keeps_getOwners fun os => ?_
    split
    · exact keeps_fail _
    · split
      · cases dst with
        | none => exact keeps_fail _
        | some d => exact keeps_bind (keeps_emit (ok_mov_reg lg d no)) fun _ => keeps_pure _
      · exact keeps_pure _
  | bin op l r sg k ihl ihr =>
    intro dst long force
    simp only [calculate]
    refine keeps_bind (keeps_getFree _) fun ⟨d0, rel⟩ => ?_
    simp only []
    refine keeps_bind (ihl _ _ _) fun lres => keeps_bind (keeps_release _) fun _ => ?_
    exact keeps_bind (binRight_keeps op _ (ihr _ _ _) _ _) fun _ => binFinish_keeps _ _ _ _
  | neg a ih =>
    intro dst long force
    simp only [calculate]
    refine keeps_bind (keeps_getFree _) fun ⟨d, rel⟩ => ?_
    exact keeps_bind (ih _ _ _) fun res => keeps_bind (keeps_emit (ok_neg _ _)) fun _ => keeps_pure _
  | abs a ih =>
    intro dst long force
    simp only [calculate]
    refine keeps_bind (keeps_getFree _) fun ⟨d, rel⟩ => ?_
    exact keeps_bind (ih _ _ _) fun res => keeps_bind (absTail_keeps _ _) fun _ => keeps_pure _
  | mem fmt addr ih =>
    intro dst long force
    simp only [calculate]
    split
    · exact keeps_bind (keeps_getFree _) fun ⟨d, rel⟩ => keeps_bind (load_keeps _ _ _ _ _) fun _ => keeps_pure _
    · exact keeps_bind (keeps_getFree _) fun ⟨d, rel⟩ => keeps_bind (ih _ _ _) fun ares =>
        keeps_bind (load_keeps _ _ _ _ _) fun _ => keeps_pure _

/-! ## statements and programs -/

theorem setReg_keeps (no : Nat) (long : Bool) (value : PyVal) : Keeps (setReg no long value) := by
  unfold setReg
  refine keeps_bind (keeps_addOwner no) fun _ => ?_
  split
  · exact keeps_fail _
  · exact keeps_bind (calc_keeps _ _ _ _) fun res => keeps_release _

theorem setMem_keeps (fmt : Fmt) (addr : Expr) (value : PyVal) : Keeps (setMem fmt addr value) := by
  unfold setMem
  split
  · exact keeps_fail _
  · refine keeps_bind ?_ fun ⟨d, off, arel⟩ => ?_
    · split
      · exact keeps_pure _
      · exact keeps_bind (calc_keeps _ _ _ _) fun ares => keeps_pure _
    · simp only []
      split
      · exact keeps_bind (keeps_emit (ok_mem _ (Or.inr (Or.inl rfl)) fmt d 0 off _)) fun _ => keeps_release _
      · exact keeps_bind (calc_keeps _ _ _ _) fun vres =>
          keeps_bind (keeps_emit (ok_mem _ (Or.inr (Or.inr rfl)) fmt d vres.reg off 0)) fun _ =>
            keeps_bind (keeps_release _) fun _ => keeps_release _

theorem emitStmt_keeps (env : List VarLoc) (s : Stmt) : Keeps (emitStmt env s) := by
  intro g a g' h hg
  cases s with
  | set d e =>
    simp only [emitStmt] at h
    split at h
    · cases h
    · rename_i v _
      split at h
      · exact setReg_keeps _ _ _ g a g' h hg
      · split at h
        · split at h
          · exact setMem_keeps _ _ _ g a g' h hg
          · cases h
        · cases h

theorem emitStmts_keeps (env : List VarLoc) : ∀ ss : List Stmt, Keeps (emitStmts env ss)
  | [] => by unfold emitStmts; exact keeps_pure ()
  | s :: ss => by
    unfold emitStmts
    exact keeps_bind (emitStmt_keeps env s) fun _ => emitStmts_keeps env ss

/-- **rule (7) for the generator model (was: known findings C05-const-shift-ge-width, C05-const-div-zero)**: a program the
generator accepts contains no shift by a constant outside `[0, width)` of the operation as generated and no division or
modulo by a constant zero — the two instruction shapes for which the verifier says "invalid shift" / "div by zero". -/
theorem emitProg_imm_ok {p : Prog} {code : List Insn} (h : emitProg p = .ok code) : ∀ i ∈ code, immOk i = true := by
  unfold emitProg at h
  split at h
  · rename_i u g hs
    cases h
    exact emitStmts_keeps _ _ _ u g hs (by intro i hi; simp [Gen.initState] at hi)
  · cases h

/-! ## witnesses -/

private def vars : List VarDecl := [⟨"vq", .q, .loc⟩, ⟨"db", .b, .loc⟩, ⟨"vi", .I, .loc⟩]

/-- the generator refuses the program with an AssembleError -/
def refused (p : Prog) : Bool := match emitProg p with | .error .asm => true | _ => false

/-- the former witness of const-shift-ge-width, `self.db = self.vq >> 63` (db one byte: a 32-bit operation), is refused -/
example : refused ⟨[10], vars, [.set (.var "db") (.bin .rsh (.var "vq") (.c 63))]⟩ = true := by decide +kernel
/-- `self.w3 = self.vq << 40` is a 32-bit operation as well -/
example : refused ⟨[10], vars, [.set (.reg .w 3) (.bin .lsh (.var "vq") (.c 40))]⟩ = true := by decide +kernel
/-- the former witness of const-div-zero, `self.vi = self.vq // 0`, and `% 0` are refused -/
example : refused ⟨[10], vars, [.set (.var "vi") (.bin .floordiv (.var "vq") (.c 0))]⟩ = true ∧
    refused ⟨[10], vars, [.set (.var "vq") (.bin .mod (.var "vq") (.c 0))]⟩ = true := by decide +kernel
/-- no over-rejection: the same shifts in a genuinely 64-bit operation are generated (`vq = vq << 40`, `vq = vq >> 63`),
and so is the largest 32-bit shift (`vi = vi << 31`) -/
example : (emitProg ⟨[10], vars, [.set (.var "vq") (.bin .lsh (.var "vq") (.c 40))]⟩).toOption.isSome = true ∧
    (emitProg ⟨[10], vars, [.set (.var "vq") (.bin .rsh (.var "vq") (.c 63))]⟩).toOption.isSome = true ∧
    (emitProg ⟨[10], vars, [.set (.var "vi") (.bin .lsh (.var "vi") (.c 31))]⟩).toOption.isSome = true := by decide +kernel
/-- what the unrepaired generator emitted for the first witness violates the rule (and `MiniV.accepts` refuses it:
example in `Ebv/Props/C05.lean`) -/
example : immOk ⟨0xc4, 0, 0, 0, 63⟩ = false ∧ immOk ⟨0x37, 0, 0, 0, 0⟩ = false ∧ immOk ⟨0x77, 0, 0, 0, 63⟩ = true := by decide

end Ebv.C05
