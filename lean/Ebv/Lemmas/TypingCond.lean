import Ebv.Lemmas.Typing
import Ebv.Model.GenCond
/-! The opcode pair of a comparison (signed or unsigned jump) is chosen by the property-level typing of the two
operands as written: `elabC_cmp_sg`, `elabC_truth_sg` on top of `elab_psigned`.  (A bit test `(a & b) != 0` becomes a
`JSET`, which has no signed/unsigned pair.) -/
namespace Ebv.Gen

/-- the signed/unsigned flag of the comparison at the root of a comparison object (under the `~` of `==`); `none` for
a bit test and for `&` / `|` combinations -/
def CObj.rootSg : CObj → Option Bool
  | .simple _ sg _ _ => some sg
  | .inv a => a.rootSg
  | _ => none

theorem exprCmp_sg (op : CmpOp) (self : Expr) (value : PyVal) (co : CObj) (h : exprCmp op self value = .ok co) :
    co.rootSg = some (self.signed || value.signed) := by
  unfold exprCmp at h
  cases hv : ensureExpr value with
  | error e => rw [hv] at h; cases h
  | ok x =>
    rw [hv] at h
    simp only [bind, Except.bind, pure, Except.pure, Except.ok.injEq] at h
    subst h
    simp only [CObj.rootSg, ensureExpr_signed hv]

theorem exprNe_sg (self : Expr) (value : PyVal) (co : CObj) (h : exprNe self value = .ok co) :
    co.rootSg = none ∨ co.rootSg = some (self.signed || value.signed) := by
  unfold exprNe at h
  split at h
  · split at h
    · simp only [pure, Except.pure, Except.ok.injEq] at h; subst h; exact Or.inl rfl
    · exact Or.inr (exprCmp_sg .ne self value co h)
  · exact Or.inr (exprCmp_sg .ne self value co h)

theorem pyNe_sg (x y : PyVal) (co : CObj) (h : pyNe x y = .ok co) :
    co.rootSg = none ∨ co.rootSg = some (x.signed || y.signed) := by
  cases x with
  | int a =>
    cases y with
    | int b => simp only [pyNe, typeError] at h; cases h
    | ex r =>
      simp only [pyNe] at h
      rcases exprNe_sg r _ co h with h1 | h1
      · exact Or.inl h1
      · exact Or.inr (by rw [h1]; exact congrArg some (Bool.or_comm _ _))
  | ex l =>
    cases y with
    | int b => simp only [pyNe] at h; exact exprNe_sg l _ co h
    | ex r =>
      simp only [pyNe] at h
      split at h
      · rcases exprNe_sg r _ co h with h1 | h1
        · exact Or.inl h1
        · exact Or.inr (by rw [h1]; exact congrArg some (Bool.or_comm _ _))
      · exact exprNe_sg l _ co h

theorem exprCmpS_sg (op : SCmp) (self : Expr) (value : PyVal) (co : CObj) (h : exprCmpS op self value = .ok co) :
    co.rootSg = none ∨ co.rootSg = some (self.signed || value.signed) := by
  cases op <;> simp only [exprCmpS] at h
  · exact Or.inr (exprCmp_sg .lt self value co h)
  · exact Or.inr (exprCmp_sg .le self value co h)
  · exact Or.inr (exprCmp_sg .gt self value co h)
  · exact Or.inr (exprCmp_sg .ge self value co h)
  · cases hc : pyNe (.ex self) value with
    | error e => rw [hc] at h; cases h
    | ok c =>
      rw [hc] at h
      simp only [bind, Except.bind, pure, Except.pure, Except.ok.injEq] at h
      subst h
      exact pyNe_sg (.ex self) value c hc
  · exact exprNe_sg self value co h

theorem pyCmp_sg (op : SCmp) (x y : PyVal) (co : CObj) (h : pyCmp op x y = .ok co) :
    co.rootSg = none ∨ co.rootSg = some (x.signed || y.signed) := by
  cases x with
  | int a =>
    cases y with
    | int b => simp only [pyCmp, typeError] at h; cases h
    | ex r =>
      simp only [pyCmp] at h
      rcases exprCmpS_sg _ r _ co h with h1 | h1
      · exact Or.inl h1
      · exact Or.inr (by rw [h1]; exact congrArg some (Bool.or_comm _ _))
  | ex l =>
    cases y with
    | int b => simp only [pyCmp] at h; exact exprCmpS_sg op l _ co h
    | ex r =>
      simp only [pyCmp] at h
      split at h
      · rcases exprCmpS_sg _ r _ co h with h1 | h1
        · exact Or.inl h1
        · exact Or.inr (by rw [h1]; exact congrArg some (Bool.or_comm _ _))
      · exact exprCmpS_sg op l _ co h

/-- **a comparison is a signed one iff the property types one of its operands signed** (unless it is a bit test) -/
theorem elabC_cmp_sg (env : List VarLoc) (op : SCmp) (a b : SExpr) (co : CObj)
    (h : elabC env (.cmp op a b) = .ok co) :
    co.rootSg = none ∨ co.rootSg = some (a.psigned env || b.psigned env) := by
  simp only [elabC, bind, Except.bind] at h
  cases hx : elabE env a with
  | error e => rw [hx] at h; cases h
  | ok x =>
    rw [hx] at h
    simp only [] at h
    cases hy : elabE env b with
    | error e => rw [hy] at h; cases h
    | ok y =>
      rw [hy] at h
      simp only [] at h
      rw [← (elab_psigned env a x hx).2, ← (elab_psigned env b y hy).2]
      exact pyCmp_sg op x y co h

/-- `with expr:` is `expr != 0`: signed iff the property types `expr` signed -/
theorem elabC_truth_sg (env : List VarLoc) (e : SExpr) (co : CObj) (h : elabC env (.truth e) = .ok co) :
    co.rootSg = none ∨ co.rootSg = some (e.psigned env) := by
  simp only [elabC, bind, Except.bind] at h
  cases hx : elabE env e with
  | error err => rw [hx] at h; cases h
  | ok x =>
    rw [hx] at h
    cases x with
    | int z => simp only [typeError] at h; cases h
    | ex l =>
      simp only [] at h
      rcases exprNe_sg l (.int 0) co h with h1 | h1
      · exact Or.inl h1
      · refine Or.inr ?_
        rw [h1, ← (elab_psigned env e (.ex l) hx).2]
        simp [PyVal.signed]

end Ebv.Gen
