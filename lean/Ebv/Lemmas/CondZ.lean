import Ebv.Lemmas.CondSem
import Ebv.Lemmas.Homo
/-! Integer level: under the precondition that the compared values fit the width of the emitted jump, the
machine-level truth value of a comparison object (`mtruth`) is its truth value over Python integers (`truth`,
operands evaluated by C01's `evalZ`). -/
namespace Ebv.Gen
open Ebv.Ebpf

def fitsS (w : Nat) (z : Int) : Prop := -(2 : Int) ^ (w - 1) ≤ z ∧ z < (2 : Int) ^ (w - 1)
def fitsU (w : Nat) (z : Int) : Prop := 0 ≤ z ∧ z < (2 : Int) ^ w

/-- the comparison over Python integers -/
def cmpZ (op : CmpOp) (a b : Int) : Bool :=
  match op with
  | .gt => decide (b < a) | .ge => decide (b ≤ a) | .lt => decide (a < b) | .le => decide (a ≤ b) | .ne => a != b

theorem toInt_ofInt64 (a : Int) (h : fitsS 64 a) : (BitVec.ofInt 64 a).toInt = a := by
  rw [BitVec.toInt_ofInt]
  simp only [fitsS] at h
  apply Int.bmod_eq_of_le <;> (simp; omega)

theorem toInt_ofInt32 (a : Int) (h : fitsS 32 a) : (BitVec.ofInt 32 a).toInt = a := by
  rw [BitVec.toInt_ofInt]
  simp only [fitsS] at h
  apply Int.bmod_eq_of_le <;> (simp; omega)

theorem toNat_ofInt64 (a : Int) (h : fitsU 64 a) : ((BitVec.ofInt 64 a).toNat : Int) = a := by
  simp only [fitsU] at h
  rw [BitVec.toNat_ofInt]
  have : a % ((2 ^ 64 : Nat) : Int) = a := Int.emod_eq_of_lt h.1 (by simpa using h.2)
  rw [this]; omega

theorem sext_ofInt32 (a : Int) (h : fitsS 32 a) : (BitVec.ofInt 32 a).signExtend 64 = BitVec.ofInt 64 a := by
  unfold BitVec.signExtend
  rw [toInt_ofInt32 a h]

theorem ne_ofInt_of_toInt {w : Nat} (x y : BitVec w) (a b : Int) (hx : x.toInt = a) (hy : y.toInt = b) :
    (x != y) = (a != b) := by
  by_cases h : a = b
  · have : x = y := BitVec.eq_of_toInt_eq (by rw [hx, hy, h])
    rw [this, h]; simp
  · have : x ≠ y := fun e => h (by rw [← hx, ← hy, e])
    have e1 : (x != y) = true := bne_iff_ne.mpr this
    have e2 : (a != b) = true := bne_iff_ne.mpr h
    rw [e1, e2]

/-- signed comparison of two values that fit the width -/
theorem cmpBV_signed (op : CmpOp) (w : Nat) (x y : BitVec w) (a b : Int) (hx : x.toInt = a) (hy : y.toInt = b) :
    cmpBV op true w x y = cmpZ op a b := by
  cases op <;> simp only [cmpBV, cmpZ, if_true, hx, hy]
  exact ne_ofInt_of_toInt x y a b hx hy

/-- unsigned comparison of two non-negative values that fit the width -/
theorem cmpBV_unsigned (op : CmpOp) (w : Nat) (x y : BitVec w) (a b : Int) (hx : (x.toNat : Int) = a)
    (hy : (y.toNat : Int) = b) : cmpBV op false w x y = cmpZ op a b := by
  have hne : (x != y) = (a != b) := by
    by_cases h : a = b
    · have : x = y := BitVec.eq_of_toNat_eq (by omega)
      rw [this, h]; simp
    · have : x ≠ y := fun e => h (by rw [← hx, ← hy, e])
      have e1 : (x != y) = true := bne_iff_ne.mpr this
      have e2 : (a != b) = true := bne_iff_ne.mpr h
      rw [e1, e2]
  cases op <;> simp only [cmpBV, cmpZ, Bool.false_eq_true, if_false]
  · congr 1; apply propext; omega
  · congr 1; apply propext; omega
  · congr 1; apply propext; omega
  · congr 1; apply propext; omega
  · exact hne

/-- truth value over Python integers -/
def CObj.truth (σ : State) : CObj → Bool
  | .simple op _ l r => cmpZ op (evalZ σ l) (evalZ σ r)
  | .bits l r => zAnd (evalZ σ l) (evalZ σ r) != 0
  | .andor isAnd a b => if isAnd then a.truth σ && b.truth σ else a.truth σ || b.truth σ
  | .inv a => !a.truth σ

/-- **precondition of one atom**: the compared values fit the width the emitted jump compares (32 bits for JMP32
and for a left operand that is widened, else 64; signed range for a signed pair, unsigned for an unsigned one);
for a bit test the value of `l & r` fits that width; shift counts in range (C01's `shiftsOk`) -/
def atomPre (isBits : Bool) (l r : Expr) (σ : State) : Prop :=
  let a := evalZ σ l
  let b := evalZ σ r
  let i := atomInfo l r
  shiftsOk σ (opW l) l ∧ (r.asSmallConst = none → shiftsOk σ (rW l r) r) ∧
  (if isBits then
    (i.widen = true → fitsS 32 a) ∧
      (if i.short then fitsS 32 (zAnd a b) ∨ fitsU 32 (zAnd a b) else fitsS 64 (zAnd a b) ∨ fitsU 64 (zAnd a b))
   else if i.sg then
    (if i.short then fitsS 32 a ∧ fitsS 32 b else if i.widen then fitsS 32 a ∧ fitsS 64 b else fitsS 64 a ∧ fitsS 64 b)
   else fitsU 64 a ∧ fitsU 64 b)

def CObj.pre (σ : State) : CObj → Prop
  | .simple _ _ l r => atomPre false l r σ
  | .bits l r => atomPre true l r σ
  | .andor _ a b => a.pre σ ∧ b.pre σ
  | .inv a => a.pre σ

/-- static side conditions for the integer level: operands in the fragment where `evalBV = evalZ` is proved, the
opcode pair chosen as `comparison(...)` does, the jump inside the determined fragment -/
def CObj.zok : CObj → Bool
  | .simple _ sg l r => l.ringOnly && r.ringOnly && (sg == (l.signed || r.signed)) && atomFrag l r
  | .bits l r => l.ringOnly && r.ringOnly && atomFrag l r
  | .andor _ a b => a.zok && b.zok
  | .inv a => a.zok

end Ebv.Gen
