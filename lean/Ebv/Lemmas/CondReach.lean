import Ebv.Lemmas.Exec
/-! Execution of code with forward jumps: `Reach` (steps of `Ebpf.step` that strictly increase the program
counter), its relation to `Ebpf.run`, and **closed segments**: `SegRun seg σ σ'` says that in *every* program
`pre ++ seg ++ post`, entering `seg` at its first instruction leads to the instruction behind it — the
closed-segment lemma that lets `with` blocks, Else blocks and the spliced layout of `AndComparison` be composed. -/
namespace Ebv.Ebpf

inductive Reach (prog : List Insn) : State → State → Prop where
  | refl (σ : State) : Reach prog σ σ
  | step {σ σ1 σ2 : State} : step prog σ = .next σ1 → σ.pc < σ1.pc → Reach prog σ1 σ2 → Reach prog σ σ2

theorem Reach.trans {prog : List Insn} {a b c : State} (h1 : Reach prog a b) (h2 : Reach prog b c) : Reach prog a c := by
  induction h1 with
  | refl _ => exact h2
  | step hs hpc _ ih => exact .step hs hpc (ih h2)

theorem Reach.pc_le {prog : List Insn} {a b : State} (h : Reach prog a b) : a.pc ≤ b.pc := by
  induction h with
  | refl _ => exact Nat.le_refl _
  | step _ hpc _ ih => omega

theorem reach_one {prog : List Insn} {a b : State} (hs : step prog a = .next b) (hpc : a.pc < b.pc) : Reach prog a b :=
  .step hs hpc (.refl b)

theorem step_next_lt {prog : List Insn} {s s1 : State} (h : step prog s = .next s1) : s.pc < prog.length := by
  unfold step at h
  split at h
  · cases h
  · rename_i i hf
    unfold fetch at hf
    have := List.getElem?_eq_some_iff.mp hf
    exact this.1

/-- all jumps forward: the number of steps is bounded by the distance, so `run` with that much fuel falls out -/
theorem run_of_reach {prog : List Insn} {a b : State} (h : Reach prog a b) (hend : b.pc = prog.length) :
    ∀ fuel, b.pc - a.pc + 1 ≤ fuel → run prog fuel a = .fell b := by
  induction h with
  | refl σ =>
    intro fuel hf
    obtain ⟨f, rfl⟩ : ∃ f, fuel = f + 1 := ⟨fuel - 1, by omega⟩
    simp [run, hend]
  | step hs hpc hr ih =>
    rename_i σ σ1 σ2
    intro fuel hf
    have h1 := step_next_lt hs
    have h2 := hr.pc_le
    obtain ⟨f, rfl⟩ : ∃ f, fuel = f + 1 := ⟨fuel - 1, by omega⟩
    have hne : ¬ σ.pc = prog.length := by omega
    simp only [run, hne, if_false, hs]
    exact ih hend f (by omega)

/-- closed segment, run to its end -/
def SegRun (seg : List Insn) (σ σ' : State) : Prop :=
  ∀ pre post : List Insn,
    Reach (pre ++ seg ++ post) { σ with pc := pre.length } { σ' with pc := pre.length + seg.length }

/-- closed segment that either falls out at its end or jumps (forward) to the relative position `t` -/
def JumpRun (seg : List Insn) (t : Nat) (σ σ' : State) (taken : Bool) : Prop :=
  ∀ pre post : List Insn,
    Reach (pre ++ seg ++ post) { σ with pc := pre.length }
      { σ' with pc := pre.length + (if taken then t else seg.length) }

theorem SegRun.nil (σ : State) : SegRun [] σ σ := by
  intro pre post
  simpa using Reach.refl _

theorem SegRun.pc {seg : List Insn} {σ σ' : State} (h : SegRun seg σ σ') (p q : Nat) :
    SegRun seg { σ with pc := p } { σ' with pc := q } := h

theorem SegRun.append {a b : List Insn} {σ σ1 σ2 : State} (h1 : SegRun a σ σ1) (h2 : SegRun b σ1 σ2) :
    SegRun (a ++ b) σ σ2 := by
  intro pre post
  have r1 := h1 pre (b ++ post)
  have r2 := h2 (pre ++ a) post
  simp only [List.append_assoc, List.length_append] at r1 r2 ⊢
  have e : pre.length + (a.length + b.length) = pre.length + a.length + b.length := by omega
  rw [e]
  exact r1.trans r2

/-- a jump segment followed by code it may skip: fall-through continues into `b` -/
theorem JumpRun.toSeg {a : List Insn} {t : Nat} {σ σ' : State} (h : JumpRun a t σ σ' false) : SegRun a σ σ' := by
  intro pre post
  simpa using h pre post

theorem seg_eq {seg : List Insn} {σ σ' τ' : State} (h : SegRun seg σ σ') (hr : τ'.regs = σ'.regs) (hm : τ'.mem = σ'.mem) :
    SegRun seg σ τ' := by
  intro pre post
  have := h pre post
  have e : ({ τ' with pc := pre.length + seg.length } : State) = { σ' with pc := pre.length + seg.length } := by
    cases τ'; cases σ'; simp at hr hm; simp [hr, hm]
  rw [e]; exact this

/-! ## straight-line code is a closed segment -/

theorem fetch_mid (pre : List Insn) (i : Insn) (rest post : List Insn) :
    fetch (pre ++ (i :: rest) ++ post) pre.length = some i := by
  have : pre ++ (i :: rest) ++ post = pre ++ i :: (rest ++ post) := by simp
  rw [this]; exact fetch_append_here _ _ _

theorem fetch_mid_next (pre : List Insn) (i j : Insn) (rest post : List Insn) :
    fetch (pre ++ (i :: j :: rest) ++ post) (pre.length + 1) = some j := by
  have : pre ++ (i :: j :: rest) ++ post = pre ++ i :: j :: (rest ++ post) := by simp
  rw [this]; exact fetch_append_next _ _ _ _

theorem reach_of_exec_aux (suf : List Insn) : ∀ (pre post : List Insn) (s s' : State),
    s.pc = pre.length → (∀ i ∈ suf, straight i = true) → exec suf s = some s' →
    Reach (pre ++ suf ++ post) s { s' with pc := pre.length + suf.length } := by
  induction suf using exec_ind with
  | h0 =>
    intro pre post s s' hpc _ he
    simp [exec] at he; subst he
    have e : ({ ({ s with pc := 0 } : State) with pc := pre.length + ([] : List Insn).length } : State) = s := by
      cases s; simp at hpc; simp [hpc]
    rw [e]; exact .refl s
  | h1 i rest hop ih =>
    intro pre post s s' hpc hst he
    rw [exec_cons _ _ _ hop] at he
    cases h1 : step1 i s with
    | none => simp [h1] at he
    | some s2 =>
      simp [h1] at he
      unfold step1 at h1
      split at h1
      · rename_i s1 hs1
        cases h1
        have hstep := step_reloc1 (pre ++ (i :: rest) ++ post) s i (by rw [hpc]; exact fetch_mid _ _ _ _)
          (hst i (by simp)) hop
        rw [hs1] at hstep
        have e : pre ++ (i :: rest) ++ post = (pre ++ [i]) ++ rest ++ post := by simp
        have r := ih (pre ++ [i]) post { s1 with pc := s.pc + 1 } s' (by simp [hpc])
          (fun k hk => hst k (by simp [hk])) (by rw [exec_pc]; rw [exec_pc] at he; exact he)
        rw [← e] at r
        have e2 : (pre ++ [i]).length + rest.length = pre.length + (i :: rest).length := by simp; omega
        rw [e2] at r
        exact .step hstep (by simp) r
      · cases h1
  | h2 i j rest hop ih =>
    intro pre post s s' hpc hst he
    rw [exec_cons2 _ _ _ _ hop] at he
    cases h1 : step2 i j s with
    | none => simp [h1] at he
    | some s2 =>
      simp [h1] at he
      unfold step2 at h1
      split at h1
      · rename_i s1 hs1
        cases h1
        have hstep := step_reloc2 (pre ++ (i :: j :: rest) ++ post) s i j (by rw [hpc]; exact fetch_mid _ _ _ _)
          (by rw [hpc]; exact fetch_mid_next _ _ _ _ _) hop
        rw [hs1] at hstep
        have e : pre ++ (i :: j :: rest) ++ post = (pre ++ [i, j]) ++ rest ++ post := by simp
        have r := ih (pre ++ [i, j]) post { s1 with pc := s.pc + 2 } s' (by simp [hpc])
          (fun k hk => hst k (by simp [hk])) (by rw [exec_pc]; rw [exec_pc] at he; exact he)
        rw [← e] at r
        have e2 : (pre ++ [i, j]).length + rest.length = pre.length + (i :: j :: rest).length := by simp; omega
        rw [e2] at r
        exact .step hstep (by simp) r
      · cases h1
  | h3 i hop =>
    intro pre post s s' _ _ he
    rw [exec_single_ld _ _ hop] at he; cases he

/-- **non-jump code is a closed segment** (bridge from `exec`, the semantics C01's theorems are stated in) -/
theorem segRun_of_exec {c : List Insn} {σ σ' : State} (hst : ∀ i ∈ c, straight i = true) (he : exec c σ = some σ') :
    SegRun c σ σ' := by
  intro pre post
  exact reach_of_exec_aux c pre post { σ with pc := pre.length } σ' rfl hst (by rw [exec_pc]; exact he)

end Ebv.Ebpf
