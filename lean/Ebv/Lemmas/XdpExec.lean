import Ebv.Lemmas.XdpOps
import Ebv.Lemmas.XdpMem
import Lean
/-! Unfolding `runXdp` one instruction at a time, and the normal form of register values during symbolic
execution: `BitVec.ofNat 64 (natural-number expression)`. -/
namespace Ebv.XdpRun
open Ebv.Ebpf

def cont (e : Env) (prog : List Insn) (f : Nat) (s : State) : Option (Nat × Int) → XOut
  | some (d, fd) => runXdp e prog f { (s.setReg d (e.handle fd)) with pc := s.pc + 2 }
  | none => afterStep e (runXdp e prog f) s (stepO prog s (fetch prog s.pc))

theorem runXdp_succ (e : Env) (prog : List Insn) (f : Nat) (s : State) :
    runXdp e prog (f + 1) s = cont e prog f s (pseudo prog s.pc) := by
  rw [runXdp]
  cases h : pseudo prog s.pc with
  | none => simp [cont, step_eq]
  | some x => cases x; simp [cont]

theorem cont_none (e prog f R M pc) :
    cont e prog f ⟨R, M, pc⟩ none = afterStep e (runXdp e prog f) ⟨R, M, pc⟩ (stepO prog ⟨R, M, pc⟩ (fetch prog pc)) := nonrfl rfl
theorem cont_some (e prog f R M pc d fd) :
    cont e prog f ⟨R, M, pc⟩ (some (d, fd)) = runXdp e prog f ⟨upd R d (e.handle fd), M, pc + 2⟩ := nonrfl rfl

theorem pseudoOf_other (i : Insn) (j : Option Insn) (h : i.op ≠ 24) : pseudoOf (some i) j = none := by
  cases j <;> simp [pseudoOf, h]

theorem afterStep_next (e k s s') : afterStep e k s (.next s') = k s' := nonrfl rfl
theorem afterStep_exit (e k s r) : afterStep e k s (.exit r) = .exit r s := nonrfl rfl
theorem afterStep_bad (e k s) : afterStep e k s .bad = .bad := nonrfl rfl
theorem afterStep_call (e k s id s') : afterStep e k s (.call id s') = afterHelper k (helper e id s') := nonrfl rfl
theorem afterStep_ite (e k s) (c : Prop) [Decidable c] (A B : Res) :
    afterStep e k s (if c then A else B) = if c then afterStep e k s A else afterStep e k s B := by
  split <;> rfl
theorem afterHelper_ret (k s) : afterHelper k (.ret s) = k s := nonrfl rfl
theorem afterHelper_tail (k s) : afterHelper k (.tail s) = .tailcall s := nonrfl rfl
theorem afterHelper_ite (k) (c : Prop) [Decidable c] (A B : HRes) :
    afterHelper k (if c then A else B) = if c then afterHelper k A else afterHelper k B := by
  split <;> rfl

/-! ### values -/
theorem ofNat_add_lo (a k : Nat) (_h : k < 2 ^ 63) :
    BitVec.ofNat 64 a + BitVec.ofNat 64 k = BitVec.ofNat 64 (a + k) := ofNat_add64 a k

theorem ofNat_add_hi (a k : Nat) (h1 : 2 ^ 63 ≤ k) (h2 : k < 2 ^ 64) (h3 : 2 ^ 64 - k ≤ a) :
    BitVec.ofNat 64 a + BitVec.ofNat 64 k = BitVec.ofNat 64 (a - (2 ^ 64 - k)) := by
  apply BitVec.eq_of_toNat_eq
  simp only [BitVec.toNat_add, BitVec.toNat_ofNat]
  have : a + k = (a - (2 ^ 64 - k)) + 2 ^ 64 := by omega
  omega

theorem ofNat_mul64 (a b : Nat) : BitVec.ofNat 64 a * BitVec.ofNat 64 b = BitVec.ofNat 64 (a * b) := by
  apply BitVec.eq_of_toNat_eq
  simp [BitVec.toNat_mul, Nat.mul_mod]

theorem toNat_ofNat64 (x : Nat) (h : x < 2 ^ 64) : (BitVec.ofNat 64 x).toNat = x := by
  simp only [BitVec.toNat_ofNat]; omega

theorem toNat_ofNat64_mod16 (x : Nat) : (BitVec.ofNat 64 x).toNat % 65536 = x % 65536 := by
  simp only [BitVec.toNat_ofNat]; omega

theorem ofNat_eq64 (a b : Nat) (ha : a < 2 ^ 64) (hb : b < 2 ^ 64) :
    (BitVec.ofNat 64 a = BitVec.ofNat 64 b) = (a = b) := propext (ofNat_inj64 ha hb)

theorem add32_ofNat (a k : Nat) :
    BitVec.setWidth 64 (BitVec.setWidth 32 (BitVec.ofNat 64 a) + BitVec.ofNat 32 k) =
      BitVec.ofNat 64 ((a + k) % 4294967296) := by
  apply BitVec.eq_of_toNat_eq
  simp [BitVec.toNat_add]

theorem and32_ofNat (a k : Nat) :
    BitVec.setWidth 64 (BitVec.setWidth 32 (BitVec.ofNat 64 a) &&& BitVec.ofNat 32 k) =
      BitVec.ofNat 64 ((a % 4294967296) &&& (k % 4294967296)) := by
  apply BitVec.eq_of_toNat_eq
  have h1 : (a % 4294967296 &&& k % 4294967296) < 2 ^ 32 := Nat.and_lt_two_pow _ (by omega)
  simp

theorem and_one_eq_zero (x : Nat) : (BitVec.ofNat 64 x &&& 1#64 = 0#64) = (x % 2 = 0) := by
  apply propext
  rw [← BitVec.toNat_inj]
  simp only [BitVec.toNat_and, BitVec.toNat_ofNat]
  show x % 2 ^ 64 &&& 1 = 0 ↔ x % 2 = 0
  rw [Nat.and_one_is_mod]
  omega

end Ebv.XdpRun

namespace Ebv.XdpRun
open Lean Meta Simp

/-- evaluate `fetch prog pc` for a concrete program and pc (definitional unfolding, recorded as a local `rfl` step) -/
simproc reduceFetch (Ebv.Ebpf.fetch _ _) := fun e => do
  let r ← withDefault (whnf e)
  if r.isAppOf ``Option.some || r.isAppOf ``Option.none then
    return .done { expr := r, proof? := some (← mkExpectedTypeHint (← mkEqRefl e) (← mkEq e r)) }
  return .continue

/-- evaluate `pseudo prog pc` for a concrete program and pc -/
simproc reducePseudo (Ebv.XdpRun.pseudo _ _) := fun e => do
  let r ← withDefault (whnf e)
  if r.isAppOf ``Option.none then
    return .done { expr := r, proof? := some (← mkExpectedTypeHint (← mkEqRefl e) (← mkEq e r)) }
  if r.isAppOf ``Option.some then
    let r' ← withDefault (whnf r.appArg!)
    if r'.isAppOf ``Prod.mk then
      let a ← whnfCore (r'.getArg! 2)
      let b ← whnfCore (r'.getArg! 3)
      let r'' ← mkAppM ``Option.some #[← mkAppM ``Prod.mk #[a, b]]
      return .done { expr := r'', proof? := some (← mkExpectedTypeHint (← mkEqRefl e) (← mkEq e r'')) }
  return .continue

end Ebv.XdpRun

namespace Ebv.XdpRun
open Ebv.Ebpf

theorem byteSwap2 (x : Nat) : byteSwap 2 (x % 65536) = x % 256 * 256 + x / 256 % 256 := by
  simp [byteSwap, List.range, List.range.loop]
  omega

/-- symbolic execution of `runXdp` on a concrete program from a state `⟨R, M, pc⟩` with concrete `pc`; the extra
rewrite rules are the facts about the initial registers and memory; side conditions (disjointness of accesses,
bounds, branch conditions that are linear arithmetic) are discharged by `omega` from the local context -/
macro "xsim" "[" ls:Lean.Parser.Tactic.simpLemma,* "]" : tactic => `(tactic|
  simp (maxSteps := 4000000) (disch := omega) only [runXdp_succ, cont_none, cont_some, reducePseudo, reduceFetch,
    op_mov64r, op_mov64i, op_add64i, op_add64r, op_mul64i, op_and64i, op_add32i, op_and32i, op_be16,
    op_ldxw, op_ldxh, op_ldxb, op_stw, op_stxh, op_stxb, op_xaddw, op_call, op_exit, op_ja,
    op_jeq_r, op_jne_r, op_jne_i, op_jge_i, op_jle_r, op_jset_i, jmp_fwd,
    afterStep_next, afterStep_exit, afterStep_bad, afterStep_call, afterStep_ite, afterHelper_ret,
    afterHelper_tail, afterHelper_ite, helper, afterCall_mk, callR_apply, upd_apply,
    simm, imm32, BitVec.reduceOfInt, BitVec.reduceSignExtend, BitVec.reduceSetWidth, BitVec.reduceToNat,
    Nat.reduceAdd, Nat.reduceSub, Nat.reduceMul, Nat.reducePow, Nat.reduceEqDiff, Nat.reduceLeDiff,
    Nat.reduceLT, Nat.reduceGT, Nat.reduceMod, Nat.reduceDiv,
    Int.reduceAdd, Int.reduceLT, Int.reduceToNat, Int.reduceNeg, Int.reduceEq, Int.reduceNatCast, Int.reduceNegSucc,
    ofNat_add_lo, ofNat_add_hi, ofNat_mul64, toNat_ofNat64, toNat_ofNat64_mod16, ofNat_eq64, add32_ofNat,
    and32_ofNat, and_one_eq_zero, byteSwap2, loadN_storeN_same,
    if_true, if_false, ite_true, ite_false, if_pos, if_neg, Nat.add_zero, reduceIte, Nat.zero_le, $ls,*])

end Ebv.XdpRun
