import Ebv.Lemmas.XdpMem
/-! `MemRel` (Model/XdpRun) is established by `Layout` and preserved by the four kinds of stores the dispatcher
makes: into the stack, into the packet, onto a counter, onto the drop counter. -/
namespace Ebv.XdpRun
open Ebv.Ebpf Ebv.Bytes

/-- the counters and the drop counter lie inside the map value and do not overlap -/
structure GeoOk (g : Geo) : Prop where
  cnt : g.offCounters + 4 * g.nProgs ≤ g.varSize
  drp : g.offDrop + 4 ≤ g.varSize
  dis : disjointIv g.offCounters (4 * g.nProgs) g.offDrop 4

theorem encLE_getElem? (n : Nat) : ∀ (v i : Nat), i < n → (encLE n v)[i]? = some (UInt8.ofNat (v / 256 ^ i % 256)) := by
  induction n with
  | zero => intro v i h; omega
  | succ n ih =>
    intro v i h
    cases i with
    | zero => simp [encLE]
    | succ i =>
      simp only [encLE, List.getElem?_cons_succ]
      rw [ih (v / 256) i (by omega), Nat.pow_succ, Nat.div_div_eq_div_mul, Nat.mul_comm]

theorem byte_ofNat (x : Nat) : byte (UInt8.ofNat x) = BitVec.ofNat 8 x := by
  apply BitVec.eq_of_toNat_eq
  simp [byte]

theorem MemRel.init {g a e s p cs dc reg} (h : Layout g a e s p cs dc reg) :
    MemRel g a s.mem s.mem p cs dc p.length :=
  ⟨rfl, h.cs_len, h.pkt, h.counters, h.drop, fun _ _ _ _ _ => rfl⟩

section
variable {g : Geo} {a : Addrs} {M0 M : W → BitVec 8} {p : List UInt8} {cs : List Nat} {dc len : Nat}

theorem MemRel.store_stack (hr : Regions g a len) (hg : GeoOk g) (h : MemRel g a M0 M p cs dc len)
    (x n v : Nat) (h1 : a.stk - 512 ≤ x) (h2 : x + n ≤ a.stk) :
    MemRel g a M0 (storeN M (addr x) n v) p cs dc len := by
  obtain ⟨hplen, hclen, hpkt, hcnt, hdrop, hframe⟩ := h
  obtain ⟨s1, s2, c1, p1, m0, m1, d1, d2, d3, d4, d5, d6⟩ := hr
  obtain ⟨g1, g2, g3⟩ := hg
  simp only [disjointIv, addr] at *
  refine ⟨hplen, hclen, ?_, ?_, ?_, ?_⟩ <;> simp only [addr]
  · intro i hi
    rw [storeN_at n M x v (a.dat + i) (by omega) (by omega)]
    have : ¬ (x ≤ a.dat + i ∧ a.dat + i < x + n) := by omega
    simp only [this, if_false]; exact hpkt i hi
  · intro k hk
    rw [loadN_storeN_disj M x n v _ 4 (by omega) (by omega) (by omega)]; exact hcnt k hk
  · rw [loadN_storeN_disj M x n v _ 4 (by omega) (by omega) (by omega)]; exact hdrop
  · intro y hy n1 n2 n3
    rw [storeN_at n M x v y (by omega) (by omega)]
    have : ¬ (x ≤ y ∧ y < x + n) := by omega
    simp only [this, if_false]; exact hframe y hy n1 n2 n3

theorem MemRel.store_pkt (hr : Regions g a len) (hg : GeoOk g) (h : MemRel g a M0 M p cs dc len)
    (k n v : Nat) (hk : k + n ≤ len) :
    MemRel g a M0 (storeN M (addr (a.dat + k)) n v) (setRange p k (encLE n v)) cs dc len := by
  obtain ⟨hplen, hclen, hpkt, hcnt, hdrop, hframe⟩ := h
  obtain ⟨s1, s2, c1, p1, m0, m1, d1, d2, d3, d4, d5, d6⟩ := hr
  obtain ⟨g1, g2, g3⟩ := hg
  simp only [disjointIv, addr] at *
  have hlen : (setRange p k (encLE n v)).length = p.length := length_setRange _ _ _ (by simp; omega)
  refine ⟨by rw [hlen]; exact hplen, hclen, ?_, ?_, ?_, ?_⟩ <;> simp only [addr]
  · intro i hi
    rw [hlen] at hi
    rw [storeN_at n M (a.dat + k) v (a.dat + i) (by omega) (by omega)]
    by_cases hin : k ≤ i ∧ i < k + n
    · have h1 : a.dat + k ≤ a.dat + i ∧ a.dat + i < a.dat + k + n := by omega
      simp only [h1, and_self, if_true]
      have h2 := getElem?_setRange_inside p k (encLE n v) (i - k) (by simp; omega) (by simp; omega)
      rw [show k + (i - k) = i by omega, encLE_getElem? n v (i - k) (by omega)] at h2
      rw [(List.getElem_eq_iff _).mpr h2, byte_ofNat, show a.dat + i - (a.dat + k) = i - k by omega]
      apply BitVec.eq_of_toNat_eq; simp
    · have h1 : ¬ (a.dat + k ≤ a.dat + i ∧ a.dat + i < a.dat + k + n) := by omega
      simp only [h1, if_false]
      have h2 := getElem?_setRange_outside p k (encLE n v) i (by simp; omega) (by simp; omega)
      rw [List.getElem?_eq_getElem (l := p) (by omega)] at h2
      rw [(List.getElem_eq_iff _).mpr h2]; exact hpkt i hi
  · intro j hj
    rw [loadN_storeN_disj M _ n v _ 4 (by omega) (by omega) (by omega)]; exact hcnt j hj
  · rw [loadN_storeN_disj M _ n v _ 4 (by omega) (by omega) (by omega)]; exact hdrop
  · intro y hy n1 n2 n3
    rw [storeN_at n M _ v y (by omega) (by omega)]
    have : ¬ (a.dat + k ≤ y ∧ y < a.dat + k + n) := by omega
    simp only [this, if_false]; exact hframe y hy n1 n2 n3

theorem MemRel.store_counter (hr : Regions g a len) (hg : GeoOk g) (h : MemRel g a M0 M p cs dc len)
    (k v : Nat) (hk : k < g.nProgs) :
    MemRel g a M0 (storeN M (addr (a.mp + g.offCounters + 4 * k)) 4 v) p (cs.set k (v % 4294967296)) dc len := by
  obtain ⟨hplen, hclen, hpkt, hcnt, hdrop, hframe⟩ := h
  obtain ⟨s1, s2, c1, p1, m0, m1, d1, d2, d3, d4, d5, d6⟩ := hr
  obtain ⟨g1, g2, g3⟩ := hg
  simp only [disjointIv, addr] at *
  refine ⟨hplen, by simpa using hclen, ?_, ?_, ?_, ?_⟩ <;> simp only [addr]
  · intro i hi
    rw [storeN_at 4 M _ v (a.dat + i) (by omega) (by omega)]
    have : ¬ (a.mp + g.offCounters + 4 * k ≤ a.dat + i ∧ a.dat + i < a.mp + g.offCounters + 4 * k + 4) := by omega
    simp only [this, if_false]; exact hpkt i hi
  · intro j hj
    simp only [List.length_set] at hj
    by_cases hjk : j = k
    · subst hjk
      rw [loadN_storeN_same M _ 4 v 4 (by omega) (by omega)]
      simp
    · rw [loadN_storeN_disj M _ 4 v _ 4 (by omega) (by omega) (by omega)]
      rw [List.getElem_set_ne (by omega)]; exact hcnt j hj
  · rw [loadN_storeN_disj M _ 4 v _ 4 (by omega) (by omega) (by omega)]; exact hdrop
  · intro y hy n1 n2 n3
    rw [storeN_at 4 M _ v y (by omega) (by omega)]
    have : ¬ (a.mp + g.offCounters + 4 * k ≤ y ∧ y < a.mp + g.offCounters + 4 * k + 4) := by omega
    simp only [this, if_false]; exact hframe y hy n1 n2 n3

theorem MemRel.store_drop (hr : Regions g a len) (hg : GeoOk g) (h : MemRel g a M0 M p cs dc len) (v : Nat) :
    MemRel g a M0 (storeN M (addr (a.mp + g.offDrop)) 4 v) p cs (v % 4294967296) len := by
  obtain ⟨hplen, hclen, hpkt, hcnt, hdrop, hframe⟩ := h
  obtain ⟨s1, s2, c1, p1, m0, m1, d1, d2, d3, d4, d5, d6⟩ := hr
  obtain ⟨g1, g2, g3⟩ := hg
  simp only [disjointIv, addr] at *
  refine ⟨hplen, hclen, ?_, ?_, ?_, ?_⟩ <;> simp only [addr]
  · intro i hi
    rw [storeN_at 4 M _ v (a.dat + i) (by omega) (by omega)]
    have : ¬ (a.mp + g.offDrop ≤ a.dat + i ∧ a.dat + i < a.mp + g.offDrop + 4) := by omega
    simp only [this, if_false]; exact hpkt i hi
  · intro j hj
    rw [loadN_storeN_disj M _ 4 v _ 4 (by omega) (by omega) (by omega)]; exact hcnt j hj
  · rw [loadN_storeN_same M _ 4 v 4 (by omega) (by omega)]
  · intro y hy n1 n2 n3
    rw [storeN_at 4 M _ v y (by omega) (by omega)]
    have : ¬ (a.mp + g.offDrop ≤ y ∧ y < a.mp + g.offDrop + 4) := by omega
    simp only [this, if_false]; exact hframe y hy n1 n2 n3

end
end Ebv.XdpRun

namespace Ebv.XdpRun
open Ebv.Ebpf Ebv.Bytes

theorem MemRel.load_pkt {g : Geo} {a : Addrs} {M0 M : W → BitVec 8} {p : List UInt8} {cs : List Nat} {dc len : Nat}
    (h : MemRel g a M0 M p cs dc len) (k n : Nat) (hk : k + n ≤ len) :
    loadN M (BitVec.ofNat 64 (a.dat + k)) n = decLE (slice p k (k + n)) := by
  have hl : (slice p k (k + n)).length = n := by rw [length_slice _ _ _ (by rw [h.plen]; exact hk)]; omega
  have := loadN_bytes (slice p k (k + n)) M (a.dat + k) (by
    intro i hi
    rw [hl] at hi
    have hp := h.pkt (k + i) (by rw [h.plen]; omega)
    simp only [addr, ← Nat.add_assoc] at hp
    rw [hp]
    simp [slice])
  rwa [hl] at this

/-- one byte of a packet as `getU8` -/
theorem decLE_slice1 (p : List UInt8) (k : Nat) (h : k < p.length) : decLE (slice p k (k + 1)) = Dispatch.getU8 p k := by
  have : slice p k (k + 1) = [p[k]] := by
    apply List.ext_getElem
    · simp [slice]; omega
    · intro i h1 h2
      simp [slice] at h1 ⊢
      have : i = 0 := by omega
      subst this; simp
  rw [this]
  simp [decLE, Dispatch.getU8, List.getD, h]

end Ebv.XdpRun

namespace Ebv.XdpRun
open Ebv.Ebpf Ebv.Bytes
section
variable {g : Geo} {a : Addrs} {M0 M : W → BitVec 8} {p : List UInt8} {cs : List Nat} {dc len : Nat}

/-- the context is outside everything that is ever written -/
theorem MemRel.load_ctx (hr : Regions g a len) (h : MemRel g a M0 M p cs dc len) (k n : Nat) (hk : k + n ≤ 8) :
    loadN M (BitVec.ofNat 64 (a.ctx + k)) n = loadN M0 (BitVec.ofNat 64 (a.ctx + k)) n := by
  obtain ⟨s1, s2, c1, p1, m0, m1, d1, d2, d3, d4, d5, d6⟩ := hr
  simp only [disjointIv] at *
  apply loadN_congr
  intro i hi
  have := h.frame (a.ctx + k + i) (by omega) (by omega) (by omega) (by omega)
  simpa [addr] using this

theorem MemRel.load_cnt4 (h : MemRel g a M0 M p cs dc len) (k : Nat) (hk : k < g.nProgs) :
    loadN M (BitVec.ofNat 64 (a.mp + g.offCounters + 4 * k)) 4 = cs.getD k 0 := by
  have := h.counters k (by rw [h.clen]; exact hk)
  simp only [addr] at this
  rw [this]; simp [List.getD, h.clen, hk]

theorem MemRel.load_cnt1 (h : MemRel g a M0 M p cs dc len) (k : Nat) (hk : k < g.nProgs) :
    loadN M (BitVec.ofNat 64 (a.mp + g.offCounters + 4 * k)) 1 = cs.getD k 0 % 256 := by
  rw [loadN_mod M 1 4 _ (by omega), h.load_cnt4 k hk]

end
end Ebv.XdpRun
