import Ebv.Lemmas.XdpOps3
/-! Rewrite rules for the opcodes the compiled `+=` / `-=` statements (C06TV) use beyond the earlier families: 64- and
32-bit negation, 32-bit multiplication by an immediate; and the one-instruction rule for the atomic add at a known
position of a program. -/
namespace Ebv.XdpRun
open Ebv.Ebpf

local macro "op_tac" : tactic =>
  `(tactic| (simp [stepO, stepI, alu, Ebpf.cond, Ebpf.sizeOf, State.setReg, jmp] <;> rfl))

variable (prog : List Insn) (R : Nat → W) (M : W → BitVec 8) (pc d n : Nat) (o v : Int)

theorem op_neg64 : stepO prog ⟨R, M, pc⟩ (some ⟨135, d, n, o, v⟩) = .next ⟨upd R d (-(R d)), M, pc + 1⟩ := by op_tac
theorem op_neg32 : stepO prog ⟨R, M, pc⟩ (some ⟨132, d, n, o, v⟩) =
    .next ⟨upd R d (BitVec.setWidth 64 (-(BitVec.setWidth 32 (R d)))), M, pc + 1⟩ := by op_tac
theorem op_mul32i : stepO prog ⟨R, M, pc⟩ (some ⟨36, d, n, o, v⟩) =
    .next ⟨upd R d (BitVec.setWidth 64 (BitVec.setWidth 32 (R d) * BitVec.setWidth 32 (simm v))), M, pc + 1⟩ := by op_tac

/-- the opcode of the atomic add of `n` bytes (`STX | XADD | W` / `DW`) -/
def xaddOp (n : Nat) : Nat := if n = 4 then 195 else 219

/-- one atomic add at a known position: the `n` bytes at `R d + o` become old value + `R sr` -/
theorem xadd_step (e : Env) (n : Nat) (hn : n = 4 ∨ n = 8) (sr : Nat) (f : Nat)
    (hf : fetch prog pc = some ⟨xaddOp n, d, sr, o, 0⟩) :
    runXdp e prog (f + 1) ⟨R, M, pc⟩ =
      runXdp e prog f ⟨R, storeN M (R d + BitVec.ofInt 64 o) n (loadN M (R d + BitVec.ofInt 64 o) n + (R sr).toNat), pc + 1⟩ := by
  have hp : pseudo prog pc = none := by
    unfold pseudo
    rw [hf]
    exact pseudoOf_other _ _ (by rcases hn with rfl | rfl <;> simp [xaddOp])
  rw [runXdp_succ]
  simp only [hp, cont_none, hf]
  rcases hn with rfl | rfl
  · simp only [xaddOp, if_true, op_xaddw, afterStep_next]
  · simp only [xaddOp, Nat.reduceEqDiff, if_false, op_xadddw, afterStep_next]

end Ebv.XdpRun
