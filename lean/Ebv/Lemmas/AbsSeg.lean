import Ebv.Lemmas.Calc
import Ebv.Lemmas.CondJump
/-! `abs` — the two instructions `Absolute.calculate_unary` emits (forward sign test over a negation, both at the
width of the computation) as a closed segment, and `abs` at the top of an expression of C01's fragment.  `abs` is
outside `Expr.frag` (its code contains a jump, `calc_correct` speaks about non-jump code); this file proves what
the repaired class *abs-32* is about: the 32-bit case tests and negates the 32-bit value. -/
namespace Ebv.Gen
open Ebv.Ebpf

/-- what `abs` leaves in its register: at 64 bits the absolute value of the signed 64-bit content; at 32 bits the
register is left alone when its low half is non-negative as a signed 32-bit number, else it gets the zero-extended
32-bit negation of the low half -/
def absSem (long : Bool) (x : W) : W :=
  if long then (if 0 ≤ x.toInt then x else -x)
  else (if 0 ≤ (x.truncate 32).toInt then x else (-(x.truncate 32) : BitVec 32).zeroExtend 64)

/-- the code of `Absolute.calculate_unary` -/
def absCode (d : Nat) (long : Bool) : List Insn :=
  [⟨absTest long, d, 0, 1, 0⟩, ⟨Consts.op_NEG + longBit long, d, 0, 0, 0⟩]

theorem absTest_cond (d : Nat) (long : Bool) (σ : State) :
    isCondJump ⟨absTest long, d, 0, 1, 0⟩ = true ∧
    jmpCond ⟨absTest long, d, 0, 1, 0⟩ σ =
      some (if long then decide (0 ≤ (σ.regs d).toInt) else decide (0 ≤ ((σ.regs d).truncate 32).toInt)) := by
  have z64 : (simm 0).toInt = 0 := by decide
  have z32 : ((simm 0).truncate 32).toInt = 0 := by decide
  cases long
  · refine ⟨by simp [isCondJump, absTest, Consts.op_JSGE, Consts.op_SHORT], ?_⟩
    simp only [jmpCond, absTest, Consts.op_JSGE, Consts.op_SHORT]
    simp [Ebpf.cond, z32]
  · refine ⟨by simp [isCondJump, absTest, Consts.op_JSGE], ?_⟩
    simp only [jmpCond, absTest, Consts.op_JSGE]
    simp [Ebpf.cond, z64]

/-- **the `abs` segment**: from every machine state the two instructions run to the position behind them, the
register holds `absSem` of its old content, nothing else changes -/
theorem abs_segment (d : Nat) (long : Bool) (σ : State) :
    ∃ σ', SegRun (absCode d long) σ σ' ∧ σ'.regs d = absSem long (σ.regs d) ∧
      (∀ n, n ≠ d → σ'.regs n = σ.regs n) ∧ σ'.mem = σ.mem := by
  obtain ⟨hj, hc⟩ := absTest_cond d long σ
  generalize hcv : (if long then decide (0 ≤ (σ.regs d).toInt) else decide (0 ≤ ((σ.regs d).truncate 32).toInt)) = c at hc
  have h1 : JumpRun [⟨absTest long, d, 0, 1, 0⟩] ([(⟨absTest long, d, 0, 1, 0⟩ : Insn)].length +
      [(⟨Consts.op_NEG + longBit long, d, 0, 0, 0⟩ : Insn)].length) σ σ c :=
    jumpRun_cond _ 2 σ c hj hc (by omega) (by simp)
  have hneg : SegRun [⟨Consts.op_NEG + longBit long, d, 0, 0, 0⟩] σ (σ.setReg d (negSem long (σ.regs d))).norm :=
    segRun_of_exec (by intro i hi; simp at hi; subst hi; cases long <;> straight_tac) (exec_neg σ long d)
  cases c with
  | true =>
    refine ⟨σ, JumpRun.join h1 (fun h => by cases h) (fun _ => rfl), ?_, fun _ _ => rfl, rfl⟩
    cases long <;> simp_all [absSem]
  | false =>
    refine ⟨(σ.setReg d (negSem long (σ.regs d))).norm, JumpRun.join h1 (fun _ => hneg) (fun h => by cases h), ?_, ?_, by simp⟩
    · cases long <;> simp_all [absSem, negSem] <;> (intro h0; omega)
    · intro n hn; simp [State.setReg_other _ _ _ _ hn]

theorem absSem_agree (b : Bool) {x A : W} (h : Agree b x A) : Agree b (absSem b x) (absSem b A) := by
  cases b
  · simp only [Agree, Bool.false_eq_true, if_false] at h ⊢
    simp only [absSem, Bool.false_eq_true, if_false, h]
    split
    · exact h
    · rfl
  · simp only [Agree, if_true] at h
    rw [h]; exact Agree.refl _ _

/-- **`abs` at the top of an expression of the fragment**: if `calculate (abs a)` succeeds at width `b` and the operand
reports that width or less (`b || retLong b a = b`: not a 64-bit operand inside a 32-bit computation), the emitted code
is `calculate`'s code for `a` followed by the `abs` segment; from every machine state it runs to its end, the result
register agrees at width `b` with `absSem b` of the operand's value, every other owned register and the memory are
unchanged. -/
theorem abs_top_correct (a : Expr) (dst : Option Nat) (b force : Bool) (g g' : GenState) (res : CalcRes)
    (hp : Pre (.neg a) dst b force g) (hw : (b || retLong b a) = b)
    (h : calculate (.abs a) dst (some b) force g = .ok (res, g')) :
    ∃ c, g'.code = g.code ++ c ∧ ∀ σ : State, ∃ σ', SegRun c σ σ' ∧
      Agree b (σ'.regs res.reg) (absSem b (evalBV σ b a)) ∧
      (∀ n ∈ g.owners, dst ≠ some n → σ'.regs n = σ.regs n) ∧ σ'.mem = σ.mem := by
  simp only [calculate] at h
  rw [bind_ok] at h
  obtain ⟨⟨d, rel⟩, g1, hfree, h⟩ := h
  simp only [] at h
  rw [bind_ok] at h
  obtain ⟨ra, g2, hcalc, h⟩ := h
  rw [bind_ok] at h
  obtain ⟨u, g3, htail, h⟩ := h
  rw [pure_ok] at h
  obtain ⟨_, ht⟩ := absTail_ok htail
  cases h; cases ht
  obtain ⟨hc1, hs1, ho1, hcase⟩ := getFree_ok hfree
  have hplace : dst = some d ∨ (dst = none ∧ d ∉ g.owners) := by
    rcases hcase with ⟨h1, _⟩ | ⟨h1, _, h3, _⟩
    · exact Or.inl h1
    · exact Or.inr ⟨h1, h3⟩
  have hsub : ∀ n, n ∈ g.owners → n ∈ g1.owners := fun n hn => by rw [ho1]; exact List.mem_append_right _ hn
  have hdown : d ∈ g1.owners := by
    rw [ho1]
    rcases hcase with ⟨h1, _⟩ | ⟨_, h2, _, _⟩
    · exact List.mem_append_right _ (hp.dstOwned d h1)
    · simp [h2]
  have hnar := hp.narrow
  simp only [narrowIn64] at hnar
  have hpa : Pre a (some d) b true g1 := by
    refine ⟨fun n hn => (by cases hn; exact hdown), fun _ => (by simp), leavesOwned_mono hsub hp.leaves, hp.frag, ?_⟩
    rcases hplace with h1 | ⟨h1, h2⟩
    · subst h1; simpa [dctx, DstCtx.forced] using hnar
    · subst h1
      rw [dctx, narrow_temp_reg h2 a b true hp.leaves]
      simpa [dctx, DstCtx.forced] using hnar
  have post := calc_correct a (some d) b true g1 g2 ra hpa hcalc
  obtain ⟨c, hc, hst, hrun⟩ := post.run
  have hreg : ra.reg = d := by
    rcases post.place (Or.inl rfl) with h1 | ⟨h1, _⟩
    · cases h1; rfl
    · cases h1
  have hlg : unaryLong (some b) ra.long = b := by
    rw [post.long]
    have : unaryLong (some b) (retLong b a) = (b || retLong b a) := by cases b <;> rfl
    rw [this, hw]
  rw [hlg]
  refine ⟨c ++ absCode ra.reg b, by simp [hc, hc1, absCode], ?_⟩
  intro σ
  obtain ⟨σ1, he, hv, hfr, hm⟩ := hrun σ
  obtain ⟨σ2, hseg, hval, hoth, hm2⟩ := abs_segment ra.reg b σ1
  refine ⟨σ2, SegRun.append (segRun_of_exec hst he) hseg, ?_, ?_, by rw [hm2, hm]⟩
  · rw [hval]; exact absSem_agree b hv
  · intro n hn hnd
    have hne : n ≠ d := by
      intro e; subst e
      rcases hplace with h1 | ⟨_, h2⟩
      · exact hnd h1
      · exact h2 hn
    rw [hoth n (by rw [hreg]; exact hne)]
    exact hfr n (hsub n hn) (by intro e; cases e; exact hne rfl)

end Ebv.Gen
