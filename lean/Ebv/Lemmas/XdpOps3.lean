import Ebv.Lemmas.XdpOps2
/-! Rewrite rules for the opcodes the packet-variable programs (C07TV) use beyond those of the dispatcher and the
fast groups: 64-bit loads/stores, word stores from a register, the endianness instructions of every width, the 64-bit
atomic add, and `LD_IMM64` of a plain constant (two slots). -/
namespace Ebv.XdpRun
open Ebv.Ebpf

local macro "op_tac" : tactic =>
  `(tactic| (simp [stepO, stepI, alu, Ebpf.cond, Ebpf.sizeOf, State.setReg, jmp] <;> rfl))

variable (prog : List Insn) (R : Nat → W) (M : W → BitVec 8) (pc d n : Nat) (o v : Int)

theorem op_ldxdw : stepO prog ⟨R, M, pc⟩ (some ⟨121, d, n, o, v⟩) =
    .next ⟨upd R d (BitVec.ofNat 64 (loadN M (R n + BitVec.ofInt 64 o) 8)), M, pc + 1⟩ := by op_tac
theorem op_stxw : stepO prog ⟨R, M, pc⟩ (some ⟨99, d, n, o, v⟩) =
    .next ⟨R, storeN M (R d + BitVec.ofInt 64 o) 4 (R n).toNat, pc + 1⟩ := by op_tac
theorem op_stxdw : stepO prog ⟨R, M, pc⟩ (some ⟨123, d, n, o, v⟩) =
    .next ⟨R, storeN M (R d + BitVec.ofInt 64 o) 8 (R n).toNat, pc + 1⟩ := by op_tac
theorem op_stdw : stepO prog ⟨R, M, pc⟩ (some ⟨122, d, n, o, v⟩) =
    .next ⟨R, storeN M (R d + BitVec.ofInt 64 o) 8 (simm v).toNat, pc + 1⟩ := by op_tac
theorem op_xadddw : stepO prog ⟨R, M, pc⟩ (some ⟨219, d, n, o, 0⟩) =
    .next ⟨R, storeN M (R d + BitVec.ofInt 64 o) 8 (loadN M (R d + BitVec.ofInt 64 o) 8 + (R n).toNat), pc + 1⟩ := by
  op_tac

/-- `LE16/32/64`: on a little-endian host the value is truncated to the width -/
theorem op_le16 : stepO prog ⟨R, M, pc⟩ (some ⟨212, d, n, o, 16⟩) =
    .next ⟨upd R d (BitVec.ofNat 64 ((R d).toNat % 65536)), M, pc + 1⟩ := by op_tac
theorem op_le32 : stepO prog ⟨R, M, pc⟩ (some ⟨212, d, n, o, 32⟩) =
    .next ⟨upd R d (BitVec.ofNat 64 ((R d).toNat % 4294967296)), M, pc + 1⟩ := by op_tac
theorem op_le64 : stepO prog ⟨R, M, pc⟩ (some ⟨212, d, n, o, 64⟩) =
    .next ⟨upd R d (BitVec.ofNat 64 ((R d).toNat % 18446744073709551616)), M, pc + 1⟩ := by op_tac
/-- `BE32/64`: byte swap of the truncated value -/
theorem op_be32 : stepO prog ⟨R, M, pc⟩ (some ⟨220, d, n, o, 32⟩) =
    .next ⟨upd R d (BitVec.ofNat 64 (byteSwap 4 ((R d).toNat % 4294967296))), M, pc + 1⟩ := by op_tac
theorem op_be64 : stepO prog ⟨R, M, pc⟩ (some ⟨220, d, n, o, 64⟩) =
    .next ⟨upd R d (BitVec.ofNat 64 (byteSwap 8 ((R d).toNat % 18446744073709551616))), M, pc + 1⟩ := by op_tac

/-- second slot of `LD_IMM64 dst, imm` with a plain constant -/
def lddw2 (R : Nat → W) (M : W → BitVec 8) (pc d : Nat) (v : Int) : Option Insn → Res
  | some j =>
    if j.op = 0 ∧ j.dst = 0 ∧ j.src = 0 ∧ j.off = 0 then
      .next ⟨upd R d ((imm32 v).zeroExtend 64 ||| ((imm32 j.imm).zeroExtend 64 <<< 32)), M, pc + 2⟩
    else .bad
  | none => .bad

theorem op_lddw : stepO prog ⟨R, M, pc⟩ (some ⟨24, d, 0, o, v⟩) = lddw2 R M pc d v (fetch prog (pc + 1)) := by
  cases h : fetch prog (pc + 1) with
  | none => simp [stepO, stepI, lddw2, h]
  | some j =>
    simp only [stepO, stepI, lddw2, h]
    by_cases hj : j.op = 0 ∧ j.dst = 0 ∧ j.src = 0 ∧ j.off = 0
    · simp [hj, State.setReg]; rfl
    · simp [hj]

theorem lddw2_some (v2 : Int) : lddw2 R M pc d v (some ⟨0, 0, 0, 0, v2⟩) =
    .next ⟨upd R d (BitVec.ofNat 64 ((imm32 v).toNat + 4294967296 * (imm32 v2).toNat)), M, pc + 2⟩ := by
  simp only [lddw2, and_self, if_true]
  congr 3
  apply BitVec.eq_of_toNat_eq
  have h1 := (imm32 v).isLt
  have h2 := (imm32 v2).isLt
  simp only [BitVec.toNat_or, BitVec.toNat_setWidth, BitVec.toNat_shiftLeft, BitVec.toNat_ofNat]
  rw [Nat.mod_eq_of_lt (by omega : (imm32 v).toNat < 2 ^ 64), Nat.mod_eq_of_lt (by omega : (imm32 v2).toNat < 2 ^ 64),
    Nat.shiftLeft_eq, Nat.mod_eq_of_lt (by omega : (imm32 v2).toNat * 2 ^ 32 < 2 ^ 64)]
  rw [← Nat.shiftLeft_eq, Nat.or_comm, ← Nat.shiftLeft_add_eq_or_of_lt h1]
  simp only [Nat.shiftLeft_eq]
  omega

end Ebv.XdpRun
