import Ebv.Model.SdoSystem
/-! Lemmas for C16 that do not depend on the shape of the transfers: the byte codec of the SDO and mailbox headers,
`mbx_send`/`mbx_recv` on the states that occur, the server on the master's first requests, what every mail of the
server and every message of `mbx_send` looks like, and the iteration that defines the composed system. -/
namespace Ebv.C16
open Ebv.Bytes Ebv.Sdo Ebv.SdoServer Ebv.SdoSystem Ebv.Consts

/-! ### hypotheses of the theorems -/

/-- the domain of the model: both mailboxes can hold an SDO header, sizes are 16-bit registers,
index and subindex fit their fields, the mailbox counter is one `MailboxLock` can hold -/
def Wf (p : Params) : Prop :=
  16 ≤ p.outSz ∧ 16 ≤ p.inSz ∧ p.inSz < 65536 ∧ p.index < 65536 ∧ subOr1 p < 256 ∧ p.outSz < 65536

/-- mail of another mailbox protocol, as the master will read it -/
def unrelated (inSz : Nat) (m : List UInt8) : Bool :=
  match decodeMail (padTo inSz m) with
  | .ok (t, _) => t != mbx_COE
  | .err _ => false

/-- unrelated mail only, and register 0x805 shows "full" only while such mail is pending -/
def SchedOk (inSz : Nat) (sched : List Slot) : Prop :=
  ∀ sl ∈ sched, (∀ m ∈ sl.pre, unrelated inSz m = true) ∧ (sl.full = true → sl.pre ≠ [])

/-- responses may be late, but nothing else is in the mailbox -/
def DelaysOnly (sched : List Slot) : Prop := ∀ sl ∈ sched, sl.pre = [] ∧ sl.full = false

/-- the object the call is about exists and holds `v` -/
def Holds (p : Params) (objs : List Obj) (o : Obj) : Prop :=
  find objs p.index (subOr1 p) p.sub.isNone = some o

/-! ### the monad -/

theorem bind_ok {α β : Type} {x : M α} {f : α → M β} {s s' : St} {a : α} (h : x s = (s', .ok a)) :
    (x >>= f) s = f a s' := by
  show M.bind x f s = _
  unfold M.bind; rw [h]

theorem bind_err {α β : Type} {x : M α} {f : α → M β} {s s' : St} {e : Err} (h : x s = (s', .err e)) :
    (x >>= f) s = (s', .err e) := by
  show M.bind x f s = _
  unfold M.bind; rw [h]

/-! ### bytes -/

theorem typ_nibble (t c : Nat) (ht : t < 16) : ((t ||| c <<< 4) % 256) &&& 15 = t := by
  have h1 : t ||| c <<< 4 = c <<< 4 + t := by
    rw [Nat.or_comm]; exact (Nat.shiftLeft_add_eq_or_of_lt (by omega) c).symm
  have h2 : (15 : Nat) = 2 ^ 4 - 1 := by decide
  rw [h1, h2, Nat.and_two_pow_sub_one_eq_mod, Nat.shiftLeft_eq]
  omega

theorem sdoHdr_length (a b c d : Nat) : (sdoHdr a b c d).length = 6 := by simp [sdoHdr]

theorem u16_sdoHdr0 (coe cmd idx sub : Nat) (rest : List UInt8) (h : coe < 65536) :
    u16 (sdoHdr coe cmd idx sub ++ rest) 0 = coe := by
  simp [u16, slice, sdoHdr, encLE, decLE]; omega
theorem byte_sdoHdr2 (coe cmd idx sub : Nat) (rest : List UInt8) (h : cmd < 256) :
    byte (sdoHdr coe cmd idx sub ++ rest) 2 = cmd := by
  simp [byte, sdoHdr, encLE]; omega
theorem u16_sdoHdr3 (coe cmd idx sub : Nat) (rest : List UInt8) (h : idx < 65536) :
    u16 (sdoHdr coe cmd idx sub ++ rest) 3 = idx := by
  simp [u16, slice, sdoHdr, encLE, decLE]; omega
theorem byte_sdoHdr5 (coe cmd idx sub : Nat) (rest : List UInt8) (h : sub < 256) :
    byte (sdoHdr coe cmd idx sub ++ rest) 5 = sub := by
  simp [byte, sdoHdr, encLE]; omega
theorem drop6_sdoHdr (coe cmd idx sub : Nat) (rest : List UInt8) :
    (sdoHdr coe cmd idx sub ++ rest).drop 6 = rest := by
  simp [sdoHdr, encLE]

theorem rd16_eq_u16 (bs : List UInt8) (o : Nat) : rd16 bs o = u16 bs o := by simp [rd16, u16, slice]
theorem rd32_eq_u32 (bs : List UInt8) (o : Nat) : rd32 bs o = u32 bs o := by simp [rd32, u32, slice]
theorem rd8_eq_byte (bs : List UInt8) (o : Nat) : rd8 bs o = byte bs o := rfl

theorem sdoBody_eq (svc cmd i sub : Nat) (rest : List UInt8) :
    sdoBody svc cmd i sub rest = sdoHdr (svc <<< 12) cmd i sub ++ rest := by simp [sdoBody, sdoHdr]

theorem padTo_of_le (n : Nat) (bs : List UInt8) (h : bs.length ≤ n) : padTo n bs = bs ++ zeros (n - bs.length) := by
  simp only [padTo, zeros, List.take_append, List.take_replicate]
  rw [List.take_of_length_le h]
  congr 2
  omega

/-- the mail the server builds -/
def srvMail (typ cnt : Nat) (body : List UInt8) : List UInt8 :=
  encLE 2 body.length ++ encLE 2 0 ++ [0, UInt8.ofNat (typ ||| cnt <<< 4)] ++ body

@[simp] theorem srvMail_length (typ cnt : Nat) (body : List UInt8) : (srvMail typ cnt body).length = 6 + body.length := by
  simp [srvMail]; omega

theorem mail_eq (s : Srv) (typ : Nat) (body : List UInt8) :
    mail s typ body = ({ s with cnt := s.cnt % 7 + 1 }, [srvMail typ s.cnt body]) := rfl

theorem decodeMail_srvMail (n typ cnt : Nat) (body : List UInt8) (hn : 6 + body.length ≤ n)
    (hb : body.length < 65536) (ht : typ < 16) (hty : mbxTypes.contains typ = true) :
    decodeMail (padTo n (srvMail typ cnt body)) = .ok (typ, body) := by
  rw [padTo_of_le _ _ (by simp; omega)]
  have h0 : u16 (srvMail typ cnt body ++ zeros (n - (srvMail typ cnt body).length)) 0 = body.length := by
    simp [u16, slice, srvMail, encLE, decLE]; omega
  have h5 : byte (srvMail typ cnt body ++ zeros (n - (srvMail typ cnt body).length)) 5 &&& 15 = typ := by
    have : byte (srvMail typ cnt body ++ zeros (n - (srvMail typ cnt body).length)) 5 = (typ ||| cnt <<< 4) % 256 := by
      simp only [srvMail, encLE, List.cons_append, List.nil_append]
      exact UInt8.toNat_ofNat'
    rw [this]; exact typ_nibble typ cnt ht
  have hd : ((srvMail typ cnt body ++ zeros (n - (srvMail typ cnt body).length)).drop 6).take body.length = body := by
    simp [srvMail, encLE]
  simp only [decodeMail, h0, h5, hd, hty, if_true]

/-! ### mbx_send, mbx_recv on the states that occur -/

/-- the mailbox message for a payload: header (length, address 0, channel/priority 0, CoE | counter) + payload -/
def msgOf (cnt : Nat) (body : List UInt8) : List UInt8 := mbxHeader body.length mbx_COE cnt ++ body

@[simp] theorem msgOf_length (cnt : Nat) (body : List UInt8) : (msgOf cnt body).length = 6 + body.length := by
  simp [msgOf, mbxHeader]; omega

@[simp] theorem sent_append (a b : List Ev) : sent (a ++ b) = sent a ++ sent b := by
  induction a with
  | nil => rfl
  | cons e a ih => cases e <;> simp [sent, ih]

@[simp] theorem sent_polls (d : Nat) : sent (polls d) = [] := by
  induction d with
  | zero => rfl
  | succ d ih => simpa [polls, List.replicate_succ, sent] using ih

def skipEvs (k : Nat) : List Ev := (List.replicate k (polls 0)).flatten

@[simp] theorem sent_skipEvs (k : Nat) : sent (skipEvs k) = [] := by
  induction k with
  | zero => rfl
  | succ k ih => simpa [skipEvs, List.replicate_succ] using ih

theorem mbxSend_nofull (body : List UInt8) (s : St) (hb : body.length < 65536) (hf : s.fulls.headD false = false) :
    mbxSend body s = ({ s with cnt := s.cnt % mbxMod + 1, fulls := s.fulls.tail,
                               tr := s.tr ++ [.st0 false, .send (msgOf s.cnt body), .kick] }, .ok ()) := by
  obtain ⟨cnt, fulls, mails, tr⟩ := s
  have hb' : ¬ body.length ≥ 65536 := by omega
  cases fulls with
  | nil => simp [mbxSend, bind, M.bind, pollOut, nextCounter, emit, hb', msgOf]
  | cons f fs =>
    simp at hf; subst hf
    simp [mbxSend, bind, M.bind, pollOut, nextCounter, emit, hb', msgOf]

theorem mbxSend_full (body : List UInt8) (s : St) (hb : body.length < 65536) (fs : List Bool) (m : Mail) (ms : List Mail)
    (td : Nat × List UInt8) (hf : s.fulls = true :: fs) (hm : s.mails = m :: ms) (hd : decodeMail m.raw = .ok td) :
    mbxSend body s = ({ cnt := s.cnt % mbxMod + 1, fulls := fs, mails := ms,
                        tr := s.tr ++ [.st0 true] ++ polls m.delay ++ [.send (msgOf s.cnt body), .kick] }, .ok ()) := by
  obtain ⟨cnt, fulls, mails, tr⟩ := s
  simp at hf hm; subst hf hm
  have hb' : ¬ body.length ≥ 65536 := by omega
  simp [mbxSend, bind, M.bind, pollOut, nextCounter, emit, hb', msgOf, discardMail, mbxRecv, hd]

theorem recvCoeL_skip (inSz : Nat) (pre : List (List UInt8)) (tail : List Mail)
    (h : ∀ m ∈ pre, unrelated inSz m = true) :
    recvCoeL (pre.map (toMail inSz 0) ++ tail) =
      (skipEvs pre.length ++ (recvCoeL tail).1, (recvCoeL tail).2.1, (recvCoeL tail).2.2) := by
  induction pre with
  | nil => simp [skipEvs]
  | cons m pre ih =>
    have hm := h m (by simp)
    have ih := ih (fun x hx => h x (by simp [hx]))
    simp only [List.map_cons, List.cons_append, recvCoeL]
    unfold unrelated at hm
    simp only [toMail]
    cases hd : decodeMail (padTo inSz m) with
    | err e => simp [hd] at hm
    | ok td =>
      obtain ⟨t, d⟩ := td
      simp only [hd] at hm
      have : t ≠ mbx_COE := by simpa using hm
      simp only [this, if_false]
      rw [ih]
      simp [skipEvs, List.replicate_succ]

theorem iter_fix {α : Type} (f : α → α) (x : α) (h : f x = x) (n : Nat) : iter f n x = x := by
  induction n with
  | zero => rfl
  | succ n ih => simp [iter, h, ih]

theorem serveAll_one (s s1 : Srv) (req : List UInt8) (rs : List (List UInt8)) (h : step s req = (s1, rs)) :
    serveAll s [req] = (s1, [rs]) := by
  simp [serveAll, h]

/-! ### the server on the master's messages -/

theorem msgOf_parts (cnt : Nat) (body : List UInt8) (hb : body.length < 65536) :
    rd16 (msgOf cnt body) 0 = body.length ∧ rd8 (msgOf cnt body) 5 &&& 0xf = mbx_COE ∧
      ((msgOf cnt body).drop 6).take body.length = body := by
  refine ⟨?_, ?_, ?_⟩
  · simp [rd16, msgOf, mbxHeader, encLE, decLE]; omega
  · have : rd8 (msgOf cnt body) 5 = (mbx_COE ||| cnt <<< 4) % 256 := by
      simp only [msgOf, mbxHeader, encLE, List.cons_append, List.nil_append]
      exact UInt8.toNat_ofNat'
    rw [this]; exact typ_nibble mbx_COE cnt (by decide)
  · simp [msgOf, mbxHeader, encLE]

/-- a CoE SDO request of the master that fits the receive mailbox reaches the SDO service it names -/
theorem step_sdo (s : Srv) (cnt : Nat) (body : List UInt8) (h10 : 10 ≤ body.length) (hfit : 6 + body.length ≤ s.outSz)
    (hb : body.length < 65536) (hsvc : u16 body 0 >>> 12 = 2) :
    step s (msgOf cnt body) =
      match byte body 2 >>> 5 with
      | 1 => initDownload s (byte body 2) body
      | 0 => downloadSegment s (byte body 2) body.length body
      | 2 => initUpload s (byte body 2) body
      | 3 => uploadSegment s (byte body 2)
      | 4 => ({ s with xfer := .idle }, [])
      | _ => abort s 0 0 abCmd := by
  obtain ⟨h1, h2, h3⟩ := msgOf_parts cnt body hb
  have hl : ¬ (msgOf cnt body).length < 6 := by simp
  have hf : ¬ 6 + body.length > s.outSz := by omega
  have ht : ¬ mbx_COE ≠ mbxCoE := by decide
  have h2' : ¬ body.length < 2 := by omega
  have h10' : ¬ body.length < 10 := by omega
  have hs : ¬ rd16 body 0 >>> 12 ≠ svcSdoReq := by rw [rd16_eq_u16, hsvc]; decide
  unfold step
  have ht' : ¬ byte (msgOf cnt body) 5 &&& 15 ≠ mbxCoE := by rw [← rd8_eq_byte, h2]; exact ht
  simp only [hl, if_false, h1, h3, hf, h2', h10', Nat.sub_self, zeros, List.replicate_zero, List.append_nil, hs,
    rd8_eq_byte, ht']
  rfl

/-! ### upload: the request, the server's answer, what the master makes of it -/

/-- the command byte of the upload request -/
def upCmd (p : Params) : Nat := if p.sub.isNone then od_UP_REQ_CA else od_UP_REQ

theorem upReq_eq (p : Params) : upReq p = sdoHdr (coe_SDOREQ <<< 12) (upCmd p) p.index (subOr1 p) ++ zeros 4 := rfl

@[simp] theorem upReq_length (p : Params) : (upReq p).length = 10 := by simp [upReq, sdoHdr_length]

theorem upCmd_facts (p : Params) : upCmd p < 256 ∧ upCmd p >>> 5 = 2 ∧ (upCmd p &&& 0x10 != 0) = p.sub.isNone := by
  unfold upCmd
  cases p.sub <;> simp <;> decide

/-- what a conformant server answers to an initiate-upload request for an object it has -/
def uploadAnswer (s : Srv) (p : Params) (o : Obj) : Srv × List (List UInt8) :=
  if 1 ≤ o.val.length ∧ o.val.length ≤ 4 then
    respond { s with xfer := .idle } (0x43 ||| ((4 - o.val.length) <<< 2) ||| caBit p.sub.isNone) p.index (subOr1 p)
      (o.val ++ zeros (4 - o.val.length))
  else
    respond (if o.val.length > s.inSz - 16
        then { s with xfer := .up p.index (subOr1 p) p.sub.isNone (o.val.drop (s.inSz - 16)) 0 }
        else { s with xfer := .idle })
      (0x41 ||| caBit p.sub.isNone) p.index (subOr1 p) (encLE 4 o.val.length ++ o.val.take (s.inSz - 16))

theorem step_upload (s : Srv) (p : Params) (hwf : Wf p) (cnt : Nat) (o : Obj) (hsz : s.outSz = p.outSz)
    (hfind : find s.objs p.index (subOr1 p) p.sub.isNone = some o) :
    step s (msgOf cnt (upReq p)) = uploadAnswer s p o := by
  obtain ⟨ho, hi, hi2, hidx, hsub, ho2⟩ := hwf
  obtain ⟨c1, c2, c3⟩ := upCmd_facts p
  have hsvc : u16 (upReq p) 0 >>> 12 = 2 := by
    rw [upReq_eq, u16_sdoHdr0 _ _ _ _ _ (by decide)]; decide
  rw [step_sdo s cnt (upReq p) (by simp) (by simp; omega) (by simp) hsvc]
  have hcmd : byte (upReq p) 2 = upCmd p := by rw [upReq_eq, byte_sdoHdr2 _ _ _ _ _ c1]
  rw [hcmd, c2]
  simp only [initUpload, rd16_eq_u16, rd8_eq_byte, c3]
  rw [upReq_eq, u16_sdoHdr3 _ _ _ _ _ hidx, byte_sdoHdr5 _ _ _ _ _ hsub]
  simp only [hfind, uploadAnswer]

theorem upExpCmd_facts (n : Nat) (h1 : 1 ≤ n) (h4 : n ≤ 4) (ca : Bool) :
    (0x43 ||| ((4 - n) <<< 2) ||| caBit ca) < 256 ∧ (0x43 ||| ((4 - n) <<< 2) ||| caBit ca) &&& 2 ≠ 0 ∧
      10 - (((0x43 ||| ((4 - n) <<< 2) ||| caBit ca) >>> 2) &&& 3) = 6 + n := by
  have : n = 1 ∨ n = 2 ∨ n = 3 ∨ n = 4 := by omega
  rcases this with rfl | rfl | rfl | rfl <;> cases ca <;> decide

theorem coeRes_facts : svcSdoRes <<< 12 < 65536 ∧ (svcSdoRes <<< 12) >>> 12 = coe_SDORES := by decide

/-- an expedited upload response is unpacked to exactly the object's bytes -/
theorem readCont_expedited (p : Params) (hwf : Wf p) (v : List UInt8) (h1 : 1 ≤ v.length) (h4 : v.length ≤ 4)
    (ca : Bool) (s : St) :
    readCont p (sdoBody svcSdoRes (0x43 ||| ((4 - v.length) <<< 2) ||| caBit ca) p.index (subOr1 p)
      (v ++ zeros (4 - v.length))) s = (s, .ok v) := by
  obtain ⟨ho, hi, hi2, hidx, hsub, ho2⟩ := hwf
  obtain ⟨c1, c2, c3⟩ := upExpCmd_facts v.length h1 h4 ca
  obtain ⟨r1, r2⟩ := coeRes_facts
  rw [sdoBody_eq]
  have hlen : ¬ (sdoHdr (svcSdoRes <<< 12) (0x43 ||| ((4 - v.length) <<< 2) ||| caBit ca) p.index (subOr1 p) ++
      (v ++ zeros (4 - v.length))).length < 10 := by
    simp [sdoHdr_length]; omega
  unfold readCont
  simp only [hlen, if_false, u16_sdoHdr0 _ _ _ _ _ r1, byte_sdoHdr2 _ _ _ _ _ c1, u16_sdoHdr3 _ _ _ _ _ hidx, r2, c3]
  simp only [ne_eq, not_true_eq_false, if_false, c2, not_false_eq_true]
  simp [slice, drop6_sdoHdr, M.pure, pure]

theorem u32_sdoHdr6 (coe cmd idx sub n : Nat) (rest : List UInt8) (h : n < 256 ^ 4) :
    u32 (sdoHdr coe cmd idx sub ++ (encLE 4 n ++ rest)) 6 = n := by
  have : slice (sdoHdr coe cmd idx sub ++ (encLE 4 n ++ rest)) 6 (6 + 4) = encLE 4 n := by
    simp [slice, drop6_sdoHdr]
  rw [u32, this, decLE_encLE 4 n h]

theorem drop10_sdoHdr (coe cmd idx sub n : Nat) (rest : List UInt8) :
    (sdoHdr coe cmd idx sub ++ (encLE 4 n ++ rest)).drop 10 = rest := by
  have : (sdoHdr coe cmd idx sub ++ (encLE 4 n ++ rest)).drop 10
      = ((sdoHdr coe cmd idx sub ++ (encLE 4 n ++ rest)).drop 6).drop 4 := by simp
  rw [this, drop6_sdoHdr]; simp

/-! ### schedules: only the first slot matters when one exchange settles the call -/

def hdSlot (sched : List Slot) : Slot := sched.headD ⟨false, [], 0⟩

theorem mkMails_nil (inSz : Nat) (sched : List Slot) :
    mkMails inSz sched [] = (hdSlot sched).pre.map (toMail inSz 0) := by
  cases sched <;> simp [mkMails, hdSlot]

theorem mkMails_one (inSz : Nat) (sched : List Slot) (resp : List UInt8) :
    mkMails inSz sched [[resp]] =
      (hdSlot sched).pre.map (toMail inSz 0) ++ toMail inSz (hdSlot sched).delay resp :: mkMails inSz sched.tail [] := by
  cases sched <;> simp [mkMails, hdSlot]

theorem fulls_head (sched : List Slot) : (sched.map (·.full)).headD false = (hdSlot sched).full := by
  cases sched <;> simp [hdSlot]

theorem schedOk_head (inSz : Nat) (sched : List Slot) (h : SchedOk inSz sched) :
    (∀ m ∈ (hdSlot sched).pre, unrelated inSz m = true) ∧ ((hdSlot sched).full = true → (hdSlot sched).pre ≠ []) := by
  cases sched with
  | nil => simp [hdSlot]
  | cons sl sls => simpa [hdSlot] using h sl (by simp)

theorem sdoBody_length (svc cmd i sub : Nat) (rest : List UInt8) : (sdoBody svc cmd i sub rest).length = 6 + rest.length := by
  simp [sdoBody]; omega

@[simp] theorem expReq_length (p : Params) (v : List UInt8) (h : v.length ≤ 4) : (expReq p v).length = 10 := by
  simp [expReq, sdoHdr_length]; omega

/-- the command byte of the expedited download request -/
def expCmd (n : Nat) : Nat := od_DOWN_EXP ||| (((4 - n) <<< 2) &&& 0xc)

theorem expReq_eq (p : Params) (v : List UInt8) :
    expReq p v = sdoHdr (coe_SDOREQ <<< 12) (expCmd v.length) p.index (subOr1 p) ++ (v ++ zeros (4 - v.length)) := rfl

theorem expCmd_facts (n : Nat) (h1 : 1 ≤ n) (h4 : n ≤ 4) :
    expCmd n < 256 ∧ expCmd n >>> 5 = 1 ∧ (expCmd n &&& 0x10 != 0) = false ∧ (expCmd n &&& 2 != 0) = true ∧
      (expCmd n &&& 1 != 0) = true ∧ 4 - ((expCmd n >>> 2) &&& 3) = n := by
  have : n = 1 ∨ n = 2 ∨ n = 3 ∨ n = 4 := by omega
  rcases this with rfl | rfl | rfl | rfl <;> decide

theorem find_store (objs : List Obj) (i s : Nat) (ca : Bool) (o : Obj) (v : List UInt8)
    (h : find objs i s ca = some o) : find (store objs i s ca v) i s ca = some { o with val := v } := by
  induction objs with
  | nil => simp [find] at h
  | cons x xs ih =>
    simp only [find, store, List.map_cons, List.find?_cons] at h ⊢
    by_cases hx : (x.index == i && x.sub == s && x.ca == ca) = true
    · simp only [hx, if_true] at h ⊢
      have : x = o := by simpa using h
      subst this
      simp
    · simp only [hx] at h ⊢
      simp only [Bool.false_eq_true, if_false, hx]
      exact ih h

/-- a conformant server stores the 1..4 data bytes of an expedited download and confirms -/
theorem step_download_exp (s : Srv) (p : Params) (hwf : Wf p) (cnt : Nat) (o : Obj) (v : List UInt8)
    (hsz : s.outSz = p.outSz)
    (hfind : find s.objs p.index (subOr1 p) false = some o) (h1 : 1 ≤ v.length) (h4 : v.length ≤ 4)
    (hcap : v.length ≤ o.cap) :
    step s (msgOf cnt (expReq p v)) =
      respond { s with xfer := .idle, objs := store s.objs p.index (subOr1 p) false v } 0x60 p.index (subOr1 p) (zeros 4) := by
  obtain ⟨ho, hi, hi2, hidx, hsb, ho2⟩ := hwf
  obtain ⟨c1, c2, c3, c4, c5, c6⟩ := expCmd_facts v.length h1 h4
  have hsvc : u16 (expReq p v) 0 >>> 12 = 2 := by
    rw [expReq_eq, u16_sdoHdr0 _ _ _ _ _ (by decide)]; decide
  rw [step_sdo s cnt (expReq p v) (by simp [h4]) (by simp [h4]; omega) (by simp [h4]) hsvc]
  have hcmd : byte (expReq p v) 2 = expCmd v.length := by rw [expReq_eq, byte_sdoHdr2 _ _ _ _ _ c1]
  rw [hcmd, c2]
  simp only [initDownload, rd16_eq_u16, rd8_eq_byte, c3, c4, c5, c6, if_true]
  rw [expReq_eq, u16_sdoHdr3 _ _ _ _ _ hidx, byte_sdoHdr5 _ _ _ _ _ hsb, drop6_sdoHdr]
  have hn : ¬ v.length > o.cap := by omega
  simp [hfind, hn, caBit]

/-! ### what `sdo_read` writes, for every script of mails (conformant or not) -/

theorem mbxRecv_sent (s : St) : sent (mbxRecv s).1.tr = sent s.tr := by
  unfold mbxRecv
  cases s.mails <;> simp

theorem sent_recvCoeL (ms : List Mail) : sent (recvCoeL ms).1 = [] := by
  induction ms with
  | nil => rfl
  | cons m ms ih =>
    unfold recvCoeL
    cases decodeMail m.raw with
    | err e => simp
    | ok td =>
      obtain ⟨t, d⟩ := td
      by_cases h : t = mbx_COE <;> simp [h, ih]

theorem recvCoe_sent (s : St) : sent (recvCoe s).1.tr = sent s.tr := by
  simp [recvCoe, sent_recvCoeL]

/-- `mbx_send` either fails before writing anything or writes exactly the message for its payload -/
theorem mbxSend_cases (body : List UInt8) (s : St) :
    (∃ e, (mbxSend body s).2 = .err e ∧ sent (mbxSend body s).1.tr = sent s.tr) ∨
    (∃ c, (mbxSend body s).2 = .ok () ∧ sent (mbxSend body s).1.tr = sent s.tr ++ [msgOf c body]) := by
  obtain ⟨cnt, fulls, mails, tr⟩ := s
  by_cases hb : body.length ≥ 65536
  · left
    cases fulls with
    | nil => exact ⟨.structError, by simp [mbxSend, bind, M.bind, pollOut, nextCounter, hb, fail, sent]⟩
    | cons f fs =>
      cases f with
      | false => exact ⟨.structError, by simp [mbxSend, bind, M.bind, pollOut, nextCounter, hb, fail, sent]⟩
      | true =>
        cases mails with
        | nil => exact ⟨.blocked, by simp [mbxSend, bind, M.bind, pollOut, discardMail, mbxRecv, sent]⟩
        | cons m ms =>
          cases hd : decodeMail m.raw with
          | err e => exact ⟨e, by simp [mbxSend, bind, M.bind, pollOut, discardMail, mbxRecv, hd, sent]⟩
          | ok td => exact ⟨.structError, by simp [mbxSend, bind, M.bind, pollOut, discardMail, mbxRecv, hd, nextCounter, hb, fail, sent]⟩
  · cases fulls with
    | nil => right; exact ⟨cnt, by simp [mbxSend, bind, M.bind, pollOut, nextCounter, hb, emit, msgOf, sent]⟩
    | cons f fs =>
      cases f with
      | false => right; exact ⟨cnt, by simp [mbxSend, bind, M.bind, pollOut, nextCounter, hb, emit, msgOf, sent]⟩
      | true =>
        cases mails with
        | nil => left; exact ⟨.blocked, by simp [mbxSend, bind, M.bind, pollOut, discardMail, mbxRecv, sent]⟩
        | cons m ms =>
          cases hd : decodeMail m.raw with
          | err e => left; exact ⟨e, by simp [mbxSend, bind, M.bind, pollOut, discardMail, mbxRecv, hd, sent]⟩
          | ok td =>
            right
            exact ⟨cnt, by simp [mbxSend, bind, M.bind, pollOut, discardMail, mbxRecv, hd, nextCounter, hb, emit, msgOf, sent]⟩

/-- the SDO command byte of a mailbox message -/
def cmdOf (m : List UInt8) : Nat := byte m 8

/-- upload segment requests with toggles alternating from `t` -/
def altCmds : Nat → Nat → List Nat
  | 0, _ => []
  | n + 1, t => (od_SEG_UP_REQ + t) :: altCmds n (t ^^^ 0x10)

theorem cmdOf_msgOf (c : Nat) (body : List UInt8) : cmdOf (msgOf c body) = byte body 2 := by
  simp [cmdOf, msgOf, mbxHeader, byte, encLE]

/-! ### every mail of the server fits the send mailbox, whatever it is asked -/

def Good (inSz : Nat) (x : Srv × List (List UInt8)) : Prop := x.1.inSz = inSz ∧ ∀ m ∈ x.2, m.length ≤ inSz

theorem good_mail (s : Srv) (typ : Nat) (body : List UInt8) (n : Nat) (hs : s.inSz = n) (h : 6 + body.length ≤ n) :
    Good n (mail s typ body) := by
  rw [mail_eq]
  exact ⟨hs, by simp; omega⟩

theorem good_mbxError (s : Srv) (code : Nat) (h : 16 ≤ s.inSz) : Good s.inSz (mbxError s code) :=
  good_mail _ _ _ _ rfl (by simp; omega)

theorem good_abort (s : Srv) (i sub code : Nat) (h : 16 ≤ s.inSz) : Good s.inSz (abort s i sub code) :=
  good_mail _ _ _ _ rfl (by simp [sdoBody_length]; omega)

theorem good_respond (s : Srv) (cmd i sub : Nat) (rest : List UInt8) (n : Nat) (hs : s.inSz = n) (h : 12 + rest.length ≤ n) :
    Good n (respond s cmd i sub rest) :=
  good_mail _ _ _ _ hs (by simp [sdoBody_length]; omega)

theorem good_ite {n : Nat} {c : Prop} [Decidable c] {a b : Srv × List (List UInt8)}
    (ha : c → Good n a) (hb : ¬ c → Good n b) : Good n (if c then a else b) := by
  split
  · exact ha ‹_›
  · exact hb ‹_›

theorem good_initDownload (s : Srv) (cmd : Nat) (body : List UInt8) (h : 16 ≤ s.inSz) :
    Good s.inSz (initDownload s cmd body) := by
  unfold initDownload
  dsimp only []
  cases find s.objs (rd16 body 3) (rd8 body 5) (cmd &&& 0x10 != 0) with
  | none => exact good_abort _ _ _ _ h
  | some o =>
    dsimp only []
    refine good_ite (fun _ => good_ite (fun _ => good_abort _ _ _ _ h) (fun _ => good_respond _ _ _ _ _ _ rfl ?_))
      (fun _ => good_ite (fun _ => good_abort _ _ _ _ h) (fun _ => good_ite (fun _ => good_abort _ _ _ _ h)
        (fun _ => good_ite (fun _ => good_abort _ _ _ _ h) (fun _ => good_ite
          (fun _ => good_respond _ _ _ _ _ _ rfl ?_) (fun _ => good_respond _ _ _ _ _ _ rfl ?_)))))
    all_goals (simp; omega)

theorem good_downloadSegment (s : Srv) (cmd dlen : Nat) (body : List UInt8) (h : 16 ≤ s.inSz) :
    Good s.inSz (downloadSegment s cmd dlen body) := by
  unfold downloadSegment
  cases s.xfer with
  | down i sub ca size buf tog =>
    dsimp only []
    refine good_ite (fun _ => good_abort _ _ _ _ h) (fun _ => good_ite (fun _ => good_abort _ _ _ _ h)
      (fun _ => good_ite (fun _ => good_ite (fun _ => good_abort _ _ _ _ h) (fun _ => good_mail _ _ _ _ rfl ?_))
        (fun _ => good_mail _ _ _ _ rfl ?_)))
    all_goals (simp; omega)
  | idle => exact good_abort _ _ _ _ h
  | up i sub ca rest tog => exact good_abort _ _ _ _ h

theorem good_initUpload (s : Srv) (cmd : Nat) (body : List UInt8) (h : 16 ≤ s.inSz) :
    Good s.inSz (initUpload s cmd body) := by
  unfold initUpload
  dsimp only []
  cases find s.objs (rd16 body 3) (rd8 body 5) (cmd &&& 0x10 != 0) with
  | none => exact good_abort _ _ _ _ h
  | some o =>
    dsimp only []
    refine good_ite (fun hc => good_respond _ _ _ _ _ _ rfl ?_) (fun _ => good_respond _ _ _ _ _ _ ?_ ?_)
    · simp; omega
    · split <;> rfl
    · simp; omega

theorem good_uploadSegment (s : Srv) (cmd : Nat) (h : 16 ≤ s.inSz) : Good s.inSz (uploadSegment s cmd) := by
  unfold uploadSegment
  cases s.xfer with
  | up i sub ca rest tog =>
    dsimp only []
    refine good_ite (fun _ => good_abort _ _ _ _ h) (fun _ => good_mail _ _ _ _ ?_ ?_)
    · split <;> rfl
    · simp; split <;> omega
  | idle => exact good_abort _ _ _ _ h
  | down i sub ca size buf tog => exact good_abort _ _ _ _ h

theorem good_step (s : Srv) (msg : List UInt8) (h : 16 ≤ s.inSz) : Good s.inSz (step s msg) := by
  unfold step
  refine good_ite (fun _ => ⟨rfl, by simp⟩) (fun _ => ?_)
  dsimp only []
  refine good_ite (fun _ => good_mbxError _ _ h) (fun _ => good_ite (fun _ => good_mbxError _ _ h)
    (fun _ => good_ite (fun _ => good_mbxError _ _ h) (fun _ => good_ite (fun _ => good_mbxError _ _ h)
      (fun _ => good_ite (fun _ => good_mbxError _ _ h) (fun _ => ?_)))))
  split
  · exact good_initDownload _ _ _ h
  · exact good_downloadSegment _ _ _ _ h
  · exact good_initUpload _ _ _ h
  · exact good_uploadSegment _ _ h
  · exact ⟨rfl, by simp⟩
  · exact good_abort _ _ _ _ h

/-- **every response fits**: whatever requests arrive, in whatever state, no mail of the server is longer than
the send mailbox -/
theorem server_responses_fit (s : Srv) (reqs : List (List UInt8)) (h : 16 ≤ s.inSz) :
    ∀ rs ∈ (serveAll s reqs).2, ∀ m ∈ rs, m.length ≤ s.inSz := by
  induction reqs generalizing s with
  | nil => simp [serveAll]
  | cons r reqs ih =>
    obtain ⟨g1, g2⟩ := good_step s r h
    simp only [serveAll]
    intro rs hrs
    simp at hrs
    rcases hrs with rfl | hrs
    · exact g2
    · have := ih (step s r).1 (by rw [g1]; exact h) rs hrs
      rw [g1] at this; exact this

/-- the run of the composed system settles, and what it settles on satisfies `P` -/
def Eventually (c : Setup) (P : Result → Prop) : Prop := ∃ N, ∀ n, N ≤ n → P (system c n)

theorem iter_add {α : Type} (f : α → α) (a b : Nat) (x : α) : iter f (a + b) x = iter f b (iter f a x) := by
  induction a generalizing x with
  | zero => simp [iter]
  | succ a ih => rw [Nat.succ_add]; simp [iter, ih]

/-- once a round changes nothing the run has settled -/
theorem system_stable (c : Setup) (k : Nat) (h : round c (mailsAfter c k) = mailsAfter c k) :
    ∀ n, k ≤ n → system c n = system c k := by
  intro n hn
  obtain ⟨j, rfl⟩ : ∃ j, n = k + j := ⟨n - k, by omega⟩
  have : mailsAfter c (k + j) = mailsAfter c k := by
    unfold mailsAfter at h ⊢
    rw [iter_add, iter_fix _ _ h]
  simp only [system, this]

theorem not_eventually (c : Setup) (k : Nat) (P : Result → Prop)
    (hfix : round c (mailsAfter c k) = mailsAfter c k) (hP : ¬ P (system c k)) : ¬ Eventually c P := by
  rintro ⟨N, hN⟩
  have := hN (max N k) (Nat.le_max_left _ _)
  rw [system_stable c k hfix _ (Nat.le_max_right _ _)] at this
  exact hP this

theorem schedOk_nil (inSz : Nat) : SchedOk inSz [] := by intro sl h; cases h
theorem delaysOnly_nil : DelaysOnly [] := by intro sl h; cases h

end Ebv.C16
