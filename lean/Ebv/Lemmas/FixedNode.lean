import Ebv.Lemmas.FixedTyping
/-! One node of a fixed-point surface expression: reflected methods, the dispatch of Python's binary operator
protocol (`fNode`), delegation to `Gen` (`fOp_rep`). -/
namespace Ebv.GenFixed
open Ebv.Ebpf Ebv.Gen

variable {σ : State}

theorem opQ_add_comm (fa fb : Bool) (qa qb : Rat) : opQ .add fb fa qb qa = opQ .add fa fb qa qb := by
  simp only [opQ]; exact Rat.add_comm _ _

theorem opQ_mul_comm (fa fb : Bool) (qa qb : Rat) : opQ .mul fb fa qb qa = opQ .mul fa fb qa qb := by
  simp only [opQ, Bool.and_comm fb fa, Rat.mul_comm qb qa]

theorem fReflected_rep (op : FOp) (self : FE) (value : FVal) (r : FE) (qa qb : Rat) (fa : Bool)
    (hs : Rep σ self qb) (hv : RepV σ value qa fa) (h : fReflected op self value = .ok r)
    (hrf : op = .floordiv → ∀ n, value = .dec n → self.fixed = true) :
    Rep σ r (opQ op fa self.fixed qa qb) ∧ r.fixed = tyOp op fa self.fixed ∧ isSumObj r.e = false := by
  by_cases hop : op = .floordiv
  · subst hop; exact rFloordiv_rep self value r qa qb fa hs hv h (hrf rfl)
  · cases hev : ensureF value with
    | error e => cases op <;> simp [fReflected, hev, bind, Except.bind] at h <;> exact absurd rfl hop
    | ok v =>
      obtain ⟨hf, hr⟩ := ensureF_rep hv hev
      subst hf
      cases op <;> simp only [fReflected, hev, bind, Except.bind, pure, Except.pure, Except.ok.injEq] at h
      · subst h; rw [← opQ_add_comm]
        exact ⟨fSum_add_rep σ self v qb qa hs hr, by rw [fSum_fixed]; simp [tyOp, Bool.or_comm], fSum_notsum _ _ _⟩
      · subst h; exact ⟨fSum_sub_rep σ v self qa qb hr hs, fSum_fixed v self .sub, fSum_notsum _ _ _⟩
      · subst h; rw [← opQ_mul_comm]
        exact ⟨fMul_rep σ self v qb qa hs hr, by rw [fMul_fixed]; simp [tyOp, Bool.or_comm], fMul_notsum _ _⟩
      · subst h; exact ⟨(fTruediv_rep σ v self qa qb hr hs).1, (fTruediv_rep σ v self qa qb hr hs).2, rfl⟩
      · exact absurd rfl hop
      · subst h; exact ⟨fSum_mod_rep σ v self qa qb hr hs, fSum_fixed v self .mod, fSum_notsum _ _ _⟩

theorem wrapFE_ok {x : Except AsmError FE} {v : FVal} (h : wrapFE x = .ok v) : ∃ r, x = .ok r ∧ v = .ex r.e r.fixed := by
  unfold wrapFE at h
  cases x with
  | error e => cases h
  | ok r => simp only [bind, Except.bind, pure, Except.pure, Except.ok.injEq] at h; exact ⟨r, rfl, h.symm⟩

/-- the result object of a direct/reflected method as a Python-level value -/
theorem repV_of {r : FE} {q : Rat} {t : Bool} (h : Rep σ r q ∧ r.fixed = t ∧ isSumObj r.e = false) :
    RepV σ (.ex r.e r.fixed) q t := ⟨h.2.1, h.1, fun _ => h.2.2⟩

/-- **one node that involves fixed point**: whatever branch of the operator protocol is taken (direct method,
reflected method, `Sum.__radd__` first), the object built stands for the exact result of the operation dropped to the
result type (`Sum - x` included since `Sum.__sub__` was repaired).  Excluded: `float // non-fixed` (truncates the
float first). -/
theorem fNode_rep (op : FOp) (x y v : FVal) (qa qb : Rat) (fa fb : Bool)
    (hx : RepV σ x qa fa) (hy : RepV σ y qb fb) (h : fNode op x y = .ok v)
    (hrf : rfdNode op x y = false) :
    RepV σ v (opQ op fa fb qa qb) (tyOp op fa fb) := by
  cases x with
  | ex l fl =>
    obtain ⟨hfl, hl, hns⟩ := hx
    subst hfl
    cases y with
    | ex r fr =>
      obtain ⟨hfr, hr, hnr⟩ := hy
      subst hfr
      simp only [fNode] at h
      split at h
      · rename_i hc
        simp only [Bool.and_eq_true, beq_iff_eq] at hc
        obtain ⟨r', h1, rfl⟩ := wrapFE_ok h
        have := fDirect_rep .add ⟨r, fr⟩ (.ex l fl) r' qb qa fl hr ⟨rfl, hl, hns⟩ h1
        rw [hc.1.1, ← opQ_add_comm]
        exact repV_of ⟨this.1, by rw [this.2.1]; simp [tyOp, Bool.or_comm], this.2.2⟩
      · obtain ⟨r', h1, rfl⟩ := wrapFE_ok h
        exact repV_of (fDirect_rep op ⟨l, fl⟩ (.ex r fr) r' qa qb fr hl ⟨rfl, hr, hnr⟩ h1)
    | int c =>
      simp only [fNode] at h
      obtain ⟨r', h1, rfl⟩ := wrapFE_ok h
      exact repV_of (fDirect_rep op ⟨l, fl⟩ (.int c) r' qa qb fb hl hy h1)
    | dec n =>
      simp only [fNode] at h
      obtain ⟨r', h1, rfl⟩ := wrapFE_ok h
      exact repV_of (fDirect_rep op ⟨l, fl⟩ (.dec n) r' qa qb fb hl hy h1)
  | int c =>
    cases y with
    | ex r fr =>
      obtain ⟨hfr, hr, _⟩ := hy
      subst hfr
      simp only [fNode] at h
      obtain ⟨r', h1, rfl⟩ := wrapFE_ok h
      exact repV_of (fReflected_rep op ⟨r, fr⟩ (.int c) r' qa qb fa hr hx h1 (fun _ n hh => by cases hh))
    | int d => simp [fNode, unmodelled] at h
    | dec n => simp [fNode, unmodelled] at h
  | dec n =>
    cases y with
    | ex r fr =>
      obtain ⟨hfr, hr, _⟩ := hy
      subst hfr
      simp only [fNode] at h
      obtain ⟨r', h1, rfl⟩ := wrapFE_ok h
      exact repV_of (fReflected_rep op ⟨r, fr⟩ (.dec n) r' qa qb fa hr hx h1
        (fun hop m _ => by
          subst hop
          cases fr
          · simp [rfdNode] at hrf
          · rfl))
    | int d => simp [fNode, unmodelled] at h
    | dec m => simp [fNode, unmodelled] at h

end Ebv.GenFixed
