import Ebv.Lemmas.CondPatch
/-! Machine-level truth of comparison objects (`CObj.mtruth`: what the emitted jump decides, as a function of the
state in front of the comparison) and the decision of the jump behind `cmpCore`'s code. -/
namespace Ebv.Gen
open Ebv.Ebpf

/-- the comparison a `SimpleComparison` stands for, on `w`-bit vectors (signed or unsigned pair) -/
def cmpBV (op : CmpOp) (sg : Bool) (w : Nat) (a b : BitVec w) : Bool :=
  match op with
  | .gt => if sg then decide (b.toInt < a.toInt) else decide (b.toNat < a.toNat)
  | .ge => if sg then decide (b.toInt ≤ a.toInt) else decide (b.toNat ≤ a.toNat)
  | .lt => if sg then decide (a.toInt < b.toInt) else decide (a.toNat < b.toNat)
  | .le => if sg then decide (a.toInt ≤ b.toInt) else decide (a.toNat ≤ b.toNat)
  | .ne => a != b

def bitsBV (w : Nat) (a b : BitVec w) : Bool := a &&& b != 0

/-- every opcode of the `comparison(...)` table decides its comparison; the negative-sense opcode the complement -/
theorem cond_jop (op : CmpOp) (sg neg : Bool) (w : Nat) (a b : BitVec w) :
    cond w (op.jop sg neg / 16) a b = some (xor (cmpBV op sg w a b) neg) := by
  cases op <;> cases sg <;> cases neg <;>
    simp [CmpOp.jop, Consts.op_JGT, Consts.op_JLE, Consts.op_JSGT, Consts.op_JSLE, Consts.op_JGE, Consts.op_JLT,
      Consts.op_JSGE, Consts.op_JSLT, Consts.op_JNE, Consts.op_JEQ, Ebpf.cond, cmpBV] <;>
    first | omega | (rw [Bool.eq_iff_iff]; simp) | skip

theorem cond_jset (w : Nat) (a b : BitVec w) : cond w (Consts.op_JSET / 16) a b = some (xor (bitsBV w a b) false) := by
  simp [Consts.op_JSET, Ebpf.cond, bitsBV]

/-- value of an atom given the comparison function: operands at the width they are known, the short/widen
decision of `SimpleComparison.compare` -/
def atomVal (f : (w : Nat) → BitVec w → BitVec w → Bool) (l r : Expr) (σ : State) : Bool :=
  let A := evalBV σ (opW l) l
  let B : W := match r.asSmallConst with | some v => simm v | none => evalBV σ (rW l r) r
  if (atomInfo l r).short then f 32 (A.truncate 32) (B.truncate 32)
  else f 64 (if (atomInfo l r).widen then (A.truncate 32).signExtend 64 else A) B

/-- atoms whose jump only looks at bits that `calc_correct` determines: a 32-bit jump, or operands known at 64
bits (long, constant, unsigned short variable, or the widened left operand) -/
def atomFrag (l r : Expr) : Bool :=
  (atomInfo l r).short || (((atomInfo l r).widen || opW l) && ((atomInfo l r).rImm || rW l r))

def CObj.mtruth : CObj → State → Bool
  | .simple op sg l r, σ => atomVal (cmpBV op sg) l r σ
  | .bits l r, σ => atomVal bitsBV l r σ
  | .andor isAnd a b, σ => if isAnd then a.mtruth σ && b.mtruth σ else a.mtruth σ || b.mtruth σ
  | .inv a, σ => !a.mtruth σ

theorem short_not_widen (l r : Expr) (h : (atomInfo l r).short = true) : (atomInfo l r).widen = false := by
  rw [atomInfo_short] at h; rw [atomInfo_widen]
  revert h
  generalize (atomInfo l r).rLong = x
  cases (l.signed || r.signed) <;> cases (widthOf l) <;> cases x <;> simp

theorem atom_jump (f : (w : Nat) → BitVec w → BitVec w → Bool) (j : Nat) (ng : Bool) (l r : Expr) (ins : Insn)
    (o : List Nat) (σ σ3 : State) (hj5 : j % 16 = 5)
    (hcode : ∀ w (a b : BitVec w), cond w (j / 16) a b = some (xor (f w a b) ng))
    (hop : ins.op = jcode j (atomInfo l r).short (!(atomInfo l r).rImm)) (hrun : AtomRun l r ins o σ σ3)
    (hfrag : atomFrag l r = true) : jmpCond ins σ3 = some (xor (atomVal f l r σ) ng) := by
  obtain ⟨h8, h16, hreg⟩ := jcode_fields j (atomInfo l r).short (!(atomInfo l r).rImm) hj5
  have hleft := hrun.left
  have hright := hrun.right
  -- the second operand of the jump
  have hB : ∀ (b : Bool), (b = false → rW l r = true ∨ (atomInfo l r).rImm = true) →
      (if b then ((if ((if (!(atomInfo l r).rImm) = true then 1 else 0) = 1) then σ3.regs ins.src else simm ins.imm : W)).truncate 32
        = ((match r.asSmallConst with | some v => simm v | none => evalBV σ (rW l r) r : W)).truncate 32
       else (if ((if (!(atomInfo l r).rImm) = true then 1 else 0) = 1) then σ3.regs ins.src else simm ins.imm : W)
        = (match r.asSmallConst with | some v => simm v | none => evalBV σ (rW l r) r : W)) := by
    intro b hb
    rw [atomInfo_rImm] at hb ⊢
    cases hsc : r.asSmallConst with
    | some v =>
      rw [hsc] at hright
      simp only [] at hright
      cases b <;> simp [hright]
    | none =>
      rw [hsc] at hright
      simp only [] at hright
      cases b with
      | true => simpa using hright.trunc
      | false =>
        rcases hb rfl with h1 | h1
        · rw [h1] at hright ⊢; simpa [Agree] using hright
        · simp [hsc] at h1
  unfold jmpCond atomVal
  simp only [hop, h8, h16, hreg]
  cases hs : (atomInfo l r).short with
  | true =>
    have hwf : (atomInfo l r).widen = false := short_not_widen l r hs
    rw [hwf] at hleft
    simp only [Bool.false_eq_true, if_false] at hleft
    have hb := hB true (fun h => by cases h)
    simp only [if_true] at hb
    simp only [if_true, show ¬ ((6 : Nat) = 5) by omega, if_false]
    rw [hb, hleft.trunc, hcode]
  | false =>
    simp only [atomFrag, hs, Bool.false_or, Bool.and_eq_true, Bool.or_eq_true] at hfrag
    have hb := hB false (fun _ => hfrag.2.symm)
    simp only [Bool.false_eq_true, if_false] at hb
    simp only [Bool.false_eq_true, if_false, if_true]
    rw [hb, hcode]
    cases hwt : (atomInfo l r).widen with
    | true => rw [hwt] at hleft; simp only [if_true] at hleft ⊢; rw [hleft]
    | false =>
      rw [hwt] at hleft
      simp only [Bool.false_eq_true, if_false] at hleft ⊢
      have : opW l = true := by
        rcases hfrag.1 with h | h
        · rw [hwt] at h; cases h
        · exact h
      rw [this] at hleft ⊢
      simp only [Agree, if_true] at hleft
      rw [hleft]

theorem jcode_isCond (j : Nat) (short reg : Bool) (hj5 : j % 16 = 5) (h0 : j / 16 ≠ 0) (h8 : j / 16 ≠ 8)
    (h9 : j / 16 ≠ 9) (ins : Insn) (hop : ins.op = jcode j short reg) : isCondJump ins = true := by
  obtain ⟨a8, a16, _⟩ := jcode_fields j short reg hj5
  simp only [isCondJump, hop, a8, a16, Bool.and_eq_true, Bool.or_eq_true, beq_iff_eq, bne_iff_ne, ne_eq]
  cases short <;> simp [h0, h8, h9]

end Ebv.Gen
