import Ebv.Lemmas.CondAtom3
/-! `target`: what it writes into the code (`Pend.patch`, a pure function of the pending jumps and the target
position) and what it does to `owners`. -/
namespace Ebv.Gen
open Ebv.Ebpf

/-- the code after `target` with the target position `L` -/
def Pend.patch (L : Nat) : Pend → List Insn → List Insn
  | .jump origin ins _, code => code.set origin { ins with off := (L : Int) - origin - 1 }
  | .andor both l r _, code => r.patch L (if both then l.patch L code else code)
  | .inv v _, code => v.patch L code

/-- `owners` after `target()` (not retargeting) -/
def Pend.interAll : Pend → List Nat → List Nat
  | .jump _ _ own, o => inter o own
  | .andor both l r _, o => r.interAll (if both then l.interAll o else o)
  | .inv v _, o => v.interAll o

/-- every `owners` attribute stored in the pending comparison equals `o` -/
def Pend.OwnAll (o : List Nat) : Pend → Prop
  | .jump _ _ own => own = o
  | .andor _ l r own => own = o ∧ l.OwnAll o ∧ r.OwnAll o
  | .inv v own => own = o ∧ v.OwnAll o

theorem patch_length (L : Nat) : ∀ (p : Pend) (code : List Insn), (p.patch L code).length = code.length := by
  intro p
  induction p with
  | jump origin ins own => intro code; simp [Pend.patch]
  | andor both l r own ihl ihr =>
    intro code
    simp only [Pend.patch]
    rw [ihr]
    cases both <;> simp [ihl]
  | inv v own ih => intro code; simp only [Pend.patch]; exact ih code

theorem inter_self (o : List Nat) : inter o o = o := by
  unfold inter
  apply List.filter_eq_self.mpr
  intro a ha; simpa using ha

theorem mem_inter {a b : List Nat} {n : Nat} : n ∈ inter a b ↔ n ∈ a ∧ n ∈ b := by
  unfold inter; simp

theorem interAll_self (o : List Nat) : ∀ (p : Pend), p.OwnAll o → p.interAll o = o := by
  intro p
  induction p with
  | jump origin ins own => intro h; simp only [Pend.OwnAll] at h; subst h; exact inter_self _
  | andor both l r own ihl ihr =>
    intro h
    simp only [Pend.OwnAll] at h
    simp only [Pend.interAll]
    cases both
    · simpa using ihr h.2.2
    · simp only [if_true]; rw [ihl h.2.1]; exact ihr h.2.2
  | inv v own ih => intro h; simp only [Pend.OwnAll] at h; exact ih h.2

/-- registers in `o` survive the intersections when every stored `owners` contains them -/
theorem interAll_sub (o oc : List Nat) (hoc : ∀ n, n ∈ o → n ∈ oc) : ∀ (p : Pend), p.OwnAll oc →
    ∀ X : List Nat, (∀ n, n ∈ o → n ∈ X) → ∀ n, n ∈ o → n ∈ p.interAll X := by
  intro p
  induction p with
  | jump origin ins own =>
    intro h X hX n hn
    simp only [Pend.OwnAll] at h; subst h
    exact mem_inter.mpr ⟨hX n hn, hoc n hn⟩
  | andor both l r own ihl ihr =>
    intro h X hX n hn
    simp only [Pend.OwnAll] at h
    simp only [Pend.interAll]
    cases both
    · exact ihr h.2.2 X hX n hn
    · exact ihr h.2.2 _ (ihl h.2.1 X hX) n hn
  | inv v own ih => intro h X hX n hn; simp only [Pend.OwnAll] at h; exact ih h.2 X hX n hn

theorem interAll_subset : ∀ (p : Pend) (X : List Nat) (n : Nat), n ∈ p.interAll X → n ∈ X := by
  intro p
  induction p with
  | jump origin ins own => intro X n hn; exact (mem_inter.mp hn).1
  | andor both l r own ihl ihr =>
    intro X n hn
    simp only [Pend.interAll] at hn
    cases both
    · exact ihr _ n hn
    · exact ihl _ n (ihr _ n hn)
  | inv v own ih => intro X n hn; exact ih X n hn

theorem targetJump_ok {origin : Nat} {ins : Insn} {own : List Nat} {rt : Bool} {g : GenState} {r : Pend × GenState}
    (h : targetJump origin ins own rt g = .ok r) :
    r.2.code = g.code.set origin { ins with off := (g.code.length : Int) - origin - 1 } ∧ r.2.stack = g.stack ∧
      r.2.owners = (if rt then g.owners else inter g.owners own) ∧
      r.1 = .jump origin ins (if rt then own else g.owners) := by
  unfold targetJump at h
  cases rt <;> simp at h <;> cases h <;> simp

/-- **`target`** -/
theorem target_ok : ∀ (p : Pend) (rt : Bool) (g : GenState) (p' : Pend) (g' : GenState),
    target p rt g = .ok (p', g') →
    g'.code = p.patch g.code.length g.code ∧ g'.stack = g.stack ∧
      g'.owners = (if rt then g.owners else p.interAll g.owners) ∧ (∀ L c, p'.patch L c = p.patch L c) ∧
      (rt = true → p' = p) := by
  intro p
  induction p with
  | jump origin ins own =>
    intro rt g p' g' h
    simp only [target] at h
    obtain ⟨h1, h2, h3, h4⟩ := targetJump_ok h
    simp only [] at h1 h2 h3 h4
    refine ⟨h1, h2, by rw [h3]; rfl, ?_, ?_⟩
    · intro L c; rw [h4]; rfl
    · intro hrt; subst hrt; rw [h4]; rfl
  | andor both l r own ihl ihr =>
    intro rt g p' g' h
    simp only [target] at h
    rw [bind_ok] at h; obtain ⟨l', g1, hl, h⟩ := h
    rw [bind_ok] at h; obtain ⟨r', g2, hr, h⟩ := h
    rw [pure_ok] at h; cases h
    cases both with
    | false =>
      simp only [Bool.false_eq_true, if_false] at hl
      rw [pure_ok] at hl; cases hl
      obtain ⟨c1, c2, c3, c4, c5⟩ := ihr rt g r' g' hr
      refine ⟨by simpa [Pend.patch] using c1, c2, by simpa [Pend.interAll] using c3, ?_, ?_⟩
      · intro L c; simp [Pend.patch, c4]
      · intro hrt; rw [c5 hrt]
    | true =>
      simp only [if_true] at hl
      obtain ⟨a1, a2, a3, a4, a5⟩ := ihl rt g l' g1 hl
      obtain ⟨c1, c2, c3, c4, c5⟩ := ihr rt g1 r' g' hr
      have hlen : g1.code.length = g.code.length := by rw [a1, patch_length]
      refine ⟨?_, by rw [c2, a2], ?_, ?_, ?_⟩
      · simp only [Pend.patch, if_true]; rw [c1, hlen, a1]
      · rw [c3, a3]; cases rt <;> simp [Pend.interAll]
      · intro L c; simp [Pend.patch, c4, a4]
      · intro hrt; rw [c5 hrt, a5 hrt]
  | inv v own ih =>
    intro rt g p' g' h
    simp only [target] at h
    rw [bind_ok] at h; obtain ⟨v', g1, hv, h⟩ := h
    rw [pure_ok] at h; cases h
    obtain ⟨c1, c2, c3, c4, c5⟩ := ih rt g v' g' hv
    refine ⟨by simpa [Pend.patch] using c1, c2, by simpa [Pend.interAll] using c3, ?_, ?_⟩
    · intro L c; simp [Pend.patch, c4]
    · intro hrt; rw [c5 hrt]

/-- overwriting a slot in the middle of a list -/
theorem set_mid (pre s rest : List Insn) (k : Nat) (x : Insn) (hk : k < s.length) :
    (pre ++ s ++ rest).set (pre.length + k) x = pre ++ s.set k x ++ rest := by
  rw [List.append_assoc, List.set_append_right _ _ (by omega)]
  simp only [Nat.add_sub_cancel_left]
  rw [List.set_append_left _ _ hk, List.append_assoc]

end Ebv.Gen
