import Ebv.Lemmas.Insn
/-! Bit-vector semantics of expression trees (`evalBV`), agreement at a width, sign extension by shift pairs. -/
namespace Ebv.Gen
open Ebv.Ebpf

/-- equality at the width a computation was asked for: all 64 bits, or the low 32 -/
def Agree (b : Bool) (x y : W) : Prop := if b then x = y else x.truncate 32 = y.truncate 32

theorem Agree.refl (b : Bool) (x : W) : Agree b x x := by cases b <;> simp [Agree]
theorem Agree.of_eq {b : Bool} {x y : W} (h : x = y) : Agree b x y := h ▸ Agree.refl b x
theorem Agree.trunc {b : Bool} {x y : W} (h : Agree b x y) : x.truncate 32 = y.truncate 32 := by
  cases b <;> simp [Agree] at h
  · exact h
  · rw [h]
theorem Agree.trans {b : Bool} {x y z : W} (h1 : Agree b x y) (h2 : Agree b y z) : Agree b x z := by
  cases b <;> simp [Agree] at * <;> simp [h1, h2]

/-- the value of `size` loaded bytes in a variable's format, as a 64-bit vector -/
def extend (fmt : Fmt) (raw : Nat) : W :=
  if fmt.signed then (BitVec.ofNat (8 * fmt.size) raw).signExtend 64 else BitVec.ofNat 64 raw

/-- value of an expression as the ideal 64-bit machine computes it at width `b`: every leaf contributes the value
its view/format defines (extended to 64 bits), every operator is the ALU operation at width `b` -/
def evalBV (σ : State) (b : Bool) : Expr → W
  | .const v => BitVec.ofInt 64 v
  | .reg no lg sg =>
    if lg then σ.regs no
    else if sg then ((σ.regs no).truncate 32).signExtend 64 else lo32 (σ.regs no)
  | .bin op l r _ _ => aluSem op b (evalBV σ b l) (evalBV σ b r)
  | .neg a => negSem b (evalBV σ b a)
  | .abs a => evalBV σ b a            -- not covered by the induction (`Expr.frag`)
  | .mem fmt a =>
    match a.asSum with
    | some (base, off) => extend fmt (loadN σ.mem (σ.regs base + BitVec.ofInt 64 off) fmt.size)
    | none => extend fmt (loadN σ.mem (evalBV σ true a) fmt.size)

/-- the constructs the induction covers: no `abs`, memory operands addressed by `register + constant` -/
def Expr.frag : Expr → Bool
  | .const _ => true
  | .reg _ _ _ => true
  | .bin _ l r _ _ => l.frag && r.frag
  | .neg a => a.frag
  | .abs _ => false
  | .mem _ a => a.asSum.isSome

/-- every register the expression reads (also as address base) is in `o` -/
def leavesOwned (o : List Nat) : Expr → Prop
  | .const _ => True
  | .reg no _ _ => no ∈ o
  | .bin _ l r _ _ => leavesOwned o l ∧ leavesOwned o r
  | .neg a => leavesOwned o a
  | .abs a => leavesOwned o a
  | .mem _ a => leavesOwned o a

theorem leavesOwned_mono {o o' : List Nat} (hs : ∀ n, n ∈ o → n ∈ o') :
    ∀ {e : Expr}, leavesOwned o e → leavesOwned o' e := by
  intro e
  induction e with
  | const v => intro _; trivial
  | reg no lg sg => intro h; exact hs _ h
  | bin op l r sg k ihl ihr => intro h; exact ⟨ihl h.1, ihr h.2⟩
  | neg a ih => intro h; exact ih h
  | abs a ih => intro h; exact ih h
  | mem f a ih => intro h; exact ih h

theorem asSum_shape {a : Expr} {base : Nat} {off : Int} (h : a.asSum = some (base, off)) :
    ∃ op lg sg s, a = .bin op (.reg base lg sg) (.const off) s .sum := by
  unfold Expr.asSum at h
  split at h
  · rename_i op no lg sg c s
    cases h; exact ⟨op, lg, sg, s, rfl⟩
  · cases h

theorem contains_of_leaves {o : List Nat} : ∀ {e : Expr}, leavesOwned o e → ∀ {n}, e.contains n = true → n ∈ o := by
  intro e
  induction e with
  | const v => intro _ n hn; simp [Expr.contains] at hn
  | reg no lg sg => intro h n hn; simp [Expr.contains] at hn; subst hn; exact h
  | bin op l r sg k ihl ihr =>
    intro h n hn
    simp [Expr.contains] at hn
    rcases hn with hn | hn
    · exact ihl h.1 hn
    · exact ihr h.2 hn
  | neg a ih => intro h n hn; exact ih h hn
  | abs a ih => intro h n hn; exact ih h hn
  | mem f a ih => intro h n hn; exact ih h hn

/-- `evalBV` only looks at the registers the expression mentions and at memory -/
theorem evalBV_congr (σ τ : State) (b : Bool) (hm : σ.mem = τ.mem) :
    ∀ (e : Expr), (∀ n, e.contains n = true → σ.regs n = τ.regs n) → evalBV σ b e = evalBV τ b e := by
  intro e
  induction e generalizing b with
  | const v => intro _; rfl
  | reg no lg sg => intro h; simp only [evalBV]; rw [h no (by simp [Expr.contains])]
  | bin op l r sg k ihl ihr =>
    intro h
    simp only [evalBV]
    rw [ihl b (fun n hn => h n (by simp [Expr.contains, hn])), ihr b (fun n hn => h n (by simp [Expr.contains, hn]))]
  | neg a ih => intro h; simp only [evalBV]; rw [ih b h]
  | abs a ih => intro h; simp only [evalBV]; exact ih b h
  | mem f a ih =>
    intro h
    simp only [evalBV]
    split
    · rename_i base off hs
      obtain ⟨op, lg, sg, s, rfl⟩ := asSum_shape hs
      rw [hm, h base (by simp [Expr.contains])]
    · rw [hm, ih true h]

/-! ## sign extension by a shift pair -/

theorem shl_sshr_signExtend (n w : Nat) (x : BitVec n) (hn : 0 < n) (hw : n ≤ w) :
    ((x.setWidth w) <<< (w - n)).sshiftRight (w - n) = x.signExtend w := by
  apply BitVec.eq_of_getLsbD_eq
  intro i hi
  rw [BitVec.getLsbD_sshiftRight, BitVec.getLsbD_signExtend]
  simp only [BitVec.getLsbD_shiftLeft, BitVec.getLsbD_setWidth, BitVec.msb_eq_getLsbD_last]
  by_cases h1 : i < n
  · have h2 : w - n + i < w := by omega
    have h3 : ¬ w ≤ i := by omega
    have h4 : ¬ (w - n + i < w - n) := by omega
    simp [h1, h2, hi, h3, h4]
  · have h2 : ¬ (w - n + i < w) := by omega
    have h3 : ¬ w ≤ i := by omega
    have h4 : w - 1 < w := by omega
    have h5 : ¬ (w - 1 < w - n) := by omega
    have e : w - 1 - (w - n) = n - 1 := by omega
    have h6 : n - 1 < w := by omega
    simp [h1, hi, h2, h3, h4, h5, e, h6]

theorem setWidth_signExtend (n m w : Nat) (x : BitVec n) (_h1 : n ≤ m) (h2 : m ≤ w) :
    (x.signExtend w).setWidth m = x.signExtend m := by
  apply BitVec.eq_of_getLsbD_eq
  intro i hi
  simp only [BitVec.getLsbD_setWidth, BitVec.getLsbD_signExtend]
  have : i < w := by omega
  simp [hi, this]

theorem loadN_lt (mem : W → BitVec 8) : ∀ (n : Nat) (a : W), loadN mem a n < 2 ^ (8 * n) := by
  intro n
  induction n with
  | zero => intro a; simp [loadN]
  | succ k ih =>
    intro a
    simp only [loadN]
    have h1 := ih (a + 1)
    have h2 : (mem a).toNat < 256 := (mem a).isLt
    have e : 2 ^ (8 * (k + 1)) = 256 * 2 ^ (8 * k) := by
      rw [show 8 * (k + 1) = 8 + 8 * k by omega, Nat.pow_add]
    rw [e]
    omega

/-! ## what `load` leaves in the destination register -/

def needShift (fmt : Fmt) (b : Bool) : Bool := fmt == .h || fmt == .b || (b && fmt == .i)
def shiftAmt (fmt : Fmt) (b : Bool) : Int := (if b then 64 else 32) - fmt.size * 8
/-- register content after the code of `load` -/
def loadVal (fmt : Fmt) (b : Bool) (raw : Nat) : W :=
  if needShift fmt b then
    aluSem .arsh b (aluSem .lsh b (BitVec.ofNat 64 raw) (simm (shiftAmt fmt b))) (simm (shiftAmt fmt b))
  else BitVec.ofNat 64 raw

theorem ofNat_widen (n w raw : Nat) (h : raw < 2 ^ n) (_hw : n ≤ w) :
    BitVec.ofNat w raw = (BitVec.ofNat n raw).setWidth w := by
  apply BitVec.eq_of_toNat_eq
  simp [Nat.mod_eq_of_lt h]

theorem shiftpair64 (n : Nat) (raw : Nat) (hn : 0 < n) (hw : n ≤ 64) (h : raw < 2 ^ n) :
    ((BitVec.ofNat 64 raw) <<< (64 - n)).sshiftRight (64 - n) = (BitVec.ofNat n raw).signExtend 64 := by
  rw [ofNat_widen n 64 raw h hw]; exact shl_sshr_signExtend n 64 _ hn hw

theorem shiftpair32 (n : Nat) (raw : Nat) (hn : 0 < n) (hw : n ≤ 32) (h : raw < 2 ^ n) :
    ((BitVec.ofNat 32 raw) <<< (32 - n)).sshiftRight (32 - n) = (BitVec.ofNat n raw).signExtend 32 := by
  rw [ofNat_widen n 32 raw h hw]; exact shl_sshr_signExtend n 32 _ hn hw

theorem trunc_ofNat64 (raw : Nat) : (BitVec.ofNat 64 raw).truncate 32 = BitVec.ofNat 32 raw := by
  apply BitVec.eq_of_toNat_eq
  simp

theorem load_agree (fmt : Fmt) (b : Bool) (raw : Nat) (h : raw < 2 ^ (8 * fmt.size)) :
    Agree b (loadVal fmt b raw) (extend fmt raw) := by
  have s56 : (simm 56).toNat % 64 = 56 := by decide
  have s48 : (simm 48).toNat % 64 = 48 := by decide
  have s32 : (simm 32).toNat % 64 = 32 := by decide
  have t24 : (simm 24).toNat % 32 = 24 := by decide
  have t16 : (simm 16).toNat % 32 = 16 := by decide
  cases fmt <;> cases b <;>
    simp [loadVal, needShift, shiftAmt, extend, Fmt.signed, Fmt.size, Agree, aluSem, aluOp, s56, s48, s32, t24, t16] at h ⊢
  · rw [setWidth_signExtend 8 32 64 _ (by omega) (by omega)]
    exact shiftpair32 8 raw (by omega) (by omega) h
  · exact shiftpair64 8 raw (by omega) (by omega) h
  · rw [setWidth_signExtend 16 32 64 _ (by omega) (by omega)]
    exact shiftpair32 16 raw (by omega) (by omega) h
  · exact shiftpair64 16 raw (by omega) (by omega) h
  · rw [setWidth_signExtend 32 32 64 _ (by omega) (by omega)]
    simp
  · exact shiftpair64 32 raw (by omega) (by omega) h

end Ebv.Gen
