import Ebv.Model.MiniVerifier
/-! C05, rules (5) and (7): what `structOk` (the first phase of `MiniV.accepts`) guarantees. -/
namespace Ebv.C05
open Ebv.Ebpf Ebv.MiniV

/-- rule (5) + rule (7) as a proposition over the program text -/
structure Structural (prog : List Insn) : Prop where
  /-- the last instruction is EXIT or JA -/
  last : ∃ l, prog.getLast? = some l ∧ (isExit l = true ∨ isJa l = true)
  /-- every first-slot instruction is well-formed -/
  wf : ∀ pc i, prog[pc]? = some i → isSecond prog pc = false → wfInsn i = true
  /-- jumps go forward, stay inside the program and never land in the second slot of LD_IMM64 -/
  jumps : ∀ pc i, prog[pc]? = some i → isSecond prog pc = false → isJump i = true →
    0 ≤ i.off ∧ pc < target pc i ∧ target pc i < prog.length ∧ isSecond prog (target pc i) = false
  /-- LD_IMM64 has a well-formed second slot -/
  ldimm : ∀ pc i, prog[pc]? = some i → isSecond prog pc = false → isLdImm64 i = true →
    ∃ j, prog[pc + 1]? = some j ∧ wfSecond j = true

theorem structOk_spec {prog : List Insn} (h : structOk prog = true) : Structural prog := by
  unfold structOk at h
  simp only [Bool.and_eq_true, List.all_eq_true, List.mem_range] at h
  obtain ⟨hl, ha⟩ := h
  have hat : ∀ pc i, prog[pc]? = some i → isSecond prog pc = false → structAt prog pc i = true := by
    intro pc i hi hs
    have hlt : pc < prog.length := by
      rcases Nat.lt_or_ge pc prog.length with h | h
      · exact h
      · rw [List.getElem?_eq_none_iff.mpr h] at hi; cases hi
    have := ha pc hlt
    rw [hs, hi] at this
    simpa using this
  refine ⟨?_, ?_, ?_, ?_⟩
  · unfold lastOk at hl
    split at hl
    · rename_i l hlast
      simp only [Bool.and_eq_true, Bool.or_eq_true] at hl
      exact ⟨l, hlast, hl.1⟩
    · cases hl
  · intro pc i hi hs
    have := hat pc i hi hs
    unfold structAt at this
    simp only [Bool.and_eq_true] at this
    exact this.1.1
  · intro pc i hi hs hj
    have := hat pc i hi hs
    unfold structAt at this
    simp only [Bool.and_eq_true, hj, Bool.not_true, Bool.false_or, decide_eq_true_eq, Bool.not_eq_true'] at this
    obtain ⟨⟨_, ⟨h0, hlt⟩, hsec⟩, _⟩ := this
    refine ⟨h0, ?_, hlt, hsec⟩
    unfold target
    omega
  · intro pc i hi hs hld
    have := hat pc i hi hs
    unfold structAt at this
    simp only [Bool.and_eq_true, hld, Bool.not_true, Bool.false_or] at this
    have h2 := this.2
    split at h2
    · rename_i j hj; exact ⟨j, hj, h2⟩
    · cases h2

/-- rule (7), immediates: what `wfInsn` says about shifts, divisions and byte swaps -/
theorem wfInsn_imm {i : Insn} (h : wfInsn i = true) (ha : isAlu i = true) :
    (useReg i = false → (code i = 6 ∨ code i = 7 ∨ code i = 12) → 0 ≤ i.imm ∧ i.imm < aluWidth i) ∧
    (useReg i = false → (code i = 3 ∨ code i = 9) → i.imm ≠ 0) ∧
    (code i = 13 → i.imm = 16 ∨ i.imm = 32 ∨ i.imm = 64) := by
  unfold wfInsn at h
  simp only [ha, if_true, Bool.and_eq_true] at h
  obtain ⟨_, _, h3⟩ := h
  refine ⟨?_, ?_, ?_⟩
  · intro hu hc
    have h13 : ¬ code i = 13 := by omega
    have h8 : ¬ code i = 8 := by omega
    simp only [beq_iff_eq, h13, h8, if_false, hu, Bool.false_eq_true, Bool.and_eq_true] at h3
    have h4 := h3.2.2
    have hc' : (code i == 6 || code i == 7 || code i == 12) = true := by
      rcases hc with h | h | h <;> simp [h]
    simp only [hc', if_true, Bool.and_eq_true, decide_eq_true_eq] at h4
    exact ⟨h4.1, h4.2⟩
  · intro hu hc
    have h13 : ¬ code i = 13 := by omega
    have h8 : ¬ code i = 8 := by omega
    simp only [beq_iff_eq, h13, h8, if_false, hu, Bool.false_eq_true, Bool.and_eq_true] at h3
    have h4 := h3.2.2
    have hs : (code i == 6 || code i == 7 || code i == 12) = false := by
      rcases hc with h | h <;> simp [h]
    have hd : (code i == 3 || code i == 9) = true := by
      rcases hc with h | h <;> simp [h]
    simp only [hs, hd, Bool.false_eq_true, if_false, if_true, bne_iff_ne, ne_eq] at h4
    exact h4
  · intro hc
    simp only [beq_iff_eq, hc, if_true, Bool.and_eq_true, Bool.or_eq_true] at h3
    rcases h3.1.2 with (h | h) | h
    · exact Or.inl h
    · exact Or.inr (Or.inl h)
    · exact Or.inr (Or.inr h)

/-- rule (7) contains `immOk`: what `wfInsn` accepts has a legal constant shift count / a non-zero constant divisor -/
theorem wfInsn_immOk {i : Insn} (h : wfInsn i = true) : immOk i = true := by
  unfold immOk
  cases ha : isAlu i with
  | false => simp
  | true =>
    cases hu : useReg i with
    | true => simp
    | false =>
      obtain ⟨h1, h2, _⟩ := wfInsn_imm h ha
      simp only [Bool.not_false, Bool.and_self, Bool.not_true, Bool.false_or]
      split
      · rename_i hc
        have hc' : code i = 6 ∨ code i = 7 ∨ code i = 12 := by
          simpa [Bool.or_eq_true, or_assoc] using hc
        have := h1 hu hc'
        simp [this.1, this.2]
      · split
        · rename_i hc
          have hc' : code i = 3 ∨ code i = 9 := by simpa [Bool.or_eq_true] using hc
          simpa using h2 hu hc'
        · rfl

end Ebv.C05
