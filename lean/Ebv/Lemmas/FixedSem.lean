import Ebv.Model.GenFixed
import Ebv.Lemmas.Surface
import Ebv.Lemmas.FloatDec
/-! Reference semantics of fixed-point surface expressions over ℚ (`semQ`: the exact rational result of every
operation, dropped by floor to the node's representation) and the arithmetic facts that connect it with the integer
semantics `evalZ` of the trees the operator overloads build. -/
namespace Ebv.GenFixed
open Ebv.Ebpf Ebv.Gen

/-- `FIXED_BASE` as a rational -/
def SQ : Rat := (FB : Rat)

theorem FB_eq : FB = 100000 := rfl
theorem SQ_eq : SQ = 100000 := rfl

/-- drop a rational to the fixed representation (a multiple of `1/FIXED_BASE`), toward minus infinity -/
def fdrop (q : Rat) : Rat := ((q * SQ).floor : Rat) / SQ

/-- the type (`fixed` attribute) of an operation's result -/
def tyOp : FOp → Bool → Bool → Bool
  | .truediv, _, _ => true
  | .floordiv, _, _ => false
  | _, a, b => a || b

/-- **the exact rational result of an operation, dropped to the result's representation** (`fa`, `fb`: the operands'
types) -/
def opQ : FOp → Bool → Bool → Rat → Rat → Rat
  | .add, _, _, x, y => x + y
  | .sub, _, _, x, y => x - y
  | .mul, fa, fb, x, y => if fa && fb then fdrop (x * y) else x * y
  | .truediv, _, _, x, y => fdrop (x / y)
  | .floordiv, _, _, x, y => ((x / y).floor : Rat)
  | .mod, _, _, x, y => x - y * ((x / y).floor : Rat)

def FExpr.isFixed (env : FEnv) : FExpr → Bool
  | .int _ => false
  | .dec _ => true
  | .reg _ _ => false
  | .xreg _ => true
  | .var name => env.fx.contains name
  | .bin op a b => tyOp op (a.isFixed env) (b.isFixed env)

/-- **the value of a surface expression**: a fixed leaf holding the integer `n` stands for `n / FIXED_BASE` -/
def FExpr.semQ (env : FEnv) (σ : State) : FExpr → Rat
  | .int v => (v : Rat)
  | .dec n => (n : Rat) / SQ
  | .reg view no => (viewZ view.long view.signed (σ.regs no) : Rat)
  | .xreg no => ((σ.regs no).toInt : Rat) / SQ
  | .var name =>
    match lookupVar env.locs name with
    | some l =>
      if env.fx.contains name then
        (fmtZ l.fmt (loadN σ.mem (σ.regs l.base + BitVec.ofInt 64 l.off) l.fmt.size) : Rat) / SQ
      else (fmtZ l.fmt (loadN σ.mem (σ.regs l.base + BitVec.ofInt 64 l.off) l.fmt.size) : Rat)
    | Option.none => 0
  | .bin op a b => opQ op (a.isFixed env) (b.isFixed env) (a.semQ env σ) (b.semQ env σ)

/-- what a store leaves in the destination: the scaled integer of a fixed destination, the floor for an integer one -/
def storeQ (destFixed : Bool) (q : Rat) : Int := if destFixed then (q * SQ).floor else q.floor

/-! ## floor and floor division -/

theorem floor_eq_of (a : Rat) (k : Int) (h1 : (k : Rat) ≤ a) (h2 : a < ((k + 1 : Int) : Rat)) : a.floor = k := by
  have l1 : k ≤ a.floor := Rat.le_floor_iff.mpr h1
  have l2 : a.floor < k + 1 := Rat.floor_lt_iff.mpr h2
  omega

theorem floor_div_pos (X Y : Int) (hY : 0 < Y) : ((X : Rat) / (Y : Rat)).floor = X / Y := by
  have hYq : (0 : Rat) < (Y : Rat) := by exact_mod_cast hY
  apply floor_eq_of
  · apply Rat.not_lt.mp
    rw [Rat.div_lt_iff hYq, ← Rat.intCast_mul, Rat.intCast_lt_intCast]
    have := Int.ediv_mul_le X (show Y ≠ 0 by omega)
    omega
  · rw [Rat.div_lt_iff hYq, ← Rat.intCast_mul, Rat.intCast_lt_intCast]
    exact Int.lt_ediv_add_one_mul_self X hY

/-- **the floor of a quotient of integers is Python's floor division** (any signs; `x / 0 = 0` on both sides) -/
theorem floor_div_int (X Y : Int) : ((X : Rat) / (Y : Rat)).floor = Int.fdiv X Y := by
  rcases Int.lt_trichotomy Y 0 with h | h | h
  · have e : (X : Rat) / (Y : Rat) = ((-X : Int) : Rat) / ((-Y : Int) : Rat) := by
      have hy : (Y : Rat) ≠ 0 := by
        intro h0
        have : (Y : Rat) = ((0 : Int) : Rat) := by rw [h0]; rfl
        have := Rat.intCast_inj.mp this
        omega
      rw [Rat.intCast_neg, Rat.intCast_neg]
      grind
    rw [e, floor_div_pos _ _ (by omega), ← Int.fdiv_eq_ediv_of_nonneg _ (by omega), Int.neg_fdiv_neg]
  · subst h
    have : ((0 : Int) : Rat) = 0 := rfl
    rw [this, Rat.div_def, Rat.inv_zero, Rat.mul_zero, Int.fdiv_zero]
    exact Rat.floor_intCast 0
  · rw [floor_div_pos _ _ h, Int.fdiv_eq_ediv_of_nonneg _ (by omega)]

theorem floor_of_ratio (q : Rat) (N D : Int) (h : q = (N : Rat) / (D : Rat)) : q.floor = Int.fdiv N D := by
  rw [h]; exact floor_div_int N D

theorem fdrop_mul (q : Rat) : fdrop q * SQ = ((q * SQ).floor : Rat) := by
  unfold fdrop
  rw [SQ_eq]
  grind

/-! ## the scale factors are the right ones (pure arithmetic; `sc` = common scale of the two operands) -/

theorem sem_floordiv (A D : Int) (qa qb sc : Rat) (hA : (A : Rat) = qa * sc) (hD : (D : Rat) = qb * sc) (hsc : sc ≠ 0) :
    ((Int.fdiv A D : Int) : Rat) = (((qa / qb).floor : Int) : Rat) := by
  congr 1
  symm
  apply floor_of_ratio
  rw [hA, hD]
  by_cases h : qb = 0
  · subst h; simp [Rat.div_def]
  · grind

theorem sem_mod (A D : Int) (qa qb sc : Rat) (hA : (A : Rat) = qa * sc) (hD : (D : Rat) = qb * sc) (hsc : sc ≠ 0) :
    ((Int.fmod A D : Int) : Rat) = (qa - qb * (((qa / qb).floor : Int) : Rat)) * sc := by
  rw [Int.fmod_def, Rat.intCast_sub, Rat.intCast_mul, sem_floordiv A D qa qb sc hA hD hsc, hA, hD]
  grind

theorem sem_truediv (A D : Int) (qa qb sc : Rat) (hA : (A : Rat) = qa * sc * SQ) (hD : (D : Rat) = qb * sc) (hsc : sc ≠ 0) :
    ((Int.fdiv A D : Int) : Rat) = fdrop (qa / qb) * SQ := by
  rw [fdrop_mul]
  congr 1
  symm
  apply floor_of_ratio
  rw [hA, hD]
  by_cases h : qb = 0
  · subst h; simp [Rat.div_def]
  · grind

theorem sem_mul_ff (X Y : Int) (qa qb : Rat) (hX : (X : Rat) = qa * SQ) (hY : (Y : Rat) = qb * SQ) :
    ((Int.fdiv (X * Y) FB : Int) : Rat) = fdrop (qa * qb) * SQ := by
  rw [fdrop_mul]
  congr 1
  symm
  apply floor_of_ratio
  rw [Rat.intCast_mul, hX, hY]
  show qa * qb * SQ = qa * SQ * (qb * SQ) / SQ
  rw [SQ_eq]
  grind

/-! ## `Expression` objects and what they stand for -/

def scale (f : Bool) : Rat := if f then SQ else 1

theorem scale_ne (f : Bool) : scale f ≠ 0 := by cases f <;> simp [scale, SQ_eq] <;> decide

/-- the object `x` stands for the rational `q`: its integer value is `q`, scaled by `FIXED_BASE` if `x` is fixed -/
def Rep (σ : State) (x : FE) (q : Rat) : Prop := (evalZ σ x.e : Rat) = q * scale x.fixed

theorem evalZ_imul (σ : State) (e : Expr) (k : Int) : evalZ σ (imul e k) = evalZ σ e * k := by
  unfold imul
  cases e <;> simp [asConst, evalZ, BinOp.evalZ]

theorem cast_FB : ((FB : Int) : Rat) = SQ := rfl

set_option linter.unusedSimpArgs false

section ops
variable (σ : State) (s v : FE) (qa qb : Rat)

theorem fSum_fixed (op : BinOp) : (fSum op s v).fixed = (s.fixed || v.fixed) := by
  obtain ⟨es, fs⟩ := s; obtain ⟨ev, fv⟩ := v
  cases fs <;> cases fv <;> simp [fSum]

theorem fSum_add_rep (hs : Rep σ s qa) (hv : Rep σ v qb) : Rep σ (fSum .add s v) (qa + qb) := by
  obtain ⟨es, fs⟩ := s; obtain ⟨ev, fv⟩ := v
  cases fs <;> cases fv <;>
    simp only [Rep, fSum, scale, evalZ, BinOp.evalZ, evalZ_imul, Rat.intCast_add, Rat.intCast_mul, cast_FB,
      Bool.false_eq_true, if_false, if_true, bne_self_eq_false, Bool.true_bne, Bool.false_bne, Bool.bne_true,
      Bool.bne_false, Bool.not_true, Bool.not_false, Bool.or_self, Bool.or_true, Bool.or_false] at hs hv ⊢ <;>
    rw [hs, hv] <;> grind

theorem fSum_sub_rep (hs : Rep σ s qa) (hv : Rep σ v qb) : Rep σ (fSum .sub s v) (qa - qb) := by
  obtain ⟨es, fs⟩ := s; obtain ⟨ev, fv⟩ := v
  cases fs <;> cases fv <;>
    simp only [Rep, fSum, scale, evalZ, BinOp.evalZ, evalZ_imul, Rat.intCast_sub, Rat.intCast_mul, cast_FB,
      Bool.false_eq_true, if_false, if_true, bne_self_eq_false, Bool.true_bne, Bool.false_bne, Bool.bne_true,
      Bool.bne_false, Bool.not_true, Bool.not_false, Bool.or_self, Bool.or_true, Bool.or_false] at hs hv ⊢ <;>
    rw [hs, hv] <;> grind

theorem fSum_mod_rep (hs : Rep σ s qa) (hv : Rep σ v qb) :
    Rep σ (fSum .mod s v) (qa - qb * (((qa / qb).floor : Int) : Rat)) := by
  obtain ⟨es, fs⟩ := s; obtain ⟨ev, fv⟩ := v
  cases fs <;> cases fv <;>
    simp only [Rep, fSum, scale, evalZ, BinOp.evalZ, evalZ_imul,
      Bool.false_eq_true, if_false, if_true, bne_self_eq_false, Bool.true_bne, Bool.false_bne, Bool.bne_true,
      Bool.bne_false, Bool.not_true, Bool.not_false, Bool.or_self, Bool.or_true, Bool.or_false] at hs hv ⊢
  · exact sem_mod _ _ qa qb 1 hs hv (by decide)
  · exact sem_mod _ _ qa qb SQ (by rw [Rat.intCast_mul, hs, cast_FB]; grind) hv (scale_ne true)
  · exact sem_mod _ _ qa qb SQ hs (by rw [Rat.intCast_mul, hv, cast_FB]; grind) (scale_ne true)
  · exact sem_mod _ _ qa qb SQ hs hv (scale_ne true)

theorem fMul_fixed : (fMul s v).fixed = (s.fixed || v.fixed) := by
  obtain ⟨es, fs⟩ := s; obtain ⟨ev, fv⟩ := v
  cases fs <;> cases fv <;> simp [fMul]

theorem fMul_rep (hs : Rep σ s qa) (hv : Rep σ v qb) :
    Rep σ (fMul s v) (if s.fixed && v.fixed then fdrop (qa * qb) else qa * qb) := by
  obtain ⟨es, fs⟩ := s; obtain ⟨ev, fv⟩ := v
  cases fs <;> cases fv <;>
    simp only [Rep, fMul, scale, evalZ, BinOp.evalZ, Bool.false_eq_true, if_false, if_true, Bool.and_self,
      Bool.and_true, Bool.and_false, Bool.or_self, Bool.or_true, Bool.or_false] at hs hv ⊢
  · rw [Rat.intCast_mul, hs, hv]; grind
  · rw [Rat.intCast_mul, hs, hv]; grind
  · rw [Rat.intCast_mul, hs, hv]; grind
  · exact sem_mul_ff _ _ qa qb hs hv

theorem fTruediv_rep (hs : Rep σ s qa) (hv : Rep σ v qb) :
    Rep σ (fTruediv s v) (fdrop (qa / qb)) ∧ (fTruediv s v).fixed = true := by
  obtain ⟨es, fs⟩ := s; obtain ⟨ev, fv⟩ := v
  refine ⟨?_, rfl⟩
  cases fs <;> cases fv <;>
    simp (config := { decide := true }) only [Rep, fTruediv, scale, evalZ, BinOp.evalZ, evalZ_imul, Bool.false_eq_true,
      if_false, if_true, Bool.not_true, Bool.not_false, Bool.and_self, Bool.and_true, Bool.and_false,
      beq_self_eq_true] at hs hv ⊢
  · exact sem_truediv _ _ qa qb 1 (by rw [Rat.intCast_mul, hs, cast_FB]) hv (by decide)
  · exact sem_truediv _ _ qa qb SQ (by rw [Rat.intCast_mul, Rat.intCast_mul, hs, cast_FB]; grind) hv (scale_ne true)
  · exact sem_truediv _ _ qa qb 1 (by rw [hs]; grind) hv (by decide)
  · exact sem_truediv _ _ qa qb SQ (by rw [Rat.intCast_mul, hs, cast_FB]) hv (scale_ne true)

theorem fFloordiv_rep (hs : Rep σ s qa) (hv : Rep σ v qb) :
    Rep σ (fFloordiv s v) (((qa / qb).floor : Int) : Rat) ∧ (fFloordiv s v).fixed = false := by
  obtain ⟨es, fs⟩ := s; obtain ⟨ev, fv⟩ := v
  cases fs <;> cases fv <;>
    simp only [Rep, fFloordiv, scale, evalZ, BinOp.evalZ, evalZ_imul, Bool.false_eq_true, if_false, if_true,
      Bool.not_true, Bool.not_false, Bool.and_self, Bool.and_true, Bool.and_false, and_true, Rat.mul_one] at hs hv ⊢
  · exact sem_floordiv _ _ qa qb 1 (by rw [hs]; grind) (by rw [hv]; grind) (by decide)
  · exact sem_floordiv _ _ qa qb SQ (by rw [Rat.intCast_mul, hs, cast_FB]) hv (scale_ne true)
  · exact sem_floordiv _ _ qa qb SQ hs (by rw [Rat.intCast_mul, hv, cast_FB]) (scale_ne true)
  · exact sem_floordiv _ _ qa qb SQ hs hv (scale_ne true)

end ops

end Ebv.GenFixed
