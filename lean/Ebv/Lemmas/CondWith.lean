import Ebv.Lemmas.CondStmt
/-! `with cond: body` and `with cond as Else: body` / `with Else: els` for conditions other than a bare bit test:
the emitted layout is `cond(L) ++ body` resp. `cond(L') ++ body ++ [JMP] ++ els`, and runs the selected branch. -/
namespace Ebv.Gen
open Ebv.Ebpf Ebv.C01

/-- what an emitted block guarantees -/
def BlockOk (o : List Nat) (k : GenM Unit) (semk : State → State → Prop) (ownk : List Nat) : Prop :=
  ∀ g g' : GenState, Sub o g.owners → k g = .ok ((), g') →
    Sub ownk g'.owners ∧ g'.stack = g.stack ∧ ∃ seg, g'.code = g.code ++ seg ∧
      ∀ σ : State, ∃ σ', SegRun seg σ σ' ∧ semk σ σ'

theorem withThen_correct (o : List Nat) (c : CObj) (body : GenM Unit) (semb : State → State → Prop) (ownb : List Nat)
    (hB : BlockOk o body semb ownb) (hsup : Sub o ownb) (hc : c.ok o) :
    BlockOk o (withThen c body)
      (fun σ σ' => ∃ σ1, Keep o σ σ1 ∧ (if c.mtruth σ then semb σ1 σ' else Keep o σ1 σ')) o := by
  intro g g' hsub h
  unfold withThen at h
  rw [bind_ok] at h; obtain ⟨p, g1, hcmp, h⟩ := h
  rw [bind_ok] at h; obtain ⟨u, g2, hbody, h⟩ := h
  rw [bind_ok] at h; obtain ⟨p1, g3, htg, h⟩ := h
  rw [pure_ok] at h; cases h
  have CS := cond_correct c true g g1 p (CObj.ok_mono hsub hc) hcmp
  obtain ⟨segf, hcode, hlen, hpatch, hrun⟩ := CS.code
  obtain ⟨hob, hsb, segb, hcb, hrunb⟩ := hB g1 g2 (by rw [CS.owners]; exact hsub) hbody
  obtain ⟨t1, t2, t3, _, _⟩ := target_ok p false g2 p1 g' htg
  simp only [Bool.false_eq_true, if_false] at t3
  have hl1 : g1.code.length = g.code.length + (segf none).length := by rw [hcode]; simp
  have hl2 : g2.code.length = g1.code.length + segb.length := by rw [hcb]; simp
  refine ⟨?_, by rw [t2, hsb, CS.stack], segf (some g2.code.length) ++ segb, ?_, ?_⟩
  · rw [t3]
    exact interAll_sub o g.owners hsub p CS.ownAll g2.owners (hsup.trans hob)
  · rw [t1]
    have := hpatch none g2.code.length g.code segb rfl
    rw [hcb, hcode] at this ⊢
    rw [this, List.append_assoc]
  · intro σ
    obtain ⟨σ1, hj, hk⟩ := hrun g2.code.length (by omega) σ
    have e : g2.code.length - g.code.length = (segf (some g2.code.length)).length + segb.length := by
      rw [hlen]; omega
    rw [e] at hj
    have hk' : Keep o σ σ1 := hk.mono hsub
    cases hm : c.mtruth σ with
    | true =>
      rw [hm] at hj
      obtain ⟨σ2, hs2, hsem⟩ := hrunb σ1
      exact ⟨σ2, JumpRun.join hj (fun _ => hs2) (fun h => by cases h), σ1, hk', by first | (simp only [hm]; simpa using hsem) | simpa using hsem⟩
    | false =>
      rw [hm] at hj
      exact ⟨σ1, JumpRun.join hj (fun h => by cases h) (fun _ => rfl), σ1, hk', by simp only [hm]; simpa using Keep.refl o σ1⟩

theorem elseGeneric_of_notBits {c : CObj} (h : c.isBits = false) (p : Pend) : elseEnter c p = elseGeneric p := by
  cases c <;> simp [CObj.isBits] at h <;> rfl

theorem withElse_correct (o : List Nat) (c : CObj) (body els : GenM Unit) (semb seme : State → State → Prop)
    (ownb owne : List Nat) (hB : BlockOk o body semb ownb) (hE : BlockOk o els seme owne)
    (hsupb : Sub o ownb) (hsupe : Sub o owne) (hc : c.ok o) (hnb : c.isBits = false) :
    BlockOk o (withElse c body els)
      (fun σ σ' => ∃ σ1, Keep o σ σ1 ∧ (if c.mtruth σ then semb σ1 σ' else seme σ1 σ')) o := by
  intro g g' hsub h
  unfold withElse at h
  simp only [elseGeneric_of_notBits hnb] at h
  rw [bind_ok] at h; obtain ⟨p, g1, hcmp, h⟩ := h
  rw [bind_ok] at h; obtain ⟨u, g2, hbody, h⟩ := h
  rw [bind_ok] at h; obtain ⟨p1, g3, htg, h⟩ := h
  rw [bind_ok] at h; obtain ⟨e, g4, hent, h⟩ := h
  rw [bind_ok] at h; obtain ⟨u2, g5, hels, hexit⟩ := h
  have CS := cond_correct c true g g1 p (CObj.ok_mono hsub hc) hcmp
  obtain ⟨segf, hcode, hlen, hpatch, hrun⟩ := CS.code
  obtain ⟨hob, hsb, segb, hcb, hrunb⟩ := hB g1 g2 (by rw [CS.owners]; exact hsub) hbody
  obtain ⟨t1, t2, t3, t4, _⟩ := target_ok p false g2 p1 g3 htg
  simp only [Bool.false_eq_true, if_false] at t3
  have hl1 : g1.code.length = g.code.length + (segf none).length := by rw [hcode]; simp
  have hl2 : g2.code.length = g1.code.length + segb.length := by rw [hcb]; simp
  have hcode3 : g3.code = g.code ++ segf (some g2.code.length) ++ segb := by
    rw [t1]
    have := hpatch none g2.code.length g.code segb rfl
    rw [hcb, hcode] at this ⊢
    exact this
  have hl3 : g3.code.length = g2.code.length := by rw [t1, patch_length]
  have ho3 : Sub o g3.owners := by
    rw [t3]; exact interAll_sub o g.owners hsub p CS.ownAll g2.owners (hsupb.trans hob)
  have hp1own : Sub o p1.own := target_own_sub htg (by rw [ownAll_own CS.ownAll]; exact hsub) (hsupb.trans hob)
  -- Else(): placeholder and retargeting behind it
  unfold elseGeneric at hent
  rw [bind_ok] at hent; obtain ⟨eo, g3a, hlen3, hent⟩ := hent
  rw [bind_ok] at hent; obtain ⟨u3, g3b, hem, hent⟩ := hent
  rw [bind_ok] at hent; obtain ⟨p2, g3c, htg2, hent⟩ := hent
  rw [pure_ok] at hent
  rw [curLen_ok] at hlen3; rw [emit_ok] at hem
  cases hlen3; cases hem; cases hent
  obtain ⟨r1, r2, r3, _, r5⟩ := target_ok p1 true _ p2 g4 htg2
  simp only [if_true] at r3
  have hp2 : p2 = p1 := r5 rfl
  subst hp2
  have hcode4 : g4.code = g.code ++ segf (some (g2.code.length + 1)) ++ (segb ++ [hole]) := by
    rw [r1, t4]
    simp only [List.length_append, List.length_cons, List.length_nil, hl3]
    rw [hcode3]
    have := hpatch (some g2.code.length) (g2.code.length + 1) g.code (segb ++ [hole]) rfl
    simp only [List.append_assoc] at this ⊢
    exact this
  have ho4 : Sub o g4.owners := by rw [r3]; exact ho3
  obtain ⟨hoe, hse, sege, hce, hrune⟩ := hE g4 g5 ho4 hels
  -- __exit__ with else_origin
  unfold elseExit at hexit
  rw [bind_ok] at hexit; obtain ⟨n, g5a, hn, hexit⟩ := hexit
  rw [bind_ok] at hexit; obtain ⟨u4, g5b, hset, hexit⟩ := hexit
  rw [bind_ok] at hexit; obtain ⟨os, g5c, hos, hexit⟩ := hexit
  erw [bind_ok] at hexit; obtain ⟨u5, g5d, hown, hexit⟩ := hexit
  rw [curLen_ok] at hn; rw [setSlot_ok] at hset; rw [getOwners_ok] at hos
  cases hn; cases hset; cases hos
  cases hown
  simp only [spliceIf] at hexit
  rw [pure_ok] at hexit; cases hexit
  simp only []
  have hlf : (segf (some (g2.code.length + 1))).length = (segf none).length := hlen _
  have hl4 : g4.code.length = g3.code.length + 1 := by
    have hB' := hlen (some g2.code.length)
    rw [hcode4, hcode3]; simp only [List.length_append, List.length_cons, List.length_nil]; omega
  have hl5 : g5.code.length = g3.code.length + 1 + sege.length := by
    rw [hce, List.length_append, hl4]
  refine ⟨?_, by simp [hse, r2, t2, hsb, CS.stack],
    segf (some (g2.code.length + 1)) ++ segb ++ [⟨Consts.op_JMP, 0, 0, (sege.length : Int), 0⟩] ++ sege, ?_, ?_⟩
  · intro n hn
    exact mem_inter.mpr ⟨hoe n (hsupe n hn), hp1own n hn⟩
  · have e1 : g5.code = g.code ++ (segf (some (g2.code.length + 1)) ++ segb ++ [hole]) ++ sege := by
      rw [hce, hcode4]; simp
    have e2 : g3.code.length = g.code.length + (segf (some (g2.code.length + 1)) ++ segb).length := by
      simp only [List.length_append]; omega
    have e3 : ((g5.code.length : Int) - g3.code.length - 1) = sege.length := by rw [hl5]; omega
    rw [e3, e1, e2, set_mid g.code _ sege _ _ (by simp), set_last]
    simp
  · intro σ
    obtain ⟨σ1, hj, hk⟩ := hrun (g2.code.length + 1) (by omega) σ
    have e : g2.code.length + 1 - g.code.length
        = (segf (some (g2.code.length + 1))).length + (segb ++ [(⟨Consts.op_JMP, 0, 0, (sege.length : Int), 0⟩ : Insn)]).length := by
      rw [hlf]; simp only [List.length_append, List.length_cons, List.length_nil]; omega
    rw [e] at hj
    have hk' : Keep o σ σ1 := hk.mono hsub
    cases hm : c.mtruth σ with
    | true =>
      rw [hm] at hj
      obtain ⟨σ2, hs2, hsem⟩ := hrunb σ1
      refine ⟨σ2, ?_, σ1, hk', by first | (simp only [hm]; simpa using hsem) | simpa using hsem⟩
      have hja : JumpRun [(⟨Consts.op_JMP, 0, 0, (sege.length : Int), 0⟩ : Insn)]
          ([(⟨Consts.op_JMP, 0, 0, (sege.length : Int), 0⟩ : Insn)].length + sege.length) σ2 σ2 true :=
        jumpRun_ja _ _ σ2 rfl (by simp) (by simp only [List.length_cons, List.length_nil]; omega)
      have hskip : SegRun ([(⟨Consts.op_JMP, 0, 0, (sege.length : Int), 0⟩ : Insn)] ++ sege) σ2 σ2 :=
        JumpRun.join hja (fun h => by cases h) (fun _ => rfl)
      have := (SegRun.append (SegRun.append hj.toSeg hs2) hskip)
      simpa [List.append_assoc] using this
    | false =>
      rw [hm] at hj
      obtain ⟨σ3, hs3, hsem⟩ := hrune σ1
      refine ⟨σ3, ?_, σ1, hk', by first | (simp only [hm]; simpa using hsem) | simpa using hsem⟩
      have := JumpRun.over hj hs3
      simpa [List.append_assoc] using this

end Ebv.Gen
