import Ebv.Lemmas.CondCalc
/-! `calculate … None …` = `calculate … (some (widthOf e)) …`; where the result of an unforced `calculate` lives. -/
namespace Ebv.Gen
open Ebv.Ebpf

/-- with no destination given, the result is in a register handed out for it (and released with `rel`) or in a
register the expression itself names -/
theorem calc_reg_in (e : Expr) : ∀ (long : Option Bool) (force : Bool) (g g' : GenState) (res : CalcRes),
    calculate e none long force g = .ok (res, g') → res.reg ∈ res.rel ∨ e.contains res.reg = true := by
  induction e with
  | const v =>
    intro long force g g' res h
    simp only [calculate] at h
    rw [bind_ok] at h
    obtain ⟨⟨d1, rel⟩, g1, hfree, h⟩ := h
    obtain ⟨_, _, _, hcase⟩ := getFree_ok hfree
    have hr : rel = [d1] := by
      rcases hcase with ⟨h1, _⟩ | ⟨_, h2, _, _⟩
      · cases h1
      · exact h2
    simp only [] at h
    split at h
    · rw [bind_ok] at h; obtain ⟨u, g2, _, h⟩ := h; rw [pure_ok] at h; cases h
      left; simp [hr]
    · rw [bind_ok] at h; obtain ⟨u, g2, _, h⟩ := h
      rw [bind_ok] at h; obtain ⟨u, g3, _, h⟩ := h; rw [pure_ok] at h; cases h
      left; simp [hr]
  | reg no lg sg =>
    intro long force g g' res h
    simp only [calculate] at h
    rw [bind_ok] at h
    obtain ⟨os, g1, hos, h⟩ := h
    rw [getOwners_ok] at hos; cases hos
    split at h
    · rw [fail_ok] at h; exact h.elim
    · split at h
      · rw [fail_ok] at h; exact h.elim
      · rw [pure_ok] at h; cases h
        right; simp [Expr.contains]
  | bin op l r sg k _ _ =>
    intro long force g g' res h
    simp only [calculate, Expr.containsOpt] at h
    rw [bind_ok] at h; obtain ⟨⟨d0, rel⟩, g1, hfree, h⟩ := h
    obtain ⟨_, _, _, hcase⟩ := getFree_ok hfree
    have hr : rel = [d0] := by
      rcases hcase with ⟨h1, _⟩ | ⟨_, h2, _, _⟩
      · simp at h1
      · exact h2
    simp only [] at h
    rw [bind_ok] at h; obtain ⟨lres, g2, hl, h⟩ := h
    rw [bind_ok] at h; obtain ⟨u1, g3, _, h⟩ := h
    rw [bind_ok] at h; obtain ⟨u2, g4, _, h⟩ := h
    have hd := calc_forced_reg l d0 long g1 g2 lres hl
    unfold binFinish at h
    split at h
    · rw [pure_ok] at h; cases h
      left; simp [hr, hd]
    · rename_i hc; simp at hc
  | neg a _ =>
    intro long force g g' res h
    simp only [calculate] at h
    rw [bind_ok] at h; obtain ⟨⟨d1, rel⟩, g1, hfree, h⟩ := h
    obtain ⟨_, _, _, hcase⟩ := getFree_ok hfree
    have hr : rel = [d1] := by
      rcases hcase with ⟨h1, _⟩ | ⟨_, h2, _, _⟩
      · cases h1
      · exact h2
    simp only [] at h
    rw [bind_ok] at h; obtain ⟨ra, g2, hc, h⟩ := h
    rw [bind_ok] at h; obtain ⟨u, g3, _, h⟩ := h
    rw [pure_ok] at h; cases h
    have hd := calc_forced_reg a d1 long g1 g2 ra hc
    left; simp [hr, hd]
  | abs a _ =>
    intro long force g g' res h
    simp only [calculate] at h
    rw [bind_ok] at h; obtain ⟨⟨d1, rel⟩, g1, hfree, h⟩ := h
    obtain ⟨_, _, _, hcase⟩ := getFree_ok hfree
    have hr : rel = [d1] := by
      rcases hcase with ⟨h1, _⟩ | ⟨_, h2, _, _⟩
      · cases h1
      · exact h2
    simp only [] at h
    rw [bind_ok] at h; obtain ⟨ra, g2, hc, h⟩ := h
    rw [bind_ok] at h; obtain ⟨u, g3, _, h⟩ := h
    rw [pure_ok] at h; cases h
    have hd := calc_forced_reg a d1 long g1 g2 ra hc
    left; simp [hr, hd]
  | mem f a _ =>
    intro long force g g' res h
    cases hs : a.asSum with
    | some bo =>
      simp only [calculate, hs] at h
      rw [bind_ok] at h; obtain ⟨⟨d1, rel⟩, g1, hfree, h⟩ := h
      obtain ⟨_, _, _, hcase⟩ := getFree_ok hfree
      have hr : rel = [d1] := by
        rcases hcase with ⟨h1, _⟩ | ⟨_, h2, _, _⟩
        · cases h1
        · exact h2
      simp only [] at h
      rw [bind_ok] at h; obtain ⟨u, g2, _, h⟩ := h
      rw [pure_ok] at h; cases h
      left; simp [hr]
    | none =>
      simp only [calculate, hs] at h
      rw [bind_ok] at h; obtain ⟨⟨d1, rel⟩, g1, hfree, h⟩ := h
      obtain ⟨_, _, _, hcase⟩ := getFree_ok hfree
      have hr : rel = [d1] := by
        rcases hcase with ⟨h1, _⟩ | ⟨_, h2, _, _⟩
        · cases h1
        · exact h2
      simp only [] at h
      rw [bind_ok] at h; obtain ⟨ares, g2, _, h⟩ := h
      rw [bind_ok] at h; obtain ⟨u, g3, _, h⟩ := h
      rw [pure_ok] at h; cases h
      left; simp [hr]

theorem load_none (d src : Nat) (off : Int) (fmt : Fmt) : load d src off fmt none = load d src off fmt (some fmt.isLong) := by
  cases fmt <;> rfl

theorem retLong_widthOf (e : Expr) : retLong (widthOf e) e = widthOf e := by
  induction e with
  | const v => rfl
  | reg no lg sg => rfl
  | bin op l r sg k _ _ => rfl
  | neg a ih => simp only [retLong, widthOf, ih, Bool.or_self]
  | abs a ih => simp only [retLong, widthOf, ih, Bool.or_self]
  | mem f a _ => rfl

/-- **width `None`**: a `calculate` that is asked for no particular width behaves exactly like one asked for the
width the expression reports (`widthOf`) -/
theorem calc_none (e : Expr) : ∀ (dst : Option Nat) (force : Bool) (g g' : GenState) (res : CalcRes),
    calculate e dst none force g = .ok (res, g') → calculate e dst (some (widthOf e)) force g = .ok (res, g') := by
  induction e with
  | const v => intro dst force g g' res h; simp only [calculate] at h ⊢; exact h
  | reg no lg sg => intro dst force g g' res h; simp only [calculate] at h ⊢; exact h
  | bin op l r sg k ihl _ =>
    intro dst force g g' res h
    simp only [calculate, widthOf] at h ⊢
    rw [bind_ok] at h ⊢
    obtain ⟨⟨d0, rel⟩, g1, hfree, h⟩ := h
    refine ⟨(d0, rel), g1, hfree, ?_⟩
    simp only [] at h ⊢
    rw [bind_ok] at h ⊢
    obtain ⟨lres, g2, hl, h⟩ := h
    refine ⟨lres, g2, ihl _ _ _ _ _ hl, ?_⟩
    have hw := calc_resLong l _ _ _ _ _ _ hl
    simp only [] at hw
    simp only [Option.getD_none, Option.getD_some, hw] at h ⊢
    exact h
  | neg a ih =>
    intro dst force g g' res h
    simp only [calculate, widthOf] at h ⊢
    rw [bind_ok] at h ⊢
    obtain ⟨⟨d1, rel⟩, g1, hfree, h⟩ := h
    refine ⟨(d1, rel), g1, hfree, ?_⟩
    simp only [] at h ⊢
    rw [bind_ok] at h ⊢
    obtain ⟨ra, g2, hc, h⟩ := h
    have hw : ra.long = widthOf a := calc_resLong a _ _ _ _ _ _ hc
    have hu : unaryLong (some (widthOf a)) ra.long = unaryLong none ra.long := by
      rw [hw]; cases widthOf a <;> rfl
    refine ⟨ra, g2, ih _ _ _ _ _ hc, ?_⟩
    rw [hu]; exact h
  | abs a ih =>
    intro dst force g g' res h
    simp only [calculate, widthOf] at h ⊢
    rw [bind_ok] at h ⊢
    obtain ⟨⟨d1, rel⟩, g1, hfree, h⟩ := h
    refine ⟨(d1, rel), g1, hfree, ?_⟩
    simp only [] at h ⊢
    rw [bind_ok] at h ⊢
    obtain ⟨ra, g2, hc, h⟩ := h
    have hw : ra.long = widthOf a := calc_resLong a _ _ _ _ _ _ hc
    have hu : unaryLong (some (widthOf a)) ra.long = unaryLong none ra.long := by
      rw [hw]; cases widthOf a <;> rfl
    refine ⟨ra, g2, ih _ _ _ _ _ hc, ?_⟩
    rw [hu]; exact h
  | mem f a _ =>
    intro dst force g g' res h
    cases hs : a.asSum with
    | some bo => simp only [calculate, hs, widthOf, load_none] at h ⊢; exact h
    | none => simp only [calculate, hs, widthOf, load_none] at h ⊢; exact h

/-- operands whose register content is known exactly (all 64 bits) although they report 32 bits: constants and
unsigned variables of 1, 2, 4 bytes (the load zero-extends, no shift pair) -/
def exactShort : Expr → Bool
  | .const _ => true
  | .mem f a => (f == .B || f == .H || f == .I) && a.asSum.isSome
  | _ => false

theorem calc_exact (e : Expr) (he : exactShort e = true) (dst : Option Nat) (force : Bool) :
    calculate e dst none force = calculate e dst (some true) force := by
  cases e with
  | const v => simp only [calculate]
  | mem f a =>
    simp only [exactShort, Bool.and_eq_true, Bool.or_eq_true, beq_iff_eq, Option.isSome_iff_exists] at he
    obtain ⟨hf, ⟨bo, hs⟩⟩ := he
    have hl : ∀ d s o, load d s o f none = load d s o f (some true) := by
      intro d s o
      rcases hf with (rfl | rfl) | rfl <;> rfl
    simp only [calculate, hs, hl]
  | reg _ _ _ => simp [exactShort] at he
  | bin _ _ _ _ _ => simp [exactShort] at he
  | neg _ => simp [exactShort] at he
  | abs _ => simp [exactShort] at he

end Ebv.Gen
