import Ebv.Lemmas.XdpSeg
/-! Rewrite rules for the further opcodes the fast-group programs (Motor, bare groups) use: stores of immediates,
64-bit SUB/MUL/shifts, 32-bit OR/shifts, signed compares on 64 and 32 bits. -/
namespace Ebv.XdpRun
open Ebv.Ebpf

local macro "op_tac" : tactic =>
  `(tactic| (simp [stepO, stepI, alu, Ebpf.cond, Ebpf.sizeOf, State.setReg, jmp] <;> rfl))
local macro "jmp_tac" h:ident : tactic =>
  `(tactic| (simp [stepO, stepI, Ebpf.cond, jmp, $h:ident]))

variable (prog : List Insn) (R : Nat → W) (M : W → BitVec 8) (pc d n : Nat) (o v : Int)

theorem op_stb : stepO prog ⟨R, M, pc⟩ (some ⟨114, d, n, o, v⟩) =
    .next ⟨R, storeN M (R d + BitVec.ofInt 64 o) 1 (simm v).toNat, pc + 1⟩ := by op_tac
theorem op_sth : stepO prog ⟨R, M, pc⟩ (some ⟨106, d, n, o, v⟩) =
    .next ⟨R, storeN M (R d + BitVec.ofInt 64 o) 2 (simm v).toNat, pc + 1⟩ := by op_tac
theorem op_sub64r : stepO prog ⟨R, M, pc⟩ (some ⟨31, d, n, o, v⟩) = .next ⟨upd R d (R d - R n), M, pc + 1⟩ := by op_tac
theorem op_mul64r : stepO prog ⟨R, M, pc⟩ (some ⟨47, d, n, o, v⟩) = .next ⟨upd R d (R d * R n), M, pc + 1⟩ := by op_tac
theorem op_lsh64i : stepO prog ⟨R, M, pc⟩ (some ⟨103, d, n, o, v⟩) =
    .next ⟨upd R d (R d <<< ((simm v).toNat % 64)), M, pc + 1⟩ := by op_tac
theorem op_arsh64i : stepO prog ⟨R, M, pc⟩ (some ⟨199, d, n, o, v⟩) =
    .next ⟨upd R d ((R d).sshiftRight ((simm v).toNat % 64)), M, pc + 1⟩ := by op_tac
theorem op_or32i : stepO prog ⟨R, M, pc⟩ (some ⟨68, d, n, o, v⟩) =
    .next ⟨upd R d (BitVec.setWidth 64 (BitVec.setWidth 32 (R d) ||| BitVec.setWidth 32 (simm v))), M, pc + 1⟩ := by op_tac
theorem op_lsh32i : stepO prog ⟨R, M, pc⟩ (some ⟨100, d, n, o, v⟩) =
    .next ⟨upd R d (BitVec.setWidth 64 (BitVec.setWidth 32 (R d) <<< ((BitVec.setWidth 32 (simm v)).toNat % 32))), M, pc + 1⟩ := by
  op_tac
theorem op_arsh32i : stepO prog ⟨R, M, pc⟩ (some ⟨196, d, n, o, v⟩) =
    .next ⟨upd R d (BitVec.setWidth 64 ((BitVec.setWidth 32 (R d)).sshiftRight ((BitVec.setWidth 32 (simm v)).toNat % 32))),
      M, pc + 1⟩ := by op_tac
theorem op_jeq_i : stepO prog ⟨R, M, pc⟩ (some ⟨21, d, n, o, v⟩) =
    if R d = simm v then jmp pc o R M else .next ⟨R, M, pc + 1⟩ := by
  by_cases h : R d = simm v
  · jmp_tac h
  · have hb : (R d == simm v) = false := by simpa using h
    simp [stepO, stepI, Ebpf.cond, h, hb]
theorem op_jsle_r : stepO prog ⟨R, M, pc⟩ (some ⟨221, d, n, o, v⟩) =
    if (R d).toInt ≤ (R n).toInt then jmp pc o R M else .next ⟨R, M, pc + 1⟩ := by
  by_cases h : (R d).toInt ≤ (R n).toInt <;> jmp_tac h
theorem op_jsge_r : stepO prog ⟨R, M, pc⟩ (some ⟨125, d, n, o, v⟩) =
    if (R n).toInt ≤ (R d).toInt then jmp pc o R M else .next ⟨R, M, pc + 1⟩ := by
  by_cases h : (R n).toInt ≤ (R d).toInt <;> jmp_tac h
theorem op_jsge_i : stepO prog ⟨R, M, pc⟩ (some ⟨117, d, n, o, v⟩) =
    if (simm v).toInt ≤ (R d).toInt then jmp pc o R M else .next ⟨R, M, pc + 1⟩ := by
  by_cases h : (simm v).toInt ≤ (R d).toInt <;> jmp_tac h
theorem op_jsge32_i : stepO prog ⟨R, M, pc⟩ (some ⟨118, d, n, o, v⟩) =
    if (BitVec.setWidth 32 (simm v)).toInt ≤ (BitVec.setWidth 32 (R d)).toInt then jmp pc o R M
    else .next ⟨R, M, pc + 1⟩ := by
  simp [stepO, stepI, Ebpf.cond, jmp]
  split <;> simp_all <;> (intro h; omega)
theorem op_jsle32_i : stepO prog ⟨R, M, pc⟩ (some ⟨214, d, n, o, v⟩) =
    if (BitVec.setWidth 32 (R d)).toInt ≤ (BitVec.setWidth 32 (simm v)).toInt then jmp pc o R M
    else .next ⟨R, M, pc + 1⟩ := by
  simp [stepO, stepI, Ebpf.cond, jmp]
  split <;> simp_all <;> (intro h; omega)

/-- `xsim` with the rules for the opcodes above -/
macro "ysim" "[" ls:Lean.Parser.Tactic.simpLemma,* "]" : tactic => `(tactic|
  xsim [op_stb, op_sth, op_sub64r, op_mul64r, op_lsh64i, op_arsh64i, op_or32i, op_lsh32i, op_arsh32i, op_jeq_i,
    op_jsle_r, op_jsge_r, op_jsge_i, op_jsge32_i, op_jsle32_i, loadN_storeN_disj, $ls,*])

end Ebv.XdpRun
