import Ebv.Lemmas.Sem
/-! `calc_correct`: the code `calculate` emits computes `evalBV` into the result register, leaves every other owned
register and the memory alone, and restores `owners` — by structural induction over the expression tree. -/
namespace Ebv.Gen
open Ebv.Ebpf

/-! ## unpacking the generator monad -/

theorem bind_ok {α β} {x : GenM α} {f : α → GenM β} {g : GenState} {r : β × GenState} :
    (x >>= f) g = .ok r ↔ ∃ a g1, x g = .ok (a, g1) ∧ f a g1 = .ok r := by
  show GenM.bind x f g = .ok r ↔ _
  unfold GenM.bind
  constructor
  · intro h
    split at h
    · rename_i a g1 hx; exact ⟨a, g1, hx, h⟩
    · cases h
  · rintro ⟨a, g1, hx, hf⟩
    rw [hx]; exact hf

theorem pure_ok {α} {a : α} {g : GenState} {r : α × GenState} : (pure a : GenM α) g = .ok r ↔ r = (a, g) := by
  show GenM.pure a g = .ok r ↔ _
  unfold GenM.pure
  constructor
  · intro h; cases h; rfl
  · intro h; rw [h]

theorem emit_ok {i : Insn} {g : GenState} {r : Unit × GenState} :
    emit i g = .ok r ↔ r = ((), { g with code := g.code ++ [i] }) := by
  unfold emit; constructor
  · intro h; cases h; rfl
  · intro h; rw [h]

theorem release_ok {rel : List Nat} {g : GenState} {r : Unit × GenState} :
    release rel g = .ok r ↔ r = ((), { g with owners := g.owners.filter fun k => !rel.contains k }) := by
  unfold release; constructor
  · intro h; cases h; rfl
  · intro h; rw [h]

theorem addOwner_ok {n : Nat} {g : GenState} {r : Unit × GenState} :
    addOwner n g = .ok r ↔ r = ((), { g with owners := if g.owners.contains n then g.owners else n :: g.owners }) := by
  unfold addOwner; constructor
  · intro h; cases h; rfl
  · intro h; rw [h]

theorem getOwners_ok {g : GenState} {r : List Nat × GenState} : getOwners g = .ok r ↔ r = (g.owners, g) := by
  unfold getOwners; constructor
  · intro h; cases h; rfl
  · intro h; rw [h]

theorem fail_ok {α} {e : AsmError} {g : GenState} {r : α × GenState} : (fail e : GenM α) g = .ok r ↔ False := by
  unfold fail; constructor
  · intro h; cases h
  · intro h; exact h.elim

theorem firstFree_spec {o : List Nat} {i : Nat} (h : firstFree o = some i) : i ∉ o ∧ i < 10 := by
  unfold firstFree at h
  have h1 := List.find?_some h
  have h2 := List.mem_of_find?_eq_some h
  simp at h1 h2
  exact ⟨h1, h2⟩

/-- `get_free_register`: either the given register, or a fresh one that is added to `owners` -/
theorem getFree_ok {dst : Option Nat} {g : GenState} {d : Nat} {rel : List Nat} {g1 : GenState}
    (h : getFree dst g = .ok ((d, rel), g1)) :
    g1.code = g.code ∧ g1.stack = g.stack ∧ g1.owners = rel ++ g.owners ∧
      ((dst = some d ∧ rel = []) ∨ (dst = none ∧ rel = [d] ∧ d ∉ g.owners ∧ d < 10)) := by
  cases dst with
  | some n =>
    simp only [getFree] at h
    rw [pure_ok] at h
    cases h
    exact ⟨rfl, rfl, rfl, Or.inl ⟨rfl, rfl⟩⟩
  | none =>
    simp only [getFree] at h
    split at h
    · rename_i i hi
      cases h
      obtain ⟨h1, h2⟩ := firstFree_spec hi
      exact ⟨rfl, rfl, rfl, Or.inr ⟨rfl, rfl, h1, h2⟩⟩
    · cases h

theorem filter_release (rel o : List Nat) (h : ∀ x ∈ rel, x ∉ o) :
    (rel ++ o).filter (fun k => !rel.contains k) = o := by
  rw [List.filter_append]
  have h1 : rel.filter (fun k => !rel.contains k) = [] := by
    apply List.filter_eq_nil_iff.mpr
    intro a ha; simp [ha]
  have h2 : o.filter (fun k => !rel.contains k) = o := by
    apply List.filter_eq_self.mpr
    intro a ha
    simp
    intro hr; exact h a hr ha
  rw [h1, h2]; rfl

/-- the code of `abs` behind its argument: two instructions, `owners` unchanged; refused if the register is not owned -/
theorem absTail_ok {reg : Nat} {long : Bool} {g : GenState} {r : Unit × GenState} (h : absTail reg long g = .ok r) :
    reg ∈ g.owners ∧ r = ((), { g with code := g.code ++ [⟨absTest long, reg, 0, 1, 0⟩,
      ⟨Consts.op_NEG + longBit long, reg, 0, 0, 0⟩] }) := by
  unfold absTail at h
  rw [bind_ok] at h
  obtain ⟨os, g1, hos, h⟩ := h
  rw [getOwners_ok] at hos
  cases hos
  split at h
  · rw [bind_ok] at h
    obtain ⟨_, _, hf, _⟩ := h
    rw [fail_ok] at hf; exact hf.elim
  · rename_i hown
    rw [bind_ok] at h
    obtain ⟨u1, g4, he1, h⟩ := h
    rw [bind_ok] at h
    obtain ⟨u2, g5, hadd, h⟩ := h
    rw [emit_ok] at he1 h
    rw [addOwner_ok] at hadd
    cases h; cases hadd; cases he1
    have hc : g.owners.contains reg = true := by simpa using hown
    have hm : reg ∈ g.owners := by simpa using hc
    exact ⟨hm, by simp [hm]⟩

/-! ## values of immediates -/

theorem simm_small (v : Int) (h : isSmall v = true) : simm v = BitVec.ofInt 64 v := by
  simp [isSmall, Consts.small_lo_neg, Consts.small_hi] at h
  unfold simm imm32 BitVec.signExtend
  rw [BitVec.toInt_ofInt]
  congr 1
  have h' := of_decide_eq_true h
  apply Int.bmod_eq_of_le <;> (simp; omega)

theorem ld_imm64_val (v : Int) :
    (imm32 (v % 4294967296)).zeroExtend 64 ||| ((imm32 (v / 4294967296)).zeroExtend 64 <<< 32) = BitVec.ofInt 64 v := by
  apply BitVec.eq_of_toNat_eq
  simp only [imm32, BitVec.toNat_or, BitVec.toNat_shiftLeft, BitVec.toNat_setWidth, BitVec.toNat_ofInt]
  have hlo : (v % 4294967296 % ((2:Nat) ^ 32 : Nat)).toNat < 2 ^ 32 := by omega
  generalize hA : (v % 4294967296 % ((2:Nat) ^ 32 : Nat)).toNat = A at *
  generalize hB : (v / 4294967296 % ((2:Nat) ^ 32 : Nat)).toNat = B at *
  have hB2 : B < 2 ^ 32 := by omega
  have e1 : A % 2 ^ 64 = A := Nat.mod_eq_of_lt (by omega)
  have e2 : B % 2 ^ 64 = B := Nat.mod_eq_of_lt (by omega)
  rw [e1, e2]
  have e3 : B <<< 32 % 2 ^ 64 = B <<< 32 := by
    rw [Nat.shiftLeft_eq]; apply Nat.mod_eq_of_lt; omega
  rw [e3, Nat.or_comm, ← Nat.shiftLeft_add_eq_or_of_lt hlo, Nat.shiftLeft_eq]
  omega

/-! ## the statement -/

def dctx : Option Nat → DstCtx
  | none => .any
  | some n => .reg n

/-- what a successful `calculate e dst (some b) force` from `g` guarantees -/
structure Post (e : Expr) (dst : Option Nat) (b force : Bool) (g : GenState) (res : CalcRes) (g' : GenState) : Prop where
  run : ∃ c, g'.code = g.code ++ c ∧ (∀ i ∈ c, straight i = true) ∧
    ∀ σ : State, ∃ σ', exec c σ = some σ' ∧ Agree b (σ'.regs res.reg) (evalBV σ b e) ∧
      (∀ n ∈ g.owners, dst ≠ some n → σ'.regs n = σ.regs n) ∧ σ'.mem = σ.mem
  owners : g'.owners = res.rel ++ g.owners
  fresh : ∀ x ∈ res.rel, x ∉ g.owners
  stack : g'.stack = g.stack
  long : res.long = retLong b e
  place : (force = true ∨ regChain e = false) → (dst = some res.reg ∨ (dst = none ∧ res.reg ∉ g.owners))

/-- the hypotheses under which `calculate` is correct -/
structure Pre (e : Expr) (dst : Option Nat) (b force : Bool) (g : GenState) : Prop where
  dstOwned : ∀ n, dst = some n → n ∈ g.owners
  forced : force = true → dst ≠ none
  leaves : leavesOwned g.owners e
  frag : e.frag = true
  narrow : narrowIn64 e b force (dctx dst) = false

theorem calc_const (v : Int) (dst : Option Nat) (b force : Bool) (g g' : GenState) (res : CalcRes)
    (h : calculate (.const v) dst (some b) force g = .ok (res, g')) : Post (.const v) dst b force g res g' := by
  simp only [calculate] at h
  rw [bind_ok] at h
  obtain ⟨⟨d, rel⟩, g1, hfree, h⟩ := h
  obtain ⟨hc1, hs1, ho1, hcase⟩ := getFree_ok hfree
  have hplace : dst = some d ∨ (dst = none ∧ d ∉ g.owners) := by
    rcases hcase with ⟨h1, _⟩ | ⟨h1, _, h3, _⟩
    · exact Or.inl h1
    · exact Or.inr ⟨h1, h3⟩
  have hfresh : ∀ x ∈ rel, x ∉ g.owners := by
    rcases hcase with ⟨_, h2⟩ | ⟨_, h2, h3, _⟩
    · simp [h2]
    · simp [h2, h3]
  split at h
  · rename_i hsmall
    rw [bind_ok] at h
    obtain ⟨u, g2, hemit, h⟩ := h
    rw [pure_ok] at h
    rw [emit_ok] at hemit
    cases h; cases hemit
    refine ⟨⟨_, by rw [hc1], ?_, ?_⟩, ho1, hfresh, hs1, rfl, fun _ => hplace⟩
    · intro i hi; simp at hi; subst hi; straight_tac
    · intro σ
      refine ⟨_, exec_mov_imm σ d v, ?_, ?_, rfl⟩
      · simp [evalBV, simm_small v hsmall, Agree.refl]
      · intro n hn hne
        apply State.setReg_other
        rcases hplace with h1 | ⟨_, h2⟩
        · intro e; subst e; exact hne h1
        · intro e; subst e; exact h2 hn
  · rw [bind_ok] at h
    obtain ⟨u1, g3, he1, h⟩ := h
    rw [bind_ok] at h
    obtain ⟨u2, g4, he2, h⟩ := h
    rw [pure_ok] at h
    rw [emit_ok] at he1 he2
    cases h; cases he2; cases he1
    refine ⟨⟨_, by simp only [hc1, List.append_assoc]; rfl, ?_, ?_⟩, ho1, hfresh, hs1, rfl, fun _ => hplace⟩
    · intro i hi
      simp at hi
      rcases hi with hi | hi <;> subst hi <;> straight_tac
    · intro σ
      refine ⟨_, exec_ld_imm64 σ d _ _, ?_, ?_, rfl⟩
      · simp [evalBV, ld_imm64_val, Agree.refl]
      · intro n hn hne
        apply State.setReg_other
        rcases hplace with h1 | ⟨_, h2⟩
        · intro e; subst e; exact hne h1
        · intro e; subst e; exact h2 hn

theorem trunc_lo32 (x : W) : (lo32 x).truncate 32 = x.truncate 32 := by
  simp [lo32]

theorem trunc_sext32 (x : W) : ((x.truncate 32).signExtend 64).truncate 32 = x.truncate 32 := by
  rw [BitVec.truncate_eq_setWidth, setWidth_signExtend 32 32 64 _ (by omega) (by omega)]
  simp

theorem reg_agree (σ : State) (b lg sg : Bool) (no : Nat) (h : b = true → lg = true) :
    Agree b (σ.regs no) (evalBV σ b (.reg no lg sg)) := by
  cases lg
  · cases b
    · cases sg <;> simp [Agree, evalBV, trunc_lo32, trunc_sext32]
    · simp at h
  · simp [evalBV, Agree.refl]

theorem calc_reg (no : Nat) (lg sg : Bool) (dst : Option Nat) (b force : Bool) (g g' : GenState) (res : CalcRes)
    (hp : Pre (.reg no lg sg) dst b force g)
    (h : calculate (.reg no lg sg) dst (some b) force g = .ok (res, g')) :
    Post (.reg no lg sg) dst b force g res g' := by
  simp only [calculate] at h
  rw [bind_ok] at h
  obtain ⟨os, g1, hos, h⟩ := h
  rw [getOwners_ok] at hos
  cases hos
  have hn := hp.narrow
  simp only [narrowIn64] at hn
  split at h
  · rw [fail_ok] at h; exact h.elim
  · split at h
    · rename_i hmv
      simp only [Bool.and_eq_true, bne_iff_ne, ne_eq] at hmv
      obtain ⟨hf, hne⟩ := hmv
      cases dst with
      | none => simp only [] at h; rw [fail_ok] at h; exact h.elim
      | some d =>
        simp only [] at h
        rw [bind_ok] at h
        obtain ⟨u, g2, hemit, h⟩ := h
        rw [pure_ok] at h
        rw [emit_ok] at hemit
        cases h; cases hemit
        have hdn : d ≠ no := fun e => hne (by rw [e])
        refine ⟨⟨_, rfl, ?_, ?_⟩, rfl, by simp, rfl, rfl, fun _ => Or.inl rfl⟩
        · intro i hi; simp at hi; subst hi; cases lg <;> straight_tac
        · intro σ
          refine ⟨_, exec_mov_reg σ lg d no, ?_, ?_, rfl⟩
          · simp only [State.norm_regs, State.setReg_same]
            cases lg
            · cases b
              · cases sg <;> simp [Agree, evalBV, trunc_lo32, trunc_sext32]
              · simp [hf, dctx, hdn] at hn
                subst hn
                simp [Agree, evalBV]
            · simp [evalBV, Agree.refl]
          · intro n _ hnd
            apply State.setReg_other
            intro e; subst e; exact hnd rfl
    · rename_i hmv
      rw [pure_ok] at h
      cases h
      refine ⟨⟨[], by simp, by simp, ?_⟩, rfl, by simp, rfl, rfl, ?_⟩
      · intro σ
        refine ⟨_, exec_nil σ, ?_, fun _ _ _ => rfl, rfl⟩
        apply reg_agree
        intro hb
        subst hb
        cases lg
        · simp at hn
          obtain ⟨_, hn2⟩ := hn
          simp [hn2.1] at hmv
          exfalso
          apply hn2.2
          cases dst with
          | none => simp at hmv
          | some d => simp at hmv; simp [dctx, hmv]
        · rfl
      · intro hor
        simp [regChain] at hor
        subst hor
        simp at hmv
        exact Or.inl hmv

theorem not_contains_of_leaves {o : List Nat} {e : Expr} (hl : leavesOwned o e) {d : Nat} (hd : d ∉ o) :
    e.contains d = false := by
  cases h : e.contains d
  · rfl
  · exact absurd (contains_of_leaves hl h) hd

theorem narrow_temp_reg {o : List Nat} {d0 : Nat} (hd : d0 ∉ o) : ∀ (e : Expr) (L f : Bool), leavesOwned o e →
    narrowIn64 e L f (.reg d0) = narrowIn64 e L f .temp := by
  intro e
  induction e with
  | const v => intro L f _; rfl
  | reg no lg sg =>
    intro L f hl
    have : no ≠ d0 := fun e => hd (e ▸ hl)
    have e1 : (DstCtx.reg d0 != DstCtx.reg no) = true := by
      simp only [bne_iff_ne, ne_eq, DstCtx.reg.injEq]; exact Ne.symm this
    have e2 : (DstCtx.temp != DstCtx.reg no) = true := by simp
    simp only [narrowIn64, e1, e2]
  | bin op l r sg k ihl _ =>
    intro L f hl
    simp only [narrowIn64, DstCtx.forLeft, not_contains_of_leaves hl.2 hd]
    simp only [Bool.false_eq_true, if_false]
    rw [ihl L true hl.1]
  | neg a ih => intro L f hl; simp only [narrowIn64, DstCtx.forced]; exact ih L true hl
  | abs a ih => intro L f hl; simp only [narrowIn64, DstCtx.forced]; exact ih L true hl
  | mem fm a _ => intro L f _; simp only [narrowIn64]

/-- the induction hypothesis for a sub-expression -/
def IH (a : Expr) : Prop := ∀ (dst : Option Nat) (b force : Bool) (g g' : GenState) (res : CalcRes),
  Pre a dst b force g → calculate a dst (some b) force g = .ok (res, g') → Post a dst b force g res g'

theorem trunc_neg64 (x : W) : (-x).truncate 32 = -(x.truncate 32) := by
  apply BitVec.eq_of_toNat_eq
  simp [BitVec.toNat_neg]

theorem neg_agree (b lg : Bool) (x A : W) (h : Agree b x A) (hl : b = true → lg = true) :
    Agree b (negSem lg x) (negSem b A) := by
  cases b
  · simp [Agree] at h ⊢
    cases lg
    · simp [negSem, h]
    · simp [negSem, h]
  · simp [Agree] at h
    simp [hl rfl, h, Agree.refl]

theorem calc_neg (a : Expr) (ih : IH a) (dst : Option Nat) (b force : Bool) (g g' : GenState) (res : CalcRes)
    (hp : Pre (.neg a) dst b force g)
    (h : calculate (.neg a) dst (some b) force g = .ok (res, g')) :
    Post (.neg a) dst b force g res g' := by
  simp only [calculate] at h
  rw [bind_ok] at h
  obtain ⟨⟨d, rel⟩, g1, hfree, h⟩ := h
  simp only [] at h
  rw [bind_ok] at h
  obtain ⟨ra, g2, hcalc, h⟩ := h
  rw [bind_ok] at h
  obtain ⟨u, g3, hemit, h⟩ := h
  rw [pure_ok] at h
  rw [emit_ok] at hemit
  cases h; cases hemit
  have hlg : unaryLong (some b) ra.long = (b || ra.long) := by cases b <;> rfl
  rw [hlg]
  obtain ⟨hc1, hs1, ho1, hcase⟩ := getFree_ok hfree
  have hplace : dst = some d ∨ (dst = none ∧ d ∉ g.owners) := by
    rcases hcase with ⟨h1, _⟩ | ⟨h1, _, h3, _⟩
    · exact Or.inl h1
    · exact Or.inr ⟨h1, h3⟩
  have hfresh : ∀ x ∈ rel, x ∉ g.owners := by
    rcases hcase with ⟨_, h2⟩ | ⟨_, h2, h3, _⟩
    · simp [h2]
    · simp [h2, h3]
  have hsub : ∀ n, n ∈ g.owners → n ∈ g1.owners := fun n hn => by rw [ho1]; exact List.mem_append_right _ hn
  have hdown : d ∈ g1.owners := by
    rw [ho1]
    rcases hcase with ⟨h1, _⟩ | ⟨_, h2, _, _⟩
    · exact List.mem_append_right _ (hp.dstOwned d h1)
    · simp [h2]
  have hnar := hp.narrow
  simp only [narrowIn64] at hnar
  have hpa : Pre a (some d) b true g1 := by
    refine ⟨fun n hn => (by cases hn; exact hdown), fun _ => (by simp), leavesOwned_mono hsub hp.leaves, hp.frag, ?_⟩
    rcases hplace with h1 | ⟨h1, h2⟩
    · subst h1; simpa [dctx, DstCtx.forced] using hnar
    · subst h1
      rw [dctx, narrow_temp_reg h2 a b true hp.leaves]
      simpa [dctx, DstCtx.forced] using hnar
  have post := ih (some d) b true g1 g2 ra hpa hcalc
  obtain ⟨c, hc, hst, hrun⟩ := post.run
  have hreg : ra.reg = d := by
    rcases post.place (Or.inl rfl) with h1 | ⟨h1, _⟩
    · cases h1; rfl
    · cases h1
  have hne_d : ∀ n ∈ g.owners, dst ≠ some n → n ≠ d := by
    intro n hn hnd e
    subst e
    rcases hplace with h1 | ⟨_, h2⟩
    · exact hnd h1
    · exact h2 hn
  refine ⟨⟨c ++ [⟨Consts.op_NEG + longBit (b || ra.long), ra.reg, 0, 0, 0⟩], by simp [hc, hc1], ?_, ?_⟩, ?_, ?_, by simp [post.stack, hs1], ?_, ?_⟩
  · intro i hi
    simp at hi
    rcases hi with hi | hi
    · exact hst i hi
    · subst hi; cases (b || ra.long) <;> straight_tac
  · intro σ
    obtain ⟨σ1, he, hv, hfr, hm⟩ := hrun σ
    refine ⟨(σ1.setReg ra.reg (negSem (b || ra.long) (σ1.regs ra.reg))).norm, ?_, ?_, ?_, ?_⟩
    · rw [exec_append he]; exact exec_neg σ1 (b || ra.long) ra.reg
    · simp only [State.norm_regs, State.setReg_same, evalBV]
      apply neg_agree _ _ _ _ hv
      intro hb; subst hb
      rfl
    · intro n hn hnd
      simp only [State.norm_regs]
      have hnd' := hne_d n hn hnd
      rw [hreg, State.setReg_other _ _ _ _ hnd']
      exact hfr n (hsub n hn) (by intro e; cases e; exact hnd' rfl)
    · simpa using hm
  · simp only [post.owners, ho1, List.append_assoc]
  · intro x hx
    rcases List.mem_append.mp hx with hx | hx
    · exact fun hxg => post.fresh x hx (hsub x hxg)
    · exact hfresh x hx
  · simp [retLong, post.long]
  · intro _; rw [hreg]; exact hplace

/-- the instructions `load` emits -/
def loadCode (d src : Nat) (off : Int) (fmt : Fmt) (b : Bool) : List Insn :=
  ⟨Consts.op_LD + fmt.sizeOp, d, src, off, 0⟩ ::
    (if needShift fmt b then
      [⟨Consts.op_LSH + longBit b, d, 0, 0, shiftAmt fmt b⟩, ⟨Consts.op_ARSH + longBit b, d, 0, 0, shiftAmt fmt b⟩]
     else [])

theorem load_ok {d src : Nat} {off : Int} {fmt : Fmt} {b : Bool} {g g' : GenState}
    (h : load d src off fmt (some b) g = .ok ((), g')) :
    g'.code = g.code ++ loadCode d src off fmt b ∧ g'.stack = g.stack ∧
      g'.owners = (if needShift fmt b then (if g.owners.contains d then g.owners else d :: g.owners) else g.owners) := by
  have hb : (some b == some true) = b := by cases b <;> rfl
  simp only [load, hb] at h
  rw [bind_ok] at h
  obtain ⟨u, g1, he, h⟩ := h
  rw [emit_ok] at he
  cases he
  have hc : (fmt == .h || fmt == .b || (b && fmt == .i)) = needShift fmt b := rfl
  rw [hc] at h
  split at h
  · rename_i hs
    rw [bind_ok] at h
    obtain ⟨u1, g2, h1, h⟩ := h
    rw [bind_ok] at h
    obtain ⟨u2, g3, h2, h⟩ := h
    rw [addOwner_ok] at h1
    rw [emit_ok] at h2 h
    cases h1; cases h2; cases h
    simp [loadCode, hs, shiftAmt]
  · rename_i hs
    rw [pure_ok] at h
    cases h
    simp [loadCode, hs]

theorem loadCode_straight (d src : Nat) (off : Int) (fmt : Fmt) (b : Bool) :
    ∀ i ∈ loadCode d src off fmt b, straight i = true := by
  intro i hi
  simp only [loadCode, List.mem_cons] at hi
  rcases hi with hi | hi
  · subst hi; cases fmt <;> straight_tac
  · split at hi
    · simp at hi; rcases hi with hi | hi <;> subst hi <;> cases b <;> straight_tac
    · simp at hi

theorem loadCode_exec (σ : State) (d src : Nat) (off : Int) (fmt : Fmt) (b : Bool) :
    ∃ σ', exec (loadCode d src off fmt b) σ = some σ' ∧
      σ'.regs d = loadVal fmt b (loadN σ.mem (σ.regs src + BitVec.ofInt 64 off) fmt.size) ∧
      (∀ n, n ≠ d → σ'.regs n = σ.regs n) ∧ σ'.mem = σ.mem := by
  have h1 := exec_ldx σ fmt d src off
  unfold loadCode loadVal
  split
  · generalize hs1 : (σ.setReg d (BitVec.ofNat 64 (loadN σ.mem (σ.regs src + BitVec.ofInt 64 off) fmt.size))).norm = σ1 at h1
    have h2 := exec_alu_imm σ1 .lsh b d (shiftAmt fmt b)
    simp only [BinOp.opcode] at h2
    generalize hs2 : (σ1.setReg d (aluSem .lsh b (σ1.regs d) (simm (shiftAmt fmt b)))).norm = σ2 at h2
    have h3 := exec_alu_imm σ2 .arsh b d (shiftAmt fmt b)
    simp only [BinOp.opcode] at h3
    refine ⟨(σ2.setReg d (aluSem BinOp.arsh b (σ2.regs d) (simm (shiftAmt fmt b)))).norm, ?_, ?_, ?_, ?_⟩
    · have e : (⟨Consts.op_LD + fmt.sizeOp, d, src, off, 0⟩ :: [⟨Consts.op_LSH + longBit b, d, 0, 0, shiftAmt fmt b⟩,
          ⟨Consts.op_ARSH + longBit b, d, 0, 0, shiftAmt fmt b⟩] : List Insn)
          = [⟨Consts.op_LD + fmt.sizeOp, d, src, off, 0⟩] ++ ([⟨Consts.op_LSH + longBit b, d, 0, 0, shiftAmt fmt b⟩] ++
          [⟨Consts.op_ARSH + longBit b, d, 0, 0, shiftAmt fmt b⟩]) := rfl
      rw [e, exec_append h1, exec_append h2]; exact h3
    · subst hs2; subst hs1; simp
    · intro n hn; subst hs2; subst hs1; simp [State.setReg_other _ _ _ _ hn]
    · subst hs2; subst hs1; simp
  · exact ⟨(σ.setReg d (BitVec.ofNat 64 (loadN σ.mem (σ.regs src + BitVec.ofInt 64 off) fmt.size))).norm, h1, by simp,
      fun n hn => by simp [State.setReg_other _ _ _ _ hn], by simp⟩

theorem calc_mem (fmt : Fmt) (addr : Expr) (dst : Option Nat) (b force : Bool) (g g' : GenState) (res : CalcRes)
    (hp : Pre (.mem fmt addr) dst b force g)
    (h : calculate (.mem fmt addr) dst (some b) force g = .ok (res, g')) :
    Post (.mem fmt addr) dst b force g res g' := by
  have hfr := hp.frag
  simp only [Expr.frag, Option.isSome_iff_exists] at hfr
  obtain ⟨⟨base, off⟩, hsum⟩ := hfr
  simp only [calculate, hsum] at h
  rw [bind_ok] at h
  obtain ⟨⟨d, rel⟩, g1, hfree, h⟩ := h
  obtain ⟨hc1, hs1, ho1, hcase⟩ := getFree_ok hfree
  have hplace : dst = some d ∨ (dst = none ∧ d ∉ g.owners) := by
    rcases hcase with ⟨h1, _⟩ | ⟨h1, _, h3, _⟩
    · exact Or.inl h1
    · exact Or.inr ⟨h1, h3⟩
  have hfresh : ∀ x ∈ rel, x ∉ g.owners := by
    rcases hcase with ⟨_, h2⟩ | ⟨_, h2, h3, _⟩
    · simp [h2]
    · simp [h2, h3]
  have hd1 : g1.owners.contains d = true := by
    rcases hcase with ⟨h1, h2⟩ | ⟨_, h2, _, _⟩
    · simp [ho1, h2]; exact hp.dstOwned d h1
    · simp [ho1, h2]
  simp only [] at h
  rw [bind_ok] at h
  obtain ⟨u, g2, hload, h⟩ := h
  rw [pure_ok] at h
  cases h
  obtain ⟨hc2, hs2, ho2⟩ := load_ok hload
  refine ⟨⟨loadCode d base off fmt b, by rw [hc2, hc1], loadCode_straight _ _ _ _ _, ?_⟩, ?_, hfresh, by rw [hs2, hs1],
    rfl, fun _ => hplace⟩
  · intro σ
    obtain ⟨σ', he, hv, hothers, hm⟩ := loadCode_exec σ d base off fmt b
    refine ⟨σ', he, ?_, ?_, hm⟩
    · simp only [evalBV, hsum]
      rw [hv]
      exact load_agree fmt b _ (loadN_lt _ _ _)
    · intro n hn hnd
      apply hothers
      rcases hplace with h1 | ⟨_, h2⟩
      · intro e; subst e; exact hnd h1
      · intro e; subst e; exact h2 hn
  · rw [ho2, hd1]; simp [ho1]

theorem aluSem_agree (op : BinOp) (b : Bool) {x X y Y : W} (hx : Agree b x X) (hy : Agree b y Y) :
    aluSem op b x y = aluSem op b X Y := by
  cases b
  · simp [Agree] at hx hy
    simp [aluSem, hx, hy]
  · simp [Agree] at hx hy
    rw [hx, hy]

theorem asSmallConst_some {r : Expr} {v : Int} (h : r.asSmallConst = some v) : r = .const v ∧ isSmall v = true := by
  cases r <;> simp [Expr.asSmallConst] at h
  obtain ⟨h1, h2⟩ := h
  subst h2
  exact ⟨rfl, h1⟩

theorem lo32_agree (b : Bool) (x : W) : Agree b (if b then x else lo32 x) x := by
  cases b <;> simp [Agree, trunc_lo32]

theorem calc_bin (op : BinOp) (l r : Expr) (sg : Bool) (k : Kind) (ihl : IH l) (ihr : IH r)
    (dst : Option Nat) (b force : Bool) (g g' : GenState) (res : CalcRes)
    (hp : Pre (.bin op l r sg k) dst b force g)
    (h : calculate (.bin op l r sg k) dst (some b) force g = .ok (res, g')) :
    Post (.bin op l r sg k) dst b force g res g' := by
  simp only [calculate, Option.getD_some] at h
  rw [bind_ok] at h
  obtain ⟨⟨d0, rel⟩, g1, hfree, h⟩ := h
  simp only [] at h
  rw [bind_ok] at h
  obtain ⟨lres, g2, hcl, h⟩ := h
  rw [bind_ok] at h
  obtain ⟨u1, g3, hrel1, h⟩ := h
  rw [bind_ok] at h
  obtain ⟨u2, g4, hright, hfin⟩ := h
  rw [release_ok] at hrel1
  cases hrel1
  obtain ⟨hc1, hs1, ho1, hcase⟩ := getFree_ok hfree
  -- facts about the hypotheses
  have hleaves := hp.leaves
  have hnar := hp.narrow
  simp only [narrowIn64, Bool.or_eq_false_iff] at hnar
  have hfrag := hp.frag
  simp only [Expr.frag, Bool.and_eq_true] at hfrag
  -- where d0 comes from
  have hd0 : (dst = some d0 ∧ r.contains d0 = false ∧ rel = []) ∨
      (d0 ∉ g.owners ∧ rel = [d0] ∧ (dctx dst).forLeft r = .temp) := by
    rcases hcase with ⟨h1, h2⟩ | ⟨h1, h2, h3, _⟩
    · left
      cases dst with
      | none => simp at h1
      | some n =>
        by_cases hc : r.contains n = true
        · simp [Expr.containsOpt, hc] at h1
        · simp [Expr.containsOpt, hc] at h1
          subst h1
          exact ⟨rfl, by simpa using hc, h2⟩
    · rename_i h1
      right
      refine ⟨h3, h2, ?_⟩
      cases dst with
      | none => rfl
      | some n =>
        by_cases hc : r.contains n = true
        · simp [dctx, DstCtx.forLeft, hc]
        · simp [Expr.containsOpt, hc] at h1
  have hfresh : ∀ x ∈ rel, x ∉ g.owners := by
    rcases hd0 with ⟨_, _, h2⟩ | ⟨h3, h2, _⟩ <;> simp [h2]
    exact h3
  have hd0own : d0 ∈ g1.owners := by
    rw [ho1]
    rcases hd0 with ⟨h1, _, _⟩ | ⟨_, h2, _⟩
    · exact List.mem_append_right _ (hp.dstOwned d0 h1)
    · simp [h2]
  have hsub : ∀ n, n ∈ g.owners → n ∈ g1.owners := fun n hn => by rw [ho1]; exact List.mem_append_right _ hn
  have hrd0 : r.contains d0 = false := by
    rcases hd0 with ⟨_, h2, _⟩ | ⟨h3, _, _⟩
    · exact h2
    · exact not_contains_of_leaves hleaves.2 h3
  -- left operand
  have hpl : Pre l (some d0) b true g1 := by
    refine ⟨fun n hn => (by cases hn; exact hd0own), fun _ => (by simp), leavesOwned_mono hsub hleaves.1, hfrag.1, ?_⟩
    rcases hd0 with ⟨h1, h2, _⟩ | ⟨h3, _, h4⟩
    · subst h1; simpa [dctx, DstCtx.forLeft, h2] using hnar.1
    · rw [dctx, narrow_temp_reg h3 l b true hleaves.1, ← h4]; exact hnar.1
  have postl := ihl (some d0) b true g1 g2 lres hpl hcl
  obtain ⟨cl, hcl2, hstl, hrunl⟩ := postl.run
  have hlreg : lres.reg = d0 := by
    rcases postl.place (Or.inl rfl) with h1 | ⟨h1, _⟩
    · cases h1; rfl
    · cases h1
  have ho3 : (g2.owners.filter fun k => !lres.rel.contains k) = g1.owners := by
    rw [postl.owners]; exact filter_release _ _ postl.fresh
  -- the state after the left operand and its release
  generalize hg3 : ({ g2 with owners := g2.owners.filter fun k => !lres.rel.contains k } : GenState) = g3 at hright
  have hg3o : g3.owners = g1.owners := by rw [← hg3]; exact ho3
  have hg3c : g3.code = g.code ++ cl := by rw [← hg3]; simp [hcl2, hc1]
  have hg3s : g3.stack = g.stack := by rw [← hg3]; simp [postl.stack, hs1]
  -- right operand: code, owners, and its effect
  have hR : ∃ cr, g4.code = g3.code ++ cr ∧ (∀ i ∈ cr, straight i = true) ∧ g4.owners = g3.owners ∧ g4.stack = g3.stack ∧
      ∀ σ1 : State, ∃ σ2, exec cr σ1 = some σ2 ∧
        σ2.regs d0 = aluSem op b (σ1.regs d0) (evalBV σ1 b r) ∧
        (∀ n ∈ g3.owners, n ≠ d0 → σ2.regs n = σ1.regs n) ∧ σ2.mem = σ1.mem := by
    rw [hlreg] at hright
    cases hv : r.asSmallConst with
    | some v =>
      rw [hv] at hright
      simp only [binRight] at hright
      obtain ⟨hrc, hsm⟩ := asSmallConst_some hv
      split at hright
      · rw [fail_ok] at hright; exact hright.elim
      rw [emit_ok] at hright
      cases hright
      refine ⟨[⟨op.opcode + longBit b, d0, 0, 0, v⟩], rfl, ?_, rfl, rfl, ?_⟩
      · intro i hi; simp at hi; subst hi; exact straight_alu op b false d0 0 0 v
      · intro σ1
        refine ⟨(σ1.setReg d0 (aluSem op b (σ1.regs d0) (simm v))).norm, exec_alu_imm σ1 op b d0 v, ?_, ?_, rfl⟩
        · simp [hrc, evalBV, simm_small v hsm]
        · intro n _ hn; simp [State.setReg_other _ _ _ _ hn]
    | none =>
      have hnone := hv
      rw [hv] at hright
      simp only [binRight] at hright
      rw [bind_ok] at hright
      obtain ⟨rres, g5, hcr, hright⟩ := hright
      rw [bind_ok] at hright
      obtain ⟨u3, g6, hem, hright⟩ := hright
      rw [emit_ok] at hem
      rw [release_ok] at hright
      cases hem; cases hright
      have hpr : Pre r none b false g3 := by
        refine ⟨fun n hn => (by cases hn), fun hf => (by cases hf), ?_, hfrag.2, ?_⟩
        · exact leavesOwned_mono (fun n hn => by rw [hg3o]; exact hsub n hn) hleaves.2
        · simpa [hnone, dctx] using hnar.2
      have postr := ihr none b false g3 g5 rres hpr hcr
      obtain ⟨cr, hcr2, hstr, hrunr⟩ := postr.run
      refine ⟨cr ++ [⟨op.opcode + Consts.op_REG + longBit b, d0, rres.reg, 0, 0⟩], by simp [hcr2], ?_, ?_, postr.stack, ?_⟩
      · intro i hi
        simp at hi
        rcases hi with hi | hi
        · exact hstr i hi
        · subst hi; exact straight_alu op b true d0 rres.reg 0 0
      · simp only [postr.owners]; exact filter_release _ _ postr.fresh
      · intro σ1
        obtain ⟨σ2, he, hv, hfr, hm⟩ := hrunr σ1
        have hd0g3 : d0 ∈ g3.owners := by rw [hg3o]; exact hd0own
        refine ⟨(σ2.setReg d0 (aluSem op b (σ2.regs d0) (σ2.regs rres.reg))).norm, ?_, ?_, ?_, ?_⟩
        · rw [exec_append he]; exact exec_alu_reg σ2 op b d0 rres.reg
        · simp only [State.norm_regs, State.setReg_same]
          rw [hfr d0 hd0g3 (by simp)]
          exact aluSem_agree op b (Agree.refl b _) hv
        · intro n hn hnd
          simp only [State.norm_regs]
          rw [State.setReg_other _ _ _ _ hnd, hfr n hn (by simp)]
        · simpa using hm
  obtain ⟨cr, hcr, hstr, ho4, hs4, hrunr⟩ := hR
  rw [hlreg] at hfin hrunl
  have hne_d0 : ∀ n ∈ g.owners, dst ≠ some n → n ≠ d0 := by
    intro n hn hnd e
    subst e
    rcases hd0 with ⟨h1, _, _⟩ | ⟨h3, _, _⟩
    · exact hnd h1
    · exact h3 hn
  -- the value in d0 after both operands
  have hval : ∀ σ : State, ∃ σ2, exec (cl ++ cr) σ = some σ2 ∧ Agree b (σ2.regs d0) (evalBV σ b (.bin op l r sg k)) ∧
      (∀ n ∈ g.owners, n ≠ d0 → σ2.regs n = σ.regs n) ∧ σ2.mem = σ.mem := by
    intro σ
    obtain ⟨σ1, he1, hv1, hfr1, hm1⟩ := hrunl σ
    obtain ⟨σ2, he2, hv2, hfr2, hm2⟩ := hrunr σ1
    refine ⟨σ2, by rw [exec_append he1]; exact he2, ?_, ?_, by rw [hm2, hm1]⟩
    · rw [hv2]
      have hcong : evalBV σ1 b r = evalBV σ b r := by
        apply evalBV_congr σ1 σ b hm1
        intro n hn
        have hno := contains_of_leaves hleaves.2 hn
        apply hfr1 n (hsub n hno)
        intro e; cases e; rw [hrd0] at hn; cases hn
      rw [hcong]
      simp only [evalBV]
      exact Agree.of_eq (aluSem_agree op b hv1 (Agree.refl b _))
    · intro n hn hnd
      rw [hfr2 n (by rw [hg3o]; exact hsub n hn) hnd]
      exact hfr1 n (hsub n hn) (by intro e; cases e; exact hnd rfl)
  unfold binFinish at hfin
  split at hfin
  · rename_i hcond
    rw [pure_ok] at hfin
    cases hfin
    refine ⟨⟨cl ++ cr, by rw [hcr, hg3c, List.append_assoc], ?_, ?_⟩, by rw [ho4, hg3o, ho1], hfresh, by rw [hs4, hg3s], rfl, ?_⟩
    · intro i hi
      rcases List.mem_append.mp hi with hi | hi
      · exact hstl i hi
      · exact hstr i hi
    · intro σ
      obtain ⟨σ2, he, hv, hfr, hm⟩ := hval σ
      exact ⟨σ2, he, hv, fun n hn hnd => hfr n hn (hne_d0 n hn hnd), hm⟩
    · intro _
      rcases hd0 with ⟨h1, _, _⟩ | ⟨h3, _, _⟩
      · exact Or.inl h1
      · cases dst with
        | none => exact Or.inr ⟨rfl, h3⟩
        | some n =>
          simp at hcond
          subst hcond
          exact Or.inl rfl
  · rename_i hcond
    simp only [Bool.or_eq_true, beq_iff_eq, not_or] at hcond
    obtain ⟨hc1', hc2'⟩ := hcond
    cases dst with
    | none => simp at hc1'
    | some n0 =>
      have hn0 : n0 ≠ d0 := fun e => hc2' (by rw [e])
      rcases hd0 with ⟨h1, _, _⟩ | ⟨h3, hrel, _⟩
      · cases h1; exact absurd rfl hn0
      · rw [bind_ok] at hfin
        obtain ⟨u5, g5, hrl, hfin⟩ := hfin
        rw [bind_ok] at hfin
        obtain ⟨u6, g6, hem, hfin⟩ := hfin
        rw [pure_ok] at hfin
        rw [release_ok] at hrl
        rw [emit_ok] at hem
        cases hfin; cases hem; cases hrl
        simp only [Option.getD_some]
        refine ⟨⟨cl ++ cr ++ [⟨Consts.op_MOV + Consts.op_REG + longBit b, n0, d0, 0, 0⟩], by simp [hcr, hg3c], ?_, ?_⟩,
          ?_, by simp, by simp [hs4, hg3s], rfl, fun _ => Or.inl rfl⟩
        · intro i hi
          simp at hi
          rcases hi with hi | hi | hi
          · exact hstl i hi
          · exact hstr i hi
          · subst hi; cases b <;> straight_tac
        · intro σ
          obtain ⟨σ2, he, hv, hfr, hm⟩ := hval σ
          refine ⟨(σ2.setReg n0 (if b then σ2.regs d0 else lo32 (σ2.regs d0))).norm, ?_, ?_, ?_, ?_⟩
          · rw [exec_append he]; exact exec_mov_reg σ2 b n0 d0
          · simp only [State.norm_regs, State.setReg_same]
            exact Agree.trans (lo32_agree b _) hv
          · intro n hn hnd
            simp only [State.norm_regs]
            have : n ≠ n0 := fun e => hnd (by rw [e])
            rw [State.setReg_other _ _ _ _ this]
            exact hfr n hn (fun e => h3 (e ▸ hn))
          · simpa using hm
        · simp only [ho4, hg3o, ho1, List.nil_append]
          exact filter_release _ _ hfresh


/-- **calc_correct**: for every expression of the fragment (`Expr.frag`), every destination, width and state of
the generator satisfying `Pre`: if `calculate` succeeds, the emitted segment is non-jump code that, from every
machine state, terminates with the result register agreeing with `evalBV` at the requested width, every other
owned register and the memory unchanged, and `owners` = the registers to release ++ the old owners. -/
theorem calc_correct (e : Expr) : IH e := by
  induction e with
  | const v => intro dst b force g g' res _ h; exact calc_const v dst b force g g' res h
  | reg no lg sg => intro dst b force g g' res hp h; exact calc_reg no lg sg dst b force g g' res hp h
  | bin op l r sg k ihl ihr => intro dst b force g g' res hp h; exact calc_bin op l r sg k ihl ihr dst b force g g' res hp h
  | neg a ih => intro dst b force g g' res hp h; exact calc_neg a ih dst b force g g' res hp h
  | abs a _ => intro dst b force g g' res hp _; exact absurd hp.frag (by simp [Expr.frag])
  | mem f a _ => intro dst b force g g' res hp h; exact calc_mem f a dst b force g g' res hp h

end Ebv.Gen
