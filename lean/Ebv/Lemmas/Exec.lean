import Ebv.Model.Ebpf
/-! Straight-line execution of eBPF code segments and its relation to `Ebpf.run`.

`exec c s` executes the instructions of `c` one after the other with the semantics of `Ebpf.step` (each
instruction is stepped as a one-instruction program, LD_IMM64 as a two-slot program); it is defined on
non-jump code.  `run_of_exec` shows that `Ebpf.run` on the segment (placed anywhere inside a larger
program) does the same and falls out at the end; `exec_append` composes segments. -/
namespace Ebv.Ebpf

/-- a non-jump instruction (class not JMP/JMP32) -/
def straight (i : Insn) : Bool := i.op % 8 != 5 && i.op % 8 != 6

def step1 (i : Insn) (s : State) : Option State :=
  match step [i] { s with pc := 0 } with
  | .next s' => some { s' with pc := 0 }
  | _ => none

def step2 (i j : Insn) (s : State) : Option State :=
  match step [i, j] { s with pc := 0 } with
  | .next s' => some { s' with pc := 0 }
  | _ => none

/-- straight-line execution; the program counter of the argument is irrelevant, that of the result is 0 -/
def exec : List Insn → State → Option State
  | [], s => some { s with pc := 0 }
  | [i], s => if i.op = 0x18 then none else step1 i s
  | i :: j :: rest, s =>
    if i.op = 0x18 then (step2 i j s).bind (exec rest)
    else (step1 i s).bind (exec (j :: rest))

theorem exec_nil (s : State) : exec [] s = some { s with pc := 0 } := rfl

theorem exec_cons (i : Insn) (rest : List Insn) (s : State) (h : i.op ≠ 0x18) :
    exec (i :: rest) s = (step1 i s).bind (exec rest) := by
  cases rest with
  | nil =>
    simp only [exec, h, if_false]
    cases h1 : step1 i s with
    | none => rfl
    | some s1 =>
      simp only [Option.bind_some]
      unfold step1 at h1
      split at h1
      · cases h1; rfl
      · cases h1
  | cons j r => simp only [exec, h, if_false]

theorem exec_cons2 (i j : Insn) (rest : List Insn) (s : State) (h : i.op = 0x18) :
    exec (i :: j :: rest) s = (step2 i j s).bind (exec rest) := by
  simp only [exec, h, if_true]

theorem exec_pc (c : List Insn) (s : State) (p : Nat) : exec c { s with pc := p } = exec c s := by
  match c with
  | [] => simp [exec]
  | [i] => simp [exec, step1]
  | i :: j :: rest => simp [exec, step1, step2]

theorem exec_single_ld (i : Insn) (s : State) (h : i.op = 0x18) : exec [i] s = none := by
  simp only [exec, h, if_true]

/-- induction along the way `exec` consumes a segment -/
theorem exec_ind {P : List Insn → Prop} (h0 : P [])
    (h1 : ∀ i rest, i.op ≠ 0x18 → P rest → P (i :: rest))
    (h2 : ∀ i j rest, i.op = 0x18 → P rest → P (i :: j :: rest))
    (h3 : ∀ i, i.op = 0x18 → P [i]) : ∀ l, P l := by
  intro l
  generalize hn : l.length = n
  induction n using Nat.strongRecOn generalizing l with
  | _ n ih =>
    match l, hn with
    | [], _ => exact h0
    | [i], _ =>
      by_cases h : i.op = 0x18
      · exact h3 i h
      · exact h1 i [] h h0
    | i :: j :: rest, hn =>
      by_cases h : i.op = 0x18
      · exact h2 i j rest h (ih rest.length (by simp at hn; omega) rest rfl)
      · exact h1 i (j :: rest) h (ih (j :: rest).length (by simp at hn ⊢; omega) (j :: rest) rfl)

theorem exec_res_pc {c : List Insn} : ∀ {s s' : State}, exec c s = some s' → s'.pc = 0 := by
  induction c using exec_ind with
  | h0 => intro s s' h; simp [exec] at h; subst h; rfl
  | h1 i rest hop ih =>
    intro s s' h
    rw [exec_cons _ _ _ hop] at h
    cases h1 : step1 i s with
    | none => simp [h1] at h
    | some s1 =>
      simp [h1] at h
      cases rest with
      | nil =>
        simp [exec] at h; subst h
        unfold step1 at h1; split at h1
        · cases h1; rfl
        · cases h1
      | cons j r => exact ih h
  | h2 i j rest hop ih =>
    intro s s' h
    rw [exec_cons2 _ _ _ _ hop] at h
    cases h1 : step2 i j s with
    | none => simp [h1] at h
    | some s1 =>
      simp [h1] at h
      cases rest with
      | nil =>
        simp [exec] at h; subst h
        unfold step2 at h1; split at h1
        · cases h1; rfl
        · cases h1
      | cons k r => exact ih h
  | h3 i hop => intro s s' h; rw [exec_single_ld _ _ hop] at h; cases h

theorem exec_append {a b : List Insn} : ∀ {s s1 : State}, exec a s = some s1 → exec (a ++ b) s = exec b s1 := by
  induction a using exec_ind with
  | h0 => intro s s1 h; simp [exec] at h; subst h; simp [exec_pc]
  | h1 i rest hop ih =>
    intro s s1 h
    rw [exec_cons _ _ _ hop] at h
    simp only [List.cons_append]
    rw [exec_cons _ _ _ hop]
    cases h1 : step1 i s with
    | none => simp [h1] at h
    | some s2 => simp [h1] at h ⊢; exact ih h
  | h2 i j rest hop ih =>
    intro s s1 h
    rw [exec_cons2 _ _ _ _ hop] at h
    simp only [List.cons_append]
    rw [exec_cons2 _ _ _ _ hop]
    cases h1 : step2 i j s with
    | none => simp [h1] at h
    | some s2 => simp [h1] at h ⊢; exact ih h
  | h3 i hop => intro s s1 h; rw [exec_single_ld _ _ hop] at h; cases h

/-! ## relation to `Ebpf.run` -/

theorem step_reloc1 (prog : List Insn) (s : State) (i : Insn) (hf : fetch prog s.pc = some i)
    (hs : straight i = true) (hop : i.op ≠ 0x18) :
    step prog s = match step [i] { s with pc := 0 } with
      | .next s' => .next { s' with pc := s.pc + 1 }
      | _ => .bad := by
  have h0 : fetch [i] 0 = some i := rfl
  simp only [straight, Bool.and_eq_true, bne_iff_ne, ne_eq] at hs
  obtain ⟨h5, h6⟩ := hs
  unfold step
  simp only [hf, h0]
  by_cases hc : i.op % 8 = 7 ∨ i.op % 8 = 4
  · simp only [hc, if_true]
    split
    · split <;> simp [State.setReg]
    · split
      · simp [State.setReg]
      · split <;> simp_all [State.setReg]
  · simp only [hc, if_false]
    have h56 : ¬ (i.op % 8 = 5 ∨ i.op % 8 = 6) := by omega
    simp only [h56, if_false]
    by_cases hz : i.op % 8 = 0
    · simp only [hz, if_true, hop, if_false]
    · simp only [hz, if_false]
      split
      · simp [State.setReg]
      · split
        · simp
        · split
          · simp
          · split <;> simp

theorem step_reloc2 (prog : List Insn) (s : State) (i j : Insn) (hf : fetch prog s.pc = some i)
    (hg : fetch prog (s.pc + 1) = some j) (hop : i.op = 0x18) :
    step prog s = match step [i, j] { s with pc := 0 } with
      | .next s' => .next { s' with pc := s.pc + 2 }
      | _ => .bad := by
  have h0 : fetch [i, j] 0 = some i := rfl
  have h1 : fetch [i, j] (0 + 1) = some j := rfl
  unfold step
  simp only [hf, h0, hg, h1, hop]
  simp
  split <;> simp [State.setReg]

theorem fetch_append_here (pre : List Insn) (i : Insn) (rest : List Insn) :
    fetch (pre ++ i :: rest) pre.length = some i := by
  simp [fetch]

theorem fetch_append_next (pre : List Insn) (i j : Insn) (rest : List Insn) :
    fetch (pre ++ i :: j :: rest) (pre.length + 1) = some j := by
  have : pre ++ i :: j :: rest = (pre ++ [i]) ++ j :: rest := by simp
  rw [this]
  have h2 : pre.length + 1 = (pre ++ [i]).length := by simp
  rw [h2]; exact fetch_append_here _ _ _

/-- `Ebpf.run` on a non-jump segment that ends the program behaves like `exec` and falls out at the end -/
theorem run_of_exec_aux (suf : List Insn) : ∀ (pre : List Insn) (s s' : State) (fuel : Nat),
    s.pc = pre.length → (∀ i ∈ suf, straight i = true) → exec suf s = some s' → suf.length + 1 ≤ fuel →
    run (pre ++ suf) fuel s = .fell { s' with pc := (pre ++ suf).length } := by
  induction suf using exec_ind with
  | h0 =>
    intro pre s s' fuel hpc _ he hf
    simp [exec] at he; subst he
    obtain ⟨f, rfl⟩ : ∃ f, fuel = f + 1 := ⟨fuel - 1, by omega⟩
    simp only [run, List.append_nil, hpc, if_true]
    cases s; simp at hpc; subst hpc; rfl
  | h1 i rest hop ih =>
    intro pre s s' fuel hpc hst he hf
    obtain ⟨f, rfl⟩ : ∃ f, fuel = f + 1 := ⟨fuel - 1, by simp at hf; omega⟩
    rw [exec_cons _ _ _ hop] at he
    cases h1 : step1 i s with
    | none => simp [h1] at he
    | some s2 =>
      simp [h1] at he
      unfold step1 at h1
      split at h1
      · rename_i s1 hs1
        cases h1
        have hne : ¬ s.pc = (pre ++ i :: rest).length := by simp [hpc]
        have hstep := step_reloc1 (pre ++ i :: rest) s i (by rw [hpc]; exact fetch_append_here _ _ _)
          (hst i (by simp)) hop
        rw [hs1] at hstep
        simp only [run, hne, if_false, hstep]
        have e : pre ++ i :: rest = (pre ++ [i]) ++ rest := by simp
        rw [e]
        apply ih (pre ++ [i]) { s1 with pc := s.pc + 1 } s' f
        · simp [hpc]
        · intro k hk; exact hst k (by simp [hk])
        · rw [exec_pc]; rw [exec_pc] at he; exact he
        · simp at hf ⊢; omega
      · cases h1
  | h2 i j rest hop ih =>
    intro pre s s' fuel hpc hst he hf
    obtain ⟨f, rfl⟩ : ∃ f, fuel = f + 1 := ⟨fuel - 1, by simp at hf; omega⟩
    rw [exec_cons2 _ _ _ _ hop] at he
    cases h1 : step2 i j s with
    | none => simp [h1] at he
    | some s2 =>
      simp [h1] at he
      unfold step2 at h1
      split at h1
      · rename_i s1 hs1
        cases h1
        have hne : ¬ s.pc = (pre ++ i :: j :: rest).length := by simp [hpc]
        have hstep := step_reloc2 (pre ++ i :: j :: rest) s i j (by rw [hpc]; exact fetch_append_here _ _ _)
          (by rw [hpc]; exact fetch_append_next _ _ _ _) hop
        rw [hs1] at hstep
        simp only [run, hne, if_false, hstep]
        have e : pre ++ i :: j :: rest = (pre ++ [i, j]) ++ rest := by simp
        rw [e]
        apply ih (pre ++ [i, j]) { s1 with pc := s.pc + 2 } s' f
        · simp [hpc]
        · intro k hk; exact hst k (by simp [hk])
        · rw [exec_pc]; rw [exec_pc] at he; exact he
        · simp at hf ⊢; omega
      · cases h1
  | h3 i hop =>
    intro pre s s' fuel _ _ he _
    rw [exec_single_ld _ _ hop] at he; cases he

/-- a whole non-jump program, started at its first instruction -/
theorem run_of_exec {c : List Insn} {s s' : State} (hst : ∀ i ∈ c, straight i = true)
    (he : exec c s = some s') (fuel : Nat) (hf : c.length + 1 ≤ fuel) :
    run c fuel { s with pc := 0 } = .fell { s' with pc := c.length } := by
  have := run_of_exec_aux c [] { s with pc := 0 } s' fuel rfl hst (by rw [exec_pc]; exact he) hf
  simpa using this

end Ebv.Ebpf
