import Ebv.Model.Ebpf
/-! Straight-line execution of eBPF code segments and its relation to `Ebpf.run`.

`exec c s` executes the instructions of `c` one after the other with the semantics of `Ebpf.step` (each
instruction is stepped as a one-instruction program, LD_IMM64 as a two-slot program); it is defined on
non-jump code.  `run_of_exec` shows that `Ebpf.run` on the segment (placed anywhere inside a larger
program) does the same and falls out at the end; `exec_append` composes segments. -/
namespace Ebv.Ebpf

/-- a non-jump instruction (class not JMP/JMP32) -/
def straight (i : Insn) : Bool := i.op % 8 != 5 && i.op % 8 != 6

def step1 (i : Insn) (s : State) : Option State :=
  match step [i] { s with pc := 0 } with
  | .next s' => some { s' with pc := 0 }
  | _ => none

def step2 (i j : Insn) (s : State) : Option State :=
  match step [i, j] { s with pc := 0 } with
  | .next s' => some { s' with pc := 0 }
  | _ => none

/-- straight-line execution; the program counter of the argument is irrelevant, that of the result is 0 -/
def exec : List Insn → State → Option State
  | [], s => some { s with pc := 0 }
  | [i], s => if i.op = 0x18 then none else step1 i s
  | i :: j :: rest, s =>
    if i.op = 0x18 then (step2 i j s).bind (exec rest)
    else (step1 i s).bind (exec (j :: rest))

theorem exec_nil (s : State) : exec [] s = some { s with pc := 0 } := rfl

theorem exec_cons (i : Insn) (rest : List Insn) (s : State) (h : i.op ≠ 0x18) :
    exec (i :: rest) s = (step1 i s).bind (exec rest) := by
  cases rest with
  | nil =>
    simp only [exec, h, if_false]
    cases h1 : step1 i s with
    | none => rfl
    | some s1 =>
      simp only [Option.bind_some, exec]
      unfold step1 at h1
      split at h1
      · cases h1; rfl
      · cases h1
  | cons j r => simp only [exec, h, if_false]

theorem exec_cons2 (i j : Insn) (rest : List Insn) (s : State) (h : i.op = 0x18) :
    exec (i :: j :: rest) s = (step2 i j s).bind (exec rest) := by
  simp only [exec, h, if_true]

theorem exec_pc (c : List Insn) (s : State) (p : Nat) : exec c { s with pc := p } = exec c s := by
  match c with
  | [] => simp [exec]
  | [i] => simp [exec, step1]
  | i :: j :: rest => simp [exec, step1, step2]

theorem exec_res_pc {c : List Insn} {s s' : State} (h : exec c s = some s') : s'.pc = 0 := by
  induction c using exec.induct generalizing s with
  | case1 s0 => simp [exec] at h; subst h; rfl
  | case2 i s0 =>
    simp only [exec] at h
    split at h
    · cases h
    · unfold step1 at h; split at h
      · cases h; rfl
      · cases h
  | case3 i j rest s0 ih1 ih2 =>
    simp only [exec] at h
    split at h
    · cases h1 : step2 i j s0 with
      | none => simp [h1] at h
      | some s1 => simp [h1] at h; exact ih1 h
    · cases h1 : step1 i s0 with
      | none => simp [h1] at h
      | some s1 => simp [h1] at h; exact ih2 h

theorem exec_append {a b : List Insn} {s s1 : State} (h : exec a s = some s1) :
    exec (a ++ b) s = exec b s1 := by
  induction a using exec.induct generalizing s with
  | case1 s0 =>
    simp [exec] at h; subst h
    simp [exec_pc]
  | case2 i s0 =>
    simp only [exec] at h
    split at h
    · cases h
    · rename_i hop
      simp only [List.singleton_append]
      rw [exec_cons _ _ _ hop, h]; rfl
  | case3 i j rest s0 ih1 ih2 =>
    simp only [exec] at h
    split at h
    · rename_i hop
      cases h1 : step2 i j s0 with
      | none => simp [h1] at h
      | some s2 =>
        simp [h1] at h
        simp only [List.cons_append]
        rw [exec_cons2 _ _ _ _ hop, h1]; exact ih1 h
    · rename_i hop
      cases h1 : step1 i s0 with
      | none => simp [h1] at h
      | some s2 =>
        simp [h1] at h
        have := ih2 h
        simp only [List.cons_append] at this ⊢
        rw [exec_cons _ _ _ hop, h1]; exact this

end Ebv.Ebpf
