import Ebv.Lemmas.CondZ
/-! `mtruth = truth` under the precondition, atom by atom and by induction on the condition tree. -/
namespace Ebv.Gen
open Ebv.Ebpf

theorem agreeZ_trunc {b : Bool} {x : W} {z : Int} (h : AgreeZ b x z) : x.truncate 32 = BitVec.ofInt 32 z := by
  cases b
  · exact h
  · simp only [AgreeZ, if_true] at h
    rw [h, BitVec.truncate_eq_setWidth, ofInt_setWidth z (by omega)]

theorem fitsS_32_64 {z : Int} (h : fitsS 32 z) : fitsS 64 z := by
  simp only [fitsS] at h ⊢; omega

theorem toNat_ofInt32 (a : Int) (h : fitsU 32 a) : ((BitVec.ofInt 32 a).toNat : Int) = a := by
  simp only [fitsU] at h
  rw [BitVec.toNat_ofInt]
  have : a % ((2 ^ 32 : Nat) : Int) = a := Int.emod_eq_of_lt h.1 (by simpa using h.2)
  rw [this]; omega

theorem ofInt_ne_zero64 (z : Int) (h : fitsS 64 z ∨ fitsU 64 z) : (BitVec.ofInt 64 z != 0) = (z != 0) := by
  rcases h with h | h
  · exact ne_ofInt_of_toInt _ _ z 0 (toInt_ofInt64 z h) (by simp)
  · have h1 := toNat_ofInt64 z h
    by_cases hz : z = 0
    · subst hz; simp
    · have : BitVec.ofInt 64 z ≠ 0 := fun e => hz (by rw [← h1, e]; simp)
      rw [bne_iff_ne.mpr this, bne_iff_ne.mpr hz]

theorem ofInt_ne_zero32 (z : Int) (h : fitsS 32 z ∨ fitsU 32 z) : (BitVec.ofInt 32 z != 0) = (z != 0) := by
  rcases h with h | h
  · exact ne_ofInt_of_toInt _ _ z 0 (toInt_ofInt32 z h) (by simp)
  · have h1 := toNat_ofInt32 z h
    by_cases hz : z = 0
    · subst hz; simp
    · have : BitVec.ofInt 32 z ≠ 0 := fun e => hz (by rw [← h1, e]; simp)
      rw [bne_iff_ne.mpr this, bne_iff_ne.mpr hz]

/-- the second operand of the jump: the immediate or the right operand's register -/
def rOpBV (l r : Expr) (σ : State) : W :=
  match r.asSmallConst with | some v => simm v | none => evalBV σ (rW l r) r

theorem atomVal_def (f : (w : Nat) → BitVec w → BitVec w → Bool) (l r : Expr) (σ : State) :
    atomVal f l r σ = (if (atomInfo l r).short then f 32 ((evalBV σ (opW l) l).truncate 32) ((rOpBV l r σ).truncate 32)
      else f 64 (if (atomInfo l r).widen then ((evalBV σ (opW l) l).truncate 32).signExtend 64 else evalBV σ (opW l) l)
        (rOpBV l r σ)) := rfl

/-- what `evalBV` of the two operands is, in terms of their integer values -/
structure OperandsZ (l r : Expr) (σ : State) : Prop where
  a32 : (evalBV σ (opW l) l).truncate 32 = BitVec.ofInt 32 (evalZ σ l)
  a64 : opW l = true → evalBV σ (opW l) l = BitVec.ofInt 64 (evalZ σ l)
  b32 : (rOpBV l r σ).truncate 32 = BitVec.ofInt 32 (evalZ σ r)
  b64 : ((atomInfo l r).rImm = true ∨ rW l r = true) → rOpBV l r σ = BitVec.ofInt 64 (evalZ σ r)

theorem operandsZ (l r : Expr) (σ : State) (hl : l.ringOnly = true) (hr : r.ringOnly = true)
    (hsl : shiftsOk σ (opW l) l) (hsr : r.asSmallConst = none → shiftsOk σ (rW l r) r) : OperandsZ l r σ := by
  have hA := evalBV_eq_evalZ σ (opW l) l hl hsl
  refine ⟨agreeZ_trunc hA, fun h => by rw [h] at hA ⊢; exact hA, ?_, ?_⟩
  · unfold rOpBV
    cases hsc : r.asSmallConst with
    | some v =>
      obtain ⟨hrc, hsm⟩ := asSmallConst_some hsc
      simp only [hrc, evalZ, simm_small v hsm]
      rw [BitVec.truncate_eq_setWidth, ofInt_setWidth v (by omega)]
    | none => exact agreeZ_trunc (evalBV_eq_evalZ σ (rW l r) r hr (hsr hsc))
  · intro h
    unfold rOpBV
    cases hsc : r.asSmallConst with
    | some v =>
      obtain ⟨hrc, hsm⟩ := asSmallConst_some hsc
      simp only [hrc, evalZ, simm_small v hsm]
    | none =>
      rw [atomInfo_rImm, hsc] at h
      have hw : rW l r = true := by
        rcases h with h | h
        · cases h
        · exact h
      have := evalBV_eq_evalZ σ (rW l r) r hr (hsr hsc)
      rw [hw] at this ⊢
      exact this

theorem short_sg (l r : Expr) (h : (atomInfo l r).short = true) : (atomInfo l r).sg = true := by
  have : (atomInfo l r).short = ((atomInfo l r).sg && !(atomInfo l r).lLong && !(atomInfo l r).rLong) := rfl
  rw [this] at h
  cases hs : (atomInfo l r).sg
  · rw [hs] at h; simp at h
  · rfl

theorem widen_sg (l r : Expr) (h : (atomInfo l r).widen = true) : (atomInfo l r).sg = true := by
  have : (atomInfo l r).widen = ((atomInfo l r).sg && !(atomInfo l r).lLong && (atomInfo l r).rLong) := rfl
  rw [this] at h
  cases hs : (atomInfo l r).sg
  · rw [hs] at h; simp at h
  · rfl

/-- the left operand as the 64-bit jump sees it -/
theorem left64 (l r : Expr) (σ : State) (hz : OperandsZ l r σ) (hfrag : (atomInfo l r).widen = true ∨ opW l = true)
    (hfit : (atomInfo l r).widen = true → fitsS 32 (evalZ σ l)) :
    (if (atomInfo l r).widen then ((evalBV σ (opW l) l).truncate 32).signExtend 64 else evalBV σ (opW l) l)
      = BitVec.ofInt 64 (evalZ σ l) := by
  cases hw : (atomInfo l r).widen with
  | true => simp only [if_true]; rw [hz.a32, sext_ofInt32 _ (hfit hw)]
  | false =>
    simp only [Bool.false_eq_true, if_false]
    rcases hfrag with h | h
    · rw [hw] at h; cases h
    · exact hz.a64 h

theorem atom_truth_cmp (op : CmpOp) (l r : Expr) (σ : State) (hl : l.ringOnly = true) (hr : r.ringOnly = true)
    (hfrag : atomFrag l r = true) (hpre : atomPre false l r σ) :
    atomVal (cmpBV op (l.signed || r.signed)) l r σ = cmpZ op (evalZ σ l) (evalZ σ r) := by
  obtain ⟨hsl, hsr, hfit⟩ := hpre
  simp only [Bool.false_eq_true, if_false] at hfit
  have hz := operandsZ l r σ hl hr hsl hsr
  have hsg : (atomInfo l r).sg = (l.signed || r.signed) := rfl
  rw [atomVal_def]
  cases hs : (atomInfo l r).short with
  | true =>
    have hsgt := short_sg l r hs
    rw [hsgt, hs] at hfit
    simp only [if_true] at hfit ⊢
    rw [← hsg, hsgt, hz.a32, hz.b32]
    exact cmpBV_signed op 32 _ _ _ _ (toInt_ofInt32 _ hfit.1) (toInt_ofInt32 _ hfit.2)
  | false =>
    simp only [atomFrag, hs, Bool.false_or, Bool.and_eq_true, Bool.or_eq_true] at hfrag
    simp only [Bool.false_eq_true, if_false]
    rw [hs] at hfit
    simp only [Bool.false_eq_true, if_false] at hfit
    cases hsgv : (atomInfo l r).sg with
    | true =>
      rw [hsgv] at hfit
      simp only [if_true] at hfit
      have hfa : (atomInfo l r).widen = true → fitsS 32 (evalZ σ l) := fun hw => by
        rw [hw] at hfit; exact hfit.1
      have hfa64 : fitsS 64 (evalZ σ l) := by
        cases hw : (atomInfo l r).widen
        · rw [hw] at hfit; exact hfit.1
        · exact fitsS_32_64 (hfa hw)
      have hfb64 : fitsS 64 (evalZ σ r) := by
        cases hw : (atomInfo l r).widen <;> rw [hw] at hfit <;> exact hfit.2
      rw [left64 l r σ hz hfrag.1 hfa, hz.b64 hfrag.2, ← hsg, hsgv]
      exact cmpBV_signed op 64 _ _ _ _ (toInt_ofInt64 _ hfa64) (toInt_ofInt64 _ hfb64)
    | false =>
      rw [hsgv] at hfit
      simp only [Bool.false_eq_true, if_false] at hfit
      have hnw : (atomInfo l r).widen = true → fitsS 32 (evalZ σ l) := fun hw => by
        have := widen_sg l r hw; rw [hsgv] at this; cases this
      rw [left64 l r σ hz hfrag.1 hnw, hz.b64 hfrag.2, ← hsg, hsgv]
      exact cmpBV_unsigned op 64 _ _ _ _ (toNat_ofInt64 _ hfit.1) (toNat_ofInt64 _ hfit.2)

theorem atom_truth_bits (l r : Expr) (σ : State) (hl : l.ringOnly = true) (hr : r.ringOnly = true)
    (hfrag : atomFrag l r = true) (hpre : atomPre true l r σ) :
    atomVal bitsBV l r σ = (zAnd (evalZ σ l) (evalZ σ r) != 0) := by
  obtain ⟨hsl, hsr, hfit⟩ := hpre
  simp only [if_true] at hfit
  have hz := operandsZ l r σ hl hr hsl hsr
  rw [atomVal_def]
  unfold bitsBV
  cases hs : (atomInfo l r).short with
  | true =>
    rw [hs] at hfit
    simp only [if_true] at hfit ⊢
    rw [hz.a32, hz.b32, ← ofInt_zAnd]
    exact ofInt_ne_zero32 _ hfit.2
  | false =>
    simp only [atomFrag, hs, Bool.false_or, Bool.and_eq_true, Bool.or_eq_true] at hfrag
    rw [hs] at hfit
    simp only [Bool.false_eq_true, if_false] at hfit ⊢
    rw [left64 l r σ hz hfrag.1 hfit.1, hz.b64 hfrag.2, ← ofInt_zAnd]
    exact ofInt_ne_zero64 _ hfit.2

/-- **cond_correct, integer level**: inside the precondition the machine-level truth value is the truth value of
the condition over Python integers -/
theorem mtruth_eq_truth (σ : State) : ∀ (c : CObj), c.zok = true → c.pre σ → c.mtruth σ = c.truth σ := by
  intro c
  induction c with
  | simple op sg l r =>
    intro hz hp
    simp only [CObj.zok, Bool.and_eq_true, beq_iff_eq] at hz
    obtain ⟨⟨⟨h1, h2⟩, h3⟩, h4⟩ := hz
    simp only [CObj.mtruth, CObj.truth, h3]
    exact atom_truth_cmp op l r σ h1 h2 h4 hp
  | bits l r =>
    intro hz hp
    simp only [CObj.zok, Bool.and_eq_true] at hz
    simp only [CObj.mtruth, CObj.truth]
    exact atom_truth_bits l r σ hz.1.1 hz.1.2 hz.2 hp
  | andor isAnd a b iha ihb =>
    intro hz hp
    simp only [CObj.zok, Bool.and_eq_true] at hz
    simp only [CObj.mtruth, CObj.truth, iha hz.1 hp.1, ihb hz.2 hp.2]
  | inv a ih =>
    intro hz hp
    simp only [CObj.mtruth, CObj.truth, ih hz hp]

end Ebv.Gen
