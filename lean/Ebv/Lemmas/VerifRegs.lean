import Ebv.Model.MiniVerifier
/-! C05, rule (1): soundness of the register-initialisation rule of `MiniV` against the ISA semantics `Ebv.Ebpf.step`.

Instrumented semantics: a machine state plus the set of *written* registers.  Initially r1 and r10; every instruction
adds the registers it writes (`MiniV.defs`); a helper call removes r1–r5 (`MiniV.kills`) and adds r0 (not for
`tail_call`, which returns nothing).  The helper's effect on the machine state is arbitrary (any state with the same
pc that keeps r6–r10); the pseudo map-fd `LD_IMM64` (outside `Ebpf.step`) puts an arbitrary value into its register. -/
namespace Ebv.C05
open Ebv.Ebpf Ebv.MiniV

structure Conf where
  σ : State
  w : Nat → Bool

/-- the written set after instruction `i` -/
def writtenAfter (i : Insn) (w : Nat → Bool) : Nat → Bool :=
  fun r => (defs i).contains r || (w r && !(kills i).contains r)

inductive IStep (prog : List Insn) : Conf → Conf → Prop
  | next {c : Conf} {σ' : State} {i : Insn} :
      prog[c.σ.pc]? = some i → step prog c.σ = .next σ' → IStep prog c ⟨σ', writtenAfter i c.w⟩
  | call {c : Conf} {σ1 σ2 : State} {id : Int} {i : Insn} :
      prog[c.σ.pc]? = some i → step prog c.σ = .call id σ1 → σ2.pc = σ1.pc → (∀ r, 6 ≤ r → σ2.regs r = σ1.regs r) →
      IStep prog c ⟨σ2, writtenAfter i c.w⟩
  | ldfd {c : Conf} {i j : Insn} {v : W} :
      prog[c.σ.pc]? = some i → i.op = 0x18 → i.src = 1 → prog[c.σ.pc + 1]? = some j →
      IStep prog c ⟨{ (c.σ.setReg i.dst v) with pc := c.σ.pc + 2 }, writtenAfter i c.w⟩

inductive Reach (prog : List Insn) : Conf → Conf → Prop
  | refl (c : Conf) : Reach prog c c
  | tail {c c' c'' : Conf} : Reach prog c c' → IStep prog c' c'' → Reach prog c c''

/-! ## `succPcs`, `defs` against `Ebpf.step` -/

theorem step_next_pc {prog : List Insn} {σ σ' : State} {i : Insn} (hi : prog[σ.pc]? = some i)
    (h : step prog σ = .next σ') : σ'.pc ∈ succPcs σ.pc i := by
  unfold step at h
  simp only [fetch, hi] at h
  unfold succPcs isJmpCls isCall isExit target cls code
  repeat' split at h
  all_goals first | (cases h) | skip
  all_goals (repeat' split)
  all_goals first | (simp_all; done) | (simp_all <;> omega) | omega

theorem step_call_pc {prog : List Insn} {σ σ1 : State} {id : Int} {i : Insn} (hi : prog[σ.pc]? = some i)
    (h : step prog σ = .call id σ1) : σ1.pc ∈ succPcs σ.pc i := by
  unfold step at h
  simp only [fetch, hi] at h
  unfold succPcs isJmpCls isCall isExit target cls code
  repeat' split at h
  all_goals first | (cases h) | skip
  all_goals (repeat' split)
  all_goals first | (simp_all; done) | (simp_all <;> omega) | omega

theorem ldfd_pc {i : Insn} (h : i.op = 0x18) (pc : Nat) : pc + 2 ∈ succPcs pc i := by
  simp [succPcs, isJmpCls, cls, h]

/-- registers outside `defs i` keep their value (so `defs` over-approximates what `step` writes) -/
theorem step_frame {prog : List Insn} {σ σ' : State} {i : Insn} (hi : prog[σ.pc]? = some i)
    (h : step prog σ = .next σ') : ∀ r, r ∉ defs i → σ'.regs r = σ.regs r := by
  intro r hr
  unfold step at h
  simp only [fetch, hi] at h
  unfold defs isAlu isCall isJmpCls isLdImm64 isLdx cls code at hr
  repeat' split at h
  all_goals first | (cases h) | skip
  all_goals (simp only [State.setReg])
  all_goals first | rfl | skip
  all_goals (split <;> first | rfl | skip)
  all_goals (exfalso; subst_vars; revert hr; simp_all <;> omega)

theorem istep_succ {prog : List Insn} {c c' : Conf} {i : Insn} (hi : prog[c.σ.pc]? = some i) (h : IStep prog c c') :
    c'.σ.pc ∈ succPcs c.σ.pc i ∧ c'.w = writtenAfter i c.w := by
  cases h with
  | next hi' hs => rw [hi] at hi'; cases hi'; exact ⟨step_next_pc hi hs, rfl⟩
  | call hi' hs hpc _ => rw [hi] at hi'; cases hi'; exact ⟨by simpa [hpc] using step_call_pc hi hs, rfl⟩
  | ldfd hi' hop _ _ => rw [hi] at hi'; cases hi'; exact ⟨ldfd_pc hop _, rfl⟩

theorem istep_fetch {prog : List Insn} {c c' : Conf} (h : IStep prog c c') : ∃ i, prog[c.σ.pc]? = some i := by
  cases h with
  | next hi _ => exact ⟨_, hi⟩
  | call hi _ _ _ => exact ⟨_, hi⟩
  | ldfd hi _ _ _ => exact ⟨_, hi⟩

/-! ## the lattice order and "has a value" -/

theorem kind_leq_init {b a : Kind} (h : b.leq a = true) (hb : b.isInit = true) : a.isInit = true := by
  cases b <;> cases a <;> simp_all [Kind.leq, Kind.isInit]

theorem state_leq_init {b a : AbsState} (h : b.leq a = true) {r : Nat} (hr : r < 11) (hb : (b.reg r).isInit = true) :
    (a.reg r).isInit = true := by
  unfold AbsState.leq at h
  simp only [Bool.and_eq_true, List.all_eq_true, List.mem_range] at h
  exact kind_leq_init (h.1.2 r hr) hb

theorem init_regs : ∀ r, r < 11 → (initState.reg r).isInit = true → r = 1 ∨ r = 10 := by decide

/-! ## what `checkTable` gives -/

structure TableOk (cfg : Config) (geo : MapGeometry) (prog : List Insn) (t : Table) : Prop where
  len : t.length = prog.length
  start : ∃ a0, t[0]? = some (some a0) ∧ a0.leq initState = true
  at_pc : ∀ pc, pc < prog.length → checkAt cfg geo prog t pc = true

theorem accepts_table {cfg : Config} {prog : List Insn} {geo : MapGeometry} (h : acceptsWith cfg prog geo = true) :
    structOk prog = true ∧ ∃ t, TableOk cfg geo prog t := by
  unfold acceptsWith at h
  simp only [Bool.and_eq_true] at h
  refine ⟨h.1, ?_⟩
  have h2 := h.2
  split at h2
  · rename_i t _
    refine ⟨t, ?_⟩
    unfold checkTable at h2
    simp only [Bool.and_eq_true, List.all_eq_true, List.mem_range, beq_iff_eq] at h2
    refine ⟨h2.1.1, ?_, h2.2⟩
    have h0 := h2.1.2
    split at h0
    · rename_i a0 ha0; exact ⟨a0, ha0, h0⟩
    · cases h0
  · cases h2

/-- the facts `checkAt` establishes at a pc that holds a first-slot instruction with table entry `a` -/
theorem checkAt_spec {cfg : Config} {geo : MapGeometry} {prog : List Insn} {t : Table} {pc : Nat} {i : Insn} {a : AbsState}
    (hc : checkAt cfg geo prog t pc = true) (hi : prog[pc]? = some i) (ha : t[pc]? = some (some a)) :
    readsOk i a = true ∧ stackAccessOk i a = true ∧ ∃ outs, transfer cfg geo pc i prog[pc + 1]? a = .ok outs ∧
      (∀ q ∈ succPcs pc i, ∃ o ∈ outs, o.1 = q) ∧
      (∀ o ∈ outs, defsOk i a o.2 = true ∧ fpEdgeOk i a o.2 = true ∧ ∃ b, t[o.1]? = some (some b) ∧ b.leq o.2 = true) := by
  unfold checkAt at hc
  rw [hi, ha] at hc
  simp only [Bool.and_eq_true] at hc
  refine ⟨hc.1.1, hc.1.2, ?_⟩
  have h2 := hc.2
  split at h2
  · rename_i outs hto
    refine ⟨outs, hto, ?_, ?_⟩
    · simp only [Bool.and_eq_true, List.all_eq_true, List.any_eq_true, beq_iff_eq] at h2
      intro q hq
      obtain ⟨o, ho, hoq⟩ := h2.1 q hq
      exact ⟨o, ho, hoq⟩
    · simp only [Bool.and_eq_true, List.all_eq_true] at h2
      intro o ho
      have h3 := h2.2 o ho
      refine ⟨h3.1.1, h3.1.2, ?_⟩
      have h4 := h3.2
      split at h4
      · rename_i b hb; exact ⟨b, hb, h4⟩
      · cases h4
  · cases h2

end Ebv.C05
