import Ebv.Lemmas.CondWithAll
import Ebv.Lemmas.CondZ2
/-! From surface statement programs to elaborated ones (`compileS`), the decidable hypotheses of the property
(`KStmt.okB`, `KStmt.zokB`), and the integer-level semantics under the precondition (`KStmt.semZ`). -/
namespace Ebv.Gen
open Ebv.Ebpf Ebv.C01

/-- the statement after the operator overloads have built its conditions and right-hand sides (`none` if Python
raises, or for the `jumpIf` forms, which are corresponded only) -/
def compileS (env : List VarLoc) : SStmt → Option KStmt
  | .skip => some .skip
  | .set d e => (compile env (.set d e)).map .set
  | .seq a b => match compileS env a, compileS env b with
    | some x, some y => some (.seq x y)
    | _, _ => none
  | .ifThen c body => match elabC env c, compileS env body with
    | .ok co, some k => some (.ifThen co k)
    | _, _ => none
  | .ifElse c body els => match elabC env c, compileS env body, compileS env els with
    | .ok co, some k, some e => some (.ifElse co k e)
    | _, _, _ => none
  | .jif _ _ => none
  | .jifElse _ _ _ => none

theorem withCond_ok {env : List VarLoc} {c : SCond} {co : CObj} (h : elabC env c = .ok co) (k : CObj → GenM Unit) :
    withCond env c k = k co := by
  funext g; simp only [withCond, h]

theorem emitS_compile (env : List VarLoc) : ∀ (s : SStmt) (k : KStmt), compileS env s = some k → emitS env s = emitK k := by
  intro s
  induction s with
  | skip => intro k h; simp only [compileS, Option.some.injEq] at h; subst h; rfl
  | set d e =>
    intro k h
    simp only [compileS, Option.map_eq_some_iff] at h
    obtain ⟨cs, hc, rfl⟩ := h
    simp only [emitS, emitK]; exact emitStmt_compile hc
  | seq a b iha ihb =>
    intro k h
    simp only [compileS] at h
    split at h
    · rename_i x y hx hy
      cases h; simp only [emitS, emitK, iha x hx, ihb y hy]
    · cases h
  | ifThen c body ihb =>
    intro k h
    simp only [compileS] at h
    split at h
    · rename_i co kb hc hb
      cases h; simp only [emitS, emitK, withCond_ok hc, ihb kb hb]
    · cases h
  | ifElse c body els ihb ihe =>
    intro k h
    simp only [compileS] at h
    split at h
    · rename_i co kb ke hc hb he
      cases h; simp only [emitS, emitK, withCond_ok hc, ihb kb hb, ihe ke he]
    · cases h
  | jif c a _ => intro k h; simp [compileS] at h
  | jifElse c a b _ _ => intro k h; simp [compileS] at h

/-! ## decidable hypotheses -/

def operandOkB (e : Expr) (b : Bool) (o : List Nat) : Bool :=
  leavesOwnedB o e && e.frag && !narrowIn64 e b false .any

theorem operandOkB_sound {e : Expr} {b : Bool} {o : List Nat} (h : operandOkB e b o = true) : OperandOk e b o := by
  simp only [operandOkB, Bool.and_eq_true, Bool.not_eq_true'] at h
  obtain ⟨⟨h1, h2⟩, h4⟩ := h
  exact ⟨leavesOwnedB_sound h1, h2, h4⟩

/-- one atom: well-typed operands of C01's proved fragment, in none of the classes
*narrow-reg-in-64*, *widen-in-place*, and (by `atomFrag`) with a jump that only looks at bits the operands determine -/
def atomOkB (o : List Nat) (l r : Expr) : Bool :=
  operandOkB l (opW l) o && (r.asSmallConst.isSome || operandOkB r (rW l r) o) && !widenInPlace l r && atomFrag l r

theorem atomOkB_sound {o : List Nat} {l r : Expr} (h : atomOkB o l r = true) : AtomOk o l r := by
  simp only [atomOkB, Bool.and_eq_true, Bool.or_eq_true, Bool.not_eq_true'] at h
  obtain ⟨⟨⟨h1, h2⟩, h3⟩, h4⟩ := h
  refine ⟨operandOkB_sound h1, fun hn => ?_, h3, h4⟩
  rcases h2 with h2 | h2
  · rw [hn] at h2; cases h2
  · exact operandOkB_sound h2

def CObj.okB (o : List Nat) : CObj → Bool
  | .simple _ _ l r => atomOkB o l r
  | .bits l r => atomOkB o l r
  | .andor _ a b => a.okB o && b.okB o
  | .inv a => a.okB o

theorem CObj.okB_sound {o : List Nat} : ∀ {c : CObj}, c.okB o = true → c.ok o := by
  intro c
  induction c with
  | simple op sg l r => intro h; exact atomOkB_sound h
  | bits l r => intro h; exact atomOkB_sound h
  | andor isAnd a b iha ihb => intro h; simp only [CObj.okB, Bool.and_eq_true] at h; exact ⟨iha h.1, ihb h.2⟩
  | inv a ih => intro h; exact ih h

def KStmt.okB : List Nat → KStmt → Bool
  | _, .skip => true
  | o, .set cs => cs.ok o
  | o, .seq a b => a.okB o && b.okB (a.own o)
  | o, .ifThen c body => c.okB o && body.okB o
  | o, .ifElse c body els => c.okB o && body.okB o && els.okB o

theorem KStmt.okB_sound : ∀ (k : KStmt) (o : List Nat), k.okB o = true → k.ok o := by
  intro k
  induction k with
  | skip => intro o _; trivial
  | set cs => intro o h; exact h
  | seq a b iha ihb => intro o h; simp only [KStmt.okB, Bool.and_eq_true] at h; exact ⟨iha o h.1, ihb _ h.2⟩
  | ifThen c body ihb =>
    intro o h; simp only [KStmt.okB, Bool.and_eq_true] at h; exact ⟨CObj.okB_sound h.1, ihb o h.2⟩
  | ifElse c body els ihb ihe =>
    intro o h; simp only [KStmt.okB, Bool.and_eq_true] at h
    exact ⟨CObj.okB_sound h.1.1, ihb o h.1.2, ihe o h.2⟩

/-- every condition is in the fragment where the integer level is proved -/
def KStmt.zokB : KStmt → Bool
  | .skip => true
  | .set _ => true
  | .seq a b => a.zokB && b.zokB
  | .ifThen c body => c.zok && body.zokB
  | .ifElse c body els => c.zok && body.zokB && els.zokB

/-- **the property's semantics**: as `KStmt.sem`, with the truth value over Python integers, claimed from every
state in which the condition reached satisfies the precondition (`CObj.pre`: the compared values fit) -/
def KStmt.semZ : List Nat → KStmt → State → State → Prop
  | o, .skip, σ, σ' => Keep o σ σ'
  | o, .set cs, σ, σ' => cs.spec o σ σ'
  | o, .seq a b, σ, σ' => ∃ σ1, a.semZ o σ σ1 ∧ b.semZ (a.own o) σ1 σ'
  | o, .ifThen c body, σ, σ' =>
    c.pre σ → ∃ σ1, Keep o σ σ1 ∧ (if c.truth σ then body.semZ o σ1 σ' else Keep o σ1 σ')
  | o, .ifElse c body els, σ, σ' =>
    c.pre σ → ∃ σ1, Keep o σ σ1 ∧ (if c.truth σ then body.semZ o σ1 σ' else els.semZ o σ1 σ')

theorem sem_semZ : ∀ (k : KStmt) (o : List Nat) (σ σ' : State), k.zokB = true → k.sem CObj.mtruth o σ σ' → k.semZ o σ σ' := by
  intro k
  induction k with
  | skip => intro o σ σ' _ h; exact h
  | set cs => intro o σ σ' _ h; exact h
  | seq a b iha ihb =>
    intro o σ σ' hz h
    simp only [KStmt.zokB, Bool.and_eq_true] at hz
    obtain ⟨σ1, h1, h2⟩ := h
    exact ⟨σ1, iha o σ σ1 hz.1 h1, ihb _ σ1 σ' hz.2 h2⟩
  | ifThen c body ihb =>
    intro o σ σ' hz h hpre
    simp only [KStmt.zokB, Bool.and_eq_true] at hz
    obtain ⟨σ1, hk, h⟩ := h
    rw [mtruth_eq_truth σ c hz.1 hpre] at h
    refine ⟨σ1, hk, ?_⟩
    cases ht : c.truth σ <;> rw [ht] at h <;> simp only [Bool.false_eq_true, if_false, if_true] at h ⊢
    · exact h
    · exact ihb o σ1 σ' hz.2 h
  | ifElse c body els ihb ihe =>
    intro o σ σ' hz h hpre
    simp only [KStmt.zokB, Bool.and_eq_true] at hz
    obtain ⟨σ1, hk, h⟩ := h
    rw [mtruth_eq_truth σ c hz.1.1 hpre] at h
    refine ⟨σ1, hk, ?_⟩
    cases ht : c.truth σ <;> rw [ht] at h <;> simp only [Bool.false_eq_true, if_false, if_true] at h ⊢
    · exact ihe o σ1 σ' hz.2 h
    · exact ihb o σ1 σ' hz.1.2 h

end Ebv.Gen
