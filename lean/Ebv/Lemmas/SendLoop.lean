import Ebv.Model.SendLoop
/-! Pointwise descriptions of the operations of `Ebv.SendLoop` on the table of futures.
Used by `Ebv.Props.C12`. -/
namespace Ebv.SendLoop
open Ebv.Consts Ebv.Bytes

@[simp] theorem Futs.get_set (fs : Futs) (r x : Rid) (v : Fut) :
    (fs.set r v).get x = if x = r then some v else fs.get x := rfl

theorem settle_get (fs : Futs) (r x : Rid) (v : Fut) :
    (settle fs r v).get x = if x = r ∧ fs.get r = some .pending then some v else fs.get x := by
  unfold settle
  by_cases h : fs.get r = some .pending <;> by_cases hx : x = r <;> simp [h, hx]

/-- what a response gives the datagram at `g` -/
def respOutcome (d : List UInt8) (g : Dg) : Fut :=
  if short d g.stop then .structError
  else if wkcAt d g.stop = 0 then .ecError
  else .result (slice d g.start g.stop)

theorem respOutcome_ne_pending (d : List UInt8) (g : Dg) : respOutcome d g ≠ .pending := by
  unfold respOutcome; split
  · simp
  · split <;> simp

theorem complete_get (d : List UInt8) (g : Dg) (fs : Futs) (x : Rid) (hs : short d g.stop = false) :
    (complete d g fs).get x =
      if x = g.rid ∧ fs.get g.rid = some .pending then some (respOutcome d g) else fs.get x := by
  unfold complete respOutcome
  by_cases h : fs.get g.rid = some .pending <;> by_cases hx : x = g.rid <;>
    by_cases hw : wkcAt d g.stop = 0 <;> simp [h, hx, hw, hs]

/-- first datagram of request `x` in a frame -/
def dgOf (dgs : List Dg) (x : Rid) : Option Dg := dgs.find? (fun g => g.rid == x)

@[simp] theorem dgOf_nil (x : Rid) : dgOf [] x = none := rfl
theorem dgOf_cons (g : Dg) (rest : List Dg) (x : Rid) :
    dgOf (g :: rest) x = if g.rid = x then some g else dgOf rest x := by
  simp only [dgOf, List.find?_cons]
  by_cases h : g.rid = x
  · simp [h]
  · have : (g.rid == x) = false := by simpa using h
    simp [this, h]

theorem dgOf_mem {dgs : List Dg} {x : Rid} {g : Dg} (h : dgOf dgs x = some g) : g ∈ dgs ∧ g.rid = x := by
  unfold dgOf at h
  exact ⟨List.mem_of_find?_eq_some h, by simpa using List.find?_some h⟩

theorem dgOf_none {dgs : List Dg} {x : Rid} : dgOf dgs x = none ↔ x ∉ dgs.map (·.rid) := by
  unfold dgOf; simp [List.find?_eq_none]

/-- stops do not decrease along the frame -/
def Mono (dgs : List Dg) : Prop := dgs.Pairwise fun a b => a.stop ≤ b.stop

theorem short_mono {d : List UInt8} {a b : Nat} (h : a ≤ b) (hs : short d a = true) : short d b = true := by
  simp [short] at *; omega

/-- the `for` loop of `process_packet`, request by request -/
theorem procLoop_get (d : List UInt8) (dgs : List Dg) (fs : Futs) (hm : Mono dgs) :
    ((procLoop d dgs fs).2 = true ↔ ∃ g ∈ dgs, short d g.stop = true) ∧
    ∀ x, (procLoop d dgs fs).1.get x =
      if fs.get x = some .pending then
        match dgOf dgs x with
        | some g => if short d g.stop then some .pending else some (respOutcome d g)
        | none => some .pending
      else fs.get x := by
  induction dgs generalizing fs with
  | nil => simp [procLoop]
  | cons g rest ih =>
    have hm' : Mono rest := (List.pairwise_cons.mp hm).2
    have hle : ∀ b ∈ rest, g.stop ≤ b.stop := (List.pairwise_cons.mp hm).1
    unfold procLoop
    by_cases hs : short d g.stop = true
    · simp only [hs, ↓reduceIte]
      refine ⟨by simp [hs], fun x => ?_⟩
      by_cases hp : fs.get x = some .pending
      · simp only [hp, ↓reduceIte, dgOf_cons]
        by_cases hx : g.rid = x
        · simp [hx, hs]
        · simp only [hx, ↓reduceIte]
          cases hd : dgOf rest x with
          | none => rfl
          | some g' => simp [short_mono (hle g' (dgOf_mem hd).1) hs]
      · simp [hp]
    · have hs' : short d g.stop = false := by simpa using hs
      simp only [hs', Bool.false_eq_true, ↓reduceIte]
      obtain ⟨ih1, ih2⟩ := ih (complete d g fs) hm'
      refine ⟨by rw [ih1]; simp [hs'], fun x => ?_⟩
      rw [ih2 x, complete_get d g fs x hs', dgOf_cons]
      by_cases hx : g.rid = x
      · subst hx
        by_cases hp : fs.get g.rid = some .pending
        · simp [hp, respOutcome_ne_pending, hs']
        · simp [hp]
      · have hx' : ¬ x = g.rid := fun e => hx e.symm
        simp [hx, hx']

theorem failAll_get (v : Fut) (hv : v ≠ .pending) (dgs : List Dg) (fs : Futs) (x : Rid) :
    (failAll v dgs fs).get x =
      if fs.get x = some .pending ∧ x ∈ dgs.map (·.rid) then some v else fs.get x := by
  induction dgs generalizing fs with
  | nil => simp [failAll]
  | cons g rest ih =>
    unfold failAll
    rw [ih, settle_get]
    by_cases hx : x = g.rid
    · subst hx
      by_cases hp : fs.get g.rid = some .pending
      · simp [hp, hv]
      · simp [hp]
    · have : ¬ g.rid = x := fun e => hx e.symm
      simp [hx]

/-- `process_packet` after the response has arrived, request by request: a pending request of the
frame gets what the response holds at its own datagram; nothing else changes -/
theorem process_get (dgs : List Dg) (d : List UInt8) (fs : Futs) (hm : Mono dgs) (x : Rid) :
    (process dgs d fs).get x =
      if fs.get x = some .pending then
        match dgOf dgs x with
        | some g => some (respOutcome d g)
        | none => some .pending
      else fs.get x := by
  obtain ⟨h1, h2⟩ := procLoop_get d dgs fs hm
  unfold process
  generalize hpl : procLoop d dgs fs = pl at h1 h2
  obtain ⟨fs', raised⟩ := pl
  cases raised with
  | false =>
    simp only at h1 h2 ⊢
    rw [h2 x]
    have hno : ∀ g ∈ dgs, short d g.stop = false := by
      intro g hg
      cases hc : short d g.stop with
      | false => rfl
      | true => exact absurd (h1.mpr ⟨g, hg, hc⟩) (by simp)
    by_cases hp : fs.get x = some .pending
    · simp only [hp, ↓reduceIte]
      cases hd : dgOf dgs x with
      | none => rfl
      | some g => simp [hno g (dgOf_mem hd).1]
    · simp [hp]
  | true =>
    simp only at h1 h2 ⊢
    rw [failAll_get _ (by simp), h2 x]
    by_cases hp : fs.get x = some .pending
    · simp only [hp, ↓reduceIte]
      cases hd : dgOf dgs x with
      | none =>
        have := dgOf_none.mp hd
        simp [this]
      | some g =>
        have hmem : x ∈ dgs.map (·.rid) := List.mem_map.mpr ⟨g, (dgOf_mem hd).1, (dgOf_mem hd).2⟩
        by_cases hs : short d g.stop = true
        · simp [hs, hmem, respOutcome]
        · simp [hs, respOutcome_ne_pending]
    · simp [hp]

/-- what the arrived responses hold for request `x`: the first arrived frame that contains it decides -/
def arrOutcome (arr : List (Frame × List UInt8)) (x : Rid) : Option Fut :=
  arr.findSome? fun p => (dgOf p.1.dgs x).map (respOutcome p.2)

theorem processAll_get (arr : List (Frame × List UInt8)) (fs : Futs) (hm : ∀ p ∈ arr, Mono p.1.dgs) (x : Rid) :
    (processAll arr fs).get x =
      if fs.get x = some .pending then
        match arrOutcome arr x with
        | some v => some v
        | none => some .pending
      else fs.get x := by
  induction arr generalizing fs with
  | nil => simp [processAll, arrOutcome]
  | cons p rest ih =>
    obtain ⟨fr, d⟩ := p
    unfold processAll
    rw [ih _ (fun p hp => hm p (List.mem_cons_of_mem _ hp)), process_get _ _ _ (hm (fr, d) (by simp))]
    by_cases hp : fs.get x = some .pending
    · simp only [hp, ↓reduceIte, arrOutcome, List.findSome?_cons]
      cases hd : dgOf fr.dgs x with
      | none => simp
      | some g => simp [respOutcome_ne_pending]
    · simp [hp]

/-! ### every operation only completes pending futures -/

/-- each entry is unchanged, or went from pending to something -/
def Ext (fs fs' : Futs) : Prop :=
  ∀ x, fs'.get x = fs.get x ∨ (fs.get x = some .pending ∧ (fs'.get x).isSome = true)

theorem Ext.refl (fs : Futs) : Ext fs fs := fun _ => Or.inl rfl

theorem Ext.trans {a b c : Futs} (h1 : Ext a b) (h2 : Ext b c) : Ext a c := by
  intro x
  rcases h1 x with e1 | ⟨p1, s1⟩ <;> rcases h2 x with e2 | ⟨p2, s2⟩
  · exact Or.inl (e2.trans e1)
  · exact Or.inr ⟨e1 ▸ p2, s2⟩
  · exact Or.inr ⟨p1, e2 ▸ s1⟩
  · exact Or.inr ⟨p1, s2⟩

theorem Ext.stable {a b : Futs} (h : Ext a b) {x : Rid} {v : Fut} (hx : a.get x = some v) (hv : v ≠ .pending) :
    b.get x = some v := by
  rcases h x with e | ⟨p, _⟩
  · rw [e, hx]
  · rw [hx] at p; exact absurd (Option.some.inj p) hv

theorem Ext.isSome {a b : Futs} (h : Ext a b) (x : Rid) : (b.get x).isSome = (a.get x).isSome := by
  rcases h x with e | ⟨p, s⟩
  · rw [e]
  · rw [s, p]; rfl

theorem ext_settle (fs : Futs) (r : Rid) (v : Fut) : Ext fs (settle fs r v) := by
  intro x
  rw [settle_get]
  by_cases h : x = r ∧ fs.get r = some .pending
  · obtain ⟨rfl, hp⟩ := h
    exact Or.inr ⟨hp, by simp [hp]⟩
  · simp [h]

theorem ext_complete (d : List UInt8) (g : Dg) (fs : Futs) : Ext fs (complete d g fs) := by
  intro x
  unfold complete
  by_cases hp : fs.get g.rid = some .pending
  · by_cases hx : x = g.rid
    · subst hx; right; refine ⟨hp, ?_⟩; simp only [hp, ↓reduceIte]; split <;> simp
    · left; simp only [hp, ↓reduceIte]; split <;> simp [hx]
  · simp [hp]

theorem ext_procLoop (d : List UInt8) (dgs : List Dg) (fs : Futs) : Ext fs (procLoop d dgs fs).1 := by
  induction dgs generalizing fs with
  | nil => exact Ext.refl _
  | cons g rest ih =>
    unfold procLoop
    split
    · exact Ext.refl _
    · exact (ext_complete d g fs).trans (ih _)

theorem ext_failAll (v : Fut) (dgs : List Dg) (fs : Futs) : Ext fs (failAll v dgs fs) := by
  induction dgs generalizing fs with
  | nil => exact Ext.refl _
  | cons g rest ih => exact (ext_settle fs g.rid v).trans (ih _)

theorem ext_process (dgs : List Dg) (d : List UInt8) (fs : Futs) : Ext fs (process dgs d fs) := by
  have h := ext_procLoop d dgs fs
  unfold process
  generalize procLoop d dgs fs = pl at h
  obtain ⟨fs', raised⟩ := pl
  cases raised with
  | false => exact h
  | true => exact h.trans (ext_failAll _ _ _)

theorem ext_processAll (arr : List (Frame × List UInt8)) (fs : Futs) : Ext fs (processAll arr fs) := by
  induction arr generalizing fs with
  | nil => exact Ext.refl _
  | cons p rest ih =>
    obtain ⟨fr, d⟩ := p
    exact (ext_process fr.dgs d fs).trans (ih _)

end Ebv.SendLoop
