import Ebv.Lemmas.FixedSem
/-! Python-level values and what they stand for (`RepV`); the operator protocol preserves it (`fOp_rep`). -/
namespace Ebv.GenFixed
open Ebv.Ebpf Ebv.Gen

/-- the Python-level value `v` stands for the rational `q` and has type `fx`; decimal literals are in the range where
`Constant.__init__` is exact -/
def RepV (σ : State) (v : FVal) (q : Rat) (fx : Bool) : Prop :=
  match v with
  | .int c => q = (c : Rat) ∧ fx = false
  | .dec n => q = (n : Rat) / SQ ∧ fx = true ∧ n.natAbs < 2 ^ 51
  | .ex e f => f = fx ∧ Rep σ ⟨e, f⟩ q ∧ (f = true → isSumObj e = false)

theorem ensureF_rep {σ : State} {v : FVal} {q : Rat} {fx : Bool} {fe : FE} (h : RepV σ v q fx)
    (he : ensureF v = .ok fe) : fe.fixed = fx ∧ Rep σ fe q := by
  cases v with
  | int c =>
    simp only [ensureF, Except.ok.injEq] at he; subst he
    obtain ⟨h1, h2⟩ := h
    exact ⟨h2.symm, by simp only [Rep, scale, evalZ, h1]; grind⟩
  | dec n =>
    simp only [ensureF, Except.ok.injEq] at he; subst he
    obtain ⟨h1, h2, h3⟩ := h
    refine ⟨h2.symm, ?_⟩
    simp only [Rep, scale, evalZ, if_true, F64.decConst_eq n h3, h1, SQ_eq]
    grind
  | ex e f =>
    simp only [ensureF, Except.ok.injEq] at he; subst he
    exact ⟨h.1, h.2.1⟩

/-- the integer operators of `Gen` are the rational operation on integers -/
theorem opQ_int (op : FOp) (sop : SOp) (h : op.toS = some sop) (X Y : Int) :
    ((sop.evalZ X Y : Int) : Rat) = opQ op false false (X : Rat) (Y : Rat) := by
  cases op <;> simp only [FOp.toS, Option.some.injEq, reduceCtorEq] at h <;> subst h <;>
    simp only [SOp.evalZ, opQ, Bool.and_self, Bool.false_eq_true, if_false]
  · exact Rat.intCast_add _ _
  · exact Rat.intCast_sub _ _
  · exact Rat.intCast_mul _ _
  · rw [floor_div_int]
  · rw [floor_div_int, Int.fmod_def, Rat.intCast_sub, Rat.intCast_mul]

/-- `float // non-fixed expression`: `__rfloordiv__` truncates the float with `int()` first (exact only for
positive divisors; under correspondence, outside the typing theorem) -/
def rfdNode (op : FOp) (x y : FVal) : Bool :=
  op == .floordiv && (match x, y with
    | .dec _, .ex _ false => true
    | _, _ => false)

section
variable {σ : State}

theorem fSum_notsum (op : BinOp) (s v : FE) : isSumObj (fSum op s v).e = false := by
  obtain ⟨es, fs⟩ := s; obtain ⟨ev, fv⟩ := v
  cases fs <;> cases fv <;> simp [fSum, isSumObj]

theorem fMul_notsum (s v : FE) : isSumObj (fMul s v).e = false := by
  obtain ⟨es, fs⟩ := s; obtain ⟨ev, fv⟩ := v
  cases fs <;> cases fv <;> simp [fMul, isSumObj]

theorem fDirect_rep (op : FOp) (s : FE) (value : FVal) (r : FE) (qa qb : Rat) (fb : Bool)
    (hs : Rep σ s qa) (hv : RepV σ value qb fb) (h : fDirect op s value = .ok r) :
    Rep σ r (opQ op s.fixed fb qa qb) ∧ r.fixed = tyOp op s.fixed fb ∧ isSumObj r.e = false := by
  unfold fDirect at h
  cases hev : ensureF value with
  | error e => rw [hev] at h; cases h
  | ok v =>
    rw [hev] at h
    obtain ⟨hf, hr⟩ := ensureF_rep hv hev
    subst hf
    cases op <;> simp only [bind, Except.bind, pure, Except.pure, Except.ok.injEq] at h
    · subst h; exact ⟨fSum_add_rep σ s v qa qb hs hr, fSum_fixed s v .add, fSum_notsum _ s v⟩
    · subst h; exact ⟨fSum_sub_rep σ s v qa qb hs hr, fSum_fixed s v .sub, fSum_notsum _ s v⟩
    · subst h; exact ⟨fMul_rep σ s v qa qb hs hr, fMul_fixed s v, fMul_notsum s v⟩
    · subst h; exact ⟨(fTruediv_rep σ s v qa qb hs hr).1, (fTruediv_rep σ s v qa qb hs hr).2, rfl⟩
    · subst h
      refine ⟨(fFloordiv_rep σ s v qa qb hs hr).1, (fFloordiv_rep σ s v qa qb hs hr).2, ?_⟩
      obtain ⟨es, fs⟩ := s; obtain ⟨ev, fv⟩ := v
      cases fs <;> cases fv <;> simp [fFloordiv, isSumObj]
    · subst h; exact ⟨fSum_mod_rep σ s v qa qb hs hr, fSum_fixed s v .mod, fSum_notsum _ s v⟩

theorem rFloordiv_rep (self : FE) (value : FVal) (r : FE) (qa qb : Rat) (fa : Bool)
    (hs : Rep σ self qb) (hv : RepV σ value qa fa) (h : rFloordiv self value = .ok r)
    (hrf : ∀ n, value = .dec n → self.fixed = true) :
    Rep σ r (((qa / qb).floor : Int) : Rat) ∧ r.fixed = false ∧ isSumObj r.e = false := by
  obtain ⟨es, fs⟩ := self
  cases value with
  | int c =>
    obtain ⟨h1, _⟩ := hv
    cases fs <;> simp only [rFloordiv, Bool.false_eq_true, if_false, if_true, pure, Except.pure, Except.ok.injEq] at h <;>
      subst h <;> refine ⟨?_, rfl, rfl⟩ <;> simp only [Rep, scale, evalZ, BinOp.evalZ, Bool.false_eq_true, if_false, Rat.mul_one] at hs ⊢
    · exact sem_floordiv _ _ qa qb 1 (by rw [h1]; grind) (by rw [hs]; grind) (by decide)
    · exact sem_floordiv _ _ qa qb SQ (by rw [Rat.intCast_mul, cast_FB, h1]) hs (scale_ne true)
  | dec n =>
    obtain ⟨h1, _, h3⟩ := hv
    have hfs : fs = true := hrf n rfl
    subst hfs
    simp only [rFloordiv, if_true, pure, Except.pure, Except.ok.injEq] at h
    subst h
    refine ⟨?_, rfl, rfl⟩
    simp only [Rep, scale, evalZ, BinOp.evalZ, Bool.false_eq_true, if_false, if_true, Rat.mul_one,
      F64.decConst_eq n h3] at hs ⊢
    exact sem_floordiv _ _ qa qb SQ (by rw [h1, SQ_eq]; grind) hs (scale_ne true)
  | ex e f => simp [rFloordiv, typeError] at h

end
end Ebv.GenFixed
