import Ebv.Lemmas.XdpStep
/-! What each opcode the dispatcher uses does to a state `⟨R, M, pc⟩` (rewrite rules for `stepO`). -/
namespace Ebv.XdpRun
open Ebv.Ebpf

/-- target of a taken jump -/
def jmp (pc : Nat) (o : Int) (R : Nat → W) (M : W → BitVec 8) : Res :=
  if (pc : Int) + 1 + o < 0 then .bad else .next ⟨R, M, ((pc : Int) + 1 + o).toNat⟩

local macro "op_tac" : tactic =>
  `(tactic| (simp [stepO, stepI, alu, Ebpf.cond, Ebpf.sizeOf, State.setReg, jmp] <;> rfl))

local macro "jmp_tac" h:ident : tactic =>
  `(tactic| (simp [stepO, stepI, Ebpf.cond, jmp, $h:ident]))

variable (prog : List Insn) (R : Nat → W) (M : W → BitVec 8) (pc d n : Nat) (o v : Int)

theorem op_mov64r : stepO prog ⟨R, M, pc⟩ (some ⟨191, d, n, o, v⟩) = .next ⟨upd R d (R n), M, pc + 1⟩ := by op_tac
theorem op_mov64i : stepO prog ⟨R, M, pc⟩ (some ⟨183, d, n, o, v⟩) = .next ⟨upd R d (simm v), M, pc + 1⟩ := by op_tac
theorem op_add64i : stepO prog ⟨R, M, pc⟩ (some ⟨7, d, n, o, v⟩) = .next ⟨upd R d (R d + simm v), M, pc + 1⟩ := by op_tac
theorem op_add64r : stepO prog ⟨R, M, pc⟩ (some ⟨15, d, n, o, v⟩) = .next ⟨upd R d (R d + R n), M, pc + 1⟩ := by op_tac
theorem op_mul64i : stepO prog ⟨R, M, pc⟩ (some ⟨39, d, n, o, v⟩) = .next ⟨upd R d (R d * simm v), M, pc + 1⟩ := by op_tac
theorem op_and64i : stepO prog ⟨R, M, pc⟩ (some ⟨87, d, n, o, v⟩) = .next ⟨upd R d (R d &&& simm v), M, pc + 1⟩ := by op_tac
theorem op_add32i : stepO prog ⟨R, M, pc⟩ (some ⟨4, d, n, o, v⟩) =
    .next ⟨upd R d (BitVec.setWidth 64 (BitVec.setWidth 32 (R d) + BitVec.setWidth 32 (simm v))), M, pc + 1⟩ := by op_tac
theorem op_and32i : stepO prog ⟨R, M, pc⟩ (some ⟨84, d, n, o, v⟩) =
    .next ⟨upd R d (BitVec.setWidth 64 (BitVec.setWidth 32 (R d) &&& BitVec.setWidth 32 (simm v))), M, pc + 1⟩ := by op_tac
theorem op_be16 : stepO prog ⟨R, M, pc⟩ (some ⟨220, d, n, o, 16⟩) =
    .next ⟨upd R d (BitVec.ofNat 64 (byteSwap 2 ((R d).toNat % 65536))), M, pc + 1⟩ := by op_tac
theorem op_ldxw : stepO prog ⟨R, M, pc⟩ (some ⟨97, d, n, o, v⟩) =
    .next ⟨upd R d (BitVec.ofNat 64 (loadN M (R n + BitVec.ofInt 64 o) 4)), M, pc + 1⟩ := by op_tac
theorem op_ldxh : stepO prog ⟨R, M, pc⟩ (some ⟨105, d, n, o, v⟩) =
    .next ⟨upd R d (BitVec.ofNat 64 (loadN M (R n + BitVec.ofInt 64 o) 2)), M, pc + 1⟩ := by op_tac
theorem op_ldxb : stepO prog ⟨R, M, pc⟩ (some ⟨113, d, n, o, v⟩) =
    .next ⟨upd R d (BitVec.ofNat 64 (loadN M (R n + BitVec.ofInt 64 o) 1)), M, pc + 1⟩ := by op_tac
theorem op_stw : stepO prog ⟨R, M, pc⟩ (some ⟨98, d, n, o, v⟩) =
    .next ⟨R, storeN M (R d + BitVec.ofInt 64 o) 4 (simm v).toNat, pc + 1⟩ := by op_tac
theorem op_stxh : stepO prog ⟨R, M, pc⟩ (some ⟨107, d, n, o, v⟩) =
    .next ⟨R, storeN M (R d + BitVec.ofInt 64 o) 2 (R n).toNat, pc + 1⟩ := by op_tac
theorem op_stxb : stepO prog ⟨R, M, pc⟩ (some ⟨115, d, n, o, v⟩) =
    .next ⟨R, storeN M (R d + BitVec.ofInt 64 o) 1 (R n).toNat, pc + 1⟩ := by op_tac
theorem op_xaddw : stepO prog ⟨R, M, pc⟩ (some ⟨195, d, n, o, 0⟩) =
    .next ⟨R, storeN M (R d + BitVec.ofInt 64 o) 4 (loadN M (R d + BitVec.ofInt 64 o) 4 + (R n).toNat), pc + 1⟩ := by
  op_tac
theorem op_call : stepO prog ⟨R, M, pc⟩ (some ⟨133, d, n, o, v⟩) = .call v ⟨R, M, pc + 1⟩ := by op_tac
theorem op_exit : stepO prog ⟨R, M, pc⟩ (some ⟨149, d, n, o, v⟩) = .exit (R 0) := by op_tac
theorem op_ja : stepO prog ⟨R, M, pc⟩ (some ⟨5, d, n, o, v⟩) = jmp pc o R M := by op_tac
theorem op_jeq_r : stepO prog ⟨R, M, pc⟩ (some ⟨29, d, n, o, v⟩) =
    if R d = R n then jmp pc o R M else .next ⟨R, M, pc + 1⟩ := by
  by_cases h : R d = R n
  · jmp_tac h
  · have hb : (R d == R n) = false := by simpa using h
    simp [stepO, stepI, Ebpf.cond, h, hb]
theorem op_jne_r : stepO prog ⟨R, M, pc⟩ (some ⟨93, d, n, o, v⟩) =
    if R d = R n then .next ⟨R, M, pc + 1⟩ else jmp pc o R M := by
  by_cases h : R d = R n
  · jmp_tac h
  · have hb : (R d != R n) = true := by simpa using h
    simp [stepO, stepI, Ebpf.cond, jmp, h, hb]
theorem op_jne_i : stepO prog ⟨R, M, pc⟩ (some ⟨85, d, n, o, v⟩) =
    if R d = simm v then .next ⟨R, M, pc + 1⟩ else jmp pc o R M := by
  by_cases h : R d = simm v
  · jmp_tac h
  · have hb : (R d != simm v) = true := by simpa using h
    simp [stepO, stepI, Ebpf.cond, jmp, h, hb]
theorem op_jge_i : stepO prog ⟨R, M, pc⟩ (some ⟨53, d, n, o, v⟩) =
    if (simm v).toNat ≤ (R d).toNat then jmp pc o R M else .next ⟨R, M, pc + 1⟩ := by
  by_cases h : (simm v).toNat ≤ (R d).toNat <;> jmp_tac h
theorem op_jle_r : stepO prog ⟨R, M, pc⟩ (some ⟨189, d, n, o, v⟩) =
    if (R d).toNat ≤ (R n).toNat then jmp pc o R M else .next ⟨R, M, pc + 1⟩ := by
  by_cases h : (R d).toNat ≤ (R n).toNat <;> jmp_tac h
theorem op_jset_i : stepO prog ⟨R, M, pc⟩ (some ⟨69, d, n, o, v⟩) =
    if R d &&& simm v = 0#64 then .next ⟨R, M, pc + 1⟩ else jmp pc o R M := by
  by_cases h : R d &&& simm v = 0#64
  · jmp_tac h
  · have hb : (R d &&& simm v != 0#64) = true := by simpa using h
    simp [stepO, stepI, Ebpf.cond, jmp, h, hb]

end Ebv.XdpRun

namespace Ebv.XdpRun
open Ebv.Ebpf
/-- a forward jump -/
theorem jmp_fwd (pc : Nat) (o : Int) (R : Nat → W) (M : W → BitVec 8) (h : 0 ≤ o) :
    jmp pc o R M = .next ⟨R, M, pc + 1 + o.toNat⟩ := by
  have h1 : ¬ ((pc : Int) + 1 + o < 0) := by omega
  have h2 : ((pc : Int) + 1 + o).toNat = pc + 1 + o.toNat := by omega
  simp only [jmp, h1, if_false, h2]
end Ebv.XdpRun
