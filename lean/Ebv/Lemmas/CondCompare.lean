import Ebv.Lemmas.CondSem
/-! `compare` for the atoms (`SimpleComparison`, `AndComparison`): the appended segment, patched for any target
behind it, is a closed jump segment that decides the machine-level truth value. -/
namespace Ebv.Gen
open Ebv.Ebpf

/-- owned registers and memory unchanged -/
def Keep (o : List Nat) (σ σ' : State) : Prop := (∀ n ∈ o, σ'.regs n = σ.regs n) ∧ σ'.mem = σ.mem

theorem Keep.refl (o : List Nat) (σ : State) : Keep o σ σ := ⟨fun _ _ => rfl, rfl⟩
theorem Keep.trans {o : List Nat} {a b c : State} (h1 : Keep o a b) (h2 : Keep o b c) : Keep o a c :=
  ⟨fun n hn => by rw [h2.1 n hn, h1.1 n hn], by rw [h2.2, h1.2]⟩
theorem Keep.mono {o o' : List Nat} {a b : State} (h : Keep o' a b) (hs : ∀ n, n ∈ o → n ∈ o') : Keep o a b :=
  ⟨fun n hn => h.1 n (hs n hn), h.2⟩

/-- static hypotheses on one atom -/
structure AtomOk (o : List Nat) (l r : Expr) : Prop where
  left : OperandOk l (opW l) o
  right : r.asSmallConst = none → OperandOk r (rW l r) o
  noWidenInPlace : widenInPlace l r = false
  frag : atomFrag l r = true

def CObj.ok (o : List Nat) : CObj → Prop
  | .simple _ _ l r => AtomOk o l r
  | .bits l r => AtomOk o l r
  | .andor _ a b => a.ok o ∧ b.ok o
  | .inv a => a.ok o

/-- what `compare c neg` guarantees about the code it appended -/
structure CondSeg (c : CObj) (neg : Bool) (g g' : GenState) (p : Pend) : Prop where
  owners : g'.owners = g.owners
  stack : g'.stack = g.stack
  ownAll : p.OwnAll g.owners
  /-- `segf none` is the appended code with its placeholders, `segf (some L)` the same code patched for target `L`;
  patching (again) for `L` turns any of them into `segf (some L)` -/
  code : ∃ segf : Option Nat → List Insn, g'.code = g.code ++ segf none ∧
    (∀ m, (segf m).length = (segf none).length) ∧
    (∀ (m : Option Nat) (L : Nat) (pre rest : List Insn), pre.length = g.code.length →
      p.patch L (pre ++ segf m ++ rest) = pre ++ segf (some L) ++ rest) ∧
    ∀ L, g'.code.length ≤ L → ∀ σ : State, ∃ σ',
      JumpRun (segf (some L)) (L - g.code.length) σ σ' (xor (c.mtruth σ) neg) ∧ Keep g.owners σ σ'

theorem set_last (c0 : List Insn) (a x : Insn) : (c0 ++ [a]).set c0.length x = c0 ++ [x] := by
  rw [List.set_append_right _ _ (Nat.le_refl _)]; simp

theorem jmpCond_off (ins : Insn) (x : Int) (σ : State) : jmpCond { ins with off := x } σ = jmpCond ins σ := rfl

/-- the jump with its operands in front: one conditional jump behind `cmpCore`'s code -/
theorem atom_segment (f : (w : Nat) → BitVec w → BitVec w → Bool) (j : Nat) (ng : Bool) (l r : Expr) (ins : Insn)
    (o : List Nat) (c0 : List Insn) (t : Nat) (hj5 : j % 16 = 5) (h0 : j / 16 ≠ 0) (h8 : j / 16 ≠ 8) (h9 : j / 16 ≠ 9)
    (hcode : ∀ w (a b : BitVec w), cond w (j / 16) a b = some (xor (f w a b) ng))
    (hop : ins.op = jcode j (atomInfo l r).short (!(atomInfo l r).rImm)) (hfrag : atomFrag l r = true)
    (hst : ∀ i ∈ c0, straight i = true)
    (hrun : ∀ σ : State, ∃ σ3, exec c0 σ = some σ3 ∧ AtomRun l r ins o σ σ3) (ht : 1 ≤ t) (σ : State) :
    ∃ σ', JumpRun (c0 ++ [{ ins with off := (t : Int) - 1 }]) (c0.length + t) σ σ' (xor (atomVal f l r σ) ng) ∧
      Keep o σ σ' := by
  obtain ⟨σ3, he, hr⟩ := hrun σ
  refine ⟨σ3, ?_, ⟨hr.frame, hr.mem⟩⟩
  apply JumpRun.prepend (segRun_of_exec hst he)
  exact jumpRun_cond { ins with off := (t : Int) - 1 } t σ3 _ (jcode_isCond j _ _ hj5 h0 h8 h9 _ hop)
    (by rw [jmpCond_off]; exact atom_jump f j ng l r ins o σ σ3 hj5 hcode hop hr hfrag) ht rfl

theorem compare_simple (op : CmpOp) (sg : Bool) (l r : Expr) (neg : Bool) (g g' : GenState) (p : Pend)
    (hok : AtomOk g.owners l r) (h : compare (.simple op sg l r) neg g = .ok (p, g')) :
    CondSeg (.simple op sg l r) neg g g' p := by
  simp only [compare] at h
  rw [bind_ok] at h; obtain ⟨oi, g1, hcore, h⟩ := h
  rw [bind_ok] at h; obtain ⟨os, g2, hos, h⟩ := h
  rw [getOwners_ok] at hos; cases hos
  rw [pure_ok] at h; cases h
  obtain ⟨c0, hc, horg, ho, hs, hst, hop, hrun⟩ :=
    cmpCore_correct (op.jop sg neg) l r g g' oi.1 oi.2 hok.left hok.right hok.noWidenInPlace hcore
  obtain ⟨j5, j0, j8, j9, _⟩ := jop_mod op sg neg
  refine ⟨ho, hs, by simp [Pend.OwnAll, ho],
    fun m => c0 ++ [match m with | none => hole | some L => { oi.2 with off := (L : Int) - oi.1 - 1 }],
    by rw [hc, List.append_assoc], fun m => by simp, ?_, ?_⟩
  · intro m L pre rest hpre
    simp only [Pend.patch]
    rw [horg, ← hpre, set_mid pre (c0 ++ [_]) rest c0.length _ (by simp), set_last]
  · intro L hL σ
    have hlen : g'.code.length = g.code.length + c0.length + 1 := by rw [hc]; simp; omega
    have ht : 1 ≤ L - oi.1 := by omega
    obtain ⟨σ', hj, hk⟩ := atom_segment (cmpBV op sg) (op.jop sg neg) neg l r oi.2 g.owners c0 (L - oi.1) j5 j0 j8 j9
      (cond_jop op sg neg) hop hok.frag hst hrun ht σ
    refine ⟨σ', ?_, hk⟩
    have e1 : ((L - oi.1 : Nat) : Int) - 1 = (L : Int) - oi.1 - 1 := by omega
    have e2 : c0.length + (L - oi.1) = L - g.code.length := by omega
    rw [e1, e2] at hj
    exact hj

end Ebv.Gen
