import Ebv.Props.C17
import Ebv.Model.EepromHist
/-! C17 along histories (round 6): living `Terminal` objects that are used again after their
EEPROM changed, several terminals side by side, a read that fails followed by the next one.

* `read_bus_indep`            what `read_eeprom` returns depends on the image only — not on the
                              address register, the busy script, junk, i.e. not on anything earlier
                              uses left on the bus (every image, also malformed ones)
* `write_one_exact`           `eeprom_write_one` stores the word, whatever busy/error script
* `runW_slot`, `instances_independent`   a terminal's slot evolves by its own steps only
* `hist_device_exact`         the device behind a terminal after any history = the declared effect
                              of the writes and exchanges addressed to it (reads, failed reads,
                              derivations, other terminals do not touch it)
* `hist_read_present`         after ANY history a read returns exactly what a fresh terminal reads
                              from the image present now (`hist_read_wellformed`: the categories
                              `{type: payload}` and identity words of that image)
* `write_seen_by_next_read`, `failed_read_then_read`, `swap_seen_by_next_read`   its instances
* `hist_derive_present`, `hist_apply_present`   sync managers / PDO layout derived after such a
                              read are those of the present image and object dictionary
* `runObs_get`                what the driver prints at step `i` is `act` on the world after `i` steps -/
namespace Ebv.C17
open Ebv.Eeprom Ebv.Bytes Ebv.Consts

/-! ### what a read returns depends on the image only -/

theorem fill_bus_indep (d : Dev) (size f : Nat) (st st' : RState) (hp : st.pos = st'.pos) (hb : st.buf = st'.buf) :
    (fill d size f st).pos = (fill d size f st').pos ∧ (fill d size f st).buf = (fill d size f st').buf := by
  induction f generalizing st st' with
  | zero => exact ⟨hp, hb⟩
  | succ f ih =>
    unfold fill
    rw [← hb]
    by_cases hlt : st.buf.length < size
    · simp only [hlt, ↓reduceIte]
      apply ih
      · simp only; omega
      · simp only [read_one_exact, hp, hb]
    · simp only [hlt, ↓reduceIte]
      exact ⟨hp, hb⟩

theorem getData_bus_indep (d : Dev) (size : Nat) (st st' : RState) (hp : st.pos = st'.pos) (hb : st.buf = st'.buf) :
    (getData d size st).1 = (getData d size st').1 ∧ (getData d size st).2.pos = (getData d size st').2.pos ∧
      (getData d size st).2.buf = (getData d size st').2.buf := by
  obtain ⟨h1, h2⟩ := fill_bus_indep d size size st st' hp hb
  simp only [getData, h1, h2, and_self]

theorem catLoop_bus_indep (d : Dev) (f : Nat) (st st' : RState) (acc : Cats) (hp : st.pos = st'.pos) (hb : st.buf = st'.buf) :
    (catLoop d f st acc).1 = (catLoop d f st' acc).1 := by
  induction f generalizing st st' acc with
  | zero => rfl
  | succ f ih =>
    unfold catLoop
    obtain ⟨e1, e2, e3⟩ := getData_bus_indep d 4 st st' hp hb
    simp only [e1]
    by_cases hd : decLE ((getData d 4 st').1.take 2) = 0xffff
    · simp [hd]
    · simp only [hd, ↓reduceIte]
      obtain ⟨g1, g2, g3⟩ := getData_bus_indep d (decLE ((getData d 4 st').1.drop 2) * 2) _ _ e2 e3
      rw [g1]
      exact ih _ _ _ g2 g3

/-- what `read_eeprom` hands to the terminal -/
def view (r : Result) : (Nat × Nat) × (Nat × Nat) × Option Cats :=
  ((r.vendorId, r.productCode), (r.revisionNo, r.serialNo), r.eeprom)

/-- **read_bus_indep**: for every image (well-formed or not) and read mode, the identity fields and
the category dict `read_eeprom` produces are the same from every bus state: address register,
remaining busy script, status bits and junk — all an earlier use can leave behind — have no influence. -/
theorem read_bus_indep (d : Dev) (b b' : Bus) : view (readEeprom d b) = view (readEeprom d b') := by
  simp only [view, readEeprom, read_one_exact]
  congr 2
  exact catLoop_bus_indep d _ _ _ _ rfl rfl

/-! ### `eeprom_write_one` -/

theorem length_setRange_in (l : List UInt8) (a : Nat) (new : List UInt8) (h : a + new.length ≤ l.length) :
    (setRange l a new).length = l.length := by
  simp [setRange]; omega

theorem setRange_idem (l : List UInt8) (a : Nat) (new : List UInt8) (h : a + new.length ≤ l.length) :
    setRange (setRange l a new) a new = setRange l a new := by
  have ht : (l.take a).length = a := by simp; omega
  have e1 : (l.take a ++ new ++ l.drop (a + new.length)).take a = l.take a := by
    rw [List.append_assoc, List.take_left' ht]
  have e2 : (l.take a ++ new ++ l.drop (a + new.length)).drop (a + new.length) = l.drop (a + new.length) := by
    rw [List.drop_left' (by simp [ht])]
  unfold setRange
  rw [e1, e2]

theorem setWord_idem (img : List UInt8) (start val : Nat) :
    setWord (setWord img start val) start val = setWord img start val := by
  unfold setWord
  by_cases h : 2 * start + 2 ≤ img.length
  · have hl : (setRange img (2 * start) (encLE 2 val)).length = img.length :=
      length_setRange_in _ _ _ (by simpa using h)
    simp only [h, ↓reduceIte, hl]
    exact setRange_idem _ _ _ (by simpa using h)
  · simp [h]

/-- once the word is stored further rounds of the retry loop change nothing -/
theorem writeLoop_stored (start val f : Nat) (d : Dev) (hb : HBus) (h : setWord d.image start val = d.image) :
    (writeLoop d start val f hb).1 = d := by
  induction f generalizing hb with
  | zero => rfl
  | succ f ih =>
    unfold writeLoop
    have hd : ({ d with image := setWord d.image start val } : Dev) = d := by rw [h]
    simp only [hd]
    split
    · exact ih _
    · rfl

/-- **write_one_exact**: for every image, word address, value, and every busy / error script
(any number of retries) `eeprom_write_one(start, val)` leaves the device with exactly that word
replaced (a cell outside the image does not exist); the read size is untouched. -/
theorem write_one_exact (d : Dev) (start val : Nat) (hb : HBus) :
    (writeOne d start val hb).1 = { d with image := setWord d.image start val } := by
  unfold writeOne
  simp only
  generalize (hpoll d 0 hb).2 = hb1
  unfold writeLoop
  simp only
  split
  · exact writeLoop_stored _ _ _ _ _ (setWord_idem _ _ _)
  · rfl

/-! ### slots evolve on their own -/

theorem updAt_get_same (f : Slot → Slot) (w : List Slot) (k : Nat) : (updAt f w k)[k]? = w[k]?.map f := by
  induction w generalizing k with
  | nil => simp [updAt]
  | cons s w ih => cases k with
    | zero => simp [updAt]
    | succ k => simp [updAt, ih]

theorem updAt_get_ne (f : Slot → Slot) (w : List Slot) (k j : Nat) (h : j ≠ k) : (updAt f w k)[j]? = w[j]? := by
  induction w generalizing k j with
  | nil => simp [updAt]
  | cons s w ih => cases k with
    | zero => cases j with
      | zero => exact absurd rfl h
      | succ j => simp [updAt]
    | succ k => cases j with
      | zero => simp [updAt]
      | succ j => simp [updAt, ih k j (by omega)]

theorem runSlot_cons (s : Slot) (a : Act) (l : List Act) : runSlot s (a :: l) = runSlot (act s a).1 l := rfl

theorem runSlot_nil (s : Slot) : runSlot s [] = s := rfl

theorem runSlot_snoc (s : Slot) (l : List Act) (a : Act) : runSlot s (l ++ [a]) = (act (runSlot s l) a).1 := by
  simp [runSlot, List.foldl_append]

theorem actsFor_snoc_same (k : Nat) (steps : List Step) (a : Act) :
    actsFor k (steps ++ [⟨k, a⟩]) = actsFor k steps ++ [a] := by
  simp [actsFor, List.filter_append]

/-- **runW_slot**: in any world and after any history, slot `k` is what its initial content becomes
under the actions addressed to `k` alone, in order. -/
theorem runW_slot (w : List Slot) (steps : List Step) (k : Nat) :
    (runW w steps)[k]? = w[k]?.map fun s => runSlot s (actsFor k steps) := by
  induction steps generalizing w with
  | nil => simp [runW, runSlot, actsFor]
  | cons st steps ih =>
    have hrun : runW w (st :: steps) = runW (stepW w st) steps := rfl
    rw [hrun, ih]
    by_cases hk : st.k = k
    · subst hk
      have ha : actsFor st.k (st :: steps) = st.act :: actsFor st.k steps := by simp [actsFor]
      rw [ha, stepW, updAt_get_same]
      cases w[st.k]? <;> simp [runSlot_cons]
    · have ha : actsFor k (st :: steps) = actsFor k steps := by simp [actsFor, hk]
      rw [ha, stepW, updAt_get_ne _ _ _ _ (fun h => hk h.symm)]

/-- **instances_independent**: two worlds that agree on terminal `k` and two histories that agree on
the steps addressed to `k` leave terminal `k` (attributes and device) the same — however many other
terminals there are, whatever images they hold, whatever is done with them in between. -/
theorem instances_independent (w w' : List Slot) (steps steps' : List Step) (k : Nat)
    (hw : w[k]? = w'[k]?) (hs : actsFor k steps = actsFor k steps') :
    (runW w steps)[k]? = (runW w' steps')[k]? := by
  rw [runW_slot, runW_slot, hw, hs]

/-! ### the device behind a terminal -/

theorem act_dev (s : Slot) (a : Act) : ((act s a).1.dev, (act s a).1.od) = devEffect (s.dev, s.od) a := by
  cases a with
  | read sc b => unfold act doRead; simp only [devEffect]; split <;> rfl
  | write st v sc => simp only [act, doWrite, devEffect, write_one_exact]
  | swap d od => rfl
  | sm => unfold act doSm doSmData; simp only [devEffect]; split <;> rfl
  | pdos => rfl
  | apply sc => rfl
  | gentle regs sc => rfl

theorem runSlot_dev (s : Slot) (acts : List Act) :
    ((runSlot s acts).dev, (runSlot s acts).od) = devAfter (s.dev, s.od) acts := by
  induction acts generalizing s with
  | nil => rfl
  | cons a l ih => rw [runSlot_cons, ih, act_dev]; rfl

/-- **hist_device_exact**: after any history the device (image, read size, object dictionary) behind
terminal `k` is the initial one changed by exactly the writes and exchanges addressed to `k`. -/
theorem hist_device_exact (w : List Slot) (steps : List Step) (k : Nat) :
    (runW w steps)[k]?.map (fun s => (s.dev, s.od)) =
      w[k]?.map fun s => devAfter (s.dev, s.od) (actsFor k steps) := by
  rw [runW_slot]
  cases w[k]? <;> simp [runSlot_dev]

/-! ### a read after any history -/

/-- the attributes `read_eeprom` assigns, as the terminal holds them (`none` = never assigned) -/
def termView (t : Term) : Option (Nat × Nat) × Option (Nat × Nat) × Option Cats := (t.vp, t.rs, t.eeprom)

/-- what a terminal object that never did anything reads from device `d` over a quiet bus -/
def freshView (d : Dev) : Option (Nat × Nat) × Option (Nat × Nat) × Option Cats :=
  let r := readEeprom d (Bus.init [])
  (some (r.vendorId, r.productCode), some (r.revisionNo, r.serialNo), r.eeprom)

theorem doRead_complete_slot (s : Slot) (sc : List Poll) :
    (doRead s sc none).1 = { s with term := s.term.afterRead (readEeprom s.dev ⟨s.addr, sc, []⟩),
                                    addr := (readEeprom s.dev ⟨s.addr, sc, []⟩).bus.addr } := by
  unfold doRead
  simp only [Option.getD_none, Nat.le_refl, ↓reduceIte]

theorem afterRead_view (t : Term) (d : Dev) (b : Bus) : termView (t.afterRead (readEeprom d b)) = freshView d := by
  have := read_bus_indep d b (Bus.init [])
  simp only [view, Prod.mk.injEq] at this
  obtain ⟨⟨h1, h2⟩, ⟨h3, h4⟩, h5⟩ := this
  simp only [termView, Term.afterRead, freshView, h1, h2, h3, h4, h5]

theorem doRead_complete (s : Slot) (sc : List Poll) : termView (doRead s sc none).1.term = freshView s.dev := by
  rw [doRead_complete_slot]; exact afterRead_view _ _ _

theorem act_dev1 (s : Slot) (a : Act) : (act s a).1.dev = (devEffect (s.dev, s.od) a).1 :=
  congrArg Prod.fst (act_dev s a)

theorem act_od (s : Slot) (a : Act) : (act s a).1.od = (devEffect (s.dev, s.od) a).2 :=
  congrArg Prod.snd (act_dev s a)

theorem runSlot_dev1 (s : Slot) (acts : List Act) : (runSlot s acts).dev = (devAfter (s.dev, s.od) acts).1 :=
  congrArg Prod.fst (runSlot_dev s acts)

theorem runSlot_od (s : Slot) (acts : List Act) : (runSlot s acts).od = (devAfter (s.dev, s.od) acts).2 :=
  congrArg Prod.snd (runSlot_dev s acts)

theorem runSlot_append (s : Slot) (l l' : List Act) : runSlot s (l ++ l') = runSlot (runSlot s l) l' := by
  simp [runSlot, List.foldl_append]

theorem actsFor_tail (k : Nat) (l : List Act) : actsFor k (l.map fun a => (⟨k, a⟩ : Step)) = l := by
  induction l with
  | nil => rfl
  | cons a l ih =>
    simp only [actsFor, List.map_cons, List.filter_cons, beq_self_eq_true, ↓reduceIte] at ih ⊢
    rw [ih]

/-- a history followed by steps that all address terminal `k` -/
theorem runW_tail (w : List Slot) (steps : List Step) (k : Nat) (s : Slot) (l : List Act) (hs : w[k]? = some s) :
    (runW w (steps ++ l.map fun a => (⟨k, a⟩ : Step)))[k]? = some (runSlot (runSlot s (actsFor k steps)) l) := by
  rw [runW_slot, hs]
  have : actsFor k (steps ++ l.map fun a => (⟨k, a⟩ : Step)) = actsFor k steps ++ l := by
    have h := actsFor_tail k l
    simp only [actsFor, List.filter_append, List.map_append] at h ⊢
    rw [h]
  rw [this]
  simp only [Option.map_some, runSlot_append]

/-- **hist_read_present**: take any world (any number of terminals, any attributes left in them),
any history of reads, cut reads, writes, exchanges, derivations on any of the terminals, and then
let terminal `k` read its EEPROM: the identity fields and categories it holds afterwards are exactly
those a fresh terminal reads from the image that is behind `k` now — the initial image changed by
the writes and exchanges addressed to `k`, nothing else.  No earlier read has any influence. -/
theorem hist_read_present (w : List Slot) (steps : List Step) (k : Nat) (sc : List Poll) (s : Slot)
    (hs : w[k]? = some s) :
    ∃ s', (runW w (steps ++ [⟨k, .read sc none⟩]))[k]? = some s' ∧
      termView s'.term = freshView (devAfter (s.dev, s.od) (actsFor k steps)).1 := by
  refine ⟨_, runW_tail w steps k s [.read sc none] hs, ?_⟩
  show termView (doRead _ sc none).1.term = _
  rw [doRead_complete, runSlot_dev1]

/-- on a well-formed present image that is `{type: payload}` of its categories and the identity
words 8..15, whatever the history was -/
theorem hist_read_wellformed (w : List Slot) (steps : List Step) (k : Nat) (sc : List Poll) (s : Slot)
    (hs : w[k]? = some s) (hdr : List UInt8) (cs : List Cat) (tail : List UInt8) (mode8 : Bool)
    (hd : (devAfter (s.dev, s.od) (actsFor k steps)).1 = ⟨mkImage hdr cs tail, mode8⟩)
    (hh : hdr.length = 2 * catStart) (hok : ∀ c ∈ cs, c.ok) :
    ∃ s', (runW w (steps ++ [⟨k, .read sc none⟩]))[k]? = some s' ∧
      s'.term.eeprom = some (dictOfFrom [] (cs.map fun c => (c.type, c.payload))) ∧
      s'.term.vp = some (decLE (window (mkImage hdr cs tail) (2 * eeprom_VENDOR_ID) 4),
                         decLE (window (mkImage hdr cs tail) (2 * eeprom_PRODUCT_CODE) 4)) ∧
      s'.term.rs = some (decLE (window (mkImage hdr cs tail) (2 * eeprom_REVISION) 4),
                         decLE (window (mkImage hdr cs tail) (2 * eeprom_SERIAL_NO) 4)) := by
  obtain ⟨s', h1, h2⟩ := hist_read_present w steps k sc s hs
  refine ⟨s', h1, ?_⟩
  rw [hd] at h2
  obtain ⟨i1, i2, i3, i4⟩ := read_identity_exact ⟨mkImage hdr cs tail, mode8⟩ (Bus.init [])
  have he := read_eeprom_exact hdr cs tail mode8 (Bus.init []) hh hok
  simp only [termView, freshView, Prod.mk.injEq] at h2
  obtain ⟨v1, v2, v3⟩ := h2
  rw [v1, v2, v3, he, i1, i2, i3, i4]
  exact ⟨rfl, rfl, rfl⟩

/-- **write_seen_by_next_read**: after any history, a word written with `eeprom_write_one` is seen
by the very next read of the same terminal object (any scripts, any retries). -/
theorem write_seen_by_next_read (w : List Slot) (steps : List Step) (k start val : Nat) (sc1 sc2 : List Poll)
    (s : Slot) (hs : w[k]? = some s) :
    ∃ s', (runW w (steps ++ [⟨k, .write start val sc1⟩, ⟨k, .read sc2 none⟩]))[k]? = some s' ∧
      termView s'.term = freshView
        { (devAfter (s.dev, s.od) (actsFor k steps)).1 with
          image := setWord (devAfter (s.dev, s.od) (actsFor k steps)).1.image start val } := by
  refine ⟨_, runW_tail w steps k s [.write start val sc1, .read sc2 none] hs, ?_⟩
  show termView (doRead (act _ (.write start val sc1)).1 sc2 none).1.term = _
  rw [doRead_complete, act_dev1, runSlot_dev1, runSlot_od]
  rfl

/-- **swap_seen_by_next_read**: the device behind the address is exchanged (other image, other read
size, other object dictionary); the same terminal object reads the new device's contents. -/
theorem swap_seen_by_next_read (w : List Slot) (steps : List Step) (k : Nat) (d : Dev) (od : OD) (sc : List Poll)
    (s : Slot) (hs : w[k]? = some s) :
    ∃ s', (runW w (steps ++ [⟨k, .swap d od⟩, ⟨k, .read sc none⟩]))[k]? = some s' ∧
      termView s'.term = freshView d := by
  refine ⟨_, runW_tail w steps k s [.swap d od, .read sc none] hs, ?_⟩
  show termView (doRead (act _ (.swap d od)).1 sc none).1.term = _
  rw [doRead_complete]
  rfl

/-- **failed_read_then_read**: a read that is cut after any number `n` of bus accesses (error or
cancellation) leaves the terminal and the bus in a state from which the next read returns the
present contents. -/
theorem failed_read_then_read (w : List Slot) (steps : List Step) (k n : Nat) (sc sc' : List Poll)
    (s : Slot) (hs : w[k]? = some s) :
    ∃ s', (runW w (steps ++ [⟨k, .read sc (some n)⟩, ⟨k, .read sc' none⟩]))[k]? = some s' ∧
      termView s'.term = freshView (devAfter (s.dev, s.od) (actsFor k steps)).1 := by
  refine ⟨_, runW_tail w steps k s [.read sc (some n), .read sc' none] hs, ?_⟩
  show termView (doRead (act _ (.read sc (some n))).1 sc' none).1.term = _
  rw [doRead_complete, act_dev1, runSlot_dev1, runSlot_od]
  rfl

/-! ### the layouts derived after such a read -/

theorem doSm_some (s : Slot) (cats : Cats) (data : List UInt8) (he : s.term.eeprom = some cats)
    (h41 : dictGet cats catSM = some data) :
    (doSm s).1 = { s with term := { s.term with sm := some (parseSM data).1 } } := by
  unfold doSm
  rw [he]
  simp only [Option.getD_some, h41, doSmData, smInto]

theorem pdosInto_some (t : Term) (od : OD) (sm : SM) (cats : Cats) (he : t.eeprom = some cats) :
    pdosInto t od (some sm) =
      ({ t with pdos := some (parsePdos (hasMailbox sm) od cats).1 }, (parsePdos (hasMailbox sm) od cats).2) := by
  simp [pdosInto, he]

theorem pdosInto_frame (t : Term) (od : OD) (o : Option SM) :
    (pdosInto t od o).1.ebpf = t.ebpf ∧ (pdosInto t od o).1.eeprom = t.eeprom ∧ (pdosInto t od o).1.vp = t.vp ∧
      (pdosInto t od o).1.rs = t.rs ∧ (pdosInto t od o).1.sm = t.sm := by
  cases o with
  | none => simp [pdosInto]
  | some sm =>
    simp only [pdosInto]
    split <;> exact ⟨rfl, rfl, rfl, rfl, rfl⟩

/-- **hist_derive_present**: after any history, read again and derive again: `parse_sync_managers`
gets category 41 of the present image and `parse_pdos` starts from an empty dict with the source
chosen by those sync managers — the object dictionary of the device present now, or categories
50/51 of the present image.  Nothing of an earlier image, parse or dict survives.  (With `sm_exact`,
`parse_pdos_eeprom_exact`, `parse_pdos_sdo_exact` these are the stored offsets, sizes, bit positions.) -/
theorem hist_derive_present (w : List Slot) (steps : List Step) (k : Nat) (sc : List Poll) (s : Slot)
    (hs : w[k]? = some s) (cats : Cats) (data : List UInt8)
    (hc : (readEeprom (devAfter (s.dev, s.od) (actsFor k steps)).1 (Bus.init [])).eeprom = some cats)
    (h41 : dictGet cats catSM = some data) :
    ∃ s', (runW w (steps ++ [⟨k, .read sc none⟩, ⟨k, .sm⟩, ⟨k, .pdos⟩]))[k]? = some s' ∧
      s'.term.eeprom = some cats ∧ s'.term.sm = some (parseSM data).1 ∧
      s'.term.pdos = some (parsePdos (hasMailbox (parseSM data).1)
        (devAfter (s.dev, s.od) (actsFor k steps)).2 cats).1 := by
  refine ⟨_, runW_tail w steps k s [.read sc none, .sm, .pdos] hs, ?_⟩
  simp only [runSlot_cons, runSlot_nil, act]
  have hv := doRead_complete (runSlot s (actsFor k steps)) sc
  rw [runSlot_dev1] at hv
  simp only [termView, freshView, Prod.mk.injEq, hc] at hv
  have hod : (doRead (runSlot s (actsFor k steps)) sc none).1.od = (devAfter (s.dev, s.od) (actsFor k steps)).2 := by
    rw [doRead_complete_slot, ← runSlot_od]
  generalize (doRead (runSlot s (actsFor k steps)) sc none).1 = s1 at hv hod ⊢
  rw [doSm_some s1 cats data hv.2.2 h41, ← hod]
  have hp := pdosInto_some { s1.term with sm := some (parseSM data).1 } s1.od (parseSM data).1 cats hv.2.2
  refine ⟨?_, ?_, ?_⟩
  · exact (pdosInto_frame _ _ _).2.1.trans hv.2.2
  · exact (pdosInto_frame _ _ _).2.2.2.2
  · exact congrArg (fun r => r.1.pdos) hp

/-! ### `apply_eeprom` (what `initialize` runs) after any history -/

/-- the part of the sync-manager attributes `EBPFTerminal.apply_eeprom` does not overwrite:
mailbox areas, process-data offsets, register addresses -/
def smSame (a b : SM) : Prop :=
  a.mbx_out = b.mbx_out ∧ a.mbx_in = b.mbx_in ∧ a.pdo_out.map (·.1) = b.pdo_out.map (·.1) ∧
    a.pdo_in.map (·.1) = b.pdo_in.map (·.1) ∧ a.pdo_in_addr = b.pdo_in_addr ∧ a.pdo_out_addr = b.pdo_out_addr

theorem setSz_fst (o : Option (Nat × Nat)) (sz : Nat) : (setSz o sz).map (·.1) = o.map (·.1) := by
  cases o <;> rfl

theorem sizesInto_frame (t : Term) (ob ib : Nat) (sm : SM) :
    (sizesInto t ob ib (some sm)).1.ebpf = t.ebpf ∧ (sizesInto t ob ib (some sm)).1.eeprom = t.eeprom ∧
      (sizesInto t ob ib (some sm)).1.vp = t.vp ∧ (sizesInto t ob ib (some sm)).1.rs = t.rs ∧
      (sizesInto t ob ib (some sm)).1.pdos = t.pdos ∧
      ∃ sm', (sizesInto t ob ib (some sm)).1.sm = some sm' ∧ smSame sm' sm := by
  unfold sizesInto
  simp only
  split
  · exact ⟨rfl, rfl, rfl, rfl, rfl, _, rfl, rfl, rfl, setSz_fst _ _, rfl, rfl, rfl⟩
  · split
    · exact ⟨rfl, rfl, rfl, rfl, rfl, _, rfl, rfl, rfl, setSz_fst _ _, setSz_fst _ _, rfl, rfl⟩
    · exact ⟨rfl, rfl, rfl, rfl, rfl, _, rfl, rfl, rfl, setSz_fst _ _, setSz_fst _ _, rfl, rfl⟩

theorem smSame_refl (a : SM) : smSame a a := ⟨rfl, rfl, rfl, rfl, rfl, rfl⟩

/-- the `EBPFTerminal` continuation on a terminal whose `parse_sync_managers` just gave `sm` -/
theorem ebpfRest_spec (t : Term) (od : OD) (sm : SM) (cats : Cats) (hsm : t.sm = some sm) (he : t.eeprom = some cats) :
    (ebpfRest t od).1.ebpf = t.ebpf ∧ (ebpfRest t od).1.eeprom = t.eeprom ∧ (ebpfRest t od).1.vp = t.vp ∧
      (ebpfRest t od).1.rs = t.rs ∧
      (ebpfRest t od).1.pdos = some (parsePdos (hasMailbox sm) od cats).1 ∧
      ∃ sm', (ebpfRest t od).1.sm = some sm' ∧ smSame sm' sm := by
  unfold ebpfRest
  rw [hsm, pdosInto_some t od sm cats he]
  cases hp : (parsePdos (hasMailbox sm) od cats).2 with
  | error e => exact ⟨rfl, rfl, rfl, rfl, rfl, sm, hsm, smSame_refl sm⟩
  | ok v =>
    obtain ⟨ob, ib⟩ := v
    dsimp only
    rw [hsm]
    exact sizesInto_frame { t with pdos := some (parsePdos (hasMailbox sm) od cats).1 } ob ib sm

theorem ebpfRest_ebpf (t : Term) (od : OD) : (ebpfRest t od).1.ebpf = t.ebpf := by
  unfold ebpfRest
  have := pdosInto_frame t od t.sm
  generalize pdosInto t od t.sm = r at this
  obtain ⟨r1, r2⟩ := r
  cases r2 with
  | error e => exact this.1
  | ok v =>
    obtain ⟨ob, ib⟩ := v
    dsimp only
    cases hs : r1.sm with
    | none => exact this.1
    | some sm => exact (sizesInto_frame r1 ob ib sm).1.trans this.1

set_option linter.unusedSimpArgs false in
theorem applyRest_frame (t : Term) (od : OD) (o : Option (List UInt8)) :
    (applyRest t od o).1.ebpf = t.ebpf := by
  unfold applyRest
  cases o with
  | none =>
    simp only [applySm, Bool.not_true, Bool.false_eq_true, ↓reduceIte]
    by_cases h2 : (!t.ebpf) = true
    · simp only [h2, Bool.false_eq_true, ↓reduceIte]
    · simp only [h2, Bool.false_eq_true, ↓reduceIte]; exact ebpfRest_ebpf _ _
  | some data =>
    simp only [applySm, smInto]
    by_cases h1 : (!(parseSM data).2) = true
    · simp only [h1, Bool.false_eq_true, ↓reduceIte]
    · simp only [h1, Bool.false_eq_true, ↓reduceIte]
      by_cases h2 : (!t.ebpf) = true
      · simp only [h2, Bool.false_eq_true, ↓reduceIte]
      · simp only [h2, Bool.false_eq_true, ↓reduceIte]; exact ebpfRest_ebpf _ _

theorem act_ebpf (s : Slot) (a : Act) : (act s a).1.term.ebpf = s.term.ebpf := by
  cases a with
  | read sc b => unfold act doRead; simp only; split <;> rfl
  | write st v sc => rfl
  | swap d od => rfl
  | sm =>
    unfold act doSm
    generalize dictGet (s.term.eeprom.getD []) catSM = o
    cases o <;> rfl
  | pdos => exact (pdosInto_frame s.term s.od s.term.sm).1
  | apply sc => exact applyRest_frame _ _ _
  | gentle regs sc => rfl

theorem runSlot_ebpf (s : Slot) (acts : List Act) : (runSlot s acts).term.ebpf = s.term.ebpf := by
  induction acts generalizing s with
  | nil => rfl
  | cons a l ih => rw [runSlot_cons, ih, act_ebpf]

theorem read_eeprom_bus (d : Dev) (b b' : Bus) : (readEeprom d b).eeprom = (readEeprom d b').eeprom :=
  congrArg (fun v => v.2.2) (read_bus_indep d b b')

theorem doApply_spec (x : Slot) (sc : List Poll) (cats : Cats) (data : List UInt8)
    (hce : (readEeprom x.dev ⟨x.addr, sc, []⟩).eeprom = some cats) (h41 : dictGet cats catSM = some data)
    (hok : (parseSM data).2 = true) :
    (doApply x sc).2.w800 = some data ∧ (doApply x sc).2.sm = some (parseSM data) ∧
    (doApply x sc).1.term =
      (if !x.term.ebpf then { x.term.afterRead (readEeprom x.dev ⟨x.addr, sc, []⟩) with sm := some (parseSM data).1 }
       else (ebpfRest { x.term.afterRead (readEeprom x.dev ⟨x.addr, sc, []⟩) with sm := some (parseSM data).1 } x.od).1) := by
  unfold doApply
  simp only [hce, Option.getD_some, h41]
  unfold applyRest
  simp only [applySm, smInto, hok, Bool.not_true, Bool.false_eq_true, ↓reduceIte]
  have hae : (x.term.afterRead (readEeprom x.dev ⟨x.addr, sc, []⟩)).ebpf = x.term.ebpf := rfl
  rw [hae]
  by_cases hE : (!x.term.ebpf) = true
  · simp only [hE, ↓reduceIte, and_self]
  · simp only [hE, Bool.false_eq_true, ↓reduceIte, and_self]

/-- **hist_apply_present**: after any history, the terminal is initialised again (`initialize` →
`apply_eeprom` of its class).  For a present image whose category 41 parses: the identity fields and
categories are those of the present image, the sync-manager registers are loaded with the present
category 41, the mailbox areas / process-data offsets / register addresses are those parsed from it,
and for an `EBPFTerminal` the PDO layout is `parse_pdos` of the present categories and the present
object dictionary, built from an empty dict. -/
theorem hist_apply_present (w : List Slot) (steps : List Step) (k : Nat) (sc : List Poll) (s : Slot)
    (hs : w[k]? = some s) (cats : Cats) (data : List UInt8)
    (hc : (readEeprom (devAfter (s.dev, s.od) (actsFor k steps)).1 (Bus.init [])).eeprom = some cats)
    (h41 : dictGet cats catSM = some data) (hok : (parseSM data).2 = true) :
    ∃ s', (runW w (steps ++ [⟨k, .apply sc⟩]))[k]? = some s' ∧
      termView s'.term = freshView (devAfter (s.dev, s.od) (actsFor k steps)).1 ∧
      (doApply (runSlot s (actsFor k steps)) sc).2.w800 = some data ∧
      (doApply (runSlot s (actsFor k steps)) sc).2.sm = some (parseSM data) ∧
      (∃ sm', s'.term.sm = some sm' ∧ smSame sm' (parseSM data).1) ∧
      (s.term.ebpf = true → s'.term.pdos = some (parsePdos (hasMailbox (parseSM data).1)
        (devAfter (s.dev, s.od) (actsFor k steps)).2 cats).1) := by
  refine ⟨_, runW_tail w steps k s [.apply sc] hs, ?_⟩
  simp only [runSlot_cons, runSlot_nil]
  have hb := runSlot_ebpf s (actsFor k steps)
  have hd := runSlot_dev1 s (actsFor k steps)
  have ho := runSlot_od s (actsFor k steps)
  generalize runSlot s (actsFor k steps) = x at hb hd ho ⊢
  rw [← hd, ← ho]
  rw [← hd] at hc
  have hce : (readEeprom x.dev ⟨x.addr, sc, []⟩).eeprom = some cats := (read_eeprom_bus _ _ _).trans hc
  obtain ⟨a1, a2, a3⟩ := doApply_spec x sc cats data hce h41 hok
  have hv := afterRead_view x.term x.dev ⟨x.addr, sc, []⟩
  refine ⟨?_, a1, a2, ?_, ?_⟩
  · show termView (doApply x sc).1.term = _
    rw [a3]
    by_cases hE : x.term.ebpf = true
    · simp only [hE, Bool.not_true, Bool.false_eq_true, ↓reduceIte]
      obtain ⟨_, e2, e3, e4, _, _⟩ := ebpfRest_spec
        { x.term.afterRead (readEeprom x.dev ⟨x.addr, sc, []⟩) with sm := some (parseSM data).1 } x.od
        (parseSM data).1 cats rfl hce
      refine Eq.trans ?_ hv
      simp only [termView, Prod.mk.injEq]
      exact ⟨e3, e4, e2⟩
    · simp only [hE, Bool.not_false, ↓reduceIte]
      exact hv
  · show ∃ sm', (doApply x sc).1.term.sm = some sm' ∧ _
    rw [a3]
    by_cases hE : x.term.ebpf = true
    · simp only [hE, Bool.not_true, Bool.false_eq_true, ↓reduceIte]
      exact (ebpfRest_spec
        { x.term.afterRead (readEeprom x.dev ⟨x.addr, sc, []⟩) with sm := some (parseSM data).1 } x.od
        (parseSM data).1 cats rfl hce).2.2.2.2.2
    · simp only [hE, Bool.not_false, ↓reduceIte]
      exact ⟨_, rfl, smSame_refl _⟩
  · intro hE
    rw [← hb] at hE
    show (doApply x sc).1.term.pdos = _
    rw [a3]
    simp only [hE, Bool.not_true, Bool.false_eq_true, ↓reduceIte]
    exact (ebpfRest_spec
        { x.term.afterRead (readEeprom x.dev ⟨x.addr, sc, []⟩) with sm := some (parseSM data).1 } x.od
        (parseSM data).1 cats rfl hce).2.2.2.2.1

/-! ### the driver's line per step -/

theorem runW_cons (w : List Slot) (st : Step) (l : List Step) : runW w (st :: l) = runW (stepW w st) l := rfl

/-- **runObs_get**: what is shown at step `i` of a history is `act` applied to the slot the step
names, in the world the first `i` steps produced — the function all theorems above speak about. -/
theorem runObs_get (w : List Slot) (steps : List Step) (i : Nat) (st : Step) (h : steps[i]? = some st) :
    (runObs w steps)[i]? =
      some ((runW w (steps.take i))[st.k]?.map fun s => ((act s st.act).1.term, (act s st.act).2)) := by
  induction steps generalizing w i with
  | nil => simp at h
  | cons st0 steps ih =>
    cases i with
    | zero =>
      simp only [List.getElem?_cons_zero, Option.some.injEq] at h
      subst h
      simp [runObs, runW]
    | succ i =>
      simp only [List.getElem?_cons_succ] at h
      simp only [runObs, List.getElem?_cons_succ, List.take_succ_cons, runW_cons]
      exact ih _ _ h

/-! ### the cut read: its partial dict is a prefix of the complete one -/

/-- the assignments `catTrace` lists are exactly those `catLoop` makes: a cut read holds a prefix
(by access count) of what the complete read assigns -/
theorem catTrace_spec (d : Dev) (f : Nat) (st : RState) (acc r : Cats) (h : (catLoop d f st acc).1 = some r) :
    r = dictOfFrom acc ((catTrace d f st).map (·.2)) := by
  induction f generalizing st acc with
  | zero => simp [catLoop] at h
  | succ f ih =>
    unfold catLoop at h
    unfold catTrace
    by_cases hd : decLE ((getData d 4 st).1.take 2) = 0xffff
    · simp only [hd, ↓reduceIte, Option.some.injEq] at h
      simp [hd, dictOfFrom, h]
    · simp only [hd, ↓reduceIte] at h ⊢
      exact ih _ _ h

/-! ### non-vacuity: a concrete history on two living terminals -/

def exImg : List UInt8 := mkImage ((List.range 128).map UInt8.ofNat) exCats [0xaa]

/-- terminal 0: a plain `Terminal` on a 4-byte device; terminal 1: an `EBPFTerminal` on an 8-byte
device with another image -/
def exWorld : List Slot :=
  [⟨{ ebpf := false }, ⟨exImg, false⟩, [], 0⟩,
   ⟨{ ebpf := true }, ⟨mkImage (List.replicate 128 7) [⟨30, [1, 2, 3, 4]⟩] [], true⟩, exOd, 0⟩]

/-- read both, rewrite word 66 of terminal 0's EEPROM (first payload word of category 10, one retry
because of an error bit), a read of terminal 0 that is cut after 7 accesses, terminal 1 reads again -/
def exHist : List Step :=
  [⟨0, .read [] none⟩, ⟨1, .read [⟨true, 0, []⟩] none⟩,
   ⟨0, .write 66 0xbbaa [⟨false, 0x2000, []⟩]⟩, ⟨0, .read [] (some 7)⟩, ⟨1, .read [] none⟩]

/-- before the write terminal 0 holds the old word, the cut read leaves an empty dict and the old
identity, the next read holds the new word; terminal 1 is not affected by any of it; the device of
terminal 0 is the declared one -/
example : ((runW exWorld (exHist.take 2))[0]?.map fun s => s.term.eeprom.map (dictGet · 10)) =
    some (some (some [1, 2])) := by decide +kernel
example : ((runW exWorld exHist)[0]?.map fun s => (s.term.eeprom, s.term.vp)) =
    some (some [], some (0x13121110, 0x17161514)) := by decide +kernel
example : ((runW exWorld (exHist ++ [⟨0, .read [] none⟩]))[0]?.map fun s => s.term.eeprom.map (dictGet · 10)) =
    some (some (some [0xaa, 0xbb])) := by decide +kernel
example : ((runW exWorld (exHist ++ [⟨0, .read [] none⟩]))[1]?.map fun s => s.term.eeprom) =
    some (some [(30, [1, 2, 3, 4])]) := by decide +kernel
example : ((runW exWorld exHist)[0]?.map fun s => s.dev.image) = some (setWord exImg 66 0xbbaa) := by
  decide +kernel

example : actsFor 0 exHist = [.read [] none, .write 66 0xbbaa [⟨false, 0x2000, []⟩], .read [] (some 7)] := rfl

/-- the hypotheses of `hist_derive_present` / `hist_apply_present` on this world: the present image
of terminal 0 after the history has a category 41 that parses -/
example :
    (readEeprom (devAfter (⟨exImg, false⟩, []) (actsFor 0 exHist)).1 (Bus.init [])).eeprom.map (dictGet · catSM) =
      some (some [0, 0x10, 0x80, 0, 0x26, 0, 1, 1, 0x80, 0x10, 0x80, 0, 0x22, 0, 1, 2]) ∧
    (parseSM [0, 0x10, 0x80, 0, 0x26, 0, 1, 1, 0x80, 0x10, 0x80, 0, 0x22, 0, 1, 2]).2 = true := by
  decide +kernel

end Ebv.C17
