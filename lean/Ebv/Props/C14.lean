import Ebv.Model.AlDriver
/-! C14 — state changes walk the EtherCAT state machine in order.
All theorems quantify over every list of terminal answers (unbounded polls). -/
namespace Ebv.C14
open Ebv.AlDriver Ebv.Consts

/-- targets the property speaks about -/
def IsTarget (t : Nat) : Prop := t = ms_PRE_OPERATIONAL ∨ t = ms_SAFE_OPERATIONAL ∨ t = ms_OPERATIONAL
/-- start states the property speaks about (everything but BOOTSTRAP) -/
def IsStart (s : Nat) : Prop :=
  s = ms_INIT ∨ s = ms_PRE_OPERATIONAL ∨ s = ms_SAFE_OPERATIONAL ∨ s = ms_OPERATIONAL
/-- every answer carries one of the five state numbers -/
def AllValid (rs : List Resp) : Prop := ∀ r ∈ rs, valid r.state = true

@[simp] theorem writes_append (a b : List Ev) : writes (a ++ b) = writes a ++ writes b := by
  induction a with
  | nil => rfl
  | cons e a ih => cases e <;> simp [writes, ih]

@[simp] theorem reads_append (a b : List Ev) : reads (a ++ b) = reads a ++ reads b := by
  induction a with
  | nil => rfl
  | cons e a ih => cases e <;> simp [reads, ih]

/-! ### several terminals on one bus: every terminal sees its single-terminal trace

`runD`/`resume` is the coroutine cut at its reads; `sysRun` interleaves the drivers of any number
of terminals with any other traffic under any schedule.  The projection of such a run on one
terminal is its own single-terminal run, so every theorem above holds for each terminal of a bus
that is shared with other callers. -/
namespace Bus

theorem runD_fin (target : Nat) (o : Outcome) (rs : List Resp) : runD target (.fin o) rs = ([], o) := by
  cases rs <;> rfl

/-- the polling state is the `while` loop followed by the rest of the `for` loop -/
theorem runD_polling (target cur : Nat) (todo : List Nat)
    (hw : ∀ rs, walk target todo cur rs =
      ((enter target todo cur).1 ++ (runD target (enter target todo cur).2 rs).1,
       (runD target (enter target todo cur).2 rs).2))
    (rs : List Resp) :
    runD target (.polling cur todo) rs =
      match poll cur rs with
      | (evs, .reached rs') => (evs ++ (walk target todo cur rs').1, (walk target todo cur rs').2)
      | (evs, .stop o) => (evs, o) := by
  induction rs with
  | nil => rfl
  | cons r rs ih =>
    unfold runD poll resume
    by_cases hv : valid r.state = true
    · simp only [hv, Bool.not_true, Bool.false_eq_true, ↓reduceIte]
      by_cases he : r.err = true
      · simp [he, runD_fin]
      · have he' : r.err = false := by simpa using he
        simp only [he', Bool.false_eq_true, ↓reduceIte]
        by_cases hc : r.state = cur
        · simp only [hc, ↓reduceIte]
          rw [hw rs]
          simp
        · simp only [hc, ↓reduceIte]
          rw [ih]
          rcases poll cur rs with ⟨evs, e⟩
          cases e <;> simp
    · have hv' : valid r.state = false := by simpa using hv
      simp [hv', runD_fin]

theorem walk_eq (target : Nat) (todo : List Nat) : ∀ (state : Nat) (rs : List Resp),
    walk target todo state rs =
      ((enter target todo state).1 ++ (runD target (enter target todo state).2 rs).1,
       (runD target (enter target todo state).2 rs).2) := by
  induction todo with
  | nil => intro state rs; simp [walk, enter, runD_fin]
  | cons cur todo ih =>
    intro state rs
    unfold walk enter
    by_cases hs : state ≥ target
    · simp [hs, runD_fin]
    · simp only [hs, ↓reduceIte]
      rw [runD_polling target cur todo (ih cur) rs]
      rcases poll cur rs with ⟨evs, e⟩
      cases e <;> simp

/-- the small-step form is the model of `to_operational` -/
theorem runD_start (target : Nat) (rs : List Resp) : runD target .start rs = toOperational target rs := by
  cases rs with
  | nil => rfl
  | cons r rs =>
    unfold runD toOperational resume
    by_cases hv : valid r.state = true
    · simp only [hv, Bool.not_true, Bool.false_eq_true, ↓reduceIte]
      by_cases he : r.err = true
      · simp only [he, ↓reduceIte]
        rw [walk_eq]
        simp
      · have he' : r.err = false := by simpa using he
        simp only [he', Bool.false_eq_true, ↓reduceIte]
        rw [walk_eq]
        simp
    · have hv' : valid r.state = false := by simpa using hv
      simp [hv', runD_fin]

theorem devStep_idle (d : Dev) (h : d.ds.pending = [] ∨ d.rs = []) : devStep d = ([], d) := by
  obtain ⟨t, ds, rs⟩ := d
  cases ds <;> cases rs <;> simp_all [devStep, DS.pending]

theorem devRun_idle (k : Nat) (d : Dev) (h : d.ds.pending = [] ∨ d.rs = []) : devRun k d = ([], d) := by
  induction k with
  | zero => rfl
  | succ k ih => simp [devRun, devStep_idle d h, ih]

/-- a driver that was given at least as many turns as its terminal has answers has run its
whole single-terminal course -/
theorem devRun_full (k : Nat) : ∀ (d : Dev), d.rs.length ≤ k →
    runD d.target d.ds d.rs =
      ((devRun k d).1 ++ (devRun k d).2.ds.pending, (devRun k d).2.ds.outcome) := by
  induction k with
  | zero =>
    intro d hk
    obtain ⟨t, ds, rs⟩ := d
    have : rs = [] := by cases rs <;> simp_all
    subst this
    cases ds <;> simp [devRun, runD, DS.pending, DS.outcome]
  | succ k ih =>
    intro d hk
    obtain ⟨t, ds, rs⟩ := d
    cases rs with
    | nil =>
      rw [devRun_idle _ _ (Or.inr rfl)]
      cases ds <;> simp [runD, DS.pending, DS.outcome]
    | cons r rs =>
      cases ds with
      | fin o =>
        rw [devRun_idle _ _ (Or.inl rfl)]
        simp [runD, DS.pending, DS.outcome]
      | start =>
        have := ih ⟨t, (resume t .start r).2, rs⟩ (by simpa using hk)
        simp only [runD, devRun, devStep] at this ⊢
        rw [this]
        simp
      | polling c td =>
        have := ih ⟨t, (resume t (.polling c td) r).2, rs⟩ (by simpa using hk)
        simp only [runD, devRun, devStep] at this ⊢
        rw [this]
        simp

theorem proj_append (i : Nat) (a b : List (Nat × Ev)) : proj i (a ++ b) = proj i a ++ proj i b := by
  simp [proj]

theorem proj_tag_self (i : Nat) (evs : List Ev) : proj i (evs.map (fun e => (i, e))) = evs := by
  induction evs with
  | nil => rfl
  | cons e evs ih => simpa [proj] using ih

theorem proj_tag_other (i j : Nat) (h : j ≠ i) (evs : List Ev) : proj i (evs.map (fun e => (j, e))) = [] := by
  induction evs with
  | nil => rfl
  | cons e evs ih => simpa [proj, h] using ih

/-- PROJECTION: under every schedule, with any other terminals and any other traffic, terminal
`i` sees exactly the run of its own driver for as many turns as the schedule gave it -/
theorem sys_projection (sched : List Nat) : ∀ (sys : List Dev) (i : Nat) (d : Dev), sys[i]? = some d →
    proj i (sysRun sys sched).1 = (devRun (sched.count i) d).1 ∧
    (sysRun sys sched).2[i]? = some (devRun (sched.count i) d).2 := by
  induction sched with
  | nil => intro sys i d h; simp [sysRun, devRun, proj, h]
  | cons j sched ih =>
    intro sys i d h
    by_cases hj : j = i
    · subst hj
      have hlt : j < sys.length := by
        rcases List.getElem?_eq_some_iff.1 h with ⟨hl, _⟩; exact hl
      have h2 : (sys.set j (devStep d).2)[j]? = some (devStep d).2 := by simp [hlt]
      obtain ⟨i1, i2⟩ := ih (sys.set j (devStep d).2) j (devStep d).2 h2
      simp only [sysRun, sysStep, h, List.count_cons_self, devRun, proj_append, proj_tag_self]
      exact ⟨by rw [i1], i2⟩
    · have hc : (j :: sched).count i = sched.count i := by simp [List.count_cons, hj]
      rw [hc]
      cases hsj : sys[j]? with
      | none =>
        simp only [sysRun, sysStep, hsj, List.nil_append]
        exact ih sys i d h
      | some dj =>
        have h2 : (sys.set j (devStep dj).2)[i]? = some d := by
          rw [List.getElem?_set_ne hj]; exact h
        obtain ⟨i1, i2⟩ := ih (sys.set j (devStep dj).2) i d h2
        simp only [sysRun, sysStep, hsj, proj_append, proj_tag_other i j hj, List.nil_append]
        exact ⟨i1, i2⟩

/-- INDEPENDENCE: what terminal `i` sees does not depend on the other terminals (their number,
targets, answers), on unanswered traffic, or on the order in which the bus served the callers -/
theorem sys_independent (sys sys' : List Dev) (sched sched' : List Nat) (i : Nat) (d : Dev)
    (h : sys[i]? = some d) (h' : sys'[i]? = some d) (hc : sched.count i = sched'.count i) :
    proj i (sysRun sys sched).1 = proj i (sysRun sys' sched').1 := by
  rw [(sys_projection sched sys i d h).1, (sys_projection sched' sys' i d h').1, hc]

/-- COMPLETENESS: once the bus has served terminal `i`'s driver as often as the terminal has
answers, terminal `i` has seen exactly the trace of `to_operational` run alone on that terminal,
and the call ended the same way — all theorems of this file apply to it unchanged -/
theorem sys_complete (sys : List Dev) (sched : List Nat) (i : Nat) (target : Nat) (rs : List Resp)
    (h : sys[i]? = some ⟨target, .start, rs⟩) (hc : rs.length ≤ sched.count i) :
    ∃ d', (sysRun sys sched).2[i]? = some d' ∧
      toOperational target rs = (proj i (sysRun sys sched).1 ++ d'.ds.pending, d'.ds.outcome) := by
  obtain ⟨p1, p2⟩ := sys_projection sched sys i _ h
  refine ⟨_, p2, ?_⟩
  rw [← runD_start, p1]
  exact devRun_full (sched.count i) ⟨target, .start, rs⟩ hc

end Bus

/-! ### the poll loop, once and for all -/

inductive PollSpec (cur : Nat) (rs : List Resp) : List Ev × PollEnd → Prop where
  | reached (pre : List Ev) (r : Resp) (rs' : List Resp) :
      r.state = cur → r.err = false → (∀ x ∈ reads pre, x.err = false) → writes pre = [] →
      (∀ x ∈ rs', x ∈ rs) → PollSpec cur rs (pre ++ [.read r], .reached rs')
  | raised (pre : List Ev) (r : Resp) :
      r.err = true → (∀ x ∈ reads pre, x.err = false) → writes pre = [] →
      PollSpec cur rs (pre ++ [.read r], .stop .raised)
  | blocked (pre : List Ev) :
      (∀ x ∈ reads pre, x.err = false) → writes pre = [] →
      PollSpec cur rs (pre ++ [.readBlocked], .stop .blocked)

theorem poll_spec (cur : Nat) (rs : List Resp) (hv : AllValid rs) : PollSpec cur rs (poll cur rs) := by
  induction rs with
  | nil => exact .blocked [] (by simp [reads]) rfl
  | cons r rs ih =>
    have hr : valid r.state = true := hv r (by simp)
    have ih := ih (fun x hx => hv x (by simp [hx]))
    unfold poll
    simp only [hr, Bool.not_true, Bool.false_eq_true, ↓reduceIte]
    by_cases he : r.err = true
    · simp only [he, ↓reduceIte]
      exact .raised [] r he (by simp [reads]) rfl
    · have he' : r.err = false := by simpa using he
      simp only [he', Bool.false_eq_true, ↓reduceIte]
      by_cases hc : r.state = cur
      · simp only [hc, ↓reduceIte]
        exact .reached [] r rs hc he' (by simp [reads]) rfl (by simp +contextual)
      · simp only [hc, ↓reduceIte]
        generalize poll cur rs = p at ih ⊢
        cases ih with
        | reached pre r0 rs' h1 h2 h3 h4 h5 =>
          exact .reached (.read r :: pre) r0 rs' h1 h2
            (by simpa [reads, he'] using h3) (by simpa [writes] using h4)
            (fun x hx => by simp [h5 x hx])
        | raised pre r0 h1 h2 h3 =>
          exact .raised (.read r :: pre) r0 h1 (by simpa [reads, he'] using h2) (by simpa [writes] using h3)
        | blocked pre h2 h3 =>
          exact .blocked (.read r :: pre) (by simpa [reads, he'] using h2) (by simpa [writes] using h3)


/-! ### the `for` loop as a grammar of traces -/

/-- the shapes a run of the `for current in order[...]` loop can take -/
inductive WalkTrace (target : Nat) : Nat → List Nat → List Ev → Outcome → Prop where
  | done (state cur : Nat) (todo : List Nat) : state ≥ target → WalkTrace target state (cur :: todo) [] .returned
  | fell (state : Nat) : WalkTrace target state [] [] .fellOff
  | step (state cur : Nat) (todo : List Nat) (pre : List Ev) (r : Resp) (evs : List Ev) (o : Outcome) :
      state < target → r.state = cur → r.err = false → (∀ x ∈ reads pre, x.err = false) → writes pre = [] →
      WalkTrace target cur todo evs o →
      WalkTrace target state (cur :: todo) (.write cur :: (pre ++ [.read r]) ++ evs) o
  | raise (state cur : Nat) (todo : List Nat) (pre : List Ev) (r : Resp) :
      state < target → r.err = true → (∀ x ∈ reads pre, x.err = false) → writes pre = [] →
      WalkTrace target state (cur :: todo) (.write cur :: (pre ++ [.read r])) .raised
  | block (state cur : Nat) (todo : List Nat) (pre : List Ev) :
      state < target → (∀ x ∈ reads pre, x.err = false) → writes pre = [] →
      WalkTrace target state (cur :: todo) (.write cur :: (pre ++ [.readBlocked])) .blocked

theorem walk_trace (target : Nat) (todo : List Nat) (state : Nat) (rs : List Resp) (hv : AllValid rs) :
    WalkTrace target state todo (walk target todo state rs).1 (walk target todo state rs).2 := by
  induction todo generalizing state rs with
  | nil => exact .fell state
  | cons cur todo ih =>
    unfold walk
    by_cases hs : state ≥ target
    · simp only [hs, ↓reduceIte]; exact .done state cur todo hs
    · simp only [hs, ↓reduceIte]
      have hp := poll_spec cur rs hv
      generalize poll cur rs = p at hp ⊢
      cases hp with
      | reached pre r rs' h1 h2 h3 h4 h5 =>
        exact .step state cur todo pre r _ _ (by omega) h1 h2 h3 h4
          (ih cur rs' (fun x hx => hv x (h5 x hx)))
      | raised pre r h1 h2 h3 => exact .raise state cur todo pre r (by omega) h1 h2 h3
      | blocked pre h2 h3 => exact .block state cur todo pre (by omega) h2 h3


/-! ### consequences for every run of the loop -/

/-- each request is made while the state reached so far is still below the target -/
def guarded (target : Nat) : Nat → List Nat → Bool
  | _, [] => true
  | s, w :: ws => decide (s < target) && guarded target w ws

/-- `reported prev last tr`: every request after the first directly follows an answer
that reported the previously requested state without error -/
def okWrite : Option Nat → Option Resp → Bool
  | none, _ => true
  | some p, some r => r.state == p && !r.err
  | some _, none => false

def reported : Option Nat → Option Resp → List Ev → Bool
  | _, _, [] => true
  | prev, last, .write v :: t => okWrite prev last && reported (some v) last t
  | prev, _, .read r :: t => reported prev (some r) t
  | prev, _, .readBlocked :: t => reported prev none t

theorem reported_skip (prev : Option Nat) (last : Option Resp) (pre : List Ev) (r : Resp) (rest : List Ev)
    (h : writes pre = []) :
    reported prev last ((pre ++ [.read r]) ++ rest) = reported prev (some r) rest := by
  induction pre generalizing last with
  | nil => simp [reported]
  | cons e pre ih =>
    cases e with
    | write v => simp [writes] at h
    | read r' => simpa [reported] using ih _ (by simpa [writes] using h)
    | readBlocked => simpa [reported] using ih _ (by simpa [writes] using h)

theorem reported_nowrites (prev : Option Nat) (last : Option Resp) (evs : List Ev) (h : writes evs = []) :
    reported prev last evs = true := by
  induction evs generalizing last with
  | nil => rfl
  | cons e evs ih =>
    cases e with
    | write v => simp [writes] at h
    | read r' => simpa [reported] using ih _ (by simpa [writes] using h)
    | readBlocked => simpa [reported] using ih _ (by simpa [writes] using h)

variable {target : Nat}

theorem wt_prefix {s todo evs o} (h : WalkTrace target s todo evs o) : writes evs <+: todo := by
  induction h with
  | done => simp [writes]
  | fell => simp [writes]
  | step state cur todo pre r evs o _ _ _ _ hw _ ih => simpa [writes, hw] using ih
  | raise state cur todo pre r _ _ _ hw => simp [writes, hw]
  | block state cur todo pre _ _ hw => simp [writes, hw]

theorem wt_guarded {s todo evs o} (h : WalkTrace target s todo evs o) : guarded target s (writes evs) = true := by
  induction h with
  | done => simp [writes, guarded]
  | fell => simp [writes, guarded]
  | step state cur todo pre r evs o hlt _ _ _ hw _ ih => simpa [writes, hw, guarded, hlt] using ih
  | raise state cur todo pre r hlt _ _ hw => simp [writes, hw, guarded, hlt]
  | block state cur todo pre hlt _ hw => simp [writes, hw, guarded, hlt]

theorem wt_reported {s todo evs o} (h : WalkTrace target s todo evs o) (prev : Option Nat) (last : Option Resp)
    (hinv : prev = none ∨ ∃ r0, prev = some s ∧ last = some r0 ∧ r0.state = s ∧ r0.err = false) :
    reported prev last evs = true := by
  induction h generalizing prev last with
  | done => rfl
  | fell => rfl
  | step state cur todo pre r evs o _ hs he _ hw _ ih =>
    have hg : okWrite prev last = true := by
      rcases hinv with rfl | ⟨r0, rfl, rfl, h1, h2⟩
      · rfl
      · simp [okWrite, h1, h2]
    rw [List.cons_append]
    simp only [reported, hg, Bool.true_and]
    rw [reported_skip _ _ _ _ _ hw]
    exact ih _ _ (Or.inr ⟨r, rfl, rfl, hs, he⟩)
  | raise state cur todo pre r _ _ _ hw =>
    have hg : okWrite prev last = true := by
      rcases hinv with rfl | ⟨r0, rfl, rfl, h1, h2⟩
      · rfl
      · simp [okWrite, h1, h2]
    simp only [reported, hg, Bool.true_and]
    exact reported_nowrites _ _ _ (by simp [writes, hw])
  | block state cur todo pre _ _ hw =>
    have hg : okWrite prev last = true := by
      rcases hinv with rfl | ⟨r0, rfl, rfl, h1, h2⟩
      · rfl
      · simp [okWrite, h1, h2]
    simp only [reported, hg, Bool.true_and]
    exact reported_nowrites _ _ _ (by simp [writes, hw])

/-- the state the loop has reached: the last requested one, or the start state -/
def lastOr : Nat → List Nat → Nat
  | s, [] => s
  | _, w :: ws => lastOr w ws
def finalState (s : Nat) (evs : List Ev) : Nat := lastOr s (writes evs)

theorem wt_returned {s todo evs} (h : WalkTrace target s todo evs .returned) :
    finalState s evs ≥ target ∧
    (evs = [] ∨ ∃ pre r, evs = pre ++ [.read r] ∧ r.state = finalState s evs ∧ r.err = false) := by
  generalize ho : Outcome.returned = o at h
  induction h with
  | done state cur todo hge => simp [finalState, writes, lastOr]; exact hge
  | fell => cases ho
  | step state cur todo pre r evs o _ hs he _ hw hrec ih =>
    have ih := ih ho
    have hfs : finalState state (.write cur :: (pre ++ [.read r]) ++ evs) = finalState cur evs := by
      simp [finalState, writes, hw, lastOr]
    rw [hfs]
    refine ⟨ih.1, Or.inr ?_⟩
    rcases ih.2 with rfl | ⟨pre', r', rfl, h1, h2⟩
    · refine ⟨.write cur :: pre, r, by simp, ?_, he⟩
      simp [finalState, writes, hs, lastOr]
    · exact ⟨.write cur :: (pre ++ [.read r]) ++ pre', r', by simp, h1, h2⟩
  | raise => cases ho
  | block => cases ho

theorem wt_raised {s todo evs o} (h : WalkTrace target s todo evs o) :
    o = .raised ↔ ∃ r ∈ reads evs, r.err = true := by
  induction h with
  | done => simp [reads]
  | fell => simp [reads]
  | step state cur todo pre r evs o _ _ he hp _ _ ih =>
    rw [ih]
    simp only [reads, reads_append, List.mem_append, List.mem_singleton]
    constructor
    · rintro ⟨x, hx, hxe⟩; exact ⟨x, Or.inr hx, hxe⟩
    · rintro ⟨x, (hx | rfl) | hx, hxe⟩
      · simp [hp x hx] at hxe
      · simp [he] at hxe
      · exact ⟨x, hx, hxe⟩
  | raise state cur todo pre r _ he _ _ =>
    simp only [reads, reads_append, true_iff]
    exact ⟨r, by simp, he⟩
  | block state cur todo pre _ hp _ =>
    simp only [reads, reads_append, List.append_nil, false_iff, reduceCtorEq]
    rintro ⟨x, hx, hxe⟩
    simp [hp x hx] at hxe

theorem wt_fell {s todo evs} (h : WalkTrace target s todo evs .fellOff) : writes evs = todo := by
  generalize ho : Outcome.fellOff = o at h
  induction h with
  | done => cases ho
  | fell => rfl
  | step state cur todo pre r evs o _ _ _ _ hw _ ih => simp [writes, hw, ih ho]
  | raise => cases ho
  | block => cases ho


/-! ### the property, for every script of answers -/

def starts : List Nat := [ms_INIT, ms_PRE_OPERATIONAL, ms_SAFE_OPERATIONAL, ms_OPERATIONAL]
def targets : List Nat := [ms_PRE_OPERATIONAL, ms_SAFE_OPERATIONAL, ms_OPERATIONAL]

/-- the state the walk starts from: INIT after an acknowledged error -/
def start (r0 : Resp) : Nat := if r0.err then ms_INIT else r0.state
/-- the part of the call after the first read (and the acknowledge) -/
def body (target : Nat) (r0 : Resp) (rs : List Resp) : List Ev × Outcome :=
  walk target (after (start r0)) (start r0) rs

theorem toOperational_eq (target : Nat) (r0 : Resp) (rs : List Resp) (hv : valid r0.state = true) :
    toOperational target (r0 :: rs) =
      (.read r0 :: ((if r0.err then [.write ackValue] else []) ++ (body target r0 rs).1), (body target r0 rs).2) := by
  cases he : r0.err <;> simp [toOperational, hv, he, body, start]

/-- a reported error is acknowledged first (INIT + acknowledge flag), then INIT is the start state -/
theorem ack_first (target : Nat) (r0 : Resp) (rs : List Resp) (hv : valid r0.state = true) (he : r0.err = true) :
    toOperational target (r0 :: rs) =
      (.read r0 :: .write (ms_INIT + 0x10) :: (walk target (after ms_INIT) ms_INIT rs).1,
       (walk target (after ms_INIT) ms_INIT rs).2) := by
  simp [toOperational, hv, he, ackValue, ms_INIT]

def prefixes (l : List Nat) : List (List Nat) := (List.range (l.length + 1)).map l.take

theorem mem_prefixes {ws l : List Nat} (h : ws <+: l) : ws ∈ prefixes l := by
  rw [List.prefix_iff_eq_take] at h
  simp only [prefixes, List.mem_map, List.mem_range]
  exact ⟨ws.length, by have := List.IsPrefix.length_le ((List.prefix_iff_eq_take).2 h); omega, h.symm⟩

/-- the finite facts about the declaration order of `MachineState` that the walk relies on;
re-checked by evaluation against the regenerated constants on every build -/
theorem order_facts : ∀ s ∈ starts, ∀ t ∈ targets, ∀ ws ∈ prefixes (after s), guarded t s ws = true →
    (ws.all fun w => decide (w ≤ t ∧ w ≠ ms_BOOTSTRAP ∧ s < w)) = true ∧
    (ws <+: [ms_PRE_OPERATIONAL, ms_SAFE_OPERATIONAL, ms_OPERATIONAL].filter (fun w => decide (s < w))) ∧
    ws ≠ after s ∧ (lastOr s ws ≥ t → s = ms_INIT → lastOr s ws = t) := by
  decide

variable (target : Nat) (r0 : Resp) (rs : List Resp)
  (ht : target ∈ targets) (hs : start r0 ∈ starts) (hv : AllValid rs)
include ht hs hv

theorem body_facts :
    let ws := writes (body target r0 rs).1
    (ws.all fun w => decide (w ≤ target ∧ w ≠ ms_BOOTSTRAP ∧ start r0 < w)) = true ∧
    (ws <+: [ms_PRE_OPERATIONAL, ms_SAFE_OPERATIONAL, ms_OPERATIONAL].filter (fun w => decide (start r0 < w))) ∧
    ws ≠ after (start r0) ∧ (lastOr (start r0) ws ≥ target → start r0 = ms_INIT → lastOr (start r0) ws = target) := by
  have h := walk_trace target (after (start r0)) (start r0) rs hv
  exact order_facts _ hs _ ht _ (mem_prefixes (wt_prefix h)) (wt_guarded h)

/-- requests are exactly an initial run of PRE-OP, SAFE-OP, OP above the start state: one step at a time, in order -/
theorem writes_ascending :
    writes (body target r0 rs).1 <+:
      [ms_PRE_OPERATIONAL, ms_SAFE_OPERATIONAL, ms_OPERATIONAL].filter (fun w => decide (start r0 < w)) :=
  (body_facts target r0 rs ht hs hv).2.1

/-- no state above the target (and never BOOTSTRAP) is requested -/
theorem never_above_target : ∀ w ∈ writes (body target r0 rs).1, w ≤ target ∧ w ≠ ms_BOOTSTRAP := by
  intro w hw
  have := (body_facts target r0 rs ht hs hv).1
  rw [List.all_eq_true] at this
  have := this w hw
  simp at this
  exact ⟨this.1, this.2.1⟩

omit ht hs in
/-- the next state is requested only directly after an answer that reported the previous one without error -/
theorem write_after_report : reported none none (body target r0 rs).1 = true :=
  wt_reported (walk_trace target _ _ rs hv) none none (Or.inl rfl)

omit ht hs in
/-- the call returns only when the state reached is at or above the target, and that state was
reported by the last answer (or is the start state when nothing had to be requested) -/
theorem returns_only_when_reached (h : (body target r0 rs).2 = .returned) :
    finalState (start r0) (body target r0 rs).1 ≥ target ∧
    ((body target r0 rs).1 = [] ∨ ∃ pre r, (body target r0 rs).1 = pre ++ [.read r] ∧
        r.state = finalState (start r0) (body target r0 rs).1 ∧ r.err = false) := by
  have hw := walk_trace target (after (start r0)) (start r0) rs hv
  unfold body at h ⊢
  rw [h] at hw
  exact wt_returned hw

/-- after an acknowledged error the call returns exactly at the target -/
theorem returns_target_after_ack (he : r0.err = true) (h : (body target r0 rs).2 = .returned) :
    finalState (start r0) (body target r0 rs).1 = target := by
  have h1 := (returns_only_when_reached target r0 rs hv h).1
  exact (body_facts target r0 rs ht hs hv).2.2.2 h1 (by simp [start, he])

omit ht hs in
/-- the call raises exactly when an answer during the state change carries the error flag -/
theorem raises_on_error : (body target r0 rs).2 = .raised ↔ ∃ r ∈ reads (body target r0 rs).1, r.err = true :=
  wt_raised (walk_trace target _ _ rs hv)

/-- the loop never runs out of states (the call never returns without a verdict) -/
theorem never_falls_off : (body target r0 rs).2 ≠ .fellOff := by
  intro h
  have hw := walk_trace target (after (start r0)) (start r0) rs hv
  unfold body at h
  rw [h] at hw
  exact (body_facts target r0 rs ht hs hv).2.2.1 (wt_fell hw)

/-! ### non-vacuity: a concrete script meets the hypotheses and exercises the walk -/
example : toOperational 8 [⟨2, true, 0⟩, ⟨1, false, 0⟩, ⟨2, false, 0⟩, ⟨4, false, 0⟩, ⟨4, false, 0⟩, ⟨8, false, 0⟩]
    = ([.read ⟨2, true, 0⟩, .write 17, .write 2, .read ⟨1, false, 0⟩, .read ⟨2, false, 0⟩, .write 4,
        .read ⟨4, false, 0⟩, .write 8, .read ⟨4, false, 0⟩, .read ⟨8, false, 0⟩], .returned) := by decide
example : (8 : Nat) ∈ targets ∧ start ⟨2, true, 0⟩ ∈ starts ∧
    AllValid [⟨1, false, 0⟩, ⟨2, false, 0⟩, ⟨4, false, 0⟩] := by
  refine ⟨by decide, by decide, ?_⟩
  intro r hr; simp at hr; rcases hr with rfl | rfl | rfl <;> decide


/-! non-vacuity of the bus theorems: two terminals and an unanswered prober (index 2) -/
def exSys : List Dev := [⟨8, .start, [⟨2, false, 0⟩, ⟨4, false, 0⟩, ⟨8, false, 0⟩]⟩,
                         ⟨4, .start, [⟨1, true, 3⟩, ⟨2, false, 0⟩, ⟨4, false, 0⟩]⟩]
example : proj 0 (sysRun exSys [2, 0, 1, 2, 1, 0, 0, 1, 2]).1
    = [.read ⟨2, false, 0⟩, .write 4, .read ⟨4, false, 0⟩, .write 8, .read ⟨8, false, 0⟩] := by decide
example : proj 1 (sysRun exSys [1, 1, 0, 2, 0, 1, 0]).1
    = [.read ⟨1, true, 3⟩, .write 17, .write 2, .read ⟨2, false, 0⟩, .write 4, .read ⟨4, false, 0⟩] := by decide

end Ebv.C14
